(* ReadQProofs.v — lemmas and proofs about the read-card queue model Model/ReadQ.v (property C20).
   No axioms, no admits. *)
From Coq Require Import List String Ascii Arith Bool Lia.
From MPV Require Import Model.Wire Model.Lines Model.ReadQ.
Import ListNotations.
Open Scope string_scope.
Open Scope list_scope.

(* a line of text with its line feed *)
Definition L (s : string) : string := (s ++ String nl "")%string.

(* ------------------------------------------------------------------ *)
(* one step of the drain loop *)

Lemma drain_nil : forall fuel ft dir w, drain fuel ft dir w [] = ([], None).
Proof. destruct fuel; reflexivity. Qed.

Lemma item_scan_eq : forall w ft dir bt name par,
  item_scan w ft dir (bt, name, par) =
  option_map (scan_file w true bt (path_join dir name)) (ft (path_join dir name)).
Proof. reflexivity. Qed.

Lemma item_yields_scan : forall w ft dir it ys qs e,
  item_scan w ft dir it = Some (ys, qs, e) -> item_yields w ft dir it = ys.
Proof. intros * H. unfold item_yields. now rewrite H. Qed.

Lemma item_children_scan : forall w ft dir it ys qs e,
  item_scan w ft dir it = Some (ys, qs, e) -> item_children w ft dir it = qs.
Proof. intros * H. unfold item_children. now rewrite H. Qed.

Lemma drain_step_ok : forall f ft dir w it q ys qs,
  item_scan w ft dir it = Some (ys, qs, None) ->
  drain (S f) ft dir w (it :: q) =
    (ys ++ fst (drain f ft dir w (q ++ qs)), snd (drain f ft dir w (q ++ qs))).
Proof.
  intros f ft dir w [[bt name] par] q ys qs H.
  rewrite item_scan_eq in H. cbn [drain].
  destruct (ft (path_join dir name)) as [ls|]; cbn [option_map] in H; [|discriminate].
  injection H as H. rewrite H.
  destruct (drain f ft dir w (q ++ qs)) as [ys' e']. reflexivity.
Qed.

Lemma drain_step_missing : forall f ft dir w it q,
  item_missing ft dir it ->
  drain (S f) ft dir w (it :: q) = ([], Some E_FileNotFound).
Proof. intros f ft dir w [[bt name] par] q H. unfold item_missing, item_path in H. cbn in H. cbn [drain]. now rewrite H. Qed.

Lemma drain_out_of_fuel : forall ft dir w it q,
  drain 0 ft dir w (it :: q) = ([], Some E_OutOfFuel).
Proof. intros ft dir w [[bt name] par] q. reflexivity. Qed.

(* ------------------------------------------------------------------ *)
(* a whole generation: the queue holds [cur] followed by the children of the items already done.
   Y / C say what each item yields / queues. *)
Definition scans (w : nat) (ft : opener) (dir : string) (Y : qitem -> list yielded) (C : qitem -> list qitem)
  (it : qitem) : Prop := item_scan w ft dir it = Some (Y it, C it, None).

Lemma drain_level : forall w ft dir Y C cur fuel rest,
  Forall (scans w ft dir Y C) cur -> List.length cur <= fuel ->
  drain fuel ft dir w (cur ++ rest) =
    (flat_map Y cur ++ fst (drain (fuel - List.length cur) ft dir w (rest ++ flat_map C cur)),
     snd (drain (fuel - List.length cur) ft dir w (rest ++ flat_map C cur))).
Proof.
  intros w ft dir Y C. induction cur as [|it cur IH]; intros fuel rest Hok Hlen.
  - cbn [List.length flat_map List.app]. rewrite Nat.sub_0_r, app_nil_r.
    destruct (drain fuel ft dir w rest); reflexivity.
  - inversion Hok as [|? ? Hit Hok']; subst. cbn [List.length] in *.
    destruct fuel as [|f]; [lia|].
    rewrite <- app_comm_cons. rewrite (drain_step_ok _ _ _ _ _ _ _ _ Hit).
    rewrite <- app_assoc. rewrite IH by (auto; lia).
    cbn [fst snd Nat.sub flat_map].
    rewrite <- !app_assoc. reflexivity.
Qed.

(* the whole drain: level order *)
Lemma drain_bfs : forall w ft dir Y C n q fuel,
  Forall (scans w ft dir Y C) (bfsG C n q) ->
  gen_atG C n q = [] ->
  List.length (bfsG C n q) <= fuel ->
  drain fuel ft dir w q = (flat_map Y (bfsG C n q), None).
Proof.
  intros w ft dir Y C. induction n as [|n IH]; intros q fuel Hok Hg Hlen; cbn [bfsG gen_atG] in *.
  - subst q. apply drain_nil.
  - apply Forall_app in Hok as [Hq Hr]. rewrite app_length in Hlen.
    rewrite <- (app_nil_r q) at 1. rewrite (drain_level _ _ _ Y C) by (auto; lia).
    cbn [List.app]. rewrite (IH _ _ Hr Hg) by lia. cbn [fst snd]. rewrite flat_map_app. reflexivity.
Qed.

(* the text-level instance: Y, C read off the files themselves *)
Lemma item_ok_scans : forall w ft dir it,
  item_ok w ft dir it -> scans w ft dir (item_yields w ft dir) (item_children w ft dir) it.
Proof.
  intros w ft dir it [ys [qs H]]. unfold scans.
  now rewrite (item_yields_scan _ _ _ _ _ _ _ H), (item_children_scan _ _ _ _ _ _ _ H).
Qed.

(* read_all = main file, then the drain *)
Lemma read_all_ok : forall w ft top fuel ls ys0 q0,
  ft top = Some ls ->
  scan_file w false 0 top (f_rest (read_front_matters ls)) = (ys0, q0, None) ->
  ra_yields (read_all_ft w ft top fuel) = ys0 ++ fst (drain fuel ft (dirname top) w q0) /\
  ra_error (read_all_ft w ft top fuel) = snd (drain fuel ft (dirname top) w q0) /\
  ra_message (read_all_ft w ft top fuel) = f_message (read_front_matters ls) /\
  ra_title (read_all_ft w ft top fuel) = f_title (read_front_matters ls).
Proof.
  intros * H H0. unfold read_all_ft. rewrite H. cbv beta iota zeta. rewrite H0.
  destruct (drain fuel ft (dirname top) w q0). repeat split; reflexivity.
Qed.

Lemma readq_order_gen : forall w ft top fuel ls ys0 q0 Y C n,
  ft top = Some ls ->
  scan_file w false 0 top (f_rest (read_front_matters ls)) = (ys0, q0, None) ->
  Forall (scans w ft (dirname top) Y C) (bfsG C n q0) ->
  gen_atG C n q0 = [] ->
  List.length (bfsG C n q0) <= fuel ->
  ra_yields (read_all_ft w ft top fuel) = ys0 ++ flat_map Y (bfsG C n q0)
  /\ ra_error (read_all_ft w ft top fuel) = None.
Proof.
  intros * H H0 Hok Hg Hlen.
  destruct (read_all_ok w ft top fuel ls ys0 q0 H H0) as [Hy [He _]].
  rewrite Hy, He, (drain_bfs _ _ _ _ _ _ _ _ Hok Hg Hlen). split; reflexivity.
Qed.

Lemma readq_order : forall w ft top fuel ls ys0 q0 n,
  ft top = Some ls ->
  scan_file w false 0 top (f_rest (read_front_matters ls)) = (ys0, q0, None) ->
  Forall (item_ok w ft (dirname top)) (bfs n w ft (dirname top) q0) ->
  gen_at n w ft (dirname top) q0 = [] ->
  List.length (bfs n w ft (dirname top) q0) <= fuel ->
  ra_yields (read_all_ft w ft top fuel)
    = ys0 ++ flat_map (item_yields w ft (dirname top)) (bfs n w ft (dirname top) q0)
  /\ ra_error (read_all_ft w ft top fuel) = None.
Proof.
  intros * H H0 Hok Hg Hlen. unfold bfs, gen_at in *.
  eapply readq_order_gen; eauto.
  eapply Forall_impl; [|exact Hok]. intros it. apply item_ok_scans.
Qed.

(* ------------------------------------------------------------------ *)
(* inputs_of *)

Lemma inputs_of_app : forall a b, inputs_of (a ++ b) = inputs_of a ++ inputs_of b.
Proof. intros. unfold inputs_of. apply flat_map_app. Qed.

Lemma inputs_of_flat_map : forall (A : Type) (f : A -> list yielded) (l : list A),
  inputs_of (flat_map f l) = flat_map (fun x => inputs_of (f x)) l.
Proof.
  intros A f. induction l as [|x l IH]; cbn [flat_map]; [reflexivity|].
  now rewrite inputs_of_app, IH.
Qed.

Lemma readq_once : forall w ft top fuel ls ys0 q0 n,
  ft top = Some ls ->
  scan_file w false 0 top (f_rest (read_front_matters ls)) = (ys0, q0, None) ->
  Forall (item_ok w ft (dirname top)) (bfs n w ft (dirname top) q0) ->
  gen_at n w ft (dirname top) q0 = [] ->
  List.length (bfs n w ft (dirname top) q0) <= fuel ->
  inputs_of (ra_yields (read_all_ft w ft top fuel))
    = inputs_of ys0 ++
      flat_map (fun it => inputs_of (item_yields w ft (dirname top) it)) (bfs n w ft (dirname top) q0).
Proof.
  intros * H H0 Hok Hg Hlen.
  destruct (readq_order _ _ _ _ _ _ _ _ H H0 Hok Hg Hlen) as [Hy _].
  now rewrite Hy, inputs_of_app, inputs_of_flat_map.
Qed.

(* ------------------------------------------------------------------ *)
(* a missing target: everything before it in breadth-first order is read, then FileNotFoundError *)

Lemma drain_level_missing : forall w ft dir Y C a it b fuel rest,
  Forall (scans w ft dir Y C) a -> item_missing ft dir it -> List.length a < fuel ->
  drain fuel ft dir w ((a ++ it :: b) ++ rest) = (flat_map Y a, Some E_FileNotFound).
Proof.
  intros w ft dir Y C. induction a as [|x a IH]; intros it b fuel rest Hok Hm Hlen.
  - cbn [List.app flat_map]. destruct fuel as [|f]; [cbn in Hlen; lia|].
    now rewrite drain_step_missing.
  - inversion Hok as [|? ? Hx Hok']; subst. cbn [List.length] in Hlen.
    destruct fuel as [|f]; [lia|].
    rewrite <- !app_comm_cons. rewrite (drain_step_ok _ _ _ _ _ _ _ _ Hx).
    rewrite <- app_assoc. rewrite IH by (auto; lia).
    cbn [fst snd flat_map]. reflexivity.
Qed.

Lemma drain_bfs_missing : forall w ft dir Y C n q fuel pre it post,
  bfsG C n q = pre ++ it :: post ->
  Forall (scans w ft dir Y C) pre -> item_missing ft dir it ->
  List.length pre < fuel ->
  drain fuel ft dir w q = (flat_map Y pre, Some E_FileNotFound).
Proof.
  intros w ft dir Y C. induction n as [|n IH]; intros q fuel pre it post Hb Hok Hm Hlen; cbn [bfsG] in Hb.
  - destruct pre; discriminate.
  - apply app_eq_app in Hb as [l [[Hq Hrest] | [Hpre Hrest]]].
    + (* q = pre ++ l, l ++ rest-of-bfs = it :: post *)
      destruct l as [|x l].
      * (* the missing item is the first of the next generations *)
        cbn [List.app] in Hrest. rewrite app_nil_r in Hq. subst q.
        rewrite <- (app_nil_r pre) at 1. rewrite (drain_level _ _ _ Y C) by (auto; lia).
        cbn [List.app].
        rewrite (IH (flat_map C pre) (fuel - List.length pre) [] it post) by (auto; cbn; lia).
        cbn [fst snd flat_map]. now rewrite app_nil_r.
      * injection Hrest as Hx Hrest. subst x q.
        rewrite <- (app_nil_r (pre ++ it :: l)). now apply (drain_level_missing _ _ _ Y C).
    + (* pre = q ++ l *)
      subst pre. apply Forall_app in Hok as [Hq Hl]. rewrite app_length in Hlen.
      rewrite <- (app_nil_r q) at 1. rewrite (drain_level _ _ _ Y C) by (auto; lia).
      cbn [List.app].
      rewrite (IH (flat_map C q) (fuel - List.length q) l it post) by (auto; lia).
      cbn [fst snd]. now rewrite flat_map_app.
Qed.

Lemma readq_missing : forall w ft top fuel ls ys0 q0 n pre it post,
  ft top = Some ls ->
  scan_file w false 0 top (f_rest (read_front_matters ls)) = (ys0, q0, None) ->
  bfs n w ft (dirname top) q0 = pre ++ it :: post ->
  Forall (item_ok w ft (dirname top)) pre -> item_missing ft (dirname top) it ->
  List.length pre < fuel ->
  ra_error (read_all_ft w ft top fuel) = Some E_FileNotFound /\
  ra_yields (read_all_ft w ft top fuel) = ys0 ++ flat_map (item_yields w ft (dirname top)) pre.
Proof.
  intros * H H0 Hb Hok Hm Hlen.
  destruct (read_all_ok w ft top fuel ls ys0 q0 H H0) as [Hy [He _]].
  assert (Hd := drain_bfs_missing w ft (dirname top) (item_yields w ft (dirname top))
                  (item_children w ft (dirname top)) n q0 fuel pre it post Hb).
  rewrite Hy, He, Hd; auto.
  eapply Forall_impl; [|exact Hok]. intros x. apply item_ok_scans.
Qed.

(* the top-level file itself *)
Lemma readq_missing_top : forall w ft top fuel,
  ft top = None -> ra_error (read_all_ft w ft top fuel) = Some E_FileNotFound.
Proof. intros * H. unfold read_all_ft. now rewrite H. Qed.

(* ------------------------------------------------------------------ *)
(* a cycle of read cards exhausts every fuel *)

Lemma readq_cycle_diverges : forall w ft dir (good S : qitem -> Prop),
  (forall it, good it -> item_ok w ft dir it /\ Forall good (item_children w ft dir it)) ->
  (forall it, S it -> good it /\ Exists S (item_children w ft dir it)) ->
  forall fuel q, Forall good q -> Exists S q -> snd (drain fuel ft dir w q) = Some E_OutOfFuel.
Proof.
  intros w ft dir good S Hgood HS. induction fuel as [|f IH]; intros q Hq Hex.
  - destruct q as [|it q]; [inversion Hex|]. now rewrite drain_out_of_fuel.
  - destruct q as [|it q]; [inversion Hex|].
    inversion Hq as [|? ? Hit Hq']; subst.
    destruct (Hgood _ Hit) as [[ys [qs Hscan]] Hch].
    rewrite (item_children_scan _ _ _ _ _ _ _ Hscan) in Hch.
    rewrite (drain_step_ok _ _ _ _ _ _ _ _ Hscan). cbn [snd].
    apply IH.
    + apply Forall_app. now split.
    + apply Exists_app. inversion Hex as [? ? HSit|? ? Hex']; subst.
      * right. destruct (HS _ HSit) as [_ Hc].
        now rewrite (item_children_scan _ _ _ _ _ _ _ Hscan) in Hc.
      * now left.
Qed.

Lemma readq_cycle : forall w ft top ls ys0 q0 (good S : qitem -> Prop),
  ft top = Some ls ->
  scan_file w false 0 top (f_rest (read_front_matters ls)) = (ys0, q0, None) ->
  (forall it, good it -> item_ok w ft (dirname top) it /\ Forall good (item_children w ft (dirname top) it)) ->
  (forall it, S it -> good it /\ Exists S (item_children w ft (dirname top) it)) ->
  Forall good q0 -> Exists S q0 ->
  forall fuel, ra_error (read_all_ft w ft top fuel) = Some E_OutOfFuel.
Proof.
  intros * H H0 Hg HS Hq Hex fuel.
  destruct (read_all_ok w ft top fuel ls ys0 q0 H H0) as [_ [He _]].
  rewrite He. eapply readq_cycle_diverges; eauto.
Qed.

(* ------------------------------------------------------------------ *)
(* the working directory: only paths of the form dirname(top)/name are opened *)

Lemma drain_ext : forall ft ft' dir w,
  (forall name, ft (path_join dir name) = ft' (path_join dir name)) ->
  forall fuel q, drain fuel ft dir w q = drain fuel ft' dir w q.
Proof.
  intros ft ft' dir w Hext. induction fuel as [|f IH]; intros q.
  - destruct q as [|[[bt name] par] q]; reflexivity.
  - destruct q as [|[[bt name] par] q]; [reflexivity|].
    cbn [drain]. rewrite <- Hext.
    destruct (ft (path_join dir name)) as [ls|]; [|reflexivity].
    destruct (scan_file w true bt (path_join dir name) ls) as [[ys qs] [e|]]; [reflexivity|].
    now rewrite IH.
Qed.

Lemma read_all_ext : forall ft ft' w top fuel,
  ft top = ft' top ->
  (forall name, ft (path_join (dirname top) name) = ft' (path_join (dirname top) name)) ->
  read_all_ft w ft top fuel = read_all_ft w ft' top fuel.
Proof.
  intros * Ht Hext. unfold read_all_ft. rewrite <- Ht.
  destruct (ft top) as [ls|]; [|reflexivity]. cbv zeta.
  destruct (scan_file w false 0 top (f_rest (read_front_matters ls))) as [[ys qs] [e|]]; [reflexivity|].
  now rewrite (drain_ext ft ft' _ _ Hext).
Qed.

Lemma is_abs_cons : forall p, is_abs p = true -> exists r, p = String "/" r.
Proof.
  intros p H. unfold is_abs in H. destruct p as [|a r]; [discriminate|].
  cbn [String.prefix] in H. destruct (ascii_dec "/"%char a) as [E|E]; [|discriminate]. subst a. now exists r.
Qed.

Lemma rfind_slash_some : forall s i j, exists k, rfind_slash s i (Some j) = Some k.
Proof.
  induction s as [|a r IH]; intros i j; cbn [rfind_slash]; [now exists j|].
  destruct (Ascii.eqb a "/"); apply IH.
Qed.

Lemma dirname_abs : forall p, is_abs p = true -> is_abs (dirname p) = true.
Proof.
  intros p H. destruct (is_abs_cons p H) as [r ->].
  unfold dirname. cbn [rfind_slash]. cbn [Ascii.eqb Bool.eqb]. 
  destruct (rfind_slash_some r 1 0) as [k Hk]. 
  change (if (Ascii.eqb "/" "/") then Some 0 else None) with (Some 0).
  rewrite Hk. cbn [takeS].
  assert (Habs : forall x, is_abs (String "/" x) = true).
  { intros x. unfold is_abs. cbn [String.prefix]. destruct (ascii_dec "/" "/") as [_|N]; [|now elim N].
    now destruct x. }
  destruct (all_slash (String "/" (takeS k r))) eqn:E; [apply Habs|].
  cbn [rstrip_slash]. rewrite E. apply Habs.
Qed.

Lemma path_join_abs : forall a b, is_abs a = true -> is_abs (path_join a b) = true.
Proof.
  intros a b H. unfold path_join. destruct (is_abs b) eqn:Eb; [exact Eb|].
  destruct (is_abs_cons a H) as [r ->]. cbn [is_empty orb].
  assert (Habs : forall x, is_abs (String "/" x) = true).
  { intros x. unfold is_abs. cbn [String.prefix]. destruct (ascii_dec "/" "/") as [_|N]; [|now elim N].
    now destruct x. }
  destruct (ends_with "/" (String "/" r)); cbn [String.append]; apply Habs.
Qed.

Lemma fs_text_abs : forall fs cwd cwd' p, is_abs p = true -> fs_text fs cwd p = fs_text fs cwd' p.
Proof. intros * H. unfold fs_text, fs_open, abs_path. now rewrite H. Qed.

Lemma readq_cwd_free : forall w fs cwd cwd' top fuel,
  is_abs top = true -> read_all_u w fs cwd top fuel = read_all_u w fs cwd' top fuel.
Proof.
  intros * H. unfold read_all_u. apply read_all_ext.
  - now apply fs_text_abs.
  - intros name. apply fs_text_abs. apply path_join_abs. now apply dirname_abs.
Qed.

(* ------------------------------------------------------------------ *)
(* the line loop of Lines.v without its line numbers *)
Definition flushc (bt : nat) (raw : list string) : list (nat * list string) :=
  if nonempty raw then [(bt, raw)] else [].

Fixpoint rdc (w : nat) (rec : bool) (ls : list string) (bc bt : nat) (cont hnc : bool) (raw : list string)
  : list (nat * list string) * option rd_err :=
  match ls with
  | [] => (flushc bt raw, None)
  | l :: r =>
      let line := expandtabs TABSIZE l in
      let c := is_comment line in
      if all_space line then
        let bc' := S bc in
        let bt' := if Nat.ltb bc' 3 then bc' else bt in
        if andb (Nat.leb 3 bc') (negb rec) then (flushc bt raw, None)
        else
          let (out, e) := rdc w rec r bc' bt' cont false [] in
          (flushc bt raw ++ out, e)
      else
        let newinp := andb (negb (all_space (takeS BLANK_SPACE_CONTINUE line)))
                     (andb (negb cont) (andb (negb c) (andb hnc (nonempty raw)))) in
        let pre := if newinp then flushc bt raw else [] in
        let raw1 := if newinp then [] else raw in
        if andb (contains "#"%char (takeS BLANK_SPACE_CONTINUE line)) (negb c)
        then (pre, Some UnsupportedFeature)
        else
          let line' := takeS w line in
          let cont' := if andb c (negb (all_space (takeS BLANK_SPACE_CONTINUE line))) then cont
                       else amp_data line' in
          let (out, e) := rdc w rec r bc bt cont' (orb hnc (negb c)) (raw1 ++ [rstrip line']) in
          (pre ++ out, e)
  end.

Lemma cards_flush : forall bt raw n, cards_of (flush bt raw n) = flushc bt raw.
Proof. intros. unfold flush, flushc. destruct (nonempty raw); reflexivity. Qed.

Lemma cards_of_app : forall a b, cards_of (a ++ b) = cards_of a ++ cards_of b.
Proof. intros. unfold cards_of. apply map_app. Qed.

Lemma rd_loop_rdc : forall w rec ls lineno bc bt cont hnc raw,
  (cards_of (fst (rd_loop w rec ls lineno bc bt cont hnc raw)), snd (rd_loop w rec ls lineno bc bt cont hnc raw))
  = rdc w rec ls bc bt cont hnc raw.
Proof.
  intros w rec. induction ls as [|l r IH]; intros lineno bc bt cont hnc raw.
  - cbn [rd_loop rdc fst snd]. now rewrite cards_flush.
  - cbn [rd_loop rdc]. cbv zeta.
    destruct (all_space (expandtabs TABSIZE l)).
    + destruct (andb (Nat.leb 3 (S bc)) (negb rec)); [cbn [fst snd]; now rewrite cards_flush|].
      specialize (IH (S lineno) (S bc) (if Nat.ltb (S bc) 3 then S bc else bt) cont false []).
      destruct (rd_loop w rec r (S lineno) (S bc) (if Nat.ltb (S bc) 3 then S bc else bt) cont false []) as [o e].
      destruct (rdc w rec r (S bc) (if Nat.ltb (S bc) 3 then S bc else bt) cont false []) as [o' e'].
      cbn [fst snd] in *. injection IH as <- <-. now rewrite cards_of_app, cards_flush.
    + set (newinp := andb (negb (all_space (takeS BLANK_SPACE_CONTINUE (expandtabs TABSIZE l))))
                     (andb (negb cont) (andb (negb (is_comment (expandtabs TABSIZE l))) (andb hnc (nonempty raw))))).
      destruct (andb (contains "#"%char (takeS BLANK_SPACE_CONTINUE (expandtabs TABSIZE l)))
                     (negb (is_comment (expandtabs TABSIZE l)))).
      * cbn [fst snd]. destruct newinp; [now rewrite cards_flush|reflexivity].
      * match goal with |- context [rd_loop w rec r ?a ?b ?c ?d ?e ?f] =>
          specialize (IH a b c d e f); destruct (rd_loop w rec r a b c d e f) as [o e0] end.
        match goal with |- context [rdc w rec r ?b ?c ?d ?e ?f] => destruct (rdc w rec r b c d e f) as [o' e'] end.
        cbn [fst snd] in *. injection IH as <- <-. rewrite cards_of_app.
        destruct newinp; [now rewrite cards_flush|reflexivity].
Qed.

Definition prepend {E : Type} (p : list (nat * list string)) (x : list (nat * list string) * E)
  : list (nat * list string) * E := (p ++ fst x, snd x).

Lemma prepend_nil : forall (E : Type) (x : list (nat * list string) * E), prepend [] x = x.
Proof. intros E [a b]. reflexivity. Qed.

Lemma prepend_app : forall (E : Type) p q (x : list (nat * list string) * E),
  prepend p (prepend q x) = prepend (p ++ q) x.
Proof. intros E p q [a b]. unfold prepend. cbn [fst snd]. now rewrite app_assoc. Qed.

Ltac fold_nc w c l :=
  change (if andb (is_comment (expandtabs TABSIZE l))
                  (negb (all_space (takeS BLANK_SPACE_CONTINUE (expandtabs TABSIZE l))))
          then c else amp_data (takeS w (expandtabs TABSIZE l))) with (next_cont w c l).

Lemma next_cont_data : forall w c1 c2 l, is_comment (expandtabs TABSIZE l) = false -> next_cont w c1 l = next_cont w c2 l.
Proof. intros w c1 c2 l H. unfold next_cont. now rewrite H. Qed.

Ltac fin_rdc :=
  unfold cooked; cbn [map List.app];
  match goal with |- context [rdc ?w ?rc ?R ?a ?b ?c ?d ?e] => destruct (rdc w rc R a b c d e) end; reflexivity.

(* the continuation lines of a card are appended to it *)
Lemma cont_run : forall w rec ls R bc bt cont raw,
  cont_lines w cont ls = true -> raw <> [] ->
  rdc w rec (ls ++ R) bc bt cont true raw = rdc w rec R bc bt false true (raw ++ cooked w ls).
Proof.
  intros w rec. induction ls as [|l r IH]; intros R bc bt cont raw H Hraw.
  - cbn [cont_lines] in H. apply negb_true_iff in H. subst cont.
    cbn [List.app cooked map]. now rewrite app_nil_r.
  - cbn [cont_lines] in H.
    apply andb_true_iff in H as [H1 H]. apply andb_true_iff in H as [H2 H]. apply andb_true_iff in H as [H3 H4].
    apply negb_true_iff in H1. apply negb_true_iff in H3.
    cbn [List.app rdc]. cbv zeta. fold_nc w cont l. rewrite H1, H3.
    assert (Hn : andb (negb (all_space (takeS BLANK_SPACE_CONTINUE (expandtabs TABSIZE l))))
                   (andb (negb cont) (andb (negb (is_comment (expandtabs TABSIZE l))) (andb true (nonempty raw)))) = false).
    { destruct (all_space (takeS BLANK_SPACE_CONTINUE (expandtabs TABSIZE l))); [reflexivity|].
      destruct cont; [reflexivity|]. destruct (is_comment (expandtabs TABSIZE l)); [reflexivity|discriminate]. }
    rewrite Hn. cbn [orb].
    rewrite IH; auto.
    + cbn [cooked map]. rewrite <- app_assoc. cbn [List.app].
      change (rstrip (takeS w (expandtabs TABSIZE l))) with (cook w l).
      fin_rdc.
    + destruct raw; discriminate.
Qed.

(* a card (with comment lines in front) met while nothing but comment lines are pending: no flush *)
Lemma lead_step : forall w rec c R bc bt cont raw,
  lcard_ok w c = true ->
  rdc w rec (c ++ R) bc bt cont false raw = rdc w rec R bc bt false true (raw ++ cooked w c).
Proof.
  intros w rec. induction c as [|l r IH]; intros R bc bt cont raw H; [discriminate|].
  cbn [lcard_ok] in H. destruct (comment_line l) eqn:Ec.
  - unfold comment_line in Ec. apply andb_true_iff in Ec as [E1 E2]. apply negb_true_iff in E1.
    cbn [List.app rdc]. cbv zeta. fold_nc w cont l. rewrite E1, E2. cbn [negb andb orb].
    rewrite !andb_false_r. cbn [negb andb orb].
    rewrite IH by exact H. cbn [cooked map]. rewrite <- app_assoc. cbn [List.app].
    change (rstrip (takeS w (expandtabs TABSIZE l))) with (cook w l).
    fin_rdc.
  - cbn [card_ok] in H. apply andb_true_iff in H as [Hs Hc]. unfold start_line in Hs.
    apply andb_true_iff in Hs as [S1 Hs]. apply andb_true_iff in Hs as [S2 Hs]. apply andb_true_iff in Hs as [S3 S4].
    apply negb_true_iff in S1. apply negb_true_iff in S2. apply negb_true_iff in S4.
    cbn [List.app rdc]. cbv zeta. fold_nc w cont l. rewrite S1, S2, S4. cbn [negb andb orb].
    rewrite !andb_false_r. cbn [negb andb orb].
    rewrite (next_cont_data w cont false l S2).
    rewrite cont_run; auto.
    + cbn [cooked map]. rewrite <- app_assoc. cbn [List.app].
      change (rstrip (takeS w (expandtabs TABSIZE l))) with (cook w l).
      fin_rdc.
    + destruct raw; discriminate.
Qed.

(* a card met behind another card: that one is flushed *)
Lemma card_step : forall w rec c R bc bt raw,
  card_ok w c = true -> raw <> [] ->
  rdc w rec (c ++ R) bc bt false true raw = prepend [(bt, raw)] (rdc w rec R bc bt false true (cooked w c)).
Proof.
  intros w rec c R bc bt raw H Hraw. destruct c as [|l r]; [discriminate|].
  cbn [card_ok] in H. apply andb_true_iff in H as [Hs Hc]. unfold start_line in Hs.
  apply andb_true_iff in Hs as [S1 Hs]. apply andb_true_iff in Hs as [S2 Hs]. apply andb_true_iff in Hs as [S3 S4].
  apply negb_true_iff in S1. apply negb_true_iff in S2. apply negb_true_iff in S4.
  cbn [List.app rdc]. cbv zeta. fold_nc w false l. rewrite S1, S2, S4. rewrite S3.
  assert (Hne : nonempty raw = true) by (destruct raw; [contradiction|reflexivity]).
  rewrite Hne. cbn [negb andb orb]. unfold flushc. rewrite Hne.
  cbn [List.app].
  rewrite cont_run; auto; [|discriminate].
  cbn [cooked map List.app].
  change (rstrip (takeS w (expandtabs TABSIZE l))) with (cook w l).
  fin_rdc.
Qed.

(* what stands behind a block: the end of the file, or a blank line and the next blocks *)
Definition boundary (R : list string) : bool :=
  match R with [] => true | sep :: _ => blank_line sep end.

Definition after (w : nat) (rec : bool) (R : list string) (bc bt : nat) : list (nat * list string) * option rd_err :=
  match R with
  | [] => ([], None)
  | _ :: R' => if stops rec bc then ([], None) else rdc w rec R' (S bc) (next_bt bc bt) false false []
  end.

Lemma at_boundary : forall w rec R bc bt hnc raw,
  boundary R = true ->
  rdc w rec R bc bt false hnc raw = prepend (flushc bt raw) (after w rec R bc bt).
Proof.
  intros w rec R bc bt hnc raw H. destruct R as [|sep R'].
  - cbn [rdc after]. unfold prepend. cbn [fst snd]. now rewrite app_nil_r.
  - cbn [boundary] in H. unfold blank_line in H. cbn [rdc after]. cbv zeta. rewrite H. unfold stops.
    destruct (andb (Nat.leb 3 (S bc)) (negb rec)).
    + unfold prepend. cbn [fst snd]. now rewrite app_nil_r.
    + unfold next_bt. destruct (rdc w rec R' (S bc) (if Nat.ltb (S bc) 3 then S bc else bt) false false []); reflexivity.
Qed.

Definition typed (w bt : nat) (cs : list card) : list (nat * list string) :=
  map (fun c => (bt, cooked w c)) cs.

Lemma card_ok_nonempty : forall w c, card_ok w c = true -> cooked w c <> [].
Proof. intros w [|l r] H; [discriminate|]. cbn. discriminate. Qed.

Lemma block_run : forall w rec cs R bc bt raw,
  forallb (card_ok w) cs = true -> boundary R = true -> raw <> [] ->
  rdc w rec (List.concat cs ++ R) bc bt false true raw
    = prepend ((bt, raw) :: typed w bt cs) (after w rec R bc bt).
Proof.
  intros w rec. induction cs as [|c cs IH]; intros R bc bt raw H HR Hraw.
  - cbn [List.concat List.app typed map]. rewrite at_boundary by exact HR.
    unfold flushc. destruct raw; [contradiction|reflexivity].
  - cbn [forallb] in H. apply andb_true_iff in H as [Hc Hcs].
    cbn [List.concat]. rewrite <- app_assoc. rewrite card_step by auto.
    rewrite IH; auto using card_ok_nonempty.
Qed.

Lemma block_first : forall w rec b R bc bt,
  block_ok w b = true -> boundary R = true ->
  rdc w rec (List.concat b ++ R) bc bt false false [] = prepend (typed w bt b) (after w rec R bc bt).
Proof.
  intros w rec b R bc bt H HR. destruct b as [|c cs].
  - cbn [List.concat List.app typed map]. rewrite at_boundary by exact HR. reflexivity.
  - cbn [block_ok] in H. apply andb_true_iff in H as [Hc Hcs].
    cbn [List.concat]. rewrite <- app_assoc. rewrite lead_step by exact Hc. cbn [List.app].
    rewrite block_run; auto.
    destruct c as [|l r]; [discriminate|]. cbn. discriminate.
Qed.

Definition render_more (more : list (string * list card)) : list string :=
  flat_map (fun sb => fst sb :: List.concat (snd sb)) more.

Lemma boundary_more : forall w rec bc more, more_ok w rec bc more = true -> boundary (render_more more) = true.
Proof.
  intros w rec bc [|sb r] H; [reflexivity|]. cbn [more_ok] in H. apply andb_true_iff in H as [H _]. exact H.
Qed.

Lemma more_run : forall w rec more bc bt,
  more_ok w rec bc more = true ->
  after w rec (render_more more) bc bt = (map (cook_t w) (more_tcards rec bc bt more), None).
Proof.
  intros w rec. induction more as [|sb r IH]; intros bc bt H; [reflexivity|].
  cbn [more_ok] in H. apply andb_true_iff in H as [H1 H2].
  cbn [render_more flat_map List.app after more_tcards].
  destruct (stops rec bc); [reflexivity|]. apply andb_true_iff in H2 as [H2 H3].
  change (flat_map (fun sb0 : string * list card => fst sb0 :: List.concat (snd sb0)) r) with (render_more r).
  rewrite block_first by (auto; eapply boundary_more; eauto).
  rewrite IH by exact H3. unfold prepend, typed. cbn [fst snd].
  rewrite map_app, map_map. reflexivity.
Qed.

Lemma render_run : forall w rec sf bt,
  block_ok w (s_first sf) = true ->
  more_ok w rec 0 (s_more sf) = true ->
  rdc w rec (render sf) 0 bt false false [] = (map (cook_t w) (sfile_tcards rec bt sf), None).
Proof.
  intros w rec sf bt H1 H2. unfold render.
  change (flat_map (fun sb : string * list card => fst sb :: List.concat (snd sb)) (s_more sf)) with (render_more (s_more sf)).
  rewrite block_first by (auto; eapply boundary_more; eauto).
  rewrite more_run by exact H2. unfold prepend, typed, sfile_tcards. cbn [fst snd].
  rewrite map_app, map_map. reflexivity.
Qed.

Lemma read_data_render : forall w rec sf bt,
  block_ok w (s_first sf) = true ->
  more_ok w rec 0 (s_more sf) = true ->
  cards_of (fst (read_data_rec w rec bt (render sf))) = map (cook_t w) (sfile_tcards rec bt sf) /\
  snd (read_data_rec w rec bt (render sf)) = None.
Proof.
  intros w rec sf bt H1 H2. unfold read_data_rec.
  assert (E := rd_loop_rdc w rec (render sf) 0 0 bt false false []).
  rewrite render_run in E by assumption. now injection E.
Qed.

(* ------------------------------------------------------------------ *)
(* flush_input's read-card test only looks at the lines and the block type of an input *)
Definition q_of (path : string) (cs : list (nat * list string)) : list qitem :=
  flat_map (fun c => match classify_lines (snd c) with RcName n => [(fst c, n, path)] | _ => [] end) cs.

Definition nr (cs : list (nat * list string)) : list (nat * list string) :=
  filter (fun c => negb (is_name (classify_lines (snd c)))) cs.

Definition no_rcerr (cs : list (nat * list string)) : Prop :=
  Forall (fun c => is_rcerr (classify_lines (snd c)) = false) cs.

Lemma cut_at_err_none : forall ins, no_rcerr (cards_of ins) -> cut_at_err ins = (ins, false).
Proof.
  induction ins as [|i r IH]; intros H; [reflexivity|].
  inversion H as [|? ? Hi Hr]; subst. cbn [cut_at_err]. unfold classify. cbn [snd] in Hi.
  rewrite (IH Hr). destruct (classify_lines (i_lines i)); try reflexivity. discriminate.
Qed.

Lemma queue_of_cards : forall path ins, queue_of path ins = q_of path (cards_of ins).
Proof.
  intros path. induction ins as [|i r IH]; [reflexivity|].
  unfold queue_of, q_of in *. cbn [cards_of map flat_map fst snd]. now rewrite IH.
Qed.

Lemma ycards_yields : forall path ins, ycards (map (yield_of path) ins) = nr (cards_of ins).
Proof.
  intros path. induction ins as [|i r IH]; [reflexivity|].
  unfold ycards, nr in *. cbn [map cards_of]. unfold yield_of at 1, classify. cbn [filter snd].
  destruct (classify_lines (i_lines i)); cbn [inputs_of flat_map is_name negb List.app map fst snd];
    fold (inputs_of (map (yield_of path) r)); now rewrite IH.
Qed.

Lemma inputs_yields : forall path ins,
  inputs_of (map (yield_of path) ins) = map (pair path) (filter (fun i => negb (is_name (classify i))) ins).
Proof.
  intros path. induction ins as [|i r IH]; [reflexivity|].
  cbn [map filter]. unfold yield_of at 1.
  destruct (classify i); cbn [inputs_of flat_map is_name negb List.app map];
    fold (inputs_of (map (yield_of path) r)); now rewrite IH.
Qed.

Lemma q_of_cook : forall w path tcs, q_of path (map (cook_t w) tcs) = reads_of w path tcs.
Proof.
  intros w path. induction tcs as [|tc r IH]; [reflexivity|].
  unfold q_of, reads_of in *. cbn [map flat_map]. rewrite IH. reflexivity.
Qed.

Lemma nr_cook : forall w tcs, nr (map (cook_t w) tcs) = map (cook_t w) (nonread w tcs).
Proof.
  intros w. induction tcs as [|tc r IH]; [reflexivity|].
  unfold nr, nonread in *. cbn [map filter]. unfold cook_t at 1, card_rc at 1. cbn [snd].
  destruct (negb (is_name (classify_lines (cooked w (snd tc))))); cbn [map]; now rewrite IH.
Qed.

Lemma no_rcerr_cook : forall w tcs,
  forallb (fun c => negb (is_rcerr (card_rc w c))) (map snd tcs) = true -> no_rcerr (map (cook_t w) tcs).
Proof.
  intros w. induction tcs as [|tc r IH]; intros H; [constructor|].
  cbn [map forallb] in H. apply andb_true_iff in H as [H1 H2]. constructor; [|now apply IH].
  cbn [cook_t snd]. now apply negb_true_iff in H1.
Qed.

Lemma more_tcards_snd : forall rec more bc bt bt',
  map snd (more_tcards rec bc bt more) = map snd (more_tcards rec bc bt' more).
Proof.
  intros rec. induction more as [|sb r IH]; intros bc bt bt'; [reflexivity|].
  cbn [more_tcards]. destruct (stops rec bc); [reflexivity|].
  rewrite !map_app, !map_map. cbn [snd]. f_equal. apply IH.
Qed.

Lemma sfile_tcards_snd : forall rec bt sf, map snd (sfile_tcards rec bt sf) = read_cards rec sf.
Proof.
  intros. unfold read_cards, sfile_tcards. rewrite !map_app, !map_map. cbn [snd]. f_equal. apply more_tcards_snd.
Qed.

(* one file given by its cards: what the reader makes of its rendering *)
Lemma scan_render : forall w rec sf bt path,
  sfile_ok w rec sf = true ->
  exists ys, scan_file w rec bt path (render sf) = (ys, reads_of w path (sfile_tcards rec bt sf), None) /\
             ycards ys = map (cook_t w) (nonread w (sfile_tcards rec bt sf)).
Proof.
  intros w rec sf bt path H. unfold sfile_ok in H.
  apply andb_true_iff in H as [H1 H]. apply andb_true_iff in H as [H2 H3].
  destruct (read_data_render w rec sf bt H1 H2) as [Hc He].
  unfold scan_file. destruct (read_data_rec w rec bt (render sf)) as [ins e]. cbn [fst snd] in Hc, He. subst e.
  rewrite cut_at_err_none.
  - rewrite queue_of_cards, Hc, q_of_cook.
    eexists. split; [reflexivity|]. rewrite ycards_yields, Hc. apply nr_cook.
  - rewrite Hc. apply no_rcerr_cook. now rewrite sfile_tcards_snd.
Qed.

(* ------------------------------------------------------------------ *)
(* list helpers *)
Lemma filter_flat_map : forall (A B : Type) (f : B -> bool) (g : A -> list B) (l : list A),
  filter f (flat_map g l) = flat_map (fun x => filter f (g x)) l.
Proof. intros A B f g. induction l as [|x l IH]; [reflexivity|]. cbn [flat_map]. now rewrite filter_app, IH. Qed.

Lemma map_flat_map : forall (A B C : Type) (f : B -> C) (g : A -> list B) (l : list A),
  map f (flat_map g l) = flat_map (fun x => map f (g x)) l.
Proof. intros A B C f g. induction l as [|x l IH]; [reflexivity|]. cbn [flat_map]. now rewrite map_app, IH. Qed.

Lemma flat_map_ext_Forall : forall (A B : Type) (f g : A -> list B) (P : A -> Prop) (l : list A),
  Forall P l -> (forall x, P x -> f x = g x) -> flat_map f l = flat_map g l.
Proof.
  intros A B f g P l H Hfg. induction H as [|x l Hx Hl IH]; [reflexivity|].
  cbn [flat_map]. now rewrite IH, (Hfg x Hx).
Qed.

Lemma filter_comm : forall (A : Type) (f g : A -> bool) (l : list A),
  filter f (filter g l) = filter g (filter f l).
Proof.
  intros A f g. induction l as [|x l IH]; [reflexivity|]. cbn [filter].
  destruct (g x) eqn:Eg, (f x) eqn:Ef; cbn [filter]; rewrite ?Eg, ?Ef, IH; reflexivity.
Qed.

Lemma filter_all : forall (A : Type) (f : A -> bool) (l : list A),
  Forall (fun x => f x = true) l -> filter f l = l.
Proof. intros A f l H. induction H as [|x l Hx Hl IH]; [reflexivity|]. cbn [filter]. now rewrite Hx, IH. Qed.

Lemma Forall_filter : forall (A : Type) (P : A -> Prop) (f : A -> bool) (l : list A),
  Forall P l -> Forall P (filter f l).
Proof.
  intros A P f l H. induction H as [|x l Hx Hl IH]; [constructor|]. cbn [filter].
  destruct (f x); [constructor|]; assumption.
Qed.

Lemma Forall_filter_self : forall (A : Type) (f : A -> bool) (l : list A),
  Forall (fun x => f x = true) (filter f l).
Proof.
  intros A f. induction l as [|x l IH]; [constructor|]. cbn [filter].
  destruct (f x) eqn:E; [constructor|]; assumption.
Qed.

Lemma Forall_flat_map_intro : forall (A B : Type) (P : B -> Prop) (g : A -> list B) (l : list A),
  Forall (fun x => Forall P (g x)) l -> Forall P (flat_map g l).
Proof.
  intros A B P g l H. induction H as [|x l Hx Hl IH]; [constructor|].
  cbn [flat_map]. apply Forall_app. now split.
Qed.

Lemma Forall_map_intro : forall (A B : Type) (P : B -> Prop) (f : A -> B) (l : list A),
  Forall (fun x => P (f x)) l -> Forall P (map f l).
Proof. intros A B P f l H. induction H; constructor; assumption. Qed.

Lemma block_of_app : forall (A : Type) b (x y : list (nat * A)), block_of b (x ++ y) = block_of b x ++ block_of b y.
Proof. intros. unfold block_of. apply filter_app. Qed.

Lemma block_of_same : forall (A : Type) b (l : list A), block_of b (map (pair b) l) = map (pair b) l.
Proof.
  intros A b. induction l as [|x l IH]; [reflexivity|]. unfold block_of in *. cbn [map filter fst].
  now rewrite Nat.eqb_refl, IH.
Qed.

Lemma block_of_other : forall (A : Type) b b' (l : list A), b' <> b -> block_of b (map (pair b') l) = [].
Proof.
  intros A b b' l H. induction l as [|x l IH]; [reflexivity|]. unfold block_of in *. cbn [map filter fst].
  apply Nat.eqb_neq in H. now rewrite H, IH.
Qed.

Lemma pair_snd_block : forall (A : Type) b (l : list (nat * A)), map (pair b) (map snd (block_of b l)) = block_of b l.
Proof.
  intros A b. induction l as [|[k x] l IH]; [reflexivity|]. unfold block_of in *. cbn [filter fst].
  destruct (Nat.eqb_spec k b) as [->|]; [cbn [map snd]; now rewrite IH|exact IH].
Qed.

Lemma block_of_map_fst : forall (A B : Type) (f : nat * A -> nat * B) b (l : list (nat * A)),
  (forall x, fst (f x) = fst x) -> block_of b (map f l) = map f (block_of b l).
Proof.
  intros A B f b l Hf. induction l as [|x l IH]; [reflexivity|]. unfold block_of in *. cbn [map filter].
  rewrite Hf. destruct (Nat.eqb (fst x) b); cbn [map]; now rewrite IH.
Qed.

Lemma by_blocks_map_fst : forall (A B : Type) (f : nat * A -> nat * B) (l : list (nat * A)),
  (forall x, fst (f x) = fst x) -> by_blocks (map f l) = map f (by_blocks l).
Proof. intros. unfold by_blocks. now rewrite !block_of_map_fst, !map_app by assumption. Qed.

Lemma forallb_impl : forall (A : Type) (f g : A -> bool) (l : list A),
  (forall x, f x = true -> g x = true) -> forallb f l = true -> forallb g l = true.
Proof.
  intros A f g l H. induction l as [|x l IH]; [reflexivity|]. cbn [forallb]. intros E.
  apply andb_true_iff in E as [E1 E2]. now rewrite (H _ E1), IH.
Qed.

(* ------------------------------------------------------------------ *)
(* well-formedness of cards and blocks *)
Lemma card_ok_lcard : forall w c, card_ok w c = true -> lcard_ok w c = true.
Proof.
  intros w [|l r] H; [discriminate|]. cbn [lcard_ok].
  assert (E : comment_line l = false).
  { cbn [card_ok] in H. apply andb_true_iff in H as [Hs _]. unfold start_line in Hs.
    apply andb_true_iff in Hs as [_ Hs]. apply andb_true_iff in Hs as [S2 _]. apply negb_true_iff in S2.
    unfold comment_line. rewrite S2. apply andb_false_r. }
  now rewrite E.
Qed.

Lemma cards_block_ok : forall w b, forallb (card_ok w) b = true -> block_ok w b = true.
Proof.
  intros w [|c r] H; [reflexivity|]. cbn [forallb] in H. apply andb_true_iff in H as [H1 H2].
  cbn [block_ok]. now rewrite (card_ok_lcard _ _ H1), H2.
Qed.

Lemma block_ok_filter : forall w f b, block_ok w b = true -> block_ok w (filter f b) = true.
Proof.
  intros w f [|c r] H; [reflexivity|]. cbn [block_ok] in H. apply andb_true_iff in H as [H1 H2].
  assert (Hr : forallb (card_ok w) (filter f r) = true).
  { apply forallb_forall. intros x Hx. apply filter_In in Hx as [Hx _].
    rewrite forallb_forall in H2. now apply H2. }
  cbn [filter]. destruct (f c); [|now apply cards_block_ok].
  cbn [block_ok]. now rewrite H1, Hr.
Qed.

Lemma block_ok_app : forall w b c, block_ok w b = true -> forallb (card_ok w) c = true -> block_ok w (b ++ c) = true.
Proof.
  intros w [|x r] c H Hc; [now apply cards_block_ok|].
  cbn [block_ok] in H. apply andb_true_iff in H as [H1 H2].
  cbn [List.app block_ok]. rewrite H1, forallb_app, H2, Hc. reflexivity.
Qed.

Lemma all_nil_more : forall w more,
  forallb (fun sb : string * list card => andb (blank_line (fst sb)) (is_nil (snd sb))) more = true ->
  forall bc bt, more_tcards true bc bt more = [] /\ more_ok w true bc more = true.
Proof.
  intros w. induction more as [|[s b] r IH]; intros H bc bt; [split; reflexivity|].
  cbn [forallb fst snd] in H. apply andb_true_iff in H as [H1 H2]. apply andb_true_iff in H1 as [H0 H1].
  destruct b; [|discriminate]. destruct (IH H2 (S bc) (next_bt bc bt)) as [E1 E2]. split.
  - cbn [more_tcards snd map List.app]. unfold stops. cbn [negb]. rewrite andb_false_r. exact E1.
  - cbn [more_ok fst snd block_ok]. unfold stops. cbn [negb]. rewrite andb_false_r, H0, E2. reflexivity.
Qed.

Lemma sub_ok_facts : forall w sf bt,
  sub_ok w sf = true ->
  sfile_ok w true sf = true /\ sfile_tcards true bt sf = map (pair bt) (s_first sf) /\
  forallb (card_ok w) (s_first sf) = true.
Proof.
  intros w sf bt H. unfold sub_ok in H.
  apply andb_true_iff in H as [H1 H]. apply andb_true_iff in H as [H2 H3].
  assert (E : forall b, sfile_tcards true b sf = map (pair b) (s_first sf)).
  { intros b. unfold sfile_tcards. destruct (all_nil_more w _ H2 0 b) as [E _]. now rewrite E, app_nil_r. }
  repeat split; [|apply E|exact H1].
  unfold sfile_ok. rewrite (cards_block_ok _ _ H1). destruct (all_nil_more w _ H2 0 0) as [_ E2]. rewrite E2.
  cbn [andb]. unfold read_cards. rewrite E, map_map. cbn [snd]. now rewrite map_id.
Qed.

(* the top-level file: three blocks *)
Lemma top_shape : forall w tsf,
  top_ok w tsf = true ->
  exists B0 B1 B2, block_ok w B0 = true /\ block_ok w B1 = true /\ block_ok w B2 = true /\
    sfile_tcards false 0 tsf = map (pair 0) B0 ++ map (pair 1) B1 ++ map (pair 2) B2.
Proof.
  intros w [first more] H. unfold top_ok, sfile_ok in H. cbn [s_first s_more] in H.
  apply andb_true_iff in H as [H1 H]. apply andb_true_iff in H as [H2 _].
  exists first.
  destruct more as [|[s1 b1] more].
  - exists [], []. repeat split; auto; try (unfold sfile_tcards; cbn; now rewrite ?app_nil_r).
  - cbn [more_ok fst snd] in H2. apply andb_true_iff in H2 as [_ H2].
    change (stops false 0) with false in H2. cbv iota in H2. apply andb_true_iff in H2 as [Hb1 H2].
    exists b1. destruct more as [|[s2 b2] more].
    + exists []. repeat split; auto; try (unfold sfile_tcards; cbn; now rewrite ?app_nil_r).
    + cbn [more_ok fst snd] in H2. apply andb_true_iff in H2 as [_ H2].
      change (stops false 1) with false in H2. cbv iota in H2. apply andb_true_iff in H2 as [Hb2 H2].
      exists b2. split; [exact H1|]. split; [exact Hb1|]. split; [exact Hb2|].
      unfold sfile_tcards. cbn [s_first s_more more_tcards snd].
      change (stops false 0) with false. change (stops false 1) with false. cbv iota.
      change (next_bt 0 0) with 1. change (next_bt 1 1) with 2.
      destruct more as [|sb more]; cbn [more_tcards]; [|change (stops false 2) with true; cbv iota];
        now rewrite app_nil_r.
Qed.

(* ------------------------------------------------------------------ *)
(* the flattening theorem *)
Definition front_ok (front : list string) : Prop :=
  exists m ti, forall X, read_front_matters (front ++ X) = mkFront m ti X.

Lemma ycards_app : forall a b, ycards (a ++ b) = ycards a ++ ycards b.
Proof. intros. unfold ycards. now rewrite inputs_of_app, map_app. Qed.

Lemma ycards_flat_map : forall (A : Type) (f : A -> list yielded) (l : list A),
  ycards (flat_map f l) = flat_map (fun x => ycards (f x)) l.
Proof. intros A f. induction l as [|x l IH]; [reflexivity|]. cbn [flat_map]. now rewrite ycards_app, IH. Qed.

Lemma forallb_map_Forall : forall (A B : Type) (f : B -> bool) (g : A -> B) (l : list A),
  forallb f (map g l) = true -> Forall (fun x => f (g x) = true) l.
Proof.
  intros A B f g. induction l as [|x l IH]; intros H; [constructor|].
  cbn [map forallb] in H. apply andb_true_iff in H as [H1 H2]. constructor; auto.
Qed.

Lemma Forall_forallb_map : forall (A B : Type) (f : B -> bool) (g : A -> B) (l : list A),
  Forall (fun x => f (g x) = true) l -> forallb f (map g l) = true.
Proof. intros A B f g l H. induction H as [|x l Hx Hl IH]; [reflexivity|]. cbn [map forallb]. now rewrite Hx, IH. Qed.

Lemma nonread_pair : forall w b (B : list card),
  map snd (nonread w (map (pair b) B)) = filter (fun c => negb (is_name (card_rc w c))) B.
Proof.
  intros w b. induction B as [|c B IH]; [reflexivity|]. unfold nonread in *. cbn [map filter snd].
  destruct (negb (is_name (card_rc w c))); cbn [map snd]; now rewrite IH.
Qed.

Section Flatten.
  Variables (w : nat) (t : stree) (top : string) (front : list string) (tsf : sfile) (n : nat).
  Let dir := dirname top.
  Let ft := tree_ft top (front ++ render tsf) t.
  Let own := sfile_tcards false 0 tsf.
  Let q0 := reads_of w top own.
  Let C := s_children w t dir.
  Let items := bfsG C n q0.
  Let cards_it := s_item_cards t dir.
  Let ALL := nonread w own ++ flat_map (fun it => nonread w (cards_it it)) items.

  Hypothesis Hfront : front_ok front.
  Hypothesis Htop : top_ok w tsf = true.
  Hypothesis Hfresh : slookup t top = None.
  Hypothesis Hitems : Forall (s_item_ok w t dir) items.

  Lemma item_scans : forall it, s_item_ok w t dir it ->
    exists ys, item_scan w ft dir it = Some (ys, C it, None) /\
               ycards ys = map (cook_t w) (nonread w (cards_it it)).
  Proof.
    intros it [sf [Hl Hs]]. destruct (sub_ok_facts w sf (fst (fst it)) Hs) as [Hok _].
    unfold item_scan, ft, tree_ft.
    destruct (String.eqb_spec (item_path dir it) top) as [E|_].
    - rewrite E in Hl. rewrite Hfresh in Hl. discriminate.
    - rewrite Hl. cbn [option_map].
      destruct (scan_render w true sf (fst (fst it)) (item_path dir it) Hok) as [ys [H1 H2]].
      exists ys. unfold C, s_children, cards_it, s_item_cards. rewrite Hl. now rewrite H1.
  Qed.

  Lemma tree_side : forall fuel,
    gen_atG C n q0 = [] -> List.length items <= fuel ->
    ra_error (read_all_ft w ft top fuel) = None /\
    ycards (ra_yields (read_all_ft w ft top fuel)) = map (cook_t w) ALL /\
    forall m ti, (forall X, read_front_matters (front ++ X) = mkFront m ti X) ->
      ra_message (read_all_ft w ft top fuel) = m /\ ra_title (read_all_ft w ft top fuel) = ti.
  Proof.
    intros fuel Hg Hlen. destruct Hfront as [m [ti Hf]].
    assert (Hft : ft top = Some (front ++ render tsf)) by (unfold ft, tree_ft; now rewrite String.eqb_refl).
    destruct (scan_render w false tsf 0 top Htop) as [ys0 [Hs0 Hy0]].
    assert (Hscan : scan_file w false 0 top (f_rest (read_front_matters (front ++ render tsf))) = (ys0, q0, None))
      by (rewrite Hf; exact Hs0).
    assert (HF : Forall (scans w ft dir (item_yields w ft dir) C) items).
    { eapply Forall_impl; [|exact Hitems]. intros it Hit. destruct (item_scans it Hit) as [ys [H1 _]].
      unfold scans. now rewrite (item_yields_scan _ _ _ _ _ _ _ H1). }
    destruct (readq_order_gen w ft top fuel _ ys0 q0 (item_yields w ft dir) C n Hft Hscan HF Hg Hlen) as [Hy He].
    split; [exact He|]. split.
    - rewrite Hy, ycards_app, ycards_flat_map, Hy0. unfold ALL. rewrite map_app, map_flat_map. f_equal.
      eapply flat_map_ext_Forall; [exact Hitems|]. intros it Hit. destruct (item_scans it Hit) as [ys [H1 H2]].
      now rewrite (item_yields_scan _ _ _ _ _ _ _ H1).
    - intros m' ti' Hf'. destruct (read_all_ok w ft top fuel _ ys0 q0 Hft Hscan) as [_ [_ [Hm Ht]]].
      rewrite Hm, Ht, Hf'. split; reflexivity.
  Qed.

  Lemma flat_block_ALL : forall b, flat_block w t dir own items b = map snd (block_of b ALL).
  Proof.
    intros b. unfold flat_block, ALL. rewrite block_of_app, map_app. f_equal.
    unfold block_of at 2. rewrite filter_flat_map, map_flat_map. reflexivity.
  Qed.

  Lemma flat_tcards : sfile_tcards false 0 (flatten w t top tsf n) = by_blocks ALL.
  Proof.
    unfold flatten. fold dir own q0 C items. unfold sfile_tcards. cbn [s_first s_more more_tcards snd].
    change (stops false 0) with false. change (stops false 1) with false. cbv iota.
    rewrite !flat_block_ALL.
    change (next_bt 0 0) with 1. change (next_bt 1 1) with 2.
    rewrite !pair_snd_block, app_nil_r. reflexivity.
  Qed.

  Lemma item_cards_shape : forall it, s_item_ok w t dir it ->
    exists bt S, cards_it it = map (pair bt) S /\ forallb (card_ok w) S = true /\
                 forallb (fun c => negb (is_rcerr (card_rc w c))) S = true.
  Proof.
    intros it [sf [Hl Hs]]. destruct (sub_ok_facts w sf (fst (fst it)) Hs) as [_ [E Hc]].
    exists (fst (fst it)), (s_first sf). unfold cards_it, s_item_cards. rewrite Hl. repeat split; auto.
    unfold sub_ok in Hs. apply andb_true_iff in Hs as [_ Hs]. now apply andb_true_iff in Hs as [_ Hs].
  Qed.

  Lemma sub_cards_ok : forall b it, s_item_ok w t dir it ->
    forallb (card_ok w) (map snd (block_of b (nonread w (cards_it it)))) = true.
  Proof.
    intros b it Hit. destruct (item_cards_shape it Hit) as [bt [S [E [Hc _]]]]. rewrite E.
    apply forallb_forall. intros c Hin. apply in_map_iff in Hin as [[k c'] [Ec Hin]]. cbn [snd] in Ec. subst c'.
    unfold block_of in Hin. apply filter_In in Hin as [Hin _]. unfold nonread in Hin. apply filter_In in Hin as [Hin _].
    apply in_map_iff in Hin as [c'' [Ec Hin]]. injection Ec as _ ->.
    rewrite forallb_forall in Hc. now apply Hc.
  Qed.

  Lemma own_block : forall b, b < 3 -> block_ok w (map snd (block_of b (nonread w own))) = true.
  Proof.
    intros b Hb. destruct (top_shape w tsf Htop) as [B0 [B1 [B2 [H0 [H1 [H2 E]]]]]].
    unfold own. rewrite E. unfold nonread, block_of. rewrite filter_comm.
    fold (block_of b (map (pair 0) B0 ++ map (pair 1) B1 ++ map (pair 2) B2)).
    rewrite !block_of_app.
    destruct b as [|[|[|b]]]; [| | |lia].
    - rewrite block_of_same, !block_of_other, !app_nil_r by lia.
      fold (nonread w (map (pair 0) B0)). rewrite nonread_pair. now apply block_ok_filter.
    - rewrite block_of_same, !block_of_other, app_nil_r by lia. cbn [List.app].
      fold (nonread w (map (pair 1) B1)). rewrite nonread_pair. now apply block_ok_filter.
    - rewrite block_of_same, !block_of_other by lia. cbn [List.app].
      fold (nonread w (map (pair 2) B2)). rewrite nonread_pair. now apply block_ok_filter.
  Qed.

  Lemma flat_block_ok : forall b, b < 3 -> block_ok w (flat_block w t dir own items b) = true.
  Proof.
    intros b Hb. unfold flat_block. apply block_ok_app; [now apply own_block|].
    apply forallb_forall. intros c Hin. apply in_flat_map in Hin as [it [Hit Hin]].
    rewrite Forall_forall in Hitems. specialize (Hitems it Hit).
    assert (H := sub_cards_ok b it Hitems). rewrite forallb_forall in H. now apply H.
  Qed.

  Lemma ALL_nonread : Forall (fun tc => negb (is_name (card_rc w (snd tc))) = true) ALL.
  Proof.
    unfold ALL. apply Forall_app. split; [apply Forall_filter_self|].
    apply Forall_flat_map_intro. apply Forall_forall. intros it _. apply Forall_filter_self.
  Qed.

  Lemma ALL_no_rcerr : Forall (fun tc => negb (is_rcerr (card_rc w (snd tc))) = true) ALL.
  Proof.
    unfold ALL. apply Forall_app. split.
    - apply Forall_filter. assert (Hok := Htop). unfold top_ok, sfile_ok in Hok.
      apply andb_true_iff in Hok as [_ Hok]. apply andb_true_iff in Hok as [_ H3].
      unfold read_cards in H3. now apply forallb_map_Forall in H3.
    - apply Forall_flat_map_intro. eapply Forall_impl; [|exact Hitems]. intros it Hit.
      apply Forall_filter. destruct (item_cards_shape it Hit) as [bt [S [E [_ H3]]]]. rewrite E.
      apply Forall_map_intro. cbn [snd]. apply Forall_forall. rewrite forallb_forall in H3. exact H3.
  Qed.

  Lemma flat_ok : sfile_ok w false (flatten w t top tsf n) = true.
  Proof.
    unfold sfile_ok, read_cards. rewrite flat_tcards.
    unfold flatten. fold dir own q0 C items. cbn [s_first s_more more_ok fst snd].
    change (stops false 0) with false. change (stops false 1) with false. cbv iota.
    rewrite !flat_block_ok by lia.
    change (blank_line nl_line) with true. cbn [andb].
    apply Forall_forallb_map. unfold by_blocks.
    repeat (apply Forall_app; split); unfold block_of; apply Forall_filter; apply ALL_no_rcerr.
  Qed.

  Lemma flat_side :
    ra_error (read_single w (front ++ render (flatten w t top tsf n))) = None /\
    ycards (ra_yields (read_single w (front ++ render (flatten w t top tsf n)))) = map (cook_t w) (by_blocks ALL) /\
    forall m ti, (forall X, read_front_matters (front ++ X) = mkFront m ti X) ->
      ra_message (read_single w (front ++ render (flatten w t top tsf n))) = m /\
      ra_title (read_single w (front ++ render (flatten w t top tsf n))) = ti.
  Proof.
    destruct Hfront as [m [ti Hf]]. unfold read_single. rewrite Hf. cbn [f_rest f_message f_title].
    destruct (scan_render w false _ 0 "" flat_ok) as [ys [Hs Hy]]. rewrite Hs. cbn [ra_error ra_yields ra_message ra_title].
    split; [reflexivity|]. split.
    - rewrite Hy, flat_tcards. f_equal. unfold nonread. apply filter_all.
      unfold by_blocks. repeat (apply Forall_app; split); unfold block_of; apply Forall_filter; apply ALL_nonread.
    - intros m' ti' Hf'. specialize (Hf' []). rewrite Hf in Hf'. injection Hf' as -> ->. split; reflexivity.
  Qed.

  Theorem readq_flatten : forall fuel,
    gen_atG C n q0 = [] -> List.length items <= fuel ->
    let r := read_all_ft w ft top fuel in
    let r1 := read_single w (front ++ render (flatten w t top tsf n)) in
    ra_error r = None /\ ra_error r1 = None /\
    by_blocks (ycards (ra_yields r)) = ycards (ra_yields r1) /\
    ra_message r = ra_message r1 /\ ra_title r = ra_title r1.
  Proof.
    intros fuel Hg Hlen r r1. destruct (tree_side fuel Hg Hlen) as [He [Hy Hmt]].
    destruct flat_side as [He1 [Hy1 Hmt1]]. destruct Hfront as [m [ti Hf]].
    destruct (Hmt m ti Hf) as [Hm Ht]. destruct (Hmt1 m ti Hf) as [Hm1 Ht1].
    unfold r, r1. rewrite He, He1, Hy, Hy1, Hm, Ht, Hm1, Ht1.
    repeat split. apply by_blocks_map_fst. intros x. reflexivity.
  Qed.
End Flatten.

(* ------------------------------------------------------------------ *)
(* front matter: a title line, or a message block and a title line *)
Lemma front_ok_title : forall t, String.prefix "MESSAGE:" (upper t) = false -> front_ok [t].
Proof.
  intros t H. exists None, (Some (rstrip t)). intros X. cbn [List.app read_front_matters]. now rewrite H.
Qed.

Lemma message_loop_run : forall ms acc t X,
  forallb (fun l => negb (all_space l)) ms = true -> forall b, all_space b = true ->
  message_loop (ms ++ b :: t :: X) acc = mkFront (Some (acc ++ map rstrip ms)) (Some (rstrip t)) X.
Proof.
  induction ms as [|l r IH]; intros acc t X H b Hb.
  - cbn [List.app message_loop map]. now rewrite Hb, app_nil_r.
  - cbn [forallb] in H. apply andb_true_iff in H as [H1 H2]. apply negb_true_iff in H1.
    cbn [List.app message_loop]. rewrite H1. rewrite (IH _ _ _ H2 b Hb). cbn [map].
    now rewrite <- app_assoc.
Qed.

Lemma front_ok_message : forall m0 ms b t,
  String.prefix "MESSAGE:" (upper m0) = true ->
  forallb (fun l => negb (all_space l)) ms = true -> all_space b = true ->
  front_ok (m0 :: ms ++ [b; t]).
Proof.
  intros m0 ms b t H0 Hms Hb. eexists _, _. intros X.
  cbn [List.app read_front_matters]. rewrite H0. rewrite <- app_assoc. cbn [List.app].
  apply message_loop_run; assumption.
Qed.

(* ------------------------------------------------------------------ *)
(* block type of what a file yields *)
Lemma rd_loop_blank_tail : forall w rec ls ln bc bt cont hnc,
  forallb blank_line ls = true -> rd_loop w rec ls ln bc bt cont hnc [] = ([], None).
Proof.
  intros w rec. induction ls as [|l r IH]; intros ln bc bt cont hnc H; [reflexivity|].
  cbn [forallb] in H. apply andb_true_iff in H as [H1 H2]. unfold blank_line in H1.
  cbn [rd_loop]. cbv zeta. rewrite H1. destruct (andb (Nat.leb 3 (S bc)) (negb rec)); [reflexivity|]. now rewrite IH.
Qed.

Lemma flush_bt : forall bt raw ln, Forall (fun i => i_bt i = bt) (flush bt raw ln).
Proof. intros. unfold flush. destruct (nonempty raw); repeat constructor. Qed.

Lemma rd_loop_one_block : forall w rec ls ln bc bt cont hnc raw,
  one_block ls = true -> Forall (fun i => i_bt i = bt) (fst (rd_loop w rec ls ln bc bt cont hnc raw)).
Proof.
  intros w rec. induction ls as [|l r IH]; intros ln bc bt cont hnc raw H.
  - cbn [rd_loop fst]. apply flush_bt.
  - cbn [one_block] in H. unfold blank_line in H at 1. cbn [rd_loop]. cbv zeta.
    destruct (all_space (expandtabs TABSIZE l)).
    + destruct (andb (Nat.leb 3 (S bc)) (negb rec)); [cbn [fst]; apply flush_bt|].
      rewrite rd_loop_blank_tail by exact H. cbn [fst]. rewrite app_nil_r. apply flush_bt.
    + match goal with |- context [if ?c then (?p, Some UnsupportedFeature) else _] => destruct c end.
      * cbn [fst]. match goal with |- context [if ?c then _ else _] => destruct c end; [apply flush_bt|constructor].
      * match goal with |- context [rd_loop w rec r ?a ?b ?c ?d ?e ?f] =>
          specialize (IH a b c d e f H); destruct (rd_loop w rec r a b c d e f) as [o e0] end.
        cbn [fst] in *. apply Forall_app. split; [|exact IH].
        match goal with |- context [if ?c then _ else _] => destruct c end; [apply flush_bt|constructor].
Qed.

Lemma cut_at_err_Forall : forall (P : input -> Prop) ins, Forall P ins -> Forall P (fst (cut_at_err ins)).
Proof.
  intros P. induction ins as [|i r IH]; intros H; [constructor|].
  inversion H as [|? ? Hi Hr]; subst. cbn [cut_at_err].
  destruct (classify i); [| |constructor]; destruct (cut_at_err r) as [p e]; cbn [fst] in *; constructor; auto.
Qed.

Lemma cut_at_err_all : forall ins, snd (cut_at_err ins) = false -> fst (cut_at_err ins) = ins.
Proof.
  induction ins as [|i r IH]; intros H; [reflexivity|]. cbn [cut_at_err] in *.
  destruct (classify i); [| |discriminate]; destruct (cut_at_err r) as [p e]; cbn [fst snd] in *; now rewrite IH.
Qed.

Definition yield_bt (bt : nat) (y : yielded) : Prop :=
  match y with YInput _ i => i_bt i = bt | YNone => True end.

Lemma scan_file_one_block : forall w rec bt path ls,
  one_block ls = true -> Forall (yield_bt bt) (fst (fst (scan_file w rec bt path ls))).
Proof.
  intros w rec bt path ls H. unfold scan_file, read_data_rec.
  assert (Hr := rd_loop_one_block w rec ls 0 0 bt false false [] H).
  destruct (rd_loop w rec ls 0 0 bt false false []) as [ins e]. cbn [fst] in Hr.
  assert (Hc := cut_at_err_Forall _ ins Hr). destruct (cut_at_err ins) as [pre perr]. cbn [fst] in *.
  induction Hc as [|i l Hi Hl IH]; [constructor|]. cbn [map]. constructor; [|exact IH].
  unfold yield_of. destruct (classify i); cbn; auto.
Qed.

Lemma item_yields_block : forall w ft dir it,
  item_one_block ft dir it -> Forall (yield_bt (fst (fst it))) (item_yields w ft dir it).
Proof.
  intros w ft dir it H. unfold item_one_block in H. unfold item_yields, item_scan.
  destruct (ft (item_path dir it)) as [ls|]; cbn [option_map]; [|constructor].
  assert (Hs := scan_file_one_block w true (fst (fst it)) (item_path dir it) ls H).
  destruct (scan_file w true (fst (fst it)) (item_path dir it) ls) as [[ys qs] e]. exact Hs.
Qed.

Lemma block_of_ycards_all : forall b ys, Forall (yield_bt b) ys -> block_of b (ycards ys) = ycards ys.
Proof.
  intros b ys H. unfold block_of. apply filter_all. unfold ycards. apply Forall_map_intro. cbn [fst].
  induction H as [|y l Hy Hl IH]; [constructor|]. unfold inputs_of. cbn [flat_map].
  destruct y as [p i|]; cbn [List.app]; [constructor|]; auto. cbn [snd]. cbn in Hy. now apply Nat.eqb_eq.
Qed.

Lemma block_of_ycards_none : forall b b' ys, b' <> b -> Forall (yield_bt b') ys -> block_of b (ycards ys) = [].
Proof.
  intros b b' ys Hne H. unfold block_of, ycards.
  induction H as [|y l Hy Hl IH]; [reflexivity|]. unfold inputs_of. cbn [flat_map].
  destruct y as [p i|]; cbn [List.app map filter fst snd]; [|exact IH].
  cbn in Hy. rewrite Hy. apply Nat.eqb_neq in Hne. rewrite Hne. exact IH.
Qed.

Lemma block_filter_items : forall w ft dir b l,
  Forall (item_one_block ft dir) l ->
  flat_map (fun it => block_of b (ycards (item_yields w ft dir it))) l
  = flat_map (fun it => ycards (item_yields w ft dir it)) (filter (fun it => Nat.eqb (fst (fst it)) b) l).
Proof.
  intros w ft dir b l H. induction H as [|it l Hit Hl IH]; [reflexivity|]. cbn [flat_map filter].
  assert (Hb := item_yields_block w ft dir it Hit).
  destruct (Nat.eqb_spec (fst (fst it)) b) as [E|E].
  - cbn [flat_map]. rewrite <- IH. f_equal. rewrite <- E. now apply block_of_ycards_all.
  - rewrite <- IH. now rewrite (block_of_ycards_none b _ _ E Hb).
Qed.

(* block b of the whole reading: the block's own inputs, then the files of the read cards of that block type, in
   breadth-first order *)
Lemma readq_block_order : forall w ft top fuel ls ys0 q0 n b,
  ft top = Some ls ->
  scan_file w false 0 top (f_rest (read_front_matters ls)) = (ys0, q0, None) ->
  Forall (item_ok w ft (dirname top)) (bfs n w ft (dirname top) q0) ->
  Forall (item_one_block ft (dirname top)) (bfs n w ft (dirname top) q0) ->
  gen_at n w ft (dirname top) q0 = [] ->
  List.length (bfs n w ft (dirname top) q0) <= fuel ->
  block_of b (ycards (ra_yields (read_all_ft w ft top fuel)))
    = block_of b (ycards ys0) ++
      flat_map (fun it => ycards (item_yields w ft (dirname top) it))
               (filter (fun it => Nat.eqb (fst (fst it)) b) (bfs n w ft (dirname top) q0)).
Proof.
  intros * H H0 Hok Hob Hg Hlen.
  destruct (readq_order _ _ _ _ _ _ _ _ H H0 Hok Hg Hlen) as [Hy _].
  rewrite Hy, ycards_app, block_of_app, ycards_flat_map. f_equal.
  unfold block_of at 1. rewrite filter_flat_map. now apply block_filter_items.
Qed.

(* ------------------------------------------------------------------ *)
(* what is kept of the stream: everything but the read cards *)
Lemma item_ok_inputs : forall w ft dir it ys qs,
  item_scan w ft dir it = Some (ys, qs, None) ->
  inputs_of ys = map (pair (item_path dir it))
                     (filter (fun i => negb (is_name (classify i))) (item_inputs w ft dir it)).
Proof.
  intros w ft dir it ys qs H. unfold item_scan in H. unfold item_inputs.
  destruct (ft (item_path dir it)) as [ls|]; cbn [option_map] in H; [|discriminate].
  injection H as H. unfold scan_file in H.
  destruct (read_data_rec w true (fst (fst it)) ls) as [ins e]. cbn [fst].
  assert (Hall := cut_at_err_all ins). destruct (cut_at_err ins) as [pre perr]. cbn [fst snd] in Hall.
  injection H as Hy _ He. destruct perr; [discriminate|]. rewrite Hall in Hy by reflexivity. subst ys.
  apply inputs_yields.
Qed.

Lemma readq_kept : forall w ft top fuel ls ys0 q0 n,
  ft top = Some ls ->
  scan_file w false 0 top (f_rest (read_front_matters ls)) = (ys0, q0, None) ->
  Forall (item_ok w ft (dirname top)) (bfs n w ft (dirname top) q0) ->
  gen_at n w ft (dirname top) q0 = [] ->
  List.length (bfs n w ft (dirname top) q0) <= fuel ->
  inputs_of (ra_yields (read_all_ft w ft top fuel))
    = map (pair top) (filter (fun i => negb (is_name (classify i)))
                             (fst (read_data_rec w false 0 (f_rest (read_front_matters ls))))) ++
      flat_map (fun it => map (pair (item_path (dirname top) it))
                              (filter (fun i => negb (is_name (classify i))) (item_inputs w ft (dirname top) it)))
               (bfs n w ft (dirname top) q0).
Proof.
  intros * H H0 Hok Hg Hlen.
  rewrite (readq_once _ _ _ _ _ _ _ _ H H0 Hok Hg Hlen). f_equal.
  - unfold scan_file in H0. destruct (read_data_rec w false 0 (f_rest (read_front_matters ls))) as [ins e]. cbn [fst].
    assert (Hall := cut_at_err_all ins). destruct (cut_at_err ins) as [pre perr]. cbn [fst snd] in Hall.
    injection H0 as Hy _ He. destruct perr; [discriminate|]. rewrite Hall in Hy by reflexivity. subst ys0.
    apply inputs_yields.
  - eapply flat_map_ext_Forall; [exact Hok|]. intros it [ys [qs Hs]].
    rewrite (item_yields_scan _ _ _ _ _ _ _ Hs). eapply item_ok_inputs; eauto.
Qed.

Lemma ycards_no_read_card : forall ys, Forall (fun y => match y with YInput _ i => is_name (classify i) = false | YNone => True end) ys ->
  Forall (fun c => is_name (classify_lines (snd c)) = false) (ycards ys).
Proof.
  intros ys H. unfold ycards. apply Forall_map_intro. cbn [snd].
  induction H as [|y l Hy Hl IH]; [constructor|]. unfold inputs_of. cbn [flat_map].
  destruct y; cbn [List.app]; [constructor|]; auto.
Qed.

Lemma scan_file_no_read_card : forall w rec bt path ls,
  Forall (fun y => match y with YInput _ i => is_name (classify i) = false | YNone => True end)
         (fst (fst (scan_file w rec bt path ls))).
Proof.
  intros. unfold scan_file. destruct (read_data_rec w rec bt ls) as [ins e]. destruct (cut_at_err ins) as [pre perr].
  cbn [fst]. induction pre as [|i r IH]; [constructor|]. cbn [map]. constructor; [|exact IH].
  unfold yield_of. destruct (classify i) eqn:E; try exact I; rewrite E; reflexivity.
Qed.

Lemma drain_no_read_card : forall w ft dir fuel q,
  Forall (fun y => match y with YInput _ i => is_name (classify i) = false | YNone => True end)
         (fst (drain fuel ft dir w q)).
Proof.
  intros w ft dir. induction fuel as [|f IH]; intros q.
  - destruct q as [|[[bt name] par] q]; constructor.
  - destruct q as [|[[bt name] par] q]; [constructor|]. cbn [drain].
    destruct (ft (path_join dir name)) as [ls|]; [|constructor].
    assert (Hs := scan_file_no_read_card w true bt (path_join dir name) ls).
    destruct (scan_file w true bt (path_join dir name) ls) as [[ys qs] [e|]]; cbn [fst] in *; [exact Hs|].
    specialize (IH (q ++ qs)). destruct (drain f ft dir w (q ++ qs)) as [ys' e']. cbn [fst] in *.
    apply Forall_app. now split.
Qed.

(* no read card is ever handed on, whatever the files hold *)
Lemma readq_no_read_card : forall w ft top fuel,
  Forall (fun c => is_name (classify_lines (snd c)) = false) (ycards (ra_yields (read_all_ft w ft top fuel))).
Proof.
  intros. apply ycards_no_read_card. unfold read_all_ft. destruct (ft top) as [ls|]; [|constructor]. cbv zeta.
  assert (Hs := scan_file_no_read_card w false 0 top (f_rest (read_front_matters ls))).
  destruct (scan_file w false 0 top (f_rest (read_front_matters ls))) as [[ys qs] [e|]]; cbn [fst] in *; [exact Hs|].
  assert (Hd := drain_no_read_card w ft (dirname top) fuel qs).
  destruct (drain fuel ft (dirname top) w qs) as [ys' e']. cbn [fst ra_yields] in *. apply Forall_app. now split.
Qed.

(* ------------------------------------------------------------------ *)
(* concrete trees: non-vacuity of the hypotheses, and witnesses of what does not hold *)

Definition cat (l : list string) : string := String.concat "" l.

(* bytes: a top-level file with read cards in the cell and data blocks (one in upper case with a '$' comment and a
   comment line behind it), a file that reads a further file from a sub-directory, a file that ends in blank lines *)
Definition ex_fs : fsys :=
  [ ("/p/top.i", cat [L "title"; L "1 0 -1"; L "read file=c2.i"; L ""; L "1 so 5"; L ""; L "mode n"; L "read file=d1.i"; L "READ FILE = sub/d2.i $ x"; L "c behind"; L "nps 10"]);
    ("/p/c2.i", L "2 0 1");
    ("/p/d1.i", cat [L "sdef"; L "read file=sub/d3.i"]);
    ("/p/sub/d2.i", cat [L "m1 1001.80c 1"; L ""; L "  "]);
    ("/p/sub/d3.i", L "ctme 5") ].

Definition ex_ft : opener := fs_text ex_fs "/somewhere/else".
Definition ex_top : string := "/p/top.i".
Definition ex_q0 : list qitem := [(0, "c2.i", ex_top); (2, "d1.i", ex_top); (2, "sub/d2.i", ex_top)].

Lemma ex_text_hyps :
  exists ls ys0,
    ex_ft ex_top = Some ls /\
    scan_file 128 false 0 ex_top (f_rest (read_front_matters ls)) = (ys0, ex_q0, None) /\
    Forall (item_ok 128 ex_ft (dirname ex_top)) (bfs 3 128 ex_ft (dirname ex_top) ex_q0) /\
    Forall (item_one_block ex_ft (dirname ex_top)) (bfs 3 128 ex_ft (dirname ex_top) ex_q0) /\
    gen_at 3 128 ex_ft (dirname ex_top) ex_q0 = [] /\
    bfs 3 128 ex_ft (dirname ex_top) ex_q0 = ex_q0 ++ [(2, "sub/d3.i", "/p/d1.i")] /\
    List.length (bfs 3 128 ex_ft (dirname ex_top) ex_q0) <= 4.
Proof.
  eexists. eexists. split; [vm_compute; reflexivity|]. split; [vm_compute; reflexivity|].
  assert (E : bfs 3 128 ex_ft (dirname ex_top) ex_q0 = ex_q0 ++ [(2, "sub/d3.i", "/p/d1.i")]) by (vm_compute; reflexivity).
  rewrite E. split.
  { repeat constructor; eexists; eexists; vm_compute; reflexivity. }
  split. { repeat constructor; vm_compute; reflexivity. }
  split; [vm_compute; reflexivity|]. split; [reflexivity|]. vm_compute. lia.
Qed.

Lemma ex_text_result :
  ycards (ra_yields (read_all_u 128 ex_fs "/somewhere/else" ex_top 4))
  = [ (0, ["1 0 -1"]); (1, ["1 so 5"]); (2, ["mode n"]); (2, ["nps 10"]);
      (0, ["2 0 1"]); (2, ["sdef"]); (2, ["m1 1001.80c 1"]); (2, ["ctme 5"]) ]
  /\ ra_error (read_all_u 128 ex_fs "/somewhere/else" ex_top 4) = None.
Proof. split; vm_compute; reflexivity. Qed.

(* a missing target *)
Lemma ex_missing :
  exists ls ys0 q0 pre it post,
    fs_text (removelast ex_fs) "/" ex_top = Some ls /\
    scan_file 128 false 0 ex_top (f_rest (read_front_matters ls)) = (ys0, q0, None) /\
    bfs 3 128 (fs_text (removelast ex_fs) "/") (dirname ex_top) q0 = pre ++ it :: post /\
    Forall (item_ok 128 (fs_text (removelast ex_fs) "/") (dirname ex_top)) pre /\
    item_missing (fs_text (removelast ex_fs) "/") (dirname ex_top) it /\ List.length pre < 4.
Proof.
  eexists. eexists. exists ex_q0, ex_q0, (2, "sub/d3.i", "/p/d1.i"), [].
  split; [vm_compute; reflexivity|]. split; [vm_compute; reflexivity|]. split; [vm_compute; reflexivity|].
  split. { repeat constructor; eexists; eexists; vm_compute; reflexivity. }
  split; [vm_compute; reflexivity|]. vm_compute. lia.
Qed.

(* the same problem given by its cards *)
Definition ex_tsf : sfile :=
  mkS [[L "1 0 -1"]; [L "read file=c2.i"]]
      [ (L "", [[L "c in front"; L "1 so 5"]]);
        (L "", [[L "mode n"]; [L "read file=d1.i"]; [L "READ FILE = sub/d2.i $ x"; L "c behind"]; [L "nps 10"; L "     11"]]);
        (* behind the blank line that ends the data block: not looked at, the read card is not followed *)
        (L "", [[L "read file=nowhere.i"]; [L "  notes # of any kind"]]) ].
Definition ex_tree : stree :=
  [ ("/p/c2.i", mkS [[L "2 0 1"]] []);
    ("/p/d1.i", mkS [[L "sdef"]; [L "read &"; L "file sub/d3.i"]] []);
    ("/p/sub/d2.i", mkS [[L "m1 1001.80c 1"]] [(L "", []); (L "  ", [])]);
    ("/p/sub/d3.i", mkS [[L "ctme 5"]] []) ].

Lemma ex_tree_hyps :
  front_ok [L "MESSAGE: x"; L "more"; L ""; L "title"] /\ front_ok [L "title"] /\
  top_ok 128 ex_tsf = true /\ slookup ex_tree ex_top = None /\
  Forall (s_item_ok 128 ex_tree (dirname ex_top))
         (bfsG (s_children 128 ex_tree (dirname ex_top)) 3 (reads_of 128 ex_top (sfile_tcards false 0 ex_tsf))) /\
  gen_atG (s_children 128 ex_tree (dirname ex_top)) 3 (reads_of 128 ex_top (sfile_tcards false 0 ex_tsf)) = [] /\
  List.length (bfsG (s_children 128 ex_tree (dirname ex_top)) 3 (reads_of 128 ex_top (sfile_tcards false 0 ex_tsf))) = 4.
Proof.
  split. { apply (front_ok_message _ [L "more"]); reflexivity. }
  split. { apply front_ok_title. reflexivity. }
  split; [vm_compute; reflexivity|]. split; [reflexivity|].
  assert (E : bfsG (s_children 128 ex_tree (dirname ex_top)) 3 (reads_of 128 ex_top (sfile_tcards false 0 ex_tsf))
              = ex_q0 ++ [(2, "sub/d3.i", "/p/d1.i")]) by (vm_compute; reflexivity).
  rewrite E. split.
  { repeat constructor; eexists; (split; [vm_compute; reflexivity|vm_compute; reflexivity]). }
  split; vm_compute; reflexivity.
Qed.

Lemma ex_flatten :
  render (flatten 128 ex_tree ex_top ex_tsf 3)
  = [ L "1 0 -1"; L "2 0 1"; L "";
      L "c in front"; L "1 so 5"; L "";
      L "mode n"; L "nps 10"; L "     11"; L "sdef"; L "m1 1001.80c 1"; L "ctme 5" ].
Proof. vm_compute. reflexivity. Qed.

(* a sub-file with a blank line between two inputs: the second one is taken for a surface although the read card
   stood in the data block *)
Definition blank_fs : fsys :=
  [ ("/p/top.i", cat [L "t"; L "1 0 -1"; L ""; L "1 so 5"; L ""; L "read file=d.i"]);
    ("/p/d.i", cat [L "nps 10"; L ""; L "mode n"]) ].

Lemma block_refuted :
  exists w fs cwd top fuel it p i,
    ra_error (read_all w fs cwd top fuel) = None /\
    snd (fst (scan_file w false 0 top (f_rest (read_front_matters (file_lines (snd (List.hd ("", "") fs))))))) = [it] /\
    In (YInput p i) (item_yields w (fs_text fs cwd) (dirname top) it) /\
    fst (fst it) = 2 /\ i_bt i = 1 /\ i_lines i = ["mode n"].
Proof.
  exists 128, blank_fs, "/", "/p/top.i", 5, (2, "d.i", "/p/top.i"), "/p/d.i", (mkInput 1 ["mode n"] 3).
  split; [vm_compute; reflexivity|]. split; [vm_compute; reflexivity|].
  split; [vm_compute; right; left; reflexivity|]. repeat split.
Qed.

(* a sub-file that begins with a comment line: in the tree the comment stays with the sub-file's first input, in the
   flattened file it goes to the input in front of it (the inputs are the same apart from that comment line) *)
Definition lead_tsf : sfile := mkS [[L "1 0 -1"]] [(L "", [[L "1 so 5"]]); (L "", [[L "mode n"]; [L "read file=d.i"]])].
Definition lead_tree : stree := [("/p/d.i", mkS [[L "c lead"; L "nps 10"]] [])].

Lemma flatten_lead_comment_refuted :
  exists w t top front tsf n fuel,
    front_ok front /\ top_ok w tsf = true /\ slookup t top = None /\
    Forall (fun it => exists sf, slookup t (item_path (dirname top) it) = Some sf /\ sfile_ok w true sf = true /\
                                 s_more sf = [])
           (bfsG (s_children w t (dirname top)) n (reads_of w top (sfile_tcards false 0 tsf))) /\
    gen_atG (s_children w t (dirname top)) n (reads_of w top (sfile_tcards false 0 tsf)) = [] /\
    List.length (bfsG (s_children w t (dirname top)) n (reads_of w top (sfile_tcards false 0 tsf))) <= fuel /\
    ycards (ra_yields (read_all_gft w (tree_ft top (front ++ render tsf) t) "/" top fuel))
      = [(0, ["1 0 -1"]); (1, ["1 so 5"]); (2, ["mode n"]); (2, ["c lead"; "nps 10"])] /\
    ycards (ra_yields (read_single w (front ++ render (flatten w t top tsf n))))
      = [(0, ["1 0 -1"]); (1, ["1 so 5"]); (2, ["mode n"; "c lead"]); (2, ["nps 10"])].
Proof.
  exists 128, lead_tree, "/p/top.i", [L "title"], lead_tsf, 2, 1.
  split. { apply front_ok_title. reflexivity. }
  split; [vm_compute; reflexivity|]. split; [reflexivity|].
  assert (E : bfsG (s_children 128 lead_tree (dirname "/p/top.i")) 2
                (reads_of 128 "/p/top.i" (sfile_tcards false 0 lead_tsf)) = [(2, "d.i", "/p/top.i")])
    by (vm_compute; reflexivity).
  rewrite E. split.
  { constructor; [|constructor]. exists (mkS [[L "c lead"; L "nps 10"]] []).
    split; [vm_compute; reflexivity|]. split; [vm_compute; reflexivity|reflexivity]. }
  split; [vm_compute; reflexivity|]. split; [cbn; lia|]. split; vm_compute; reflexivity.
Qed.

(* a read card cycle: cy2.i holds a data input and reads itself *)
Definition cy_fs : fsys :=
  [ ("/p/top.i", cat [L "t"; L "1 0 -1"; L ""; L "1 so 5"; L ""; L "read file=cy2.i"]);
    ("/p/cy2.i", cat [L "nps 10"; L "read file=cy2.i"]) ].

Lemma cycle_example : forall cwd fuel,
  ra_error (read_all_u 128 cy_fs cwd "/p/top.i" fuel) = Some E_OutOfFuel.
Proof.
  intros cwd fuel. unfold read_all_u.
  assert (Hft : forall name, fs_text cy_fs cwd (path_join "/p" name) = fs_text cy_fs "/" (path_join "/p" name)).
  { intros name. apply fs_text_abs. now apply path_join_abs. }
  rewrite (read_all_ext (fs_text cy_fs cwd) (fs_text cy_fs "/") 128 "/p/top.i" fuel);
    [|now apply fs_text_abs|exact Hft].
  eapply (readq_cycle 128 (fs_text cy_fs "/") "/p/top.i" _ _ [(2, "cy2.i", "/p/top.i")]
            (fun it => fst it = (2, "cy2.i")) (fun it => fst it = (2, "cy2.i"))).
  - vm_compute. reflexivity.
  - vm_compute. reflexivity.
  - intros [[bt name] par] H. cbn [fst] in H. injection H as -> ->. split.
    + eexists. eexists. vm_compute. reflexivity.
    + vm_compute. repeat constructor.
  - intros [[bt name] par] H. cbn [fst] in H. injection H as -> ->. split; [reflexivity|].
    vm_compute. constructor. reflexivity.
  - repeat constructor.
  - constructor. reflexivity.
Qed.

(* ------------------------------------------------------------------ *)
(* the drain loop of the code (cycle test, commit 2963569): unless it reports a cycle it is the loop above *)
Lemma drain_g_transparent : forall ft cwd dir w fuel lin q,
  snd (drain_g fuel ft cwd dir w lin q) <> Some E_Cycle ->
  drain_g fuel ft cwd dir w lin q = drain fuel ft dir w q.
Proof.
  intros ft cwd dir w. induction fuel as [|f IH]; intros lin q H.
  - destruct q as [|[[bt name] par] q]; reflexivity.
  - destruct q as [|[[bt name] par] q]; [reflexivity|].
    cbn [drain_g drain] in *. cbv zeta in *.
    destruct (mem_str (realpath cwd (path_join dir name))
                      (lin_get lin (realpath cwd par) ++ [realpath cwd par])).
    + cbn [snd] in H. now elim H.
    + destruct (ft (path_join dir name)) as [ls|]; [|reflexivity].
      destruct (scan_file w true bt (path_join dir name) ls) as [[ys qs] [e|]]; [reflexivity|].
      match goal with |- context [drain_g f ft cwd dir w ?l ?qq] =>
        specialize (IH l qq); destruct (drain_g f ft cwd dir w l qq) as [ys' e'] end.
      cbn [snd] in *. rewrite <- IH by exact H. reflexivity.
Qed.

Lemma gft_transparent : forall w ft cwd top fuel,
  ra_error (read_all_gft w ft cwd top fuel) <> Some E_Cycle ->
  read_all_gft w ft cwd top fuel = read_all_ft w ft top fuel.
Proof.
  intros w ft cwd top fuel H. unfold read_all_gft, read_all_ft in *. cbv zeta in *.
  destruct (ft top) as [ls|]; [|reflexivity].
  destruct (scan_file w false 0 top (f_rest (read_front_matters ls))) as [[ys qs] [e|]]; [reflexivity|].
  match goal with |- context [drain_g fuel ft cwd ?d w ?l qs] =>
    assert (T := drain_g_transparent ft cwd d w fuel l qs); destruct (drain_g fuel ft cwd d w l qs) as [ys' e'] end.
  cbn [ra_error snd] in *. rewrite <- T by exact H. reflexivity.
Qed.

Lemma read_all_transparent : forall w fs cwd top fuel,
  ra_error (read_all w fs cwd top fuel) <> Some E_Cycle ->
  read_all w fs cwd top fuel = read_all_u w fs cwd top fuel.
Proof. intros. unfold read_all, read_all_u. now apply gft_transparent. Qed.

(* ------------------------------------------------------------------ *)
(* termination of the present loop: every step either ends the reading or replaces a read card by read cards
   whose files have one more distinct file among those that led to them *)
Definition Aof (cwd : string) (lin : lineage) (it : qitem) : list string :=
  lin_get lin (realpath cwd (snd it)) ++ [realpath cwd (snd it)].

Definition dist (l : list string) : nat := List.length (nodup string_dec l).

(* 1 + R + R^2 + ... + R^j *)
Fixpoint wsum (R j : nat) : nat := match j with O => 1 | S k => 1 + R * wsum R k end.

Definition pot (cwd : string) (n R : nat) (lin : lineage) (q : list qitem) : nat :=
  list_sum (map (fun it => wsum R (n - dist (Aof cwd lin it))) q).

Lemma mem_str_In : forall k l, mem_str k l = true <-> In k l.
Proof.
  intros k. induction l as [|x l IH]; cbn [mem_str In]; [split; [discriminate|tauto]|].
  rewrite orb_true_iff, IH, String.eqb_eq. tauto.
Qed.

Lemma dist_incl : forall a b, incl a b -> dist a <= dist b.
Proof.
  intros a b H. unfold dist. apply NoDup_incl_length; [apply NoDup_nodup|].
  intros x Hx. apply nodup_In. apply H. now apply nodup_In in Hx.
Qed.

Lemma dist_le_length : forall l, dist l <= List.length l.
Proof.
  unfold dist. induction l as [|x l IH]; [cbn; lia|]. cbn [nodup List.length].
  destruct (in_dec string_dec x l); cbn [List.length]; lia.
Qed.

Lemma dist_cons_notin : forall k l, ~ In k l -> dist (k :: l) = S (dist l).
Proof. intros k l H. unfold dist. cbn [nodup]. destruct (in_dec string_dec k l); [contradiction|reflexivity]. Qed.

Lemma wsum_pos : forall R j, 1 <= wsum R j.
Proof. intros R [|j]; cbn [wsum]; lia. Qed.

Lemma wsum_step : forall R j, wsum R j <= wsum R (S j).
Proof.
  intros R j. cbn [wsum]. destruct R as [|R]; [|nia].
  destruct j; cbn [wsum]; lia.
Qed.

Lemma wsum_mono : forall R j j', j <= j' -> wsum R j <= wsum R j'.
Proof. intros R j j' H. induction H; [lia|]. etransitivity; [exact IHle|apply wsum_step]. Qed.

Lemma list_sum_cons : forall x l, list_sum (x :: l) = x + list_sum l.
Proof. reflexivity. Qed.

Lemma list_sum_le : forall (A : Type) (f g : A -> nat) (l : list A),
  (forall x, In x l -> f x <= g x) -> list_sum (map f l) <= list_sum (map g l).
Proof.
  intros A f g. induction l as [|x l IH]; intros H; [cbn; lia|]. cbn [map]. rewrite !list_sum_cons.
  assert (f x <= g x) by (apply H; now left). assert (list_sum (map f l) <= list_sum (map g l)) by (apply IH; intros; apply H; now right).
  lia.
Qed.

Lemma list_sum_bound : forall (A : Type) (f : A -> nat) (b : nat) (l : list A),
  (forall x, In x l -> f x <= b) -> list_sum (map f l) <= List.length l * b.
Proof.
  intros A f b. induction l as [|x l IH]; intros H; [cbn; lia|]. cbn [map List.length]. rewrite list_sum_cons.
  assert (f x <= b) by (apply H; now left). assert (list_sum (map f l) <= List.length l * b) by (apply IH; intros; apply H; now right).
  lia.
Qed.

Lemma queue_of_parent : forall path ins c, In c (queue_of path ins) -> snd c = path.
Proof.
  intros path ins c H. unfold queue_of in H. apply in_flat_map in H as [i [_ H]].
  destruct (classify i); cbn in H; try contradiction. destruct H as [<-|[]]. reflexivity.
Qed.

Lemma scan_file_parent : forall w rec bt p ls c, In c (snd (fst (scan_file w rec bt p ls))) -> snd c = p.
Proof.
  intros w rec bt p ls c. unfold scan_file. destruct (read_data_rec w rec bt ls) as [ins e].
  destruct (cut_at_err ins) as [pre perr]. cbn [fst snd]. apply queue_of_parent.
Qed.

Lemma scan_file_err : forall w rec bt p ls, snd (scan_file w rec bt p ls) <> Some E_OutOfFuel.
Proof.
  intros w rec bt p ls. unfold scan_file. destruct (read_data_rec w rec bt ls) as [ins e].
  destruct (cut_at_err ins) as [pre perr]. cbn [snd]. destruct perr; [discriminate|]. destruct e; discriminate.
Qed.

Lemma lin_get_grows : forall lin k extra x, incl (lin_get lin x) (lin_get ((k, lin_get lin k ++ extra) :: lin) x).
Proof.
  intros lin k extra x. cbn [lin_get]. destruct (String.eqb_spec k x) as [->|_]; [apply incl_appl|]; apply incl_refl.
Qed.

Lemma drain_g_terminates : forall w ft cwd dir E R,
  (forall p ls, ft p = Some ls -> In (realpath cwd p) E) ->
  (forall bt p ls, ft p = Some ls -> List.length (snd (fst (scan_file w true bt p ls))) <= R) ->
  forall fuel lin q,
    (forall x, incl (lin_get lin x) E) ->
    Forall (fun it => In (realpath cwd (snd it)) E) q ->
    pot cwd (List.length E) R lin q <= fuel ->
    snd (drain_g fuel ft cwd dir w lin q) <> Some E_OutOfFuel.
Proof.
  intros w ft cwd dir E R HE HR. set (n := List.length E).
  induction fuel as [|f IH]; intros lin q Hlin Hq Hpot.
  - destruct q as [|it q]; [cbn; discriminate|]. exfalso.
    unfold pot in Hpot. cbn [map] in Hpot. rewrite list_sum_cons in Hpot.
    assert (P := wsum_pos R (n - dist (Aof cwd lin it))). lia.
  - destruct q as [|[[bt name] par] q']; [cbn; discriminate|].
    cbn [drain_g]. cbv zeta.
    set (p := path_join dir name). set (k := realpath cwd p).
    set (anc := lin_get lin (realpath cwd par) ++ [realpath cwd par]).
    destruct (mem_str k anc) eqn:Em; [cbn; discriminate|].
    assert (Hk : ~ In k anc) by (intros Hin; apply mem_str_In in Hin; congruence).
    destruct (ft p) as [ls|] eqn:Eft; [|cbn; discriminate].
    assert (kE : In k E) by (eapply HE; eauto).
    assert (Hsc := scan_file_err w true bt p ls).
    assert (Hpar := scan_file_parent w true bt p ls).
    assert (HRp := HR bt p ls Eft).
    destruct (scan_file w true bt p ls) as [[ys qs] [e|]]; cbn [fst snd] in *; [exact Hsc|].
    inversion Hq as [|? ? Hpk Hq']; subst. cbn [snd] in Hpk.
    assert (ancE : incl anc E).
    { unfold anc. apply incl_app; [apply Hlin|]. intros x [<-|[]]. exact Hpk. }
    assert (Ha : S (dist anc) <= n).
    { rewrite <- (dist_cons_notin k anc Hk). etransitivity; [|apply dist_le_length].
      apply dist_incl. intros x [<-|Hx]; [exact kE|now apply ancE]. }
    match goal with |- context [drain_g f ?a1 ?a2 ?a3 ?a4 ?l ?qq] =>
      set (lin' := l); specialize (IH lin' qq); destruct (drain_g f a1 a2 a3 a4 lin' qq) as [ys' e'] end.
    cbn [snd] in *. apply IH.
    + intros x. unfold lin'. cbn [lin_get]. destruct (String.eqb k x); [|apply Hlin].
      apply incl_app; [apply Hlin|exact ancE].
    + apply Forall_app. split; [exact Hq'|]. apply Forall_forall. intros c Hc. rewrite (Hpar c Hc). exact kE.
    + unfold pot in *. rewrite map_app, list_sum_app. cbn [map] in Hpot. rewrite list_sum_cons in Hpot.
      change (Aof cwd lin (bt, name, par)) with anc in Hpot.
      assert (H1 : list_sum (map (fun it => wsum R (n - dist (Aof cwd lin' it))) q')
                   <= list_sum (map (fun it => wsum R (n - dist (Aof cwd lin it))) q')).
      { apply list_sum_le. intros x _. apply wsum_mono.
        assert (dist (Aof cwd lin x) <= dist (Aof cwd lin' x)); [|lia].
        apply dist_incl. unfold Aof. apply incl_app; [|apply incl_appr, incl_refl].
        apply incl_appl. apply lin_get_grows. }
      assert (H2 : list_sum (map (fun it => wsum R (n - dist (Aof cwd lin' it))) qs)
                   <= List.length qs * wsum R (n - S (dist anc))).
      { apply list_sum_bound. intros c Hc. apply wsum_mono.
        assert (S (dist anc) <= dist (Aof cwd lin' c)); [|lia].
        rewrite <- (dist_cons_notin k anc Hk). apply dist_incl.
        unfold Aof. rewrite (Hpar c Hc). fold k. unfold lin'. cbn [lin_get]. rewrite String.eqb_refl.
        intros x [<-|Hx]; [apply in_or_app; right; now left|].
        apply in_or_app. left. apply in_or_app. now right. }
      assert (H3 : wsum R (n - dist anc) = 1 + R * wsum R (n - S (dist anc))).
      { replace (n - dist anc) with (S (n - S (dist anc))) by lia. reflexivity. }
      assert (H4 : List.length qs * wsum R (n - S (dist anc)) <= R * wsum R (n - S (dist anc))) by nia.
      lia.
Qed.

(* every file yields at most as many read cards as it has lines *)
Lemma rd_loop_count : forall w rec ls ln bc bt cont hnc raw,
  List.length (fst (rd_loop w rec ls ln bc bt cont hnc raw))
  <= List.length ls + (if nonempty raw then 1 else 0).
Proof.
  intros w rec. induction ls as [|l r IH]; intros ln bc bt cont hnc raw.
  - cbn [rd_loop fst List.length]. unfold flush. destruct (nonempty raw); cbn; lia.
  - cbn [rd_loop]. cbv zeta. cbn [List.length].
    assert (Hf : forall n0, List.length (flush bt raw n0) <= (if nonempty raw then 1 else 0))
      by (intros n0; unfold flush; destruct (nonempty raw); cbn; lia).
    destruct (all_space (expandtabs TABSIZE l)).
    + destruct (andb (Nat.leb 3 (S bc)) (negb rec)); [cbn [fst]; specialize (Hf (S ln)); lia|].
      match goal with |- context [rd_loop w rec r ?a ?b ?c ?d ?e ?f] =>
        specialize (IH a b c d e f); destruct (rd_loop w rec r a b c d e f) as [o e0] end.
      cbn [fst nonempty] in *. rewrite app_length. specialize (Hf (S ln)). lia.
    + match goal with |- context [if ?c then (?p, Some UnsupportedFeature) else _] => destruct c end.
      * cbn [fst]. match goal with |- List.length (if ?c then _ else _) <= _ => destruct c end;
          [specialize (Hf (S ln)); lia|cbn; lia].
      * match goal with |- context [rd_loop w rec r ?a ?b ?c ?d ?e ?f] =>
          specialize (IH a b c d e f); destruct (rd_loop w rec r a b c d e f) as [o e0] end.
        cbn [fst] in *. rewrite app_length.
        assert (Hne : forall (x : list string) y, nonempty (x ++ [y]) = true) by (intros [|? ?] ?; reflexivity).
        rewrite Hne in IH.
        match goal with |- List.length (if ?c then _ else _) + _ <= _ => destruct c eqn:Ec end.
        -- specialize (Hf (S ln)).
           assert (nonempty raw = true) by (repeat (apply andb_true_iff in Ec as [_ Ec]); exact Ec).
           rewrite H in *. lia.
        -- cbn [List.length]. lia.
Qed.

Lemma cut_at_err_length : forall ins, List.length (fst (cut_at_err ins)) <= List.length ins.
Proof.
  induction ins as [|i r IH]; [cbn; lia|]. cbn [cut_at_err].
  destruct (classify i); [| |cbn; lia]; destruct (cut_at_err r) as [p e]; cbn [fst List.length] in *; lia.
Qed.

Lemma queue_of_length : forall path ins, List.length (queue_of path ins) <= List.length ins.
Proof.
  intros path. induction ins as [|i r IH]; [cbn; lia|]. unfold queue_of in *. cbn [flat_map].
  rewrite app_length. cbn [List.length]. destruct (classify i); simpl List.length; cbn [Nat.add];
    [apply le_S|apply le_n_S|apply le_S]; exact IH.
Qed.

Lemma scan_file_count : forall w rec bt p ls,
  List.length (snd (fst (scan_file w rec bt p ls))) <= List.length ls.
Proof.
  intros. unfold scan_file, read_data_rec.
  assert (H := rd_loop_count w rec ls 0 0 bt false false []). cbn [nonempty] in H.
  destruct (rd_loop w rec ls 0 0 bt false false []) as [ins e]. cbn [fst] in H.
  assert (H1 := cut_at_err_length ins). destruct (cut_at_err ins) as [pre perr]. cbn [fst snd] in *.
  assert (H2 := queue_of_length p pre). lia.
Qed.

Lemma message_loop_rest : forall ls acc, List.length (f_rest (message_loop ls acc)) <= List.length ls.
Proof.
  induction ls as [|l r IH]; intros acc; [cbn; lia|]. cbn [message_loop].
  destruct (all_space l).
  - destruct r; cbn [f_rest List.length]; lia.
  - specialize (IH (acc ++ [rstrip l])). cbn [List.length]. lia.
Qed.

Lemma front_rest_length : forall ls, List.length (f_rest (read_front_matters ls)) <= List.length ls.
Proof.
  intros [|l r]; [cbn; lia|]. cbn [read_front_matters].
  destruct (String.prefix "MESSAGE:" (upper l)); [|cbn [f_rest List.length]; lia].
  assert (H := message_loop_rest r [rstrip (dropS 9 l)]). cbn [List.length]. lia.
Qed.

(* the keys (os.path.realpath) of the files that exist *)
Definition norm_key (x : string) : string := "/" ++ join "/" (norm_segs (split_on "/"%char x) []).
Definition fs_keys (fs : fsys) : list string := map (fun kv => norm_key (fst kv)) fs.
Definition max_lines (fs : fsys) : nat := list_max (map (fun kv => List.length (file_lines (snd kv))) fs).

Lemma lookup_In : forall fs p v, lookup fs p = Some v -> In (p, v) fs.
Proof.
  induction fs as [|[k x] r IH]; intros p v H; [discriminate|]. cbn [lookup] in H.
  destruct (String.eqb_spec k p) as [->|_]; [injection H as ->; now left|right; now apply IH].
Qed.

Lemma fs_text_key : forall fs cwd p ls, fs_text fs cwd p = Some ls -> In (realpath cwd p) (fs_keys fs).
Proof.
  intros fs cwd p ls H. unfold fs_text, fs_open in H.
  destruct (lookup fs (abs_path cwd p)) as [v|] eqn:E; [|discriminate].
  apply lookup_In in E. unfold fs_keys. apply in_map_iff. exists (abs_path cwd p, v). split; [reflexivity|exact E].
Qed.

Lemma fs_text_lines : forall fs cwd p ls, fs_text fs cwd p = Some ls -> List.length ls <= max_lines fs.
Proof.
  intros fs cwd p ls H. unfold fs_text, fs_open in H.
  destruct (lookup fs (abs_path cwd p)) as [v|] eqn:E; [|discriminate]. cbn [option_map] in H. injection H as <-.
  apply lookup_In in E. unfold max_lines.
  assert (F := proj1 (list_max_le (map (fun kv => List.length (file_lines (snd kv))) fs) _) (le_n _)).
  rewrite Forall_forall in F. apply F. apply in_map_iff. exists (abs_path cwd p, v). split; [reflexivity|exact E].
Qed.

(* termination: with R = the largest number of lines of a file and n = the number of files, R (1 + R + ... + R^n)
   units of fuel are enough for every file system, every top-level file and every working directory *)
Theorem readq_terminates : forall w fs cwd top fuel,
  max_lines fs * wsum (max_lines fs) (List.length fs) <= fuel ->
  ra_error (read_all w fs cwd top fuel) <> Some E_OutOfFuel.
Proof.
  intros w fs cwd top fuel Hfuel. unfold read_all, read_all_gft. cbv zeta.
  destruct (fs_text fs cwd top) as [ls|] eqn:Et; [|cbn; discriminate].
  assert (Hs := scan_file_err w false 0 top (f_rest (read_front_matters ls))).
  assert (Hp := scan_file_parent w false 0 top (f_rest (read_front_matters ls))).
  assert (Hc := scan_file_count w false 0 top (f_rest (read_front_matters ls))).
  destruct (scan_file w false 0 top (f_rest (read_front_matters ls))) as [[ys qs] [e|]]; cbn [fst snd ra_error] in *;
    [exact Hs|].
  set (R := max_lines fs) in *. set (E := fs_keys fs).
  assert (HT := drain_g_terminates w (fs_text fs cwd) cwd (dirname top) E R (fs_text_key fs cwd)).
  assert (HR : forall bt p ls0, fs_text fs cwd p = Some ls0 ->
                 List.length (snd (fst (scan_file w true bt p ls0))) <= R).
  { intros bt p ls0 H0. etransitivity; [apply scan_file_count|]. eapply fs_text_lines; eauto. }
  specialize (HT HR fuel [(realpath cwd top, [])] qs).
  destruct (drain_g fuel (fs_text fs cwd) cwd (dirname top) w [(realpath cwd top, [])] qs) as [ys' e'].
  cbn [ra_error snd] in *. apply HT.
  - intros x. cbn [lin_get]. destruct (String.eqb (realpath cwd top) x); intros y [].
  - apply Forall_forall. intros c Hin. rewrite (Hp c Hin). eapply fs_text_key; eauto.
  - unfold pot. etransitivity; [|exact Hfuel].
    etransitivity; [apply (list_sum_bound _ _ (wsum R (List.length E)))|].
    + intros c _. apply wsum_mono. lia.
    + unfold E, fs_keys. rewrite map_length.
      assert (List.length qs <= R).
      { etransitivity; [exact Hc|]. etransitivity; [apply front_rest_length|]. eapply fs_text_lines; eauto. }
      nia.
Qed.

(* ------------------------------------------------------------------ *)
(* the statements about the order of the stream, for the present reader *)
Ltac via_transparency := intros; rewrite gft_transparent by assumption.

Lemma g_order : forall w ft cwd top fuel ls ys0 q0 n,
  ft top = Some ls ->
  scan_file w false 0 top (f_rest (read_front_matters ls)) = (ys0, q0, None) ->
  Forall (item_ok w ft (dirname top)) (bfs n w ft (dirname top) q0) ->
  gen_at n w ft (dirname top) q0 = [] ->
  List.length (bfs n w ft (dirname top) q0) <= fuel ->
  ra_error (read_all_gft w ft cwd top fuel) <> Some E_Cycle ->
  ra_yields (read_all_gft w ft cwd top fuel)
    = ys0 ++ flat_map (item_yields w ft (dirname top)) (bfs n w ft (dirname top) q0)
  /\ ra_error (read_all_gft w ft cwd top fuel) = None.
Proof. via_transparency. eapply readq_order; eauto. Qed.

Lemma g_once : forall w ft cwd top fuel ls ys0 q0 n,
  ft top = Some ls ->
  scan_file w false 0 top (f_rest (read_front_matters ls)) = (ys0, q0, None) ->
  Forall (item_ok w ft (dirname top)) (bfs n w ft (dirname top) q0) ->
  gen_at n w ft (dirname top) q0 = [] ->
  List.length (bfs n w ft (dirname top) q0) <= fuel ->
  ra_error (read_all_gft w ft cwd top fuel) <> Some E_Cycle ->
  inputs_of (ra_yields (read_all_gft w ft cwd top fuel))
    = inputs_of ys0 ++
      flat_map (fun it => inputs_of (item_yields w ft (dirname top) it)) (bfs n w ft (dirname top) q0).
Proof. via_transparency. eapply readq_once; eauto. Qed.

Lemma g_block_order : forall w ft cwd top fuel ls ys0 q0 n b,
  ft top = Some ls ->
  scan_file w false 0 top (f_rest (read_front_matters ls)) = (ys0, q0, None) ->
  Forall (item_ok w ft (dirname top)) (bfs n w ft (dirname top) q0) ->
  Forall (item_one_block ft (dirname top)) (bfs n w ft (dirname top) q0) ->
  gen_at n w ft (dirname top) q0 = [] ->
  List.length (bfs n w ft (dirname top) q0) <= fuel ->
  ra_error (read_all_gft w ft cwd top fuel) <> Some E_Cycle ->
  block_of b (ycards (ra_yields (read_all_gft w ft cwd top fuel)))
    = block_of b (ycards ys0) ++
      flat_map (fun it => ycards (item_yields w ft (dirname top) it))
               (filter (fun it => Nat.eqb (fst (fst it)) b) (bfs n w ft (dirname top) q0)).
Proof. via_transparency. eapply readq_block_order; eauto. Qed.

Lemma g_missing : forall w ft cwd top fuel ls ys0 q0 n pre it post,
  ft top = Some ls ->
  scan_file w false 0 top (f_rest (read_front_matters ls)) = (ys0, q0, None) ->
  bfs n w ft (dirname top) q0 = pre ++ it :: post ->
  Forall (item_ok w ft (dirname top)) pre -> item_missing ft (dirname top) it ->
  List.length pre < fuel ->
  ra_error (read_all_gft w ft cwd top fuel) <> Some E_Cycle ->
  ra_error (read_all_gft w ft cwd top fuel) = Some E_FileNotFound /\
  ra_yields (read_all_gft w ft cwd top fuel) = ys0 ++ flat_map (item_yields w ft (dirname top)) pre.
Proof. via_transparency. eapply readq_missing; eauto. Qed.

Lemma g_missing_top : forall w ft cwd top fuel,
  ft top = None -> ra_error (read_all_gft w ft cwd top fuel) = Some E_FileNotFound.
Proof. intros * H. unfold read_all_gft. now rewrite H. Qed.

Lemma g_kept : forall w ft cwd top fuel ls ys0 q0 n,
  ft top = Some ls ->
  scan_file w false 0 top (f_rest (read_front_matters ls)) = (ys0, q0, None) ->
  Forall (item_ok w ft (dirname top)) (bfs n w ft (dirname top) q0) ->
  gen_at n w ft (dirname top) q0 = [] ->
  List.length (bfs n w ft (dirname top) q0) <= fuel ->
  ra_error (read_all_gft w ft cwd top fuel) <> Some E_Cycle ->
  inputs_of (ra_yields (read_all_gft w ft cwd top fuel))
    = map (pair top) (filter (fun i => negb (is_name (classify i)))
                             (fst (read_data_rec w false 0 (f_rest (read_front_matters ls))))) ++
      flat_map (fun it => map (pair (item_path (dirname top) it))
                              (filter (fun i => negb (is_name (classify i))) (item_inputs w ft (dirname top) it)))
               (bfs n w ft (dirname top) q0).
Proof. via_transparency. eapply readq_kept; eauto. Qed.

Lemma drain_g_no_read_card : forall w ft cwd dir fuel lin q,
  Forall (fun y => match y with YInput _ i => is_name (classify i) = false | YNone => True end)
         (fst (drain_g fuel ft cwd dir w lin q)).
Proof.
  intros w ft cwd dir. induction fuel as [|f IH]; intros lin q.
  - destruct q as [|[[bt name] par] q]; constructor.
  - destruct q as [|[[bt name] par] q]; [constructor|]. cbn [drain_g]. cbv zeta.
    match goal with |- context [if ?c then _ else _] => destruct c end; [constructor|].
    destruct (ft (path_join dir name)) as [ls|]; [|constructor].
    assert (Hs := scan_file_no_read_card w true bt (path_join dir name) ls).
    destruct (scan_file w true bt (path_join dir name) ls) as [[ys qs] [e|]]; cbn [fst] in *; [exact Hs|].
    match goal with |- context [drain_g f ft cwd dir w ?l ?qq] =>
      specialize (IH l qq); destruct (drain_g f ft cwd dir w l qq) as [ys' e'] end.
    cbn [fst] in *. apply Forall_app. now split.
Qed.

Lemma g_no_read_card : forall w ft cwd top fuel,
  Forall (fun c => is_name (classify_lines (snd c)) = false) (ycards (ra_yields (read_all_gft w ft cwd top fuel))).
Proof.
  intros. apply ycards_no_read_card. unfold read_all_gft. destruct (ft top) as [ls|]; [|constructor]. cbv zeta.
  assert (Hs := scan_file_no_read_card w false 0 top (f_rest (read_front_matters ls))).
  destruct (scan_file w false 0 top (f_rest (read_front_matters ls))) as [[ys qs] [e|]]; cbn [fst] in *; [exact Hs|].
  match goal with |- context [drain_g fuel ft cwd ?d w ?l qs] =>
    assert (Hd := drain_g_no_read_card w ft cwd d fuel l qs); destruct (drain_g fuel ft cwd d w l qs) as [ys' e'] end.
  cbn [fst ra_yields] in *. apply Forall_app. now split.
Qed.

(* working directory *)
Lemma realpath_abs : forall cwd cwd' p, is_abs p = true -> realpath cwd p = realpath cwd' p.
Proof. intros cwd cwd' p H. unfold realpath, abs_path. now rewrite H. Qed.

Lemma drain_g_cwd : forall ft ft' cwd cwd' dir w,
  is_abs dir = true ->
  (forall name, ft (path_join dir name) = ft' (path_join dir name)) ->
  forall fuel lin q, Forall (fun it : qitem => is_abs (snd it) = true) q ->
  drain_g fuel ft cwd dir w lin q = drain_g fuel ft' cwd' dir w lin q.
Proof.
  intros ft ft' cwd cwd' dir w Hdir Hext. induction fuel as [|f IH]; intros lin q Hq.
  - destruct q as [|[[bt name] par] q]; reflexivity.
  - destruct q as [|[[bt name] par] q]; [reflexivity|].
    inversion Hq as [|? ? Hpar Hq']; subst. cbn [snd] in Hpar.
    cbn [drain_g]. cbv zeta. rewrite <- Hext.
    rewrite (realpath_abs cwd cwd' par Hpar).
    rewrite (realpath_abs cwd cwd' (path_join dir name) (path_join_abs dir name Hdir)).
    match goal with |- context [if ?c then _ else _] => destruct c end; [reflexivity|].
    destruct (ft (path_join dir name)) as [ls|]; [|reflexivity].
    assert (Hp := scan_file_parent w true bt (path_join dir name) ls).
    destruct (scan_file w true bt (path_join dir name) ls) as [[ys qs] [e|]]; [reflexivity|]. cbn [fst snd] in Hp.
    rewrite IH; [reflexivity|]. apply Forall_app. split; [exact Hq'|].
    apply Forall_forall. intros c Hc. rewrite (Hp c Hc). now apply path_join_abs.
Qed.

Lemma g_cwd_free : forall w fs cwd cwd' top fuel,
  is_abs top = true -> read_all w fs cwd top fuel = read_all w fs cwd' top fuel.
Proof.
  intros * H. unfold read_all, read_all_gft. cbv zeta. rewrite (fs_text_abs fs cwd cwd' top H).
  destruct (fs_text fs cwd' top) as [ls|]; [|reflexivity].
  assert (Hp := scan_file_parent w false 0 top (f_rest (read_front_matters ls))).
  destruct (scan_file w false 0 top (f_rest (read_front_matters ls))) as [[ys qs] [e|]]; [reflexivity|]. cbn [fst snd] in Hp.
  rewrite (realpath_abs cwd cwd' top H).
  rewrite (drain_g_cwd (fs_text fs cwd) (fs_text fs cwd') cwd cwd' (dirname top) w); [reflexivity| | |].
  - now apply dirname_abs.
  - intros name. apply fs_text_abs. apply path_join_abs. now apply dirname_abs.
  - apply Forall_forall. intros c Hc. now rewrite (Hp c Hc).
Qed.

(* examples for the present reader *)
Lemma ex_g_result :
  ycards (ra_yields (read_all 128 ex_fs "/somewhere/else" ex_top 4))
  = [ (0, ["1 0 -1"]); (1, ["1 so 5"]); (2, ["mode n"]); (2, ["nps 10"]);
      (0, ["2 0 1"]); (2, ["sdef"]); (2, ["m1 1001.80c 1"]); (2, ["ctme 5"]) ]
  /\ ra_error (read_all 128 ex_fs "/somewhere/else" ex_top 4) = None.
Proof. split; vm_compute; reflexivity. Qed.

Lemma cycle_reported :
  forall fuel, 2 <= fuel ->
  ra_error (read_all 128 cy_fs "/" "/p/top.i" fuel) = Some E_Cycle /\
  ycards (ra_yields (read_all 128 cy_fs "/" "/p/top.i" fuel)) = [(0, ["1 0 -1"]); (1, ["1 so 5"]); (2, ["nps 10"])].
Proof.
  intros [|[|fuel]] H; try lia. split; vm_compute; reflexivity.
Qed.

Lemma guard_quiet_example :
  let fs := [ ("/p/top.i", cat [L "t"; L "1 0 -1"; L ""; L "1 so 5"; L ""; L "read file=a.i"; L "read file=sub/../a.i"]);
              ("/p/a.i", cat [L "c only a comment"]); ("/p/sub/../a.i", cat [L "c only a comment"]) ] in
  ra_error (read_all 128 fs "/" "/p/top.i" 3) = None /\
  read_all 128 fs "/" "/p/top.i" 3 = read_all_u 128 fs "/" "/p/top.i" 3.
Proof. split; vm_compute; reflexivity. Qed.

Lemma g_flatten : forall w t top front tsf n cwd,
  front_ok front ->
  top_ok w tsf = true ->
  slookup t top = None ->
  Forall (s_item_ok w t (dirname top))
         (bfsG (s_children w t (dirname top)) n (reads_of w top (sfile_tcards false 0 tsf))) ->
  forall fuel,
  gen_atG (s_children w t (dirname top)) n (reads_of w top (sfile_tcards false 0 tsf)) = [] ->
  List.length (bfsG (s_children w t (dirname top)) n (reads_of w top (sfile_tcards false 0 tsf))) <= fuel ->
  ra_error (read_all_gft w (tree_ft top (front ++ render tsf) t) cwd top fuel) <> Some E_Cycle ->
  let r := read_all_gft w (tree_ft top (front ++ render tsf) t) cwd top fuel in
  let r1 := read_single w (front ++ render (flatten w t top tsf n)) in
  ra_error r = None /\ ra_error r1 = None /\
  by_blocks (ycards (ra_yields r)) = ycards (ra_yields r1) /\
  ra_message r = ra_message r1 /\ ra_title r = ra_title r1.
Proof.
  intros * Hf Ht Hfr Hit fuel Hg Hl Hc. cbv zeta. rewrite gft_transparent by exact Hc.
  exact (readq_flatten w t top front tsf n Hf Ht Hfr Hit fuel Hg Hl).
Qed.

Lemma ex_tree_no_cycle_report :
  ra_error (read_all_gft 128 (tree_ft ex_top ([L "title"] ++ render ex_tsf) ex_tree) "/elsewhere" ex_top 4) = None.
Proof. vm_compute. reflexivity. Qed.
