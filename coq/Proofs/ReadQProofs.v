(* ReadQProofs.v — lemmas and proofs about the read-card queue model Model/ReadQ.v (property C20).
   No axioms, no admits. *)
From Coq Require Import List String Ascii Arith Bool Lia.
From MPV Require Import Model.Wire Model.Lines Model.ReadQ.
Import ListNotations.
Open Scope string_scope.
Open Scope list_scope.

(* a line of text with its line feed *)
Definition L (s : string) : string := (s ++ String nl "")%string.

(* ------------------------------------------------------------------ *)
(* one step of the drain loop *)

Lemma drain_nil : forall fuel fs cwd dir w, drain fuel fs cwd dir w [] = ([], None).
Proof. destruct fuel; reflexivity. Qed.

Lemma item_scan_eq : forall w fs cwd dir bt name par,
  item_scan w fs cwd dir (bt, name, par) =
  option_map (scan_file w bt (path_join dir name)) (fs_text fs cwd (path_join dir name)).
Proof. reflexivity. Qed.

Lemma item_yields_scan : forall w fs cwd dir it ys qs e,
  item_scan w fs cwd dir it = Some (ys, qs, e) -> item_yields w fs cwd dir it = ys.
Proof. intros * H. unfold item_yields. now rewrite H. Qed.

Lemma item_children_scan : forall w fs cwd dir it ys qs e,
  item_scan w fs cwd dir it = Some (ys, qs, e) -> item_children w fs cwd dir it = qs.
Proof. intros * H. unfold item_children. now rewrite H. Qed.

Lemma drain_step_ok : forall f fs cwd dir w it q ys qs,
  item_scan w fs cwd dir it = Some (ys, qs, None) ->
  drain (S f) fs cwd dir w (it :: q) =
    (ys ++ fst (drain f fs cwd dir w (q ++ qs)), snd (drain f fs cwd dir w (q ++ qs))).
Proof.
  intros f fs cwd dir w [[bt name] par] q ys qs H.
  rewrite item_scan_eq in H. cbn [drain].
  destruct (fs_text fs cwd (path_join dir name)) as [ls|]; cbn [option_map] in H; [|discriminate].
  injection H as H. rewrite H.
  destruct (drain f fs cwd dir w (q ++ qs)) as [ys' e']. reflexivity.
Qed.

Lemma drain_step_missing : forall f fs cwd dir w bt name par q,
  fs_text fs cwd (path_join dir name) = None ->
  drain (S f) fs cwd dir w ((bt, name, par) :: q) = ([], Some E_FileNotFound).
Proof. intros * H. cbn [drain]. now rewrite H. Qed.

Lemma drain_out_of_fuel : forall fs cwd dir w it q,
  drain 0 fs cwd dir w (it :: q) = ([], Some E_OutOfFuel).
Proof. intros fs cwd dir w [[bt name] par] q. reflexivity. Qed.

(* ------------------------------------------------------------------ *)
(* a whole generation: the queue holds [cur] followed by the children of the items already done *)

Lemma drain_level : forall w fs cwd dir cur fuel rest,
  Forall (item_ok w fs cwd dir) cur -> List.length cur <= fuel ->
  drain fuel fs cwd dir w (cur ++ rest) =
    (flat_map (item_yields w fs cwd dir) cur ++
       fst (drain (fuel - List.length cur) fs cwd dir w (rest ++ next_gen w fs cwd dir cur)),
     snd (drain (fuel - List.length cur) fs cwd dir w (rest ++ next_gen w fs cwd dir cur))).
Proof.
  intros w fs cwd dir. induction cur as [|it cur IH]; intros fuel rest Hok Hlen.
  - cbn [List.length flat_map next_gen List.app]. rewrite Nat.sub_0_r, app_nil_r.
    destruct (drain fuel fs cwd dir w rest); reflexivity.
  - inversion Hok as [|? ? [ys [qs Hit]] Hok']; subst. cbn [List.length] in *.
    destruct fuel as [|f]; [lia|].
    rewrite <- app_comm_cons. rewrite (drain_step_ok _ _ _ _ _ _ _ _ _ Hit).
    rewrite <- app_assoc. rewrite IH by (auto; lia).
    cbn [fst snd Nat.sub]. unfold next_gen. cbn [flat_map].
    rewrite (item_yields_scan _ _ _ _ _ _ _ _ Hit), (item_children_scan _ _ _ _ _ _ _ _ Hit).
    rewrite <- !app_assoc. reflexivity.
Qed.

(* the whole drain: level order *)
Lemma drain_bfs : forall w fs cwd dir n q fuel,
  Forall (item_ok w fs cwd dir) (bfs n w fs cwd dir q) ->
  gen_at n w fs cwd dir q = [] ->
  List.length (bfs n w fs cwd dir q) <= fuel ->
  drain fuel fs cwd dir w q = (flat_map (item_yields w fs cwd dir) (bfs n w fs cwd dir q), None).
Proof.
  intros w fs cwd dir. induction n as [|n IH]; intros q fuel Hok Hg Hlen; cbn [bfs gen_at] in *.
  - subst q. apply drain_nil.
  - apply Forall_app in Hok as [Hq Hr]. rewrite app_length in Hlen.
    rewrite <- (app_nil_r q) at 1. rewrite drain_level by (auto; lia).
    cbn [List.app]. rewrite (IH _ _ Hr Hg) by lia. cbn [fst snd]. rewrite flat_map_app. reflexivity.
Qed.

(* read_all = main file, then the drain *)
Lemma read_all_ok : forall w fs cwd top fuel ls ys0 q0,
  fs_text fs cwd top = Some ls ->
  scan_file w 0 top (f_rest (read_front_matters ls)) = (ys0, q0, None) ->
  ra_yields (read_all w fs cwd top fuel) = ys0 ++ fst (drain fuel fs cwd (dirname top) w q0) /\
  ra_error (read_all w fs cwd top fuel) = snd (drain fuel fs cwd (dirname top) w q0).
Proof.
  intros * H H0. unfold read_all. rewrite H. cbv beta iota zeta. rewrite H0.
  destruct (drain fuel fs cwd (dirname top) w q0). split; reflexivity.
Qed.

Lemma readq_order : forall w fs cwd top fuel ls ys0 q0 n,
  fs_text fs cwd top = Some ls ->
  scan_file w 0 top (f_rest (read_front_matters ls)) = (ys0, q0, None) ->
  Forall (item_ok w fs cwd (dirname top)) (bfs n w fs cwd (dirname top) q0) ->
  gen_at n w fs cwd (dirname top) q0 = [] ->
  List.length (bfs n w fs cwd (dirname top) q0) <= fuel ->
  ra_yields (read_all w fs cwd top fuel)
    = ys0 ++ flat_map (item_yields w fs cwd (dirname top)) (bfs n w fs cwd (dirname top) q0)
  /\ ra_error (read_all w fs cwd top fuel) = None.
Proof.
  intros * H H0 Hok Hg Hlen.
  destruct (read_all_ok w fs cwd top fuel ls ys0 q0 H H0) as [Hy He].
  rewrite Hy, He, (drain_bfs _ _ _ _ _ _ _ Hok Hg Hlen). split; reflexivity.
Qed.

(* ------------------------------------------------------------------ *)
(* inputs_of *)

Lemma inputs_of_app : forall a b, inputs_of (a ++ b) = inputs_of a ++ inputs_of b.
Proof. intros. unfold inputs_of. apply flat_map_app. Qed.

Lemma inputs_of_flat_map : forall (A : Type) (f : A -> list yielded) (l : list A),
  inputs_of (flat_map f l) = flat_map (fun x => inputs_of (f x)) l.
Proof.
  intros A f. induction l as [|x l IH]; cbn [flat_map]; [reflexivity|].
  now rewrite inputs_of_app, IH.
Qed.

Lemma readq_once : forall w fs cwd top fuel ls ys0 q0 n,
  fs_text fs cwd top = Some ls ->
  scan_file w 0 top (f_rest (read_front_matters ls)) = (ys0, q0, None) ->
  Forall (item_ok w fs cwd (dirname top)) (bfs n w fs cwd (dirname top) q0) ->
  gen_at n w fs cwd (dirname top) q0 = [] ->
  List.length (bfs n w fs cwd (dirname top) q0) <= fuel ->
  inputs_of (ra_yields (read_all w fs cwd top fuel))
    = inputs_of ys0 ++
      flat_map (fun it => inputs_of (item_yields w fs cwd (dirname top) it)) (bfs n w fs cwd (dirname top) q0).
Proof.
  intros * H H0 Hok Hg Hlen.
  destruct (readq_order _ _ _ _ _ _ _ _ _ H H0 Hok Hg Hlen) as [Hy _].
  now rewrite Hy, inputs_of_app, inputs_of_flat_map.
Qed.

(* ------------------------------------------------------------------ *)
(* a cycle of read cards exhausts every fuel *)

Lemma readq_cycle_diverges : forall w fs cwd dir (good S : qitem -> Prop),
  (forall it, good it -> item_ok w fs cwd dir it /\ Forall good (item_children w fs cwd dir it)) ->
  (forall it, S it -> good it /\ Exists S (item_children w fs cwd dir it)) ->
  forall fuel q, Forall good q -> Exists S q -> snd (drain fuel fs cwd dir w q) = Some E_OutOfFuel.
Proof.
  intros w fs cwd dir good S Hgood HS. induction fuel as [|f IH]; intros q Hq Hex.
  - destruct q as [|it q]; [inversion Hex|]. now rewrite drain_out_of_fuel.
  - destruct q as [|it q]; [inversion Hex|].
    inversion Hq as [|? ? Hit Hq']; subst.
    destruct (Hgood _ Hit) as [[ys [qs Hscan]] Hch].
    rewrite (item_children_scan _ _ _ _ _ _ _ _ Hscan) in Hch.
    rewrite (drain_step_ok _ _ _ _ _ _ _ _ _ Hscan). cbn [snd].
    apply IH.
    + apply Forall_app. now split.
    + apply Exists_app. inversion Hex as [? ? HSit|? ? Hex']; subst.
      * right. destruct (HS _ HSit) as [_ Hc].
        now rewrite (item_children_scan _ _ _ _ _ _ _ _ Hscan) in Hc.
      * now left.
Qed.
