(* WrapProofs.v — lemmas and proofs about the line-wrapping model Model/Wrap.v (property C10).
   No axioms, no admits. *)
From Coq Require Import List String Ascii Arith Bool Lia.
From MPV Require Import Model.Wire Model.Wrap.
Import ListNotations.
Open Scope string_scope.

Definition nonempty (s : string) : Prop := s <> "".

(* ------------------------------------------------------------------ *)
(* Strings: basics *)

Lemma app_nil_r_s : forall s : string, s ++ "" = s.
Proof. induction s as [|a s IH]; simpl; [reflexivity | now rewrite IH]. Qed.

Lemma app_assoc_s : forall a b c : string, (a ++ b) ++ c = a ++ (b ++ c).
Proof. induction a as [|x a IH]; intros b c; simpl; [reflexivity | now rewrite IH]. Qed.

Lemma slen_app : forall a b, slen (a ++ b) = slen a + slen b.
Proof. unfold slen. induction a as [|x a IH]; intros b; simpl; [reflexivity | now rewrite IH]. Qed.

Lemma slen_zero : forall s, slen s = 0 -> s = "".
Proof. destruct s; simpl; [reflexivity | discriminate]. Qed.

Lemma slen_pos : forall s, s <> "" -> 0 < slen s.
Proof. destruct s as [|a s]; intros H; [congruence | unfold slen; simpl; lia]. Qed.

Lemma concat_cons : forall x xs, String.concat "" (x :: xs) = x ++ String.concat "" xs.
Proof.
  intros x [|y ys]; simpl.
  - now rewrite app_nil_r_s.
  - reflexivity.
Qed.

Lemma concat_app : forall xs ys,
  String.concat "" (xs ++ ys) = String.concat "" xs ++ String.concat "" ys.
Proof.
  induction xs as [|x xs IH]; intros ys.
  - reflexivity.
  - rewrite <- app_comm_cons, !concat_cons, IH, app_assoc_s. reflexivity.
Qed.

Lemma total_len_concat : forall cs, total_len cs = slen (String.concat "" cs).
Proof.
  induction cs as [|c cs IH].
  - reflexivity.
  - rewrite concat_cons, slen_app. simpl. now rewrite IH.
Qed.

Lemma total_len_app : forall xs ys, total_len (xs ++ ys) = total_len xs + total_len ys.
Proof. induction xs as [|x xs IH]; intros ys; simpl; [reflexivity | rewrite IH; lia]. Qed.

Lemma take_drop : forall n s, take n s ++ drop n s = s.
Proof.
  induction n as [|n IH]; intros s.
  - destruct s; reflexivity.
  - destruct s as [|a s]; simpl; [reflexivity | now rewrite IH].
Qed.

Lemma slen_take : forall n s, slen (take n s) = Nat.min n (slen s).
Proof.
  unfold slen. induction n as [|n IH]; intros s.
  - destruct s; reflexivity.
  - destruct s as [|a s]; simpl; [reflexivity | now rewrite IH].
Qed.

Lemma slen_drop : forall n s, slen (drop n s) = slen s - n.
Proof.
  unfold slen. induction n as [|n IH]; intros s.
  - destruct s; simpl; reflexivity.
  - destruct s as [|a s]; simpl; [reflexivity | now rewrite IH].
Qed.

Lemma prefix_app : forall a b, String.prefix a (a ++ b) = true.
Proof.
  induction a as [|x a IH]; intros b; simpl.
  - destruct b; reflexivity.
  - destruct (ascii_dec x x) as [_|N]; [apply IH | congruence].
Qed.

Lemma slen_blanks : forall n, slen (blanks n) = n.
Proof.
  unfold blanks. induction n as [|n IH].
  - reflexivity.
  - change (repeat " " (S n)) with (" " :: repeat " " n).
    rewrite concat_cons, slen_app, IH. reflexivity.
Qed.

(* ------------------------------------------------------------------ *)
(* the cut position *)

Lemma rfind_hyphen_aux_bound : forall s i limit best h,
  rfind_hyphen_aux s i limit best = Some h -> best = Some h \/ h < limit.
Proof.
  induction s as [|a s IH]; intros i limit best h H; simpl in H.
  - now left.
  - destruct (Nat.ltb i limit) eqn:E.
    + apply Nat.ltb_lt in E. apply IH in H. destruct H as [H|H]; [|now right].
      destruct (is_hyphen a); [injection H as <-; now right | now left].
    + now left.
Qed.

Lemma long_word_cut_le : forall c sl, long_word_cut c sl <= sl.
Proof.
  intros c sl. unfold long_word_cut.
  destruct (Nat.ltb sl (slen c)); [|lia].
  destruct (rfind_hyphen c sl) as [h|] eqn:E; [|lia].
  unfold rfind_hyphen in E. apply rfind_hyphen_aux_bound in E.
  destruct E as [E|E]; [discriminate|].
  destruct (Nat.ltb 0 h && negb (all_hyphens (take h c))); lia.
Qed.

Lemma long_word_cut_pos : forall c sl, 0 < sl -> 0 < long_word_cut c sl.
Proof.
  intros c sl Hsl. unfold long_word_cut.
  destruct (Nat.ltb sl (slen c)); [|lia].
  destruct (rfind_hyphen c sl) as [h|]; [|lia].
  destruct (Nat.ltb 0 h && negb (all_hyphens (take h c))); lia.
Qed.

(* ------------------------------------------------------------------ *)
(* fill and one_line *)

Definition nonnil {A} (l : list A) : bool := match l with [] => false | _ => true end.

Lemma fill_spec : forall chunks cur cur_len width any cur' cur_len' any' rest,
  fill chunks cur cur_len width any = (cur', cur_len', any', rest) ->
  exists taken,
    chunks = List.app taken rest /\
    cur' = cur ++ String.concat "" taken /\
    cur_len' = cur_len + total_len taken /\
    any' = (if nonnil taken then true else any) /\
    (cur_len <= width -> cur_len' <= width) /\
    match rest with [] => True | c :: _ => width < cur_len' + slen c end.
Proof.
  induction chunks as [|c r IH]; intros cur cur_len width any cur' cur_len' any' rest H; simpl in H.
  - injection H as <- <- <- <-. exists []. simpl. rewrite app_nil_r_s.
    repeat split; auto.
  - destruct (Nat.leb (cur_len + slen c) width) eqn:E.
    + apply Nat.leb_le in E. apply IH in H.
      destruct H as (taken & H1 & H2 & H3 & H4 & H5 & H6).
      exists (c :: taken). rewrite concat_cons. simpl.
      repeat split.
      * now rewrite H1.
      * now rewrite H2, app_assoc_s.
      * lia.
      * rewrite H4. destruct (nonnil taken); reflexivity.
      * intros _. apply H5. exact E.
      * exact H6.
    + apply Nat.leb_gt in E. injection H as <- <- <- <-. exists []. simpl.
      rewrite app_nil_r_s. repeat split; auto; try lia.
Qed.

(* what one iteration of the outer loop does: either whole chunks only (A), or whole chunks and a
   piece cut from a chunk that is longer than the line (B) *)
Lemma one_line_spec : forall chunks width body any rest,
  one_line chunks width = (body, any, rest) ->
  exists taken,
    total_len taken <= width /\
    ( ( chunks = List.app taken rest /\ body = String.concat "" taken /\ any = nonnil taken /\
        match rest with [] => True | c :: _ => slen c <= width /\ width < total_len taken + slen c end )
      \/
      ( exists c r e,
          chunks = List.app taken (c :: r) /\ width < slen c /\
          e = long_word_cut c (if Nat.ltb width 1 then 1 else width - total_len taken) /\
          body = String.concat "" taken ++ take e c /\ any = true /\ rest = drop e c :: r ) ).
Proof.
  intros chunks width body any rest H. unfold one_line in H.
  destruct (fill chunks "" 0 width false) as [[[cur cur_len] any0] rest0] eqn:F.
  apply fill_spec in F. destruct F as (taken & H1 & H2 & H3 & H4 & H5 & H6).
  simpl in H2, H3. subst cur cur_len.
  exists taken. split; [apply H5; lia|].
  destruct rest0 as [|c r].
  - injection H as <- <- <-. left. repeat split; auto.
    rewrite H4. destruct (nonnil taken); reflexivity.
  - destruct (Nat.ltb width (slen c)) eqn:E.
    + apply Nat.ltb_lt in E. injection H as <- <- <-. right.
      exists c, r, (long_word_cut c (if Nat.ltb width 1 then 1 else width - total_len taken)).
      repeat split; auto.
    + apply Nat.ltb_ge in E. injection H as <- <- <-. left. repeat split; auto.
      rewrite H4. destruct (nonnil taken); reflexivity.
Qed.

(* for a non-empty chunk list a line is always emitted *)
Lemma one_line_any : forall chunks width body any rest,
  chunks <> [] -> one_line chunks width = (body, any, rest) -> any = true.
Proof.
  intros chunks width body any rest Hne H.
  apply one_line_spec in H. destruct H as (taken & _ & [(H1 & _ & H3 & H4) | (c & r & e & _ & _ & _ & _ & H5 & _)]).
  - destruct taken as [|t ts]; [|exact H3].
    simpl in H1. subst rest. destruct chunks as [|c r]; [congruence|].
    simpl in H4. lia.
  - exact H5.
Qed.

Lemma one_line_content : forall chunks width body any rest,
  one_line chunks width = (body, any, rest) ->
  body ++ String.concat "" rest = String.concat "" chunks.
Proof.
  intros chunks width body any rest H.
  apply one_line_spec in H.
  destruct H as (taken & _ & [(H1 & H2 & _ & _) | (c & r & e & H1 & _ & _ & H4 & _ & H6)]).
  - subst. now rewrite concat_app.
  - subst chunks body rest. rewrite concat_app, !concat_cons, app_assoc_s.
    rewrite <- (app_assoc_s (take e c)), take_drop. reflexivity.
Qed.

Lemma one_line_width : forall chunks width body any rest,
  1 <= width -> one_line chunks width = (body, any, rest) -> slen body <= width.
Proof.
  intros chunks width body any rest Hw H.
  apply one_line_spec in H.
  destruct H as (taken & Ht & [(_ & H2 & _ & _) | (c & r & e & _ & _ & H3 & H4 & _ & _)]).
  - subst body. now rewrite <- total_len_concat.
  - subst body. rewrite slen_app, <- total_len_concat, slen_take.
    destruct (Nat.ltb width 1) eqn:E; [apply Nat.ltb_lt in E; lia|].
    pose proof (long_word_cut_le c (width - total_len taken)) as Hc.
    rewrite <- H3 in Hc. lia.
Qed.

(* progress: the measure total_len + length strictly decreases, non-emptiness is kept *)
Lemma one_line_progress : forall chunks width body any rest,
  1 <= width -> chunks <> [] -> Forall (fun c => c <> "") chunks ->
  one_line chunks width = (body, any, rest) ->
  total_len rest + List.length rest < total_len chunks + List.length chunks /\
  Forall (fun c => c <> "") rest.
Proof.
  intros chunks width body any rest Hw Hne Hall H.
  apply one_line_spec in H.
  destruct H as (taken & Ht & [(H1 & _ & _ & H4) | (c & r & e & H1 & H2 & H3 & _ & _ & H6)]).
  - subst chunks. apply Forall_app in Hall. destruct Hall as [_ Hr]. split; [|exact Hr].
    rewrite total_len_app, app_length.
    destruct taken as [|t ts]; [|simpl; lia].
    simpl in *. destruct rest as [|c r]; [congruence|]. lia.
  - subst chunks rest. apply Forall_app in Hall. destruct Hall as [_ Hr].
    inversion Hr as [|c0 r0 Hc Hr']; subst c0 r0.
    destruct (Nat.ltb width 1) eqn:E; [apply Nat.ltb_lt in E; lia|].
    pose proof (long_word_cut_le c (width - total_len taken)) as Hle.
    rewrite <- H3 in Hle.
    split.
    + rewrite total_len_app, app_length. simpl. rewrite slen_drop.
      destruct (Nat.eq_dec (total_len taken) width) as [Eq|Ne].
      * destruct taken as [|t ts]; [simpl in Eq; lia|]. simpl. lia.
      * pose proof (long_word_cut_pos c (width - total_len taken)) as Hpos.
        rewrite <- H3 in Hpos. lia.
    + constructor; [|exact Hr'].
      intros D. apply (f_equal slen) in D. rewrite slen_drop in D. simpl in D. lia.
Qed.

(* ------------------------------------------------------------------ *)
(* wrap_loop *)

Lemma wrap_loop_nil : forall fuel first W ii si, wrap_loop fuel first [] W ii si = Some [].
Proof. destruct fuel; reflexivity. Qed.

(* one unfolding of the loop on a non-empty chunk list *)
Lemma wrap_loop_step : forall f first chunks W ii si,
  chunks <> [] ->
  wrap_loop (S f) first chunks W ii si =
  match one_line chunks (W - slen (if first then ii else si)) with
  | (body, any, rest) =>
      match wrap_loop f (if any then false else first) rest W ii si with
      | Some ls => Some (if any then ((if first then ii else si) ++ body) :: ls else ls)
      | None => None
      end
  end.
Proof. intros f first [|c r] W ii si H; [congruence | reflexivity]. Qed.

Lemma wrap_loop_zero : forall first chunks W ii si ls,
  wrap_loop 0 first chunks W ii si = Some ls -> chunks = [] /\ ls = [].
Proof. intros first [|c r] W ii si ls H; simpl in H; [injection H as <-; auto | discriminate]. Qed.

(* 1. fuel *)
Lemma wrap_loop_fuel : forall fuel first chunks W ii si,
  slen ii < W -> slen si < W -> Forall (fun c => c <> "") chunks ->
  total_len chunks + List.length chunks < fuel ->
  wrap_loop fuel first chunks W ii si <> None.
Proof.
  induction fuel as [|f IH]; intros first chunks W ii si Hii Hsi Hall Hm; [lia|].
  destruct chunks as [|c r] eqn:Ec; [simpl; discriminate|].
  rewrite <- Ec in *. assert (Hne : chunks <> []) by (rewrite Ec; discriminate).
  rewrite wrap_loop_step by exact Hne.
  destruct (one_line chunks (W - slen (if first then ii else si))) as [[body any] rest] eqn:E.
  assert (Hw : 1 <= W - slen (if first then ii else si)) by (destruct first; lia).
  destruct (one_line_progress _ _ _ _ _ Hw Hne Hall E) as [Hlt Hall'].
  specialize (IH (if any then false else first) rest W ii si Hii Hsi Hall').
  destruct (wrap_loop f (if any then false else first) rest W ii si); [discriminate|].
  apply IH. lia.
Qed.

Lemma wrap_fuel_enough : forall W ii si chunks,
  slen ii < W -> slen si < W -> Forall (fun c => c <> "") chunks ->
  wrap_chunks W ii si chunks <> None.
Proof.
  intros W ii si chunks Hii Hsi Hall. unfold wrap_chunks.
  apply wrap_loop_fuel; auto.
Qed.

(* 2. width *)
Lemma wrap_loop_width : forall fuel first chunks W ii si ls,
  slen ii < W -> slen si < W ->
  wrap_loop fuel first chunks W ii si = Some ls -> Forall (fun l => slen l <= W) ls.
Proof.
  induction fuel as [|f IH]; intros first chunks W ii si ls Hii Hsi H.
  - apply wrap_loop_zero in H. destruct H as [_ ->]. constructor.
  - destruct chunks as [|c r] eqn:Ec; [simpl in H; injection H as <-; constructor|].
    rewrite <- Ec in *. assert (Hne : chunks <> []) by (rewrite Ec; discriminate).
    rewrite wrap_loop_step in H by exact Hne.
    destruct (one_line chunks (W - slen (if first then ii else si))) as [[body any] rest] eqn:E.
    assert (Hw : 1 <= W - slen (if first then ii else si)) by (destruct first; lia).
    pose proof (one_line_width _ _ _ _ _ Hw E) as Hb.
    destruct (wrap_loop f (if any then false else first) rest W ii si) as [ls'|] eqn:R; [|discriminate].
    injection H as <-. apply IH in R; auto.
    destruct any; [|exact R].
    constructor; [|exact R]. rewrite slen_app. destruct first; lia.
Qed.

Lemma wrap_width : forall W ii si chunks ls,
  slen ii < W -> slen si < W ->
  wrap_chunks W ii si chunks = Some ls -> Forall (fun l => slen l <= W) ls.
Proof.
  intros W ii si chunks ls Hii Hsi H. unfold wrap_chunks in H.
  eapply wrap_loop_width; [exact Hii | exact Hsi | exact H].
Qed.

(* 3. indent *)
Definition indented (ind si : string) (ls : list string) : Prop :=
  match ls with
  | [] => True
  | l0 :: rest => String.prefix ind l0 = true /\ Forall (fun l => String.prefix si l = true) rest
  end.

Lemma indented_all : forall si ls, indented si si ls -> Forall (fun l => String.prefix si l = true) ls.
Proof. intros si [|l ls] H; simpl in H; [constructor | destruct H; now constructor]. Qed.

Lemma wrap_loop_indent : forall fuel first chunks W ii si ls,
  wrap_loop fuel first chunks W ii si = Some ls -> indented (if first then ii else si) si ls.
Proof.
  induction fuel as [|f IH]; intros first chunks W ii si ls H.
  - apply wrap_loop_zero in H. destruct H as [_ ->]. exact I.
  - destruct chunks as [|c r] eqn:Ec; [simpl in H; injection H as <-; exact I|].
    rewrite <- Ec in *. assert (Hne : chunks <> []) by (rewrite Ec; discriminate).
    rewrite wrap_loop_step in H by exact Hne.
    destruct (one_line chunks (W - slen (if first then ii else si))) as [[body any] rest] eqn:E.
    destruct (wrap_loop f (if any then false else first) rest W ii si) as [ls'|] eqn:R; [|discriminate].
    injection H as <-. apply IH in R.
    destruct any; [|exact R].
    simpl. split; [apply prefix_app | apply indented_all; exact R].
Qed.

Lemma wrap_indent : forall W ii si chunks ls,
  wrap_chunks W ii si chunks = Some ls ->
  match ls with
  | [] => True
  | l0 :: rest => String.prefix ii l0 = true /\ Forall (fun l => String.prefix si l = true) rest
  end.
Proof. intros W ii si chunks ls H. apply wrap_loop_indent in H. exact H. Qed.

(* 4. content *)
Lemma wrap_loop_content : forall fuel first chunks W ii si ls,
  wrap_loop fuel first chunks W ii si = Some ls ->
  exists bodies,
    (match bodies with
     | [] => ls = []
     | b0 :: bs => ls = ((if first then ii else si) ++ b0) :: map (fun b => si ++ b) bs
     end) /\
    String.concat "" bodies = String.concat "" chunks.
Proof.
  induction fuel as [|f IH]; intros first chunks W ii si ls H.
  - apply wrap_loop_zero in H. destruct H as [-> ->]. exists []. split; reflexivity.
  - destruct chunks as [|c r] eqn:Ec; [simpl in H; injection H as <-; exists []; split; reflexivity|].
    rewrite <- Ec in *. assert (Hne : chunks <> []) by (rewrite Ec; discriminate).
    rewrite wrap_loop_step in H by exact Hne.
    destruct (one_line chunks (W - slen (if first then ii else si))) as [[body any] rest] eqn:E.
    pose proof (one_line_any _ _ _ _ _ Hne E) as ->.
    pose proof (one_line_content _ _ _ _ _ E) as Hc.
    destruct (wrap_loop f false rest W ii si) as [ls'|] eqn:R; [|discriminate].
    injection H as <-. apply IH in R. destruct R as (bodies & Hb & Hcc).
    exists (body :: bodies). split.
    + f_equal. destruct bodies as [|b0 bs]; [subst ls'; reflexivity | subst ls'; reflexivity].
    + rewrite concat_cons, Hcc. exact Hc.
Qed.

Lemma wrap_content : forall W ii si chunks ls,
  wrap_chunks W ii si chunks = Some ls ->
  exists bodies,
    (match bodies with
     | [] => ls = []
     | b0 :: bs => ls = (ii ++ b0) :: map (fun b => si ++ b) bs
     end) /\
    String.concat "" bodies = String.concat "" chunks.
Proof. intros W ii si chunks ls H. apply wrap_loop_content in H. exact H. Qed.

(* 5. identity *)
Lemma fill_all : forall chunks cur cur_len width any,
  cur_len + total_len chunks <= width ->
  fill chunks cur cur_len width any =
  (cur ++ String.concat "" chunks, cur_len + total_len chunks,
   if nonnil chunks then true else any, []).
Proof.
  induction chunks as [|c r IH]; intros cur cur_len width any H.
  - simpl. now rewrite app_nil_r_s, Nat.add_0_r.
  - rewrite concat_cons. cbn [fill total_len nonnil]. cbn [total_len] in H.
    destruct (Nat.leb (cur_len + slen c) width) eqn:E; [|apply Nat.leb_gt in E; lia].
    rewrite IH by lia. rewrite app_assoc_s, Nat.add_assoc.
    destruct (nonnil r); reflexivity.
Qed.

Lemma wrap_identity : forall W ii si chunks,
  chunks <> [] -> Forall (fun c => c <> "") chunks ->
  slen ii + slen (String.concat "" chunks) <= W ->
  wrap_chunks W ii si chunks = Some [ii ++ String.concat "" chunks].
Proof.
  intros W ii si chunks Hne _ Hfit. unfold wrap_chunks.
  rewrite wrap_loop_step by exact Hne.
  unfold one_line. rewrite fill_all by (rewrite total_len_concat; simpl; lia).
  destruct chunks as [|c r]; [congruence|].
  cbn [nonnil]. rewrite wrap_loop_nil. reflexivity.
Qed.

(* (section 7 precedes section 6 in this file: 6 uses its lemmas) *)
(* ------------------------------------------------------------------ *)
(* 7. re-splitting the wrapped lines gives the tokens of the text *)

(* every character of s is a blank (b = true) / no character of s is a blank (b = false) *)
Fixpoint all_kind (b : bool) (s : string) : bool :=
  match s with
  | EmptyString => true
  | String a r => Bool.eqb (is_blank a) b && all_kind b r
  end.
Definition kind (b : bool) (c : string) : Prop := c <> "" /\ all_kind b c = true.
(* non-empty runs of alternating kind, the first of kind b *)
Fixpoint alt (b : bool) (cs : list string) : Prop :=
  match cs with
  | [] => True
  | c :: r => kind b c /\ alt (negb b) r
  end.

Lemma all_kind_app : forall b x y, all_kind b (x ++ y) = all_kind b x && all_kind b y.
Proof.
  induction x as [|a x IH]; intros y; simpl; [reflexivity|].
  now rewrite IH, andb_assoc.
Qed.

Lemma all_kind_blanks : forall n, all_kind true (blanks n) = true.
Proof.
  unfold blanks. induction n as [|n IH]; [reflexivity|].
  change (repeat " " (S n)) with (" " :: repeat " " n).
  rewrite concat_cons, all_kind_app, IH. reflexivity.
Qed.

Lemma kind_true_not_word : forall c, kind true c -> all_kind false c = false.
Proof.
  intros [|a c] [Hne Hk]; [congruence|]. simpl in *.
  apply andb_true_iff in Hk. destruct Hk as [Hk _].
  destruct (is_blank a); [reflexivity | discriminate].
Qed.

Lemma alt_app : forall xs ys b, alt b (List.app xs ys) -> alt b xs /\ exists b', alt b' ys.
Proof.
  induction xs as [|x xs IH]; intros ys b H.
  - split; [exact I | exists b; exact H].
  - simpl in H. destruct H as [Hk H]. apply IH in H. destruct H as [Hx Hy].
    split; [split; assumption | exact Hy].
Qed.

(* split_ws *)
Lemma split_ws_aux_spec : forall s cur b,
  kind b cur ->
  alt b (split_ws_aux s cur b) /\ String.concat "" (split_ws_aux s cur b) = cur ++ s.
Proof.
  induction s as [|a s IH]; intros cur b [Hne Hk].
  - cbn [split_ws_aux].
    destruct (String.eqb cur "") eqn:E; [apply String.eqb_eq in E; congruence|].
    rewrite app_nil_r_s. split; [|reflexivity].
    split; [split; assumption | exact I].
  - cbn [split_ws_aux].
    destruct (String.eqb cur "") eqn:E; [apply String.eqb_eq in E; congruence|].
    destruct (Bool.eqb (is_blank a) b) eqn:Eb.
    + assert (K : kind b (cur ++ String a "")).
      { split.
        - destruct cur; [congruence | simpl; discriminate].
        - rewrite all_kind_app, Hk. simpl. now rewrite Eb. }
      destruct (IH _ _ K) as [H1 H2]. split; [exact H1|].
      rewrite H2, app_assoc_s. reflexivity.
    + assert (Eb' : is_blank a = negb b).
      { destruct (is_blank a), b; simpl in Eb; try discriminate; reflexivity. }
      assert (K : kind (is_blank a) (String a "")).
      { split; [discriminate|]. simpl. now rewrite Bool.eqb_reflx. }
      destruct (IH _ _ K) as [H1 H2]. rewrite concat_cons, H2. split; [|reflexivity].
      split; [split; assumption|]. rewrite <- Eb'. exact H1.
Qed.

Lemma split_ws_spec : forall text,
  exists b, alt b (split_ws text) /\ String.concat "" (split_ws text) = text.
Proof.
  intros [|a r]; unfold split_ws.
  - exists true. split; [exact I | reflexivity].
  - cbn [split_ws_aux String.eqb]. exists (is_blank a).
    assert (K : kind (is_blank a) (String a "")).
    { split; [discriminate|]. simpl. now rewrite Bool.eqb_reflx. }
    destruct (split_ws_aux_spec r _ _ K) as [H1 H2]. split; [exact H1 | rewrite H2; reflexivity].
Qed.

(* words *)
Lemma is_blank_eq : forall a, is_blank a = true -> a = " "%char.
Proof. intros a H. unfold is_blank in H. now apply Ascii.eqb_eq in H. Qed.

Lemma words_blank_app : forall a b, all_kind true a = true -> words (a ++ b) = words b.
Proof.
  induction a as [|x a IH]; intros b H; [reflexivity|].
  simpl in H. apply andb_true_iff in H. destruct H as [Hx Ha].
  destruct (is_blank x) eqn:Ex; [|discriminate].
  apply is_blank_eq in Ex. subst x.
  rewrite <- (IH b Ha). reflexivity.
Qed.

Lemma split_word_app : forall w b cur,
  all_kind false w = true ->
  split_on_aux " "%char (w ++ b) cur = split_on_aux " "%char b (cur ++ w).
Proof.
  induction w as [|x w IH]; intros b cur H.
  - now rewrite app_nil_r_s.
  - simpl in H. apply andb_true_iff in H. destruct H as [Hx Hw].
    destruct (is_blank x) eqn:Ex; [discriminate|].
    unfold is_blank in Ex. cbn [append split_on_aux]. rewrite Ex.
    rewrite IH by exact Hw. rewrite app_assoc_s. reflexivity.
Qed.

Lemma words_word_app : forall w b,
  kind false w -> (b = "" \/ exists b', b = String " "%char b') ->
  words (w ++ b) = w :: words b.
Proof.
  intros w b [Hne Hk] Hb. unfold words, split_on.
  rewrite split_word_app by exact Hk. cbn [append].
  assert (E : String.eqb w "" = false) by (apply String.eqb_neq; exact Hne).
  destruct Hb as [-> | [b' ->]].
  - cbn. rewrite E. reflexivity.
  - cbn. rewrite E. reflexivity.
Qed.

Lemma alt_true_start : forall r,
  alt true r -> String.concat "" r = "" \/ exists b', String.concat "" r = String " "%char b'.
Proof.
  intros [|d r] H; [now left|]. right.
  destruct H as [[Hne Hk] _]. rewrite concat_cons.
  destruct d as [|x d]; [congruence|]. simpl in Hk.
  apply andb_true_iff in Hk. destruct Hk as [Hx _].
  destruct (is_blank x) eqn:Ex; [|discriminate].
  apply is_blank_eq in Ex. subst x. eexists. reflexivity.
Qed.

Lemma words_alt : forall cs b,
  alt b cs -> words (String.concat "" cs) = filter (all_kind false) cs.
Proof.
  induction cs as [|c r IH]; intros b H; [reflexivity|].
  destruct H as [Hk Hr]. rewrite concat_cons. cbn [filter].
  destruct b.
  - rewrite (kind_true_not_word _ Hk). destruct Hk as [_ Hk].
    rewrite words_blank_app by exact Hk. eapply IH; exact Hr.
  - pose proof Hk as [_ Hk']. rewrite Hk'.
    rewrite words_word_app; [| exact Hk | apply alt_true_start; exact Hr].
    f_equal. eapply IH; exact Hr.
Qed.

Lemma wrap_loop_words : forall fuel first chunks W ii si ls b,
  all_kind true ii = true -> all_kind true si = true ->
  alt b chunks ->
  Forall (fun c => slen c <= W - slen ii) chunks ->
  Forall (fun c => slen c <= W - slen si) chunks ->
  wrap_loop fuel first chunks W ii si = Some ls ->
  List.concat (map words ls) = filter (all_kind false) chunks.
Proof.
  induction fuel as [|f IH]; intros first chunks W ii si ls b Hii Hsi Halt Fi Fs H.
  - apply wrap_loop_zero in H. destruct H as [-> ->]. reflexivity.
  - destruct chunks as [|c0 r0] eqn:Ec; [simpl in H; injection H as <-; reflexivity|].
    rewrite <- Ec in *. assert (Hne : chunks <> []) by (rewrite Ec; discriminate).
    rewrite wrap_loop_step in H by exact Hne.
    set (indent := if first then ii else si) in *.
    assert (Hind : all_kind true indent = true) by (unfold indent; destruct first; assumption).
    assert (Fw : Forall (fun c => slen c <= W - slen indent) chunks)
      by (unfold indent; destruct first; assumption).
    destruct (one_line chunks (W - slen indent)) as [[body any] rest] eqn:E.
    destruct (wrap_loop f (if any then false else first) rest W ii si) as [ls'|] eqn:R; [|discriminate].
    injection H as <-.
    apply one_line_spec in E.
    destruct E as (taken & _ & [(H1 & H2 & H3 & _) | (c & r & e & H1 & H2 & _)]).
    + assert (Halt' := Halt). rewrite H1 in Halt'. apply alt_app in Halt'.
      destruct Halt' as [Ht [b' Hr]].
      assert (Fi' := Fi). assert (Fs' := Fs). rewrite H1 in Fi', Fs'.
      apply Forall_app in Fi', Fs'. destruct Fi' as [_ Fi'], Fs' as [_ Fs'].
      specialize (IH _ _ _ _ _ _ _ Hii Hsi Hr Fi' Fs' R).
      rewrite H1. rewrite filter_app, <- IH.
      destruct taken as [|t ts].
      * simpl in H3. subst any. reflexivity.
      * simpl in H3. subst any. cbn [map List.concat]. f_equal.
        rewrite words_blank_app by exact Hind. subst body. eapply words_alt; exact Ht.
    + rewrite H1 in Fw. apply Forall_app in Fw. destruct Fw as [_ Fw].
      inversion Fw as [|c' r' Hc _]; subst. lia.
Qed.

Lemma wrap_resplit : forall W cont text ls,
  cont < W ->
  Forall (fun c => slen c <= W - cont) (split_ws text) ->
  wrap_chunks W "" (blanks cont) (split_ws text) = Some ls ->
  List.concat (map words ls) = words text.
Proof.
  intros W cont text ls _ Hfit H. unfold wrap_chunks in H.
  destruct (split_ws_spec text) as (b & Halt & Hcat).
  rewrite <- Hcat. rewrite (words_alt _ _ Halt).
  eapply wrap_loop_words; [| | exact Halt | | | exact H].
  - reflexivity.
  - apply all_kind_blanks.
  - eapply Forall_impl; [|exact Hfit]. simpl. intros c Hc. lia.
  - rewrite slen_blanks. exact Hfit.
Qed.

(* ------------------------------------------------------------------ *)
(* 6. _wrap_line and wrap_lines: totality, width, indentation, no blank-only line *)

Lemma WOk_inj : forall a b, WOk a = WOk b -> a = b.
Proof. intros a b H. injection H as H. exact H. Qed.

Lemma Forall_removelast : forall {A} (P : A -> Prop) (l : list A), Forall P l -> Forall P (removelast l).
Proof.
  intros A P l H. induction H as [|x l Hx Hl IH]; [constructor|].
  destruct l as [|y l']; [constructor|]. change (Forall P (x :: removelast (y :: l'))). now constructor.
Qed.

Lemma Forall_last : forall {A} (P : A -> Prop) (l : list A) d, l <> [] -> Forall P l -> P (List.last l d).
Proof.
  intros A P l d Hne H. induction H as [|x l Hx Hl IH]; [congruence|].
  destruct l as [|y l']; [exact Hx|]. apply IH. discriminate.
Qed.

Lemma prefix_elim : forall a x, String.prefix a x = true -> exists t, x = a ++ t.
Proof.
  induction a as [|c a IH]; intros x H.
  - exists x. reflexivity.
  - destruct x as [|d x]; [discriminate|]. simpl in H.
    destruct (ascii_dec c d) as [->|N]; [|discriminate].
    apply IH in H. destruct H as [t ->]. exists t. reflexivity.
Qed.

Lemma prefix_app_r : forall a x y, String.prefix a x = true -> String.prefix a (x ++ y) = true.
Proof.
  intros a x y H. apply prefix_elim in H. destruct H as [t ->].
  rewrite app_assoc_s. apply prefix_app.
Qed.

Lemma prefix_trans_app : forall a b x, String.prefix (a ++ b) x = true -> String.prefix a x = true.
Proof.
  intros a b x H. apply prefix_elim in H. destruct H as [t ->].
  rewrite app_assoc_s. apply prefix_app.
Qed.

Lemma half_le : forall W, Nat.div W 2 <= W.
Proof. intros W. apply Nat.div_le_upper_bound; lia. Qed.

Lemma slen_dollar_si : forall si, slen (dollar_si si) = slen si + 2.
Proof. intros si. unfold dollar_si. rewrite slen_app. reflexivity. Qed.

(* the lines of a non-empty chunk list of non-empty chunks are not the empty list *)
Lemma wrap_chunks_nonnil : forall W ii si chunks ls,
  chunks <> [] -> Forall (fun c => c <> "") chunks ->
  wrap_chunks W ii si chunks = Some ls -> ls <> [].
Proof.
  intros W ii si chunks ls Hne Hall H. apply wrap_content in H.
  destruct H as (bodies & Hb & Hc). intros ->.
  destruct bodies as [|b0 bs]; [|discriminate].
  destruct chunks as [|c r]; [congruence|].
  inversion Hall as [|c' r' Hc' _]; subst.
  rewrite concat_cons in Hc. simpl in Hc. destruct c; [congruence | discriminate].
Qed.

(* the side condition of the width theorem: when the text before the first '$' is blank it is used as part of
   the indent of the first comment line, and must leave room on the line *)
Definition blank_data_fits (W : nat) (ii line : string) : Prop :=
  all_pyspace (before_dollar line) = true -> slen ii + slen (before_dollar line) < W.

Definition chunks_ok (l : src_line) : Prop :=
  Forall (fun c => c <> "") (l_chunks l) /\ Forall (fun c => c <> "") (l_data_chunks l) /\
  Forall (fun c => c <> "") (l_comment_chunks l) /\
  (all_pyspace (before_dollar (l_text l)) = false -> l_data_chunks l <> []).

(* 6a. _wrap_line returns (no IndexError, the fuel of the model suffices) *)
Lemma wrap_line_total : forall W ii si l,
  2 < W -> slen ii < W -> slen si + 2 < W -> blank_data_fits W ii (l_text l) -> chunks_ok l ->
  exists out, wrap_line W ii si l = WOk out.
Proof.
  intros W ii si l HW Hii Hsi Hfit (Hc1 & Hc2 & Hc3 & Hc4). unfold wrap_line.
  assert (Hplain : exists out, of_opt (wrap_chunks W ii si (l_chunks l)) = WOk out).
  { pose proof (wrap_fuel_enough W ii si (l_chunks l) Hii ltac:(lia) Hc1) as F.
    destruct (wrap_chunks W ii si (l_chunks l)) as [ls|]; [exists ls; reflexivity | congruence]. }
  destruct (Nat.leb (slen ii + slen (l_text l)) W); [exact Hplain|].
  destruct (is_comment (l_text l)).
  { pose proof (wrap_fuel_enough W ii comment_si (l_chunks l) Hii ltac:(unfold comment_si, slen; simpl; lia) Hc1) as F.
    destruct (wrap_chunks W ii comment_si (l_chunks l)) as [ls|]; [exists ls; reflexivity | congruence]. }
  destruct (negb (has_char dollar (l_text l))); [exact Hplain|].
  assert (Hsi' : slen (dollar_si si) < W) by (rewrite slen_dollar_si; lia).
  destruct (all_pyspace (before_dollar (l_text l))) eqn:Eb; cbn [negb].
  - assert (Hi : slen (ii ++ before_dollar (l_text l)) < W) by (rewrite slen_app; apply Hfit; exact Eb).
    pose proof (wrap_fuel_enough W _ (dollar_si si) (l_comment_chunks l) Hi Hsi' Hc3) as F.
    destruct (wrap_chunks W (ii ++ before_dollar (l_text l)) (dollar_si si) (l_comment_chunks l)) as [ls|];
      [exists ls; reflexivity | congruence].
  - pose proof (wrap_fuel_enough W ii si (l_data_chunks l) Hii ltac:(lia) Hc2) as F.
    destruct (wrap_chunks W ii si (l_data_chunks l)) as [ret|] eqn:R; [|congruence].
    pose proof (wrap_chunks_nonnil _ _ _ _ _ (Hc4 eq_refl) Hc2 R) as Hne.
    destruct ret as [|r0 rs]; [congruence|].
    destruct (Nat.leb (slen (List.last (r0 :: rs) "") + slen (from_dollar (l_text l))) W); [eexists; reflexivity|].
    destruct (Nat.ltb (slen (List.last (r0 :: rs) "")) (Nat.div W 2)) eqn:Eh.
    + apply Nat.ltb_lt in Eh. pose proof (half_le W) as Hh.
      pose proof (wrap_fuel_enough W (List.last (r0 :: rs) "") (dollar_si si) (l_comment_chunks l)
                    ltac:(lia) Hsi' Hc3) as F2.
      destruct (wrap_chunks W (List.last (r0 :: rs) "") (dollar_si si) (l_comment_chunks l)) as [ls|];
        [eexists; reflexivity | congruence].
    + pose proof (wrap_fuel_enough W si (dollar_si si) (l_comment_chunks l) ltac:(lia) Hsi' Hc3) as F2.
      destruct (wrap_chunks W si (dollar_si si) (l_comment_chunks l)) as [ls|];
        [eexists; reflexivity | congruence].
Qed.

(* 6b. every line _wrap_line returns fits the limit *)
Lemma wrap_line_width : forall W ii si l out,
  2 < W -> slen ii < W -> slen si + 2 < W -> blank_data_fits W ii (l_text l) ->
  wrap_line W ii si l = WOk out -> Forall (fun x => slen x <= W) out.
Proof.
  intros W ii si l out HW Hii Hsi Hfit H. unfold wrap_line in H.
  assert (Hplain : of_opt (wrap_chunks W ii si (l_chunks l)) = WOk out -> Forall (fun x => slen x <= W) out).
  { intros E. destruct (wrap_chunks W ii si (l_chunks l)) as [ls|] eqn:R; [|discriminate].
    apply WOk_inj in E; subst out. apply (wrap_width W ii si _ _ Hii ltac:(lia) R). }
  destruct (Nat.leb (slen ii + slen (l_text l)) W); [exact (Hplain H)|].
  destruct (is_comment (l_text l)).
  { destruct (wrap_chunks W ii comment_si (l_chunks l)) as [ls|] eqn:R; [|discriminate].
    apply WOk_inj in H; subst out. apply (wrap_width W ii comment_si _ _ Hii ltac:(unfold comment_si, slen; simpl; lia) R). }
  destruct (negb (has_char dollar (l_text l))); [exact (Hplain H)|].
  assert (Hsi' : slen (dollar_si si) < W) by (rewrite slen_dollar_si; lia).
  destruct (all_pyspace (before_dollar (l_text l))) eqn:Eb; cbn [negb] in H.
  - destruct (wrap_chunks W (ii ++ before_dollar (l_text l)) (dollar_si si) (l_comment_chunks l)) as [ls|] eqn:R;
      [|discriminate].
    apply WOk_inj in H; subst out. refine (wrap_width W _ _ _ _ _ Hsi' R).
    rewrite slen_app. apply Hfit. exact Eb.
  - destruct (wrap_chunks W ii si (l_data_chunks l)) as [ret|] eqn:R; [|discriminate].
    destruct ret as [|r0 rs]; [discriminate|].
    assert (Hret : Forall (fun x => slen x <= W) (r0 :: rs))
      by (apply (wrap_width W ii si _ _ Hii ltac:(lia) R)).
    set (ret := r0 :: rs) in *.
    destruct (Nat.leb (slen (List.last ret "") + slen (from_dollar (l_text l))) W) eqn:Ea.
    + apply WOk_inj in H; subst out. apply Nat.leb_le in Ea. apply Forall_app. split.
      * apply Forall_removelast. exact Hret.
      * constructor; [rewrite slen_app; exact Ea | constructor].
    + destruct (Nat.ltb (slen (List.last ret "")) (Nat.div W 2)) eqn:Eh.
      * apply Nat.ltb_lt in Eh. pose proof (half_le W) as Hh.
        destruct (wrap_chunks W (List.last ret "") (dollar_si si) (l_comment_chunks l)) as [ls|] eqn:R2; [|discriminate].
        apply WOk_inj in H; subst out. apply Forall_app. split; [apply Forall_removelast; exact Hret|].
        refine (wrap_width W _ _ _ _ _ Hsi' R2). lia.
      * destruct (wrap_chunks W si (dollar_si si) (l_comment_chunks l)) as [ls|] eqn:R2; [|discriminate].
        apply WOk_inj in H; subst out. apply Forall_app. split; [exact Hret|].
        refine (wrap_width W _ _ _ _ _ Hsi' R2). lia.
Qed.

(* ... and without the side condition it is false: blank text of the width of the line before a '$' *)
Definition plain_line (line : string) : src_line :=
  SrcLine line (split_ws line) (split_ws (before_dollar line)) (split_ws (from_dollar line)).

Lemma wrap_line_width_refuted :
  exists W ii si l out,
    7 < W /\ slen ii < W /\ slen si + 2 < W /\ wrap_line W ii si l = WOk out /\
    ~ Forall (fun x => slen x <= W) out.
Proof.
  exists 20, "", (blanks 5), (plain_line (blanks 22 ++ "$ x y")),
    [blanks 22 ++ "$"; "     $  x y"].
  split; [lia|]. split; [simpl; lia|]. split; [simpl; lia|].
  split; [vm_compute; reflexivity|].
  intros F. inversion F as [|x xs Hx _]; subst. vm_compute in Hx. lia.
Qed.

(* 6c. indentation: the first line starts with the initial indent; every other line starts with the continuation
   indent, or is a "c " line that continues a line MontePy takes for a comment line *)
Definition cont_ok (si line x : string) : Prop :=
  String.prefix si x = true \/ (is_comment line = true /\ String.prefix comment_si x = true).

Lemma wrap_line_indent : forall W ii si l out,
  wrap_line W ii si l = WOk out ->
  match out with
  | [] => True
  | l0 :: rest => String.prefix ii l0 = true /\ Forall (cont_ok si (l_text l)) rest
  end.
Proof.
  intros W ii si l out H. unfold wrap_line in H.
  assert (Hplain : of_opt (wrap_chunks W ii si (l_chunks l)) = WOk out ->
                   match out with
                   | [] => True
                   | l0 :: rest => String.prefix ii l0 = true /\ Forall (cont_ok si (l_text l)) rest
                   end).
  { intros E. destruct (wrap_chunks W ii si (l_chunks l)) as [ls|] eqn:R; [|discriminate E].
    apply WOk_inj in E; subst out. apply wrap_indent in R. destruct ls as [|l0 rest]; [exact I|].
    destruct R as [R1 R2]. split; [exact R1|]. eapply Forall_impl; [|exact R2]. intros x Hx. left. exact Hx. }
  destruct (Nat.leb (slen ii + slen (l_text l)) W); [exact (Hplain H)|].
  destruct (is_comment (l_text l)) eqn:Ec.
  { destruct (wrap_chunks W ii comment_si (l_chunks l)) as [ls|] eqn:R; [|discriminate H].
    apply WOk_inj in H; subst out. apply wrap_indent in R. destruct ls as [|l0 rest]; [exact I|].
    destruct R as [R1 R2]. split; [exact R1|]. eapply Forall_impl; [|exact R2]. intros x Hx. right. auto. }
  destruct (negb (has_char dollar (l_text l))); [exact (Hplain H)|].
  assert (Hcom : forall ci ls, wrap_chunks W ci (dollar_si si) (l_comment_chunks l) = Some ls ->
                 match ls with
                 | [] => True
                 | c0 :: cs => String.prefix ci c0 = true /\ Forall (cont_ok si (l_text l)) cs
                 end).
  { intros ci ls R. apply wrap_indent in R. destruct ls as [|c0 cs]; [exact I|].
    destruct R as [R1 R2]. split; [exact R1|]. eapply Forall_impl; [|exact R2].
    intros x Hx. left. eapply prefix_trans_app. exact Hx. }
  destruct (all_pyspace (before_dollar (l_text l))) eqn:Eb; cbn [negb] in H.
  - destruct (wrap_chunks W (ii ++ before_dollar (l_text l)) (dollar_si si) (l_comment_chunks l)) as [ls|] eqn:R;
      [|discriminate H].
    apply WOk_inj in H; subst out. apply Hcom in R. destruct ls as [|c0 cs]; [exact I|].
    destruct R as [R1 R2]. split; [eapply prefix_trans_app; exact R1 | exact R2].
  - destruct (wrap_chunks W ii si (l_data_chunks l)) as [ret|] eqn:R; [|discriminate H].
    destruct ret as [|r0 rs]; [discriminate H|].
    apply wrap_indent in R. destruct R as [R1 R2].
    assert (R2' : Forall (cont_ok si (l_text l)) rs)
      by (eapply Forall_impl; [|exact R2]; intros x Hx; left; exact Hx).
    (* the last data line: the first line, or a continuation line *)
    assert (Hlast : forall t,
              match List.app (removelast (r0 :: rs)) [List.last (r0 :: rs) "" ++ t] with
              | [] => True
              | l0 :: rest => String.prefix ii l0 = true /\ Forall (cont_ok si (l_text l)) rest
              end).
    { intros t. destruct rs as [|r1 rs'].
      - simpl. split; [apply prefix_app_r; exact R1 | constructor].
      - change (removelast (r0 :: r1 :: rs')) with (r0 :: removelast (r1 :: rs')).
        change (List.last (r0 :: r1 :: rs') "") with (List.last (r1 :: rs') "").
        rewrite <- app_comm_cons. split; [exact R1|].
        apply Forall_app. split; [apply Forall_removelast; exact R2'|].
        constructor; [|constructor]. left. apply prefix_app_r.
        apply (Forall_last (fun x => String.prefix si x = true) (r1 :: rs') ""); [discriminate | exact R2]. }
    destruct (Nat.leb (slen (List.last (r0 :: rs) "") + slen (from_dollar (l_text l))) W).
    + apply WOk_inj in H; subst out. apply Hlast.
    + destruct (Nat.ltb (slen (List.last (r0 :: rs) "")) (Nat.div W 2)).
      * destruct (wrap_chunks W (List.last (r0 :: rs) "") (dollar_si si) (l_comment_chunks l)) as [ls|] eqn:R3;
          [|discriminate H].
        apply WOk_inj in H; subst out. pose proof (Hcom _ _ R3) as Hc.
        destruct ls as [|c0 cs].
        -- rewrite app_nil_r. destruct rs as [|r1 rs'].
           ++ exact I.
           ++ change (removelast (r0 :: r1 :: rs')) with (r0 :: removelast (r1 :: rs')).
              split; [exact R1 | apply Forall_removelast; exact R2'].
        -- destruct Hc as [Hc1 Hc2]. apply prefix_elim in Hc1. destruct Hc1 as [t ->].
           specialize (Hlast t).
           replace (List.app (removelast (r0 :: rs)) ((List.last (r0 :: rs) "" ++ t) :: cs))
             with (List.app (List.app (removelast (r0 :: rs)) [List.last (r0 :: rs) "" ++ t]) cs)
             by (rewrite <- app_assoc; reflexivity).
           destruct (List.app (removelast (r0 :: rs)) [List.last (r0 :: rs) "" ++ t]) as [|l0 rest] eqn:E.
           ++ destruct (removelast (r0 :: rs)); discriminate.
           ++ rewrite <- app_comm_cons. destruct Hlast as [H1 H2]. split; [exact H1|].
              apply Forall_app. split; assumption.
      * destruct (wrap_chunks W si (dollar_si si) (l_comment_chunks l)) as [ls|] eqn:R3; [|discriminate H].
        apply WOk_inj in H; subst out. pose proof (Hcom _ _ R3) as Hc.
        rewrite <- app_comm_cons. split; [exact R1|].
        apply Forall_app. split; [exact R2'|].
        destruct ls as [|c0 cs]; [constructor|].
        destruct Hc as [Hc1 Hc2]. constructor; [left; exact Hc1 | exact Hc2].
Qed.

(* 6d. wrap_lines *)
Definition wres_ok (r : wres) : option (list string) := match r with WOk x => Some x | _ => None end.

Lemma wrap_lines_width : forall W cont (first : bool) lines out,
  cont + 2 < W ->
  Forall (fun l => blank_data_fits W (if first then "" else blanks cont) (l_text l)) lines ->
  wrap_lines W cont first lines = WOk out -> Forall (fun x => slen x <= W) out.
Proof.
  intros W cont first lines. revert first.
  induction lines as [|l r IH]; intros first out Hc Hfit H; simpl in H.
  - injection H as <-. constructor.
  - inversion Hfit as [|l' r' Hl Hr]; subst.
    destruct (all_pyspace (l_text l)); [eapply IH; eauto|].
    destruct (wrap_line W (if first then "" else blanks cont) (blanks cont) l) as [a| |] eqn:A; try discriminate.
    destruct (wrap_lines W cont first r) as [b| |] eqn:B; try discriminate.
    injection H as <-. apply Forall_app. split.
    + assert (Ha : Forall (fun x => slen x <= W) a).
      { eapply wrap_line_width; [| | | exact Hl | exact A].
        * lia.
        * destruct first; [unfold slen; simpl; lia | rewrite slen_blanks; lia].
        * rewrite slen_blanks; exact Hc. }
      rewrite Forall_forall in *. intros x Hx. apply filter_In in Hx. apply Ha. tauto.
    + eapply IH; eauto.
Qed.

Lemma all_blank_pyspace : forall x, all_blank x = true -> all_pyspace x = true.
Proof.
  induction x as [|a x IH]; intros H; [reflexivity|]. simpl in *.
  apply andb_true_iff in H. destruct H as [Ha Hx]. apply is_blank_eq in Ha. subst a.
  rewrite (IH Hx). reflexivity.
Qed.

(* no line written by wrap_lines consists of blanks only (such a line would end the block) *)
Lemma wrap_lines_no_blank_line : forall W cont first lines out,
  wrap_lines W cont first lines = WOk out -> Forall (fun x => all_blank x = false) out.
Proof.
  intros W cont first lines. revert first.
  induction lines as [|l r IH]; intros first out H; simpl in H.
  - injection H as <-. constructor.
  - destruct (all_pyspace (l_text l)); [eapply IH; eauto|].
    destruct (wrap_line W (if first then "" else blanks cont) (blanks cont) l) as [a| |] eqn:A; try discriminate.
    destruct (wrap_lines W cont first r) as [b| |] eqn:B; try discriminate.
    injection H as <-. apply Forall_app. split.
    + rewrite Forall_forall. intros x Hx. apply filter_In in Hx. destruct Hx as [_ Hx].
      unfold keep_part in Hx. destruct (all_blank x) eqn:E; [|reflexivity].
      apply all_blank_pyspace in E. rewrite E in Hx. discriminate.
    + eapply IH; eauto.
Qed.

(* ------------------------------------------------------------------ *)
(* 9. non-vacuity *)
Lemma wrap_width_example :
  wrap_chunks 20 "" (blanks 5) (split_ws "1 0 -1 2 -3 4 -5 6 imp:n=1 vol=12345")
  = Some ["1 0 -1 2 -3 4 -5 6 "; "     imp:n=1 "; "     vol=12345"].
Proof. vm_compute. reflexivity. Qed.

Lemma wrap_resplit_example_premises :
  5 < 20 /\
  Forall (fun c => slen c <= 20 - 5) (split_ws "1 0 -1 2 -3 4 -5 6 imp:n=1 vol=12345").
Proof.
  split; [lia|]. vm_compute. repeat (constructor; [lia|]). constructor.
Qed.
