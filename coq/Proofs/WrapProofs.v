(* WrapProofs.v — lemmas and proofs about the line-wrapping model Model/Wrap.v (property C10).
   No axioms, no admits. *)
From Coq Require Import List String Ascii Arith Bool Lia.
From MPV Require Import Model.Wire Model.Wrap.
Import ListNotations.
Open Scope string_scope.

Definition nonempty (s : string) : Prop := s <> "".

(* ------------------------------------------------------------------ *)
(* Strings: basics *)

Lemma app_nil_r_s : forall s : string, s ++ "" = s.
Proof. induction s as [|a s IH]; simpl; [reflexivity | now rewrite IH]. Qed.

Lemma app_assoc_s : forall a b c : string, (a ++ b) ++ c = a ++ (b ++ c).
Proof. induction a as [|x a IH]; intros b c; simpl; [reflexivity | now rewrite IH]. Qed.

Lemma slen_app : forall a b, slen (a ++ b) = slen a + slen b.
Proof. unfold slen. induction a as [|x a IH]; intros b; simpl; [reflexivity | now rewrite IH]. Qed.

Lemma slen_zero : forall s, slen s = 0 -> s = "".
Proof. destruct s; simpl; [reflexivity | discriminate]. Qed.

Lemma slen_pos : forall s, s <> "" -> 0 < slen s.
Proof. destruct s as [|a s]; intros H; [congruence | unfold slen; simpl; lia]. Qed.

Lemma concat_cons : forall x xs, String.concat "" (x :: xs) = x ++ String.concat "" xs.
Proof.
  intros x [|y ys]; simpl.
  - now rewrite app_nil_r_s.
  - reflexivity.
Qed.

Lemma concat_app : forall xs ys,
  String.concat "" (xs ++ ys) = String.concat "" xs ++ String.concat "" ys.
Proof.
  induction xs as [|x xs IH]; intros ys.
  - reflexivity.
  - rewrite <- app_comm_cons, !concat_cons, IH, app_assoc_s. reflexivity.
Qed.

Lemma total_len_concat : forall cs, total_len cs = slen (String.concat "" cs).
Proof.
  induction cs as [|c cs IH].
  - reflexivity.
  - rewrite concat_cons, slen_app. simpl. now rewrite IH.
Qed.

Lemma total_len_app : forall xs ys, total_len (xs ++ ys) = total_len xs + total_len ys.
Proof. induction xs as [|x xs IH]; intros ys; simpl; [reflexivity | rewrite IH; lia]. Qed.

Lemma take_drop : forall n s, take n s ++ drop n s = s.
Proof.
  induction n as [|n IH]; intros s.
  - destruct s; reflexivity.
  - destruct s as [|a s]; simpl; [reflexivity | now rewrite IH].
Qed.

Lemma slen_take : forall n s, slen (take n s) = Nat.min n (slen s).
Proof.
  unfold slen. induction n as [|n IH]; intros s.
  - destruct s; reflexivity.
  - destruct s as [|a s]; simpl; [reflexivity | now rewrite IH].
Qed.

Lemma slen_drop : forall n s, slen (drop n s) = slen s - n.
Proof.
  unfold slen. induction n as [|n IH]; intros s.
  - destruct s; simpl; reflexivity.
  - destruct s as [|a s]; simpl; [reflexivity | now rewrite IH].
Qed.

Lemma prefix_app : forall a b, String.prefix a (a ++ b) = true.
Proof.
  induction a as [|x a IH]; intros b; simpl.
  - destruct b; reflexivity.
  - destruct (ascii_dec x x) as [_|N]; [apply IH | congruence].
Qed.

Lemma slen_blanks : forall n, slen (blanks n) = n.
Proof.
  unfold blanks. induction n as [|n IH].
  - reflexivity.
  - change (repeat " " (S n)) with (" " :: repeat " " n).
    rewrite concat_cons, slen_app, IH. reflexivity.
Qed.

(* ------------------------------------------------------------------ *)
(* the cut position *)

Lemma long_word_cut_le : forall c sl, long_word_cut c sl <= sl.
Proof. intros c sl. unfold long_word_cut. lia. Qed.

Lemma long_word_cut_pos : forall c sl, 0 < sl -> 0 < long_word_cut c sl.
Proof. intros c sl Hsl. unfold long_word_cut. exact Hsl. Qed.

(* ------------------------------------------------------------------ *)
(* fill and one_line *)

Definition nonnil {A} (l : list A) : bool := match l with [] => false | _ => true end.

Lemma fill_spec : forall chunks cur cur_len width any cur' cur_len' any' rest,
  fill chunks cur cur_len width any = (cur', cur_len', any', rest) ->
  exists taken,
    chunks = List.app taken rest /\
    cur' = cur ++ String.concat "" taken /\
    cur_len' = cur_len + total_len taken /\
    any' = (if nonnil taken then true else any) /\
    (cur_len <= width -> cur_len' <= width) /\
    match rest with [] => True | c :: _ => width < cur_len' + slen c end.
Proof.
  induction chunks as [|c r IH]; intros cur cur_len width any cur' cur_len' any' rest H; simpl in H.
  - injection H as <- <- <- <-. exists []. simpl. rewrite app_nil_r_s.
    repeat split; auto.
  - destruct (Nat.leb (cur_len + slen c) width) eqn:E.
    + apply Nat.leb_le in E. apply IH in H.
      destruct H as (taken & H1 & H2 & H3 & H4 & H5 & H6).
      exists (c :: taken). rewrite concat_cons. simpl.
      repeat split.
      * now rewrite H1.
      * now rewrite H2, app_assoc_s.
      * lia.
      * rewrite H4. destruct (nonnil taken); reflexivity.
      * intros _. apply H5. exact E.
      * exact H6.
    + apply Nat.leb_gt in E. injection H as <- <- <- <-. exists []. simpl.
      rewrite app_nil_r_s. repeat split; auto; try lia.
Qed.

(* what one iteration of the outer loop does: either whole chunks only (A), or whole chunks and a
   piece cut from a chunk that is longer than the line (B) *)
Lemma one_line_spec : forall chunks width body any rest,
  one_line chunks width = (body, any, rest) ->
  exists taken,
    total_len taken <= width /\
    ( ( chunks = List.app taken rest /\ body = String.concat "" taken /\ any = nonnil taken /\
        match rest with [] => True | c :: _ => slen c <= width /\ width < total_len taken + slen c end )
      \/
      ( exists c r e,
          chunks = List.app taken (c :: r) /\ width < slen c /\
          e = long_word_cut c (if Nat.ltb width 1 then 1 else width - total_len taken) /\
          body = String.concat "" taken ++ take e c /\ any = true /\ rest = drop e c :: r ) ).
Proof.
  intros chunks width body any rest H. unfold one_line in H.
  destruct (fill chunks "" 0 width false) as [[[cur cur_len] any0] rest0] eqn:F.
  apply fill_spec in F. destruct F as (taken & H1 & H2 & H3 & H4 & H5 & H6).
  simpl in H2, H3. subst cur cur_len.
  exists taken. split; [apply H5; lia|].
  destruct rest0 as [|c r].
  - injection H as <- <- <-. left. repeat split; auto.
    rewrite H4. destruct (nonnil taken); reflexivity.
  - destruct (Nat.ltb width (slen c)) eqn:E.
    + apply Nat.ltb_lt in E. injection H as <- <- <-. right.
      exists c, r, (long_word_cut c (if Nat.ltb width 1 then 1 else width - total_len taken)).
      repeat split; auto.
    + apply Nat.ltb_ge in E. injection H as <- <- <-. left. repeat split; auto.
      rewrite H4. destruct (nonnil taken); reflexivity.
Qed.

(* for a non-empty chunk list a line is always emitted *)
Lemma one_line_any : forall chunks width body any rest,
  chunks <> [] -> one_line chunks width = (body, any, rest) -> any = true.
Proof.
  intros chunks width body any rest Hne H.
  apply one_line_spec in H. destruct H as (taken & _ & [(H1 & _ & H3 & H4) | (c & r & e & _ & _ & _ & _ & H5 & _)]).
  - destruct taken as [|t ts]; [|exact H3].
    simpl in H1. subst rest. destruct chunks as [|c r]; [congruence|].
    simpl in H4. lia.
  - exact H5.
Qed.

Lemma one_line_content : forall chunks width body any rest,
  one_line chunks width = (body, any, rest) ->
  body ++ String.concat "" rest = String.concat "" chunks.
Proof.
  intros chunks width body any rest H.
  apply one_line_spec in H.
  destruct H as (taken & _ & [(H1 & H2 & _ & _) | (c & r & e & H1 & _ & _ & H4 & _ & H6)]).
  - subst. now rewrite concat_app.
  - subst chunks body rest. rewrite concat_app, !concat_cons, app_assoc_s.
    rewrite <- (app_assoc_s (take e c)), take_drop. reflexivity.
Qed.

Lemma one_line_width : forall chunks width body any rest,
  1 <= width -> one_line chunks width = (body, any, rest) -> slen body <= width.
Proof.
  intros chunks width body any rest Hw H.
  apply one_line_spec in H.
  destruct H as (taken & Ht & [(_ & H2 & _ & _) | (c & r & e & _ & _ & H3 & H4 & _ & _)]).
  - subst body. now rewrite <- total_len_concat.
  - subst body. rewrite slen_app, <- total_len_concat, slen_take.
    destruct (Nat.ltb width 1) eqn:E; [apply Nat.ltb_lt in E; lia|].
    pose proof (long_word_cut_le c (width - total_len taken)) as Hc.
    rewrite <- H3 in Hc. lia.
Qed.

(* progress: the measure total_len + length strictly decreases, non-emptiness is kept *)
Lemma one_line_progress : forall chunks width body any rest,
  1 <= width -> chunks <> [] -> Forall (fun c => c <> "") chunks ->
  one_line chunks width = (body, any, rest) ->
  total_len rest + List.length rest < total_len chunks + List.length chunks /\
  Forall (fun c => c <> "") rest.
Proof.
  intros chunks width body any rest Hw Hne Hall H.
  apply one_line_spec in H.
  destruct H as (taken & Ht & [(H1 & _ & _ & H4) | (c & r & e & H1 & H2 & H3 & _ & _ & H6)]).
  - subst chunks. apply Forall_app in Hall. destruct Hall as [_ Hr]. split; [|exact Hr].
    rewrite total_len_app, app_length.
    destruct taken as [|t ts]; [|simpl; lia].
    simpl in *. destruct rest as [|c r]; [congruence|]. lia.
  - subst chunks rest. apply Forall_app in Hall. destruct Hall as [_ Hr].
    inversion Hr as [|c0 r0 Hc Hr']; subst c0 r0.
    destruct (Nat.ltb width 1) eqn:E; [apply Nat.ltb_lt in E; lia|].
    pose proof (long_word_cut_le c (width - total_len taken)) as Hle.
    rewrite <- H3 in Hle.
    split.
    + rewrite total_len_app, app_length. simpl. rewrite slen_drop.
      destruct (Nat.eq_dec (total_len taken) width) as [Eq|Ne].
      * destruct taken as [|t ts]; [simpl in Eq; lia|]. simpl. lia.
      * pose proof (long_word_cut_pos c (width - total_len taken)) as Hpos.
        rewrite <- H3 in Hpos. lia.
    + constructor; [|exact Hr'].
      intros D. apply (f_equal slen) in D. rewrite slen_drop in D. simpl in D. lia.
Qed.

(* ------------------------------------------------------------------ *)
(* wrap_loop *)

Lemma wrap_loop_nil : forall fuel first W ii si, wrap_loop fuel first [] W ii si = Some [].
Proof. destruct fuel; reflexivity. Qed.

(* one unfolding of the loop on a non-empty chunk list *)
Lemma wrap_loop_step : forall f first chunks W ii si,
  chunks <> [] ->
  wrap_loop (S f) first chunks W ii si =
  match one_line chunks (W - slen (if first then ii else si)) with
  | (body, any, rest) =>
      match wrap_loop f (if any then false else first) rest W ii si with
      | Some ls => Some (if any then ((if first then ii else si) ++ body) :: ls else ls)
      | None => None
      end
  end.
Proof. intros f first [|c r] W ii si H; [congruence | reflexivity]. Qed.

Lemma wrap_loop_zero : forall first chunks W ii si ls,
  wrap_loop 0 first chunks W ii si = Some ls -> chunks = [] /\ ls = [].
Proof. intros first [|c r] W ii si ls H; simpl in H; [injection H as <-; auto | discriminate]. Qed.

(* 1. fuel *)
Lemma wrap_loop_fuel : forall fuel first chunks W ii si,
  slen ii < W -> slen si < W -> Forall (fun c => c <> "") chunks ->
  total_len chunks + List.length chunks < fuel ->
  wrap_loop fuel first chunks W ii si <> None.
Proof.
  induction fuel as [|f IH]; intros first chunks W ii si Hii Hsi Hall Hm; [lia|].
  destruct chunks as [|c r] eqn:Ec; [simpl; discriminate|].
  rewrite <- Ec in *. assert (Hne : chunks <> []) by (rewrite Ec; discriminate).
  rewrite wrap_loop_step by exact Hne.
  destruct (one_line chunks (W - slen (if first then ii else si))) as [[body any] rest] eqn:E.
  assert (Hw : 1 <= W - slen (if first then ii else si)) by (destruct first; lia).
  destruct (one_line_progress _ _ _ _ _ Hw Hne Hall E) as [Hlt Hall'].
  specialize (IH (if any then false else first) rest W ii si Hii Hsi Hall').
  destruct (wrap_loop f (if any then false else first) rest W ii si); [discriminate|].
  apply IH. lia.
Qed.

Lemma wrap_fuel_enough : forall W ii si chunks,
  slen ii < W -> slen si < W -> Forall (fun c => c <> "") chunks ->
  wrap_chunks W ii si chunks <> None.
Proof.
  intros W ii si chunks Hii Hsi Hall. unfold wrap_chunks.
  apply wrap_loop_fuel; auto.
Qed.

(* 2. width *)
Lemma wrap_loop_width : forall fuel first chunks W ii si ls,
  slen ii < W -> slen si < W ->
  wrap_loop fuel first chunks W ii si = Some ls -> Forall (fun l => slen l <= W) ls.
Proof.
  induction fuel as [|f IH]; intros first chunks W ii si ls Hii Hsi H.
  - apply wrap_loop_zero in H. destruct H as [_ ->]. constructor.
  - destruct chunks as [|c r] eqn:Ec; [simpl in H; injection H as <-; constructor|].
    rewrite <- Ec in *. assert (Hne : chunks <> []) by (rewrite Ec; discriminate).
    rewrite wrap_loop_step in H by exact Hne.
    destruct (one_line chunks (W - slen (if first then ii else si))) as [[body any] rest] eqn:E.
    assert (Hw : 1 <= W - slen (if first then ii else si)) by (destruct first; lia).
    pose proof (one_line_width _ _ _ _ _ Hw E) as Hb.
    destruct (wrap_loop f (if any then false else first) rest W ii si) as [ls'|] eqn:R; [|discriminate].
    injection H as <-. apply IH in R; auto.
    destruct any; [|exact R].
    constructor; [|exact R]. rewrite slen_app. destruct first; lia.
Qed.

Lemma wrap_width : forall W ii si chunks ls,
  slen ii < W -> slen si < W ->
  wrap_chunks W ii si chunks = Some ls -> Forall (fun l => slen l <= W) ls.
Proof.
  intros W ii si chunks ls Hii Hsi H. unfold wrap_chunks in H.
  eapply wrap_loop_width; [exact Hii | exact Hsi | exact H].
Qed.

(* 3. indent *)
Definition indented (ind si : string) (ls : list string) : Prop :=
  match ls with
  | [] => True
  | l0 :: rest => String.prefix ind l0 = true /\ Forall (fun l => String.prefix si l = true) rest
  end.

Lemma indented_all : forall si ls, indented si si ls -> Forall (fun l => String.prefix si l = true) ls.
Proof. intros si [|l ls] H; simpl in H; [constructor | destruct H; now constructor]. Qed.

Lemma wrap_loop_indent : forall fuel first chunks W ii si ls,
  wrap_loop fuel first chunks W ii si = Some ls -> indented (if first then ii else si) si ls.
Proof.
  induction fuel as [|f IH]; intros first chunks W ii si ls H.
  - apply wrap_loop_zero in H. destruct H as [_ ->]. exact I.
  - destruct chunks as [|c r] eqn:Ec; [simpl in H; injection H as <-; exact I|].
    rewrite <- Ec in *. assert (Hne : chunks <> []) by (rewrite Ec; discriminate).
    rewrite wrap_loop_step in H by exact Hne.
    destruct (one_line chunks (W - slen (if first then ii else si))) as [[body any] rest] eqn:E.
    destruct (wrap_loop f (if any then false else first) rest W ii si) as [ls'|] eqn:R; [|discriminate].
    injection H as <-. apply IH in R.
    destruct any; [|exact R].
    simpl. split; [apply prefix_app | apply indented_all; exact R].
Qed.

Lemma wrap_indent : forall W ii si chunks ls,
  wrap_chunks W ii si chunks = Some ls ->
  match ls with
  | [] => True
  | l0 :: rest => String.prefix ii l0 = true /\ Forall (fun l => String.prefix si l = true) rest
  end.
Proof. intros W ii si chunks ls H. apply wrap_loop_indent in H. exact H. Qed.

(* 4. content *)
Lemma wrap_loop_content : forall fuel first chunks W ii si ls,
  wrap_loop fuel first chunks W ii si = Some ls ->
  exists bodies,
    (match bodies with
     | [] => ls = []
     | b0 :: bs => ls = ((if first then ii else si) ++ b0) :: map (fun b => si ++ b) bs
     end) /\
    String.concat "" bodies = String.concat "" chunks.
Proof.
  induction fuel as [|f IH]; intros first chunks W ii si ls H.
  - apply wrap_loop_zero in H. destruct H as [-> ->]. exists []. split; reflexivity.
  - destruct chunks as [|c r] eqn:Ec; [simpl in H; injection H as <-; exists []; split; reflexivity|].
    rewrite <- Ec in *. assert (Hne : chunks <> []) by (rewrite Ec; discriminate).
    rewrite wrap_loop_step in H by exact Hne.
    destruct (one_line chunks (W - slen (if first then ii else si))) as [[body any] rest] eqn:E.
    pose proof (one_line_any _ _ _ _ _ Hne E) as ->.
    pose proof (one_line_content _ _ _ _ _ E) as Hc.
    destruct (wrap_loop f false rest W ii si) as [ls'|] eqn:R; [|discriminate].
    injection H as <-. apply IH in R. destruct R as (bodies & Hb & Hcc).
    exists (body :: bodies). split.
    + f_equal. destruct bodies as [|b0 bs]; [subst ls'; reflexivity | subst ls'; reflexivity].
    + rewrite concat_cons, Hcc. exact Hc.
Qed.

Lemma wrap_content : forall W ii si chunks ls,
  wrap_chunks W ii si chunks = Some ls ->
  exists bodies,
    (match bodies with
     | [] => ls = []
     | b0 :: bs => ls = (ii ++ b0) :: map (fun b => si ++ b) bs
     end) /\
    String.concat "" bodies = String.concat "" chunks.
Proof. intros W ii si chunks ls H. apply wrap_loop_content in H. exact H. Qed.

(* 5. identity *)
Lemma fill_all : forall chunks cur cur_len width any,
  cur_len + total_len chunks <= width ->
  fill chunks cur cur_len width any =
  (cur ++ String.concat "" chunks, cur_len + total_len chunks,
   if nonnil chunks then true else any, []).
Proof.
  induction chunks as [|c r IH]; intros cur cur_len width any H.
  - simpl. now rewrite app_nil_r_s, Nat.add_0_r.
  - rewrite concat_cons. cbn [fill total_len nonnil]. cbn [total_len] in H.
    destruct (Nat.leb (cur_len + slen c) width) eqn:E; [|apply Nat.leb_gt in E; lia].
    rewrite IH by lia. rewrite app_assoc_s, Nat.add_assoc.
    destruct (nonnil r); reflexivity.
Qed.

Lemma wrap_identity : forall W ii si chunks,
  chunks <> [] -> Forall (fun c => c <> "") chunks ->
  slen ii + slen (String.concat "" chunks) <= W ->
  wrap_chunks W ii si chunks = Some [ii ++ String.concat "" chunks].
Proof.
  intros W ii si chunks Hne _ Hfit. unfold wrap_chunks.
  rewrite wrap_loop_step by exact Hne.
  unfold one_line. rewrite fill_all by (rewrite total_len_concat; simpl; lia).
  destruct chunks as [|c r]; [congruence|].
  cbn [nonnil]. rewrite wrap_loop_nil. reflexivity.
Qed.

(* (section 7 precedes section 6 in this file: 6 uses its lemmas) *)
(* ------------------------------------------------------------------ *)
(* 7. re-splitting the wrapped lines gives the tokens of the text *)

(* every character of s is a blank (b = true) / no character of s is a blank (b = false) *)
Fixpoint all_kind (b : bool) (s : string) : bool :=
  match s with
  | EmptyString => true
  | String a r => Bool.eqb (is_blank a) b && all_kind b r
  end.
Definition kind (b : bool) (c : string) : Prop := c <> "" /\ all_kind b c = true.
(* non-empty runs of alternating kind, the first of kind b *)
Fixpoint alt (b : bool) (cs : list string) : Prop :=
  match cs with
  | [] => True
  | c :: r => kind b c /\ alt (negb b) r
  end.

Lemma all_kind_app : forall b x y, all_kind b (x ++ y) = all_kind b x && all_kind b y.
Proof.
  induction x as [|a x IH]; intros y; simpl; [reflexivity|].
  now rewrite IH, andb_assoc.
Qed.

Lemma all_kind_blanks : forall n, all_kind true (blanks n) = true.
Proof.
  unfold blanks. induction n as [|n IH]; [reflexivity|].
  change (repeat " " (S n)) with (" " :: repeat " " n).
  rewrite concat_cons, all_kind_app, IH. reflexivity.
Qed.

Lemma kind_true_not_word : forall c, kind true c -> all_kind false c = false.
Proof.
  intros [|a c] [Hne Hk]; [congruence|]. simpl in *.
  apply andb_true_iff in Hk. destruct Hk as [Hk _].
  destruct (is_blank a); [reflexivity | discriminate].
Qed.

Lemma alt_app : forall xs ys b, alt b (List.app xs ys) -> alt b xs /\ exists b', alt b' ys.
Proof.
  induction xs as [|x xs IH]; intros ys b H.
  - split; [exact I | exists b; exact H].
  - simpl in H. destruct H as [Hk H]. apply IH in H. destruct H as [Hx Hy].
    split; [split; assumption | exact Hy].
Qed.

(* split_ws *)
Lemma split_ws_aux_spec : forall s cur b,
  kind b cur ->
  alt b (split_ws_aux s cur b) /\ String.concat "" (split_ws_aux s cur b) = cur ++ s.
Proof.
  induction s as [|a s IH]; intros cur b [Hne Hk].
  - cbn [split_ws_aux].
    destruct (String.eqb cur "") eqn:E; [apply String.eqb_eq in E; congruence|].
    rewrite app_nil_r_s. split; [|reflexivity].
    split; [split; assumption | exact I].
  - cbn [split_ws_aux].
    destruct (String.eqb cur "") eqn:E; [apply String.eqb_eq in E; congruence|].
    destruct (Bool.eqb (is_blank a) b) eqn:Eb.
    + assert (K : kind b (cur ++ String a "")).
      { split.
        - destruct cur; [congruence | simpl; discriminate].
        - rewrite all_kind_app, Hk. simpl. now rewrite Eb. }
      destruct (IH _ _ K) as [H1 H2]. split; [exact H1|].
      rewrite H2, app_assoc_s. reflexivity.
    + assert (Eb' : is_blank a = negb b).
      { destruct (is_blank a), b; simpl in Eb; try discriminate; reflexivity. }
      assert (K : kind (is_blank a) (String a "")).
      { split; [discriminate|]. simpl. now rewrite Bool.eqb_reflx. }
      destruct (IH _ _ K) as [H1 H2]. rewrite concat_cons, H2. split; [|reflexivity].
      split; [split; assumption|]. rewrite <- Eb'. exact H1.
Qed.

Lemma split_ws_spec : forall text,
  exists b, alt b (split_ws text) /\ String.concat "" (split_ws text) = text.
Proof.
  intros [|a r]; unfold split_ws.
  - exists true. split; [exact I | reflexivity].
  - cbn [split_ws_aux String.eqb]. exists (is_blank a).
    assert (K : kind (is_blank a) (String a "")).
    { split; [discriminate|]. simpl. now rewrite Bool.eqb_reflx. }
    destruct (split_ws_aux_spec r _ _ K) as [H1 H2]. split; [exact H1 | rewrite H2; reflexivity].
Qed.

(* words *)
Lemma is_blank_eq : forall a, is_blank a = true -> a = " "%char.
Proof. intros a H. unfold is_blank in H. now apply Ascii.eqb_eq in H. Qed.

Lemma words_blank_app : forall a b, all_kind true a = true -> words (a ++ b) = words b.
Proof.
  induction a as [|x a IH]; intros b H; [reflexivity|].
  simpl in H. apply andb_true_iff in H. destruct H as [Hx Ha].
  destruct (is_blank x) eqn:Ex; [|discriminate].
  apply is_blank_eq in Ex. subst x.
  rewrite <- (IH b Ha). reflexivity.
Qed.

Lemma split_word_app : forall w b cur,
  all_kind false w = true ->
  split_on_aux " "%char (w ++ b) cur = split_on_aux " "%char b (cur ++ w).
Proof.
  induction w as [|x w IH]; intros b cur H.
  - now rewrite app_nil_r_s.
  - simpl in H. apply andb_true_iff in H. destruct H as [Hx Hw].
    destruct (is_blank x) eqn:Ex; [discriminate|].
    unfold is_blank in Ex. cbn [append split_on_aux]. rewrite Ex.
    rewrite IH by exact Hw. rewrite app_assoc_s. reflexivity.
Qed.

Lemma words_word_app : forall w b,
  kind false w -> (b = "" \/ exists b', b = String " "%char b') ->
  words (w ++ b) = w :: words b.
Proof.
  intros w b [Hne Hk] Hb. unfold words, split_on.
  rewrite split_word_app by exact Hk. cbn [append].
  assert (E : String.eqb w "" = false) by (apply String.eqb_neq; exact Hne).
  destruct Hb as [-> | [b' ->]].
  - cbn. rewrite E. reflexivity.
  - cbn. rewrite E. reflexivity.
Qed.

Lemma alt_true_start : forall r,
  alt true r -> String.concat "" r = "" \/ exists b', String.concat "" r = String " "%char b'.
Proof.
  intros [|d r] H; [now left|]. right.
  destruct H as [[Hne Hk] _]. rewrite concat_cons.
  destruct d as [|x d]; [congruence|]. simpl in Hk.
  apply andb_true_iff in Hk. destruct Hk as [Hx _].
  destruct (is_blank x) eqn:Ex; [|discriminate].
  apply is_blank_eq in Ex. subst x. eexists. reflexivity.
Qed.

Lemma words_alt : forall cs b,
  alt b cs -> words (String.concat "" cs) = filter (all_kind false) cs.
Proof.
  induction cs as [|c r IH]; intros b H; [reflexivity|].
  destruct H as [Hk Hr]. rewrite concat_cons. cbn [filter].
  destruct b.
  - rewrite (kind_true_not_word _ Hk). destruct Hk as [_ Hk].
    rewrite words_blank_app by exact Hk. eapply IH; exact Hr.
  - pose proof Hk as [_ Hk']. rewrite Hk'.
    rewrite words_word_app; [| exact Hk | apply alt_true_start; exact Hr].
    f_equal. eapply IH; exact Hr.
Qed.

Lemma wrap_loop_words : forall fuel first chunks W ii si ls b,
  all_kind true ii = true -> all_kind true si = true ->
  alt b chunks ->
  Forall (fun c => slen c <= W - slen ii) chunks ->
  Forall (fun c => slen c <= W - slen si) chunks ->
  wrap_loop fuel first chunks W ii si = Some ls ->
  List.concat (map words ls) = filter (all_kind false) chunks.
Proof.
  induction fuel as [|f IH]; intros first chunks W ii si ls b Hii Hsi Halt Fi Fs H.
  - apply wrap_loop_zero in H. destruct H as [-> ->]. reflexivity.
  - destruct chunks as [|c0 r0] eqn:Ec; [simpl in H; injection H as <-; reflexivity|].
    rewrite <- Ec in *. assert (Hne : chunks <> []) by (rewrite Ec; discriminate).
    rewrite wrap_loop_step in H by exact Hne.
    set (indent := if first then ii else si) in *.
    assert (Hind : all_kind true indent = true) by (unfold indent; destruct first; assumption).
    assert (Fw : Forall (fun c => slen c <= W - slen indent) chunks)
      by (unfold indent; destruct first; assumption).
    destruct (one_line chunks (W - slen indent)) as [[body any] rest] eqn:E.
    destruct (wrap_loop f (if any then false else first) rest W ii si) as [ls'|] eqn:R; [|discriminate].
    injection H as <-.
    apply one_line_spec in E.
    destruct E as (taken & _ & [(H1 & H2 & H3 & _) | (c & r & e & H1 & H2 & _)]).
    + assert (Halt' := Halt). rewrite H1 in Halt'. apply alt_app in Halt'.
      destruct Halt' as [Ht [b' Hr]].
      assert (Fi' := Fi). assert (Fs' := Fs). rewrite H1 in Fi', Fs'.
      apply Forall_app in Fi', Fs'. destruct Fi' as [_ Fi'], Fs' as [_ Fs'].
      specialize (IH _ _ _ _ _ _ _ Hii Hsi Hr Fi' Fs' R).
      rewrite H1. rewrite filter_app, <- IH.
      destruct taken as [|t ts].
      * simpl in H3. subst any. reflexivity.
      * simpl in H3. subst any. cbn [map List.concat]. f_equal.
        rewrite words_blank_app by exact Hind. subst body. eapply words_alt; exact Ht.
    + rewrite H1 in Fw. apply Forall_app in Fw. destruct Fw as [_ Fw].
      inversion Fw as [|c' r' Hc _]; subst. lia.
Qed.

Lemma wrap_resplit : forall W cont text ls,
  cont < W ->
  Forall (fun c => slen c <= W - cont) (split_ws text) ->
  wrap_chunks W "" (blanks cont) (split_ws text) = Some ls ->
  List.concat (map words ls) = words text.
Proof.
  intros W cont text ls _ Hfit H. unfold wrap_chunks in H.
  destruct (split_ws_spec text) as (b & Halt & Hcat).
  rewrite <- Hcat. rewrite (words_alt _ _ Halt).
  eapply wrap_loop_words; [| | exact Halt | | | exact H].
  - reflexivity.
  - apply all_kind_blanks.
  - eapply Forall_impl; [|exact Hfit]. simpl. intros c Hc. lia.
  - rewrite slen_blanks. exact Hfit.
Qed.

Lemma split_ws_chunks_nonempty : forall text, Forall (fun c => c <> "") (split_ws text).
Proof.
  intros text. destruct (split_ws_spec text) as (b & Halt & _). revert b Halt.
  induction (split_ws text) as [|c r IH]; intros b H; [constructor|].
  destruct H as [[Hne _] Hr]. constructor; [exact Hne | eapply IH; exact Hr].
Qed.

Lemma split_ws_nonnil : forall text, text <> "" -> split_ws text <> [].
Proof.
  intros text Hne E. destruct (split_ws_spec text) as (b & _ & Hc). rewrite E in Hc. simpl in Hc. congruence.
Qed.

(* ------------------------------------------------------------------ *)
(* 6. _wrap_line and wrap_lines: totality, width, indentation, no blank-only line *)

Lemma WOk_inj : forall a b, WOk a = WOk b -> a = b.
Proof. intros a b H. injection H as H. exact H. Qed.

Lemma Forall_removelast : forall {A} (P : A -> Prop) (l : list A), Forall P l -> Forall P (removelast l).
Proof.
  intros A P l H. induction H as [|x l Hx Hl IH]; [constructor|].
  destruct l as [|y l']; [constructor|]. change (Forall P (x :: removelast (y :: l'))). now constructor.
Qed.

Lemma Forall_last : forall {A} (P : A -> Prop) (l : list A) d, l <> [] -> Forall P l -> P (List.last l d).
Proof.
  intros A P l d Hne H. induction H as [|x l Hx Hl IH]; [congruence|].
  destruct l as [|y l']; [exact Hx|]. apply IH. discriminate.
Qed.

Lemma prefix_elim : forall a x, String.prefix a x = true -> exists t, x = a ++ t.
Proof.
  induction a as [|c a IH]; intros x H.
  - exists x. reflexivity.
  - destruct x as [|d x]; [discriminate|]. simpl in H.
    destruct (ascii_dec c d) as [->|N]; [|discriminate].
    apply IH in H. destruct H as [t ->]. exists t. reflexivity.
Qed.

Lemma prefix_app_r : forall a x y, String.prefix a x = true -> String.prefix a (x ++ y) = true.
Proof.
  intros a x y H. apply prefix_elim in H. destruct H as [t ->].
  rewrite app_assoc_s. apply prefix_app.
Qed.

Lemma prefix_trans_app : forall a b x, String.prefix (a ++ b) x = true -> String.prefix a x = true.
Proof.
  intros a b x H. apply prefix_elim in H. destruct H as [t ->].
  rewrite app_assoc_s. apply prefix_app.
Qed.

Lemma half_le : forall W, Nat.div W 2 <= W.
Proof. intros W. apply Nat.div_le_upper_bound; lia. Qed.

Lemma slen_dollar_si : forall si, slen (dollar_si si) = slen si + 2.
Proof. intros si. unfold dollar_si. rewrite slen_app. reflexivity. Qed.

(* the lines of a non-empty chunk list of non-empty chunks are not the empty list *)
Lemma wrap_chunks_nonnil : forall W ii si chunks ls,
  chunks <> [] -> Forall (fun c => c <> "") chunks ->
  wrap_chunks W ii si chunks = Some ls -> ls <> [].
Proof.
  intros W ii si chunks ls Hne Hall H. apply wrap_content in H.
  destruct H as (bodies & Hb & Hc). intros ->.
  destruct bodies as [|b0 bs]; [|discriminate].
  destruct chunks as [|c r]; [congruence|].
  inversion Hall as [|c' r' Hc' _]; subst.
  rewrite concat_cons in Hc. simpl in Hc. destruct c; [congruence | discriminate].
Qed.

Definition chunks_ok (l : src_line) : Prop :=
  Forall (fun c => c <> "") (l_chunks l) /\ Forall (fun c => c <> "") (l_data_chunks l) /\
  Forall (fun c => c <> "") (l_comment_chunks l) /\
  (all_pyspace (before_dollar (l_text l)) = false -> l_data_chunks l <> []).

(* 6a. _wrap_line returns (no IndexError, the fuel of the model suffices) *)
Lemma wrap_line_chunks_total : forall W cont ii si l,
  2 < W -> slen ii < W -> slen si + 2 < W -> chunks_ok l ->
  exists out, wrap_line_chunks W cont ii si l = WOk out.
Proof.
  intros W cont ii si l HW Hii Hsi (Hc1 & Hc2 & Hc3 & Hc4). unfold wrap_line_chunks.
  assert (Hplain : exists out, of_opt (wrap_chunks W ii si (l_chunks l)) = WOk out).
  { pose proof (wrap_fuel_enough W ii si (l_chunks l) Hii ltac:(lia) Hc1) as F.
    destruct (wrap_chunks W ii si (l_chunks l)) as [ls|]; [exists ls; reflexivity | congruence]. }
  destruct (Nat.leb (slen ii + slen (l_text l)) W); [exact Hplain|].
  destruct (comment_branch cont (ii ++ l_text l)).
  { pose proof (wrap_fuel_enough W ii comment_si (l_chunks l) Hii ltac:(unfold comment_si, slen; simpl; lia) Hc1) as F.
    destruct (wrap_chunks W ii comment_si (l_chunks l)) as [ls|]; [exists ls; reflexivity | congruence]. }
  destruct (negb (has_char dollar (l_text l))); [exact Hplain|].
  assert (Hsi' : slen (dollar_si si) < W) by (rewrite slen_dollar_si; lia).
  destruct (all_pyspace (before_dollar (l_text l))) eqn:Eb; cbn [negb].
  - set (ci := if Nat.leb (Nat.div W 2) (slen (ii ++ before_dollar (l_text l))) then si
                else ii ++ before_dollar (l_text l)).
    assert (Hi : slen ci < W).
    { unfold ci. destruct (Nat.leb (Nat.div W 2) (slen (ii ++ before_dollar (l_text l)))) eqn:E; [lia|].
      apply Nat.leb_gt in E. pose proof (half_le W). lia. }
    pose proof (wrap_fuel_enough W ci (dollar_si si) (l_comment_chunks l) Hi Hsi' Hc3) as F.
    destruct (wrap_chunks W ci (dollar_si si) (l_comment_chunks l)) as [ls|];
      [exists ls; reflexivity | congruence].
  - pose proof (wrap_fuel_enough W ii si (l_data_chunks l) Hii ltac:(lia) Hc2) as F.
    destruct (wrap_chunks W ii si (l_data_chunks l)) as [ret|] eqn:R; [|congruence].
    pose proof (wrap_chunks_nonnil _ _ _ _ _ (Hc4 eq_refl) Hc2 R) as Hne.
    destruct ret as [|r0 rs]; [congruence|].
    destruct (Nat.leb (slen (List.last (r0 :: rs) "") + slen (from_dollar (l_text l))) W); [eexists; reflexivity|].
    destruct (Nat.ltb (slen (List.last (r0 :: rs) "")) (Nat.div W 2)) eqn:Eh.
    + apply Nat.ltb_lt in Eh. pose proof (half_le W) as Hh.
      pose proof (wrap_fuel_enough W (List.last (r0 :: rs) "") (dollar_si si) (l_comment_chunks l)
                    ltac:(lia) Hsi' Hc3) as F2.
      destruct (wrap_chunks W (List.last (r0 :: rs) "") (dollar_si si) (l_comment_chunks l)) as [ls|];
        [eexists; reflexivity | congruence].
    + pose proof (wrap_fuel_enough W si (dollar_si si) (l_comment_chunks l) ltac:(lia) Hsi' Hc3) as F2.
      destruct (wrap_chunks W si (dollar_si si) (l_comment_chunks l)) as [ls|];
        [eexists; reflexivity | congruence].
Qed.

(* 6b. every line _wrap_line returns fits the limit *)
Lemma wrap_line_chunks_width : forall W cont ii si l out,
  2 < W -> slen ii < W -> slen si + 2 < W ->
  wrap_line_chunks W cont ii si l = WOk out -> Forall (fun x => slen x <= W) out.
Proof.
  intros W cont ii si l out HW Hii Hsi H. unfold wrap_line_chunks in H.
  assert (Hplain : of_opt (wrap_chunks W ii si (l_chunks l)) = WOk out -> Forall (fun x => slen x <= W) out).
  { intros E. destruct (wrap_chunks W ii si (l_chunks l)) as [ls|] eqn:R; [|discriminate].
    apply WOk_inj in E; subst out. apply (wrap_width W ii si _ _ Hii ltac:(lia) R). }
  destruct (Nat.leb (slen ii + slen (l_text l)) W); [exact (Hplain H)|].
  destruct (comment_branch cont (ii ++ l_text l)).
  { destruct (wrap_chunks W ii comment_si (l_chunks l)) as [ls|] eqn:R; [|discriminate].
    apply WOk_inj in H; subst out. apply (wrap_width W ii comment_si _ _ Hii ltac:(unfold comment_si, slen; simpl; lia) R). }
  destruct (negb (has_char dollar (l_text l))); [exact (Hplain H)|].
  assert (Hsi' : slen (dollar_si si) < W) by (rewrite slen_dollar_si; lia).
  destruct (all_pyspace (before_dollar (l_text l))) eqn:Eb; cbn [negb] in H.
  - set (ci := if Nat.leb (Nat.div W 2) (slen (ii ++ before_dollar (l_text l))) then si
                else ii ++ before_dollar (l_text l)) in *.
    assert (Hi : slen ci < W).
    { unfold ci. destruct (Nat.leb (Nat.div W 2) (slen (ii ++ before_dollar (l_text l)))) eqn:E; [lia|].
      apply Nat.leb_gt in E. pose proof (half_le W). lia. }
    destruct (wrap_chunks W ci (dollar_si si) (l_comment_chunks l)) as [ls|] eqn:R; [|discriminate].
    apply WOk_inj in H; subst out. exact (wrap_width W _ _ _ _ Hi Hsi' R).
  - destruct (wrap_chunks W ii si (l_data_chunks l)) as [ret|] eqn:R; [|discriminate].
    destruct ret as [|r0 rs]; [discriminate|].
    assert (Hret : Forall (fun x => slen x <= W) (r0 :: rs))
      by (apply (wrap_width W ii si _ _ Hii ltac:(lia) R)).
    set (ret := r0 :: rs) in *.
    destruct (Nat.leb (slen (List.last ret "") + slen (from_dollar (l_text l))) W) eqn:Ea.
    + apply WOk_inj in H; subst out. apply Nat.leb_le in Ea. apply Forall_app. split.
      * apply Forall_removelast. exact Hret.
      * constructor; [rewrite slen_app; exact Ea | constructor].
    + destruct (Nat.ltb (slen (List.last ret "")) (Nat.div W 2)) eqn:Eh.
      * apply Nat.ltb_lt in Eh. pose proof (half_le W) as Hh.
        destruct (wrap_chunks W (List.last ret "") (dollar_si si) (l_comment_chunks l)) as [ls|] eqn:R2; [|discriminate].
        apply WOk_inj in H; subst out. apply Forall_app. split; [apply Forall_removelast; exact Hret|].
        refine (wrap_width W _ _ _ _ _ Hsi' R2). lia.
      * destruct (wrap_chunks W si (dollar_si si) (l_comment_chunks l)) as [ls|] eqn:R2; [|discriminate].
        apply WOk_inj in H; subst out. apply Forall_app. split; [exact Hret|].
        refine (wrap_width W _ _ _ _ _ Hsi' R2). lia.
Qed.

Definition plain_line (line : string) : src_line :=
  SrcLine line (split_ws line) (split_ws (before_dollar line)) (split_ws (from_dollar line)).

(* 6c. indentation: the first line starts with the initial indent; every other line starts with the continuation
   indent, or is a "c " line that continues a line MontePy takes for a comment line *)
Definition cont_ok (cont : nat) (si written x : string) : Prop :=
  String.prefix si x = true \/ (comment_branch cont written = true /\ String.prefix comment_si x = true).

Lemma wrap_line_chunks_indent : forall W cont ii si l out,
  String.prefix ii si = true ->
  wrap_line_chunks W cont ii si l = WOk out ->
  match out with
  | [] => True
  | l0 :: rest => String.prefix ii l0 = true /\ Forall (cont_ok cont si (ii ++ l_text l)) rest
  end.
Proof.
  intros W cont ii si l out Hpre H. unfold wrap_line_chunks in H.
  assert (Hsi_ii : forall x, String.prefix si x = true -> String.prefix ii x = true).
  { intros x Hx. apply prefix_elim in Hpre. destruct Hpre as [t Ht]. apply prefix_elim in Hx. destruct Hx as [u ->].
    rewrite Ht, app_assoc_s. apply prefix_app. }
  assert (Hplain : of_opt (wrap_chunks W ii si (l_chunks l)) = WOk out ->
                   match out with
                   | [] => True
                   | l0 :: rest => String.prefix ii l0 = true /\ Forall (cont_ok cont si (ii ++ l_text l)) rest
                   end).
  { intros E. destruct (wrap_chunks W ii si (l_chunks l)) as [ls|] eqn:R; [|discriminate E].
    apply WOk_inj in E; subst out. apply wrap_indent in R. destruct ls as [|l0 rest]; [exact I|].
    destruct R as [R1 R2]. split; [exact R1|]. eapply Forall_impl; [|exact R2]. intros x Hx. left. exact Hx. }
  destruct (Nat.leb (slen ii + slen (l_text l)) W); [exact (Hplain H)|].
  destruct (comment_branch cont (ii ++ l_text l)) eqn:Ec.
  { destruct (wrap_chunks W ii comment_si (l_chunks l)) as [ls|] eqn:R; [|discriminate H].
    apply WOk_inj in H; subst out. apply wrap_indent in R. destruct ls as [|l0 rest]; [exact I|].
    destruct R as [R1 R2]. split; [exact R1|]. eapply Forall_impl; [|exact R2]. intros x Hx. right. auto. }
  destruct (negb (has_char dollar (l_text l))); [exact (Hplain H)|].
  assert (Hcom : forall ci ls, wrap_chunks W ci (dollar_si si) (l_comment_chunks l) = Some ls ->
                 match ls with
                 | [] => True
                 | c0 :: cs => String.prefix ci c0 = true /\ Forall (cont_ok cont si (ii ++ l_text l)) cs
                 end).
  { intros ci ls R. apply wrap_indent in R. destruct ls as [|c0 cs]; [exact I|].
    destruct R as [R1 R2]. split; [exact R1|]. eapply Forall_impl; [|exact R2].
    intros x Hx. left. eapply prefix_trans_app. exact Hx. }
  destruct (all_pyspace (before_dollar (l_text l))) eqn:Eb; cbn [negb] in H.
  - destruct (Nat.leb (Nat.div W 2) (slen (ii ++ before_dollar (l_text l)))) eqn:Eh.
    + (* a long blank prefix is replaced by the continuation indent: only reached when ii is a prefix of it *)
      destruct (wrap_chunks W si (dollar_si si) (l_comment_chunks l)) as [ls|] eqn:R; [|discriminate H].
      apply WOk_inj in H; subst out. apply Hcom in R. destruct ls as [|c0 cs]; [exact I|].
      destruct R as [R1 R2]. split; [apply Hsi_ii; exact R1 | exact R2].
    + destruct (wrap_chunks W (ii ++ before_dollar (l_text l)) (dollar_si si) (l_comment_chunks l)) as [ls|] eqn:R;
        [|discriminate H].
      apply WOk_inj in H; subst out. apply Hcom in R. destruct ls as [|c0 cs]; [exact I|].
      destruct R as [R1 R2]. split; [eapply prefix_trans_app; exact R1 | exact R2].
  - destruct (wrap_chunks W ii si (l_data_chunks l)) as [ret|] eqn:R; [|discriminate H].
    destruct ret as [|r0 rs]; [discriminate H|].
    apply wrap_indent in R. destruct R as [R1 R2].
    assert (R2' : Forall (cont_ok cont si (ii ++ l_text l)) rs)
      by (eapply Forall_impl; [|exact R2]; intros x Hx; left; exact Hx).
    (* the last data line: the first line, or a continuation line *)
    assert (Hlast : forall t,
              match List.app (removelast (r0 :: rs)) [List.last (r0 :: rs) "" ++ t] with
              | [] => True
              | l0 :: rest => String.prefix ii l0 = true /\ Forall (cont_ok cont si (ii ++ l_text l)) rest
              end).
    { intros t. destruct rs as [|r1 rs'].
      - simpl. split; [apply prefix_app_r; exact R1 | constructor].
      - change (removelast (r0 :: r1 :: rs')) with (r0 :: removelast (r1 :: rs')).
        change (List.last (r0 :: r1 :: rs') "") with (List.last (r1 :: rs') "").
        rewrite <- app_comm_cons. split; [exact R1|].
        apply Forall_app. split; [apply Forall_removelast; exact R2'|].
        constructor; [|constructor]. left. apply prefix_app_r.
        apply (Forall_last (fun x => String.prefix si x = true) (r1 :: rs') ""); [discriminate | exact R2]. }
    destruct (Nat.leb (slen (List.last (r0 :: rs) "") + slen (from_dollar (l_text l))) W).
    + apply WOk_inj in H; subst out. apply Hlast.
    + destruct (Nat.ltb (slen (List.last (r0 :: rs) "")) (Nat.div W 2)).
      * destruct (wrap_chunks W (List.last (r0 :: rs) "") (dollar_si si) (l_comment_chunks l)) as [ls|] eqn:R3;
          [|discriminate H].
        apply WOk_inj in H; subst out. pose proof (Hcom _ _ R3) as Hc.
        destruct ls as [|c0 cs].
        -- rewrite app_nil_r. destruct rs as [|r1 rs'].
           ++ exact I.
           ++ change (removelast (r0 :: r1 :: rs')) with (r0 :: removelast (r1 :: rs')).
              split; [exact R1 | apply Forall_removelast; exact R2'].
        -- destruct Hc as [Hc1 Hc2]. apply prefix_elim in Hc1. destruct Hc1 as [t ->].
           specialize (Hlast t).
           replace (List.app (removelast (r0 :: rs)) ((List.last (r0 :: rs) "" ++ t) :: cs))
             with (List.app (List.app (removelast (r0 :: rs)) [List.last (r0 :: rs) "" ++ t]) cs)
             by (rewrite <- app_assoc; reflexivity).
           destruct (List.app (removelast (r0 :: rs)) [List.last (r0 :: rs) "" ++ t]) as [|l0 rest] eqn:E.
           ++ destruct (removelast (r0 :: rs)); discriminate.
           ++ rewrite <- app_comm_cons. destruct Hlast as [H1 H2]. split; [exact H1|].
              apply Forall_app. split; assumption.
      * destruct (wrap_chunks W si (dollar_si si) (l_comment_chunks l)) as [ls|] eqn:R3; [|discriminate H].
        apply WOk_inj in H; subst out. pose proof (Hcom _ _ R3) as Hc.
        rewrite <- app_comm_cons. split; [exact R1|].
        apply Forall_app. split; [exact R2'|].
        destruct ls as [|c0 cs]; [constructor|].
        destruct Hc as [Hc1 Hc2]. constructor; [left; exact Hc1 | exact Hc2].
Qed.

(* 6d. _wrap_line on the raw line: the chunks are computed *)
Lemma munge_nonempty : forall x, all_pyspace x = false -> munge x <> "".
Proof.
  intros [|a r] H; [discriminate|]. unfold munge, expandtabs. cbn [expandtabs_aux].
  destruct (Ascii.eqb a tab_char); [vm_compute; discriminate|].
  destruct (Ascii.eqb a nl_char || Ascii.eqb a cr_char); cbn [translate_ws]; discriminate.
Qed.

Definition computed_line (line : string) : src_line :=
  SrcLine line (chunks_of line) (chunks_of (before_dollar line)) (chunks_of (from_dollar line)).

Lemma computed_chunks_ok : forall line, chunks_ok (computed_line line).
Proof.
  intros line. unfold chunks_ok, computed_line, chunks_of. cbn [l_text l_chunks l_data_chunks l_comment_chunks].
  repeat split; try apply split_ws_chunks_nonempty.
  intros H. apply split_ws_nonnil. apply munge_nonempty. exact H.
Qed.

Lemma wrap_line_total : forall W cont ii si line,
  2 < W -> slen ii < W -> slen si + 2 < W -> exists out, wrap_line W cont ii si line = WOk out.
Proof.
  intros W cont ii si line HW Hii Hsi. unfold wrap_line.
  apply wrap_line_chunks_total; auto. apply computed_chunks_ok.
Qed.

Lemma wrap_line_width : forall W cont ii si line out,
  2 < W -> slen ii < W -> slen si + 2 < W ->
  wrap_line W cont ii si line = WOk out -> Forall (fun x => slen x <= W) out.
Proof. intros W cont ii si line out HW Hii Hsi H. unfold wrap_line in H. eapply wrap_line_chunks_width; eauto. Qed.

Lemma wrap_line_indent : forall W cont ii si line out,
  String.prefix ii si = true ->
  wrap_line W cont ii si line = WOk out ->
  match out with
  | [] => True
  | l0 :: rest => String.prefix ii l0 = true /\ Forall (cont_ok cont si (ii ++ expandtabs line)) rest
  end.
Proof.
  intros W cont ii si line out Hp H. unfold wrap_line in H.
  apply (wrap_line_chunks_indent _ _ _ _ _ _ Hp H).
Qed.

(* 6e. wrap_lines *)
Lemma wrap_lines_width : forall W cont (first : bool) lines out,
  cont + 2 < W ->
  wrap_lines W cont first lines = WOk out -> Forall (fun x => slen x <= W) out.
Proof.
  intros W cont first lines. revert first.
  induction lines as [|l r IH]; intros first out Hc H; simpl in H.
  - injection H as <-. constructor.
  - destruct (all_pyspace l); [eapply IH; eauto|].
    destruct (wrap_line W cont (if first then "" else blanks cont) (blanks cont) l) as [a| |] eqn:A; try discriminate.
    destruct (wrap_lines W cont first r) as [b| |] eqn:B; try discriminate.
    injection H as <-. apply Forall_app. split.
    + assert (Ha : Forall (fun x => slen x <= W) a).
      { eapply wrap_line_width; [| | | exact A].
        * lia.
        * destruct first; [unfold slen; simpl; lia | rewrite slen_blanks; lia].
        * rewrite slen_blanks; exact Hc. }
      rewrite Forall_forall in *. intros x Hx. apply filter_In in Hx. apply Ha. tauto.
    + eapply IH; eauto.
Qed.

(* wrap_string_for_mcnp returns for every list of lines *)
Lemma wrap_lines_total : forall W cont (first : bool) lines,
  cont + 2 < W -> exists out, wrap_lines W cont first lines = WOk out.
Proof.
  intros W cont first lines Hc. induction lines as [|l r [b IH]]; [exists []; reflexivity|].
  simpl. destruct (all_pyspace l); [exists b; exact IH|].
  destruct (wrap_line_total W cont (if first then "" else blanks cont) (blanks cont) l) as [a Ha].
  - lia.
  - destruct first; [unfold slen; simpl; lia | rewrite slen_blanks; lia].
  - rewrite slen_blanks; exact Hc.
  - rewrite Ha, IH. eexists; reflexivity.
Qed.

Lemma all_blank_pyspace : forall x, all_blank x = true -> all_pyspace x = true.
Proof.
  induction x as [|a x IH]; intros H; [reflexivity|]. simpl in *.
  apply andb_true_iff in H. destruct H as [Ha Hx]. apply is_blank_eq in Ha. subst a.
  rewrite (IH Hx). reflexivity.
Qed.

(* no line written by wrap_lines consists of blanks only (such a line would end the block) *)
Lemma wrap_lines_no_blank_line : forall W cont first lines out,
  wrap_lines W cont first lines = WOk out -> Forall (fun x => all_blank x = false) out.
Proof.
  intros W cont first lines. revert first.
  induction lines as [|l r IH]; intros first out H; simpl in H.
  - injection H as <-. constructor.
  - destruct (all_pyspace l); [eapply IH; eauto|].
    destruct (wrap_line W cont (if first then "" else blanks cont) (blanks cont) l) as [a| |] eqn:A; try discriminate.
    destruct (wrap_lines W cont first r) as [b| |] eqn:B; try discriminate.
    injection H as <-. apply Forall_app. split.
    + rewrite Forall_forall. intros x Hx. apply filter_In in Hx. destruct Hx as [_ Hx].
      unfold keep_part in Hx. destruct (all_blank x) eqn:E; [|reflexivity].
      apply all_blank_pyspace in E. rewrite E in Hx. discriminate.
    + eapply IH; eauto.
Qed.

(* ------------------------------------------------------------------ *)
(* 8. what the written lines mean to MCNP: specification vocabulary (independent of MontePy's code) *)

(* S5: a comment line has a C in columns 1-5, only blanks before it, and a blank or the end of the line after it *)
Fixpoint cline_aux (k : nat) (s : string) : bool :=
  match s with
  | EmptyString => false
  | String a r =>
      if is_c a then (match r with EmptyString => true | String b _ => is_blank b end)
      else if is_blank a then (match k with O => false | S k' => cline_aux k' r end)
      else false
  end.
Definition mcnp_comment_line (s : string) : bool := cline_aux 4 s.

(* S6: on any other line the data is the text before the first '$', the comment is the text after it *)
Fixpoint data_part (l : string) : string :=
  match l with
  | EmptyString => ""
  | String a r => if Ascii.eqb a "$"%char then "" else String a (data_part r)
  end.
Fixpoint after_dollar (l : string) : string :=
  match l with
  | EmptyString => ""
  | String a r => if Ascii.eqb a "$"%char then r else after_dollar r
  end.
(* the text of a comment line: what follows the C *)
Fixpoint after_c (l : string) : string :=
  match l with
  | EmptyString => ""
  | String a r => if is_blank a then after_c r else r
  end.

Definition line_tokens (x : string) : list string :=
  if mcnp_comment_line x then [] else words (data_part x).
Definition line_comment (x : string) : string :=
  if mcnp_comment_line x then after_c x else after_dollar x.
(* the data tokens / the comment text of a sequence of physical lines *)
Definition data_tokens (ls : list string) : list string := List.concat (map line_tokens ls).
Definition comment_text (ls : list string) : string := String.concat "" (map line_comment ls).
(* comment text is compared with its blanks removed: where a long comment was broken is not content *)
Fixpoint noblank (s : string) : string :=
  match s with
  | EmptyString => ""
  | String a r => if is_blank a then noblank r else String a (noblank r)
  end.

(* ---- basic facts ---- *)
Lemma blanks_S : forall n, blanks (S n) = String " "%char (blanks n).
Proof.
  intros n. unfold blanks. change (repeat " " (S n)) with (" " :: repeat " " n).
  rewrite concat_cons. reflexivity.
Qed.

Lemma blanks_add : forall a b, blanks (a + b) = blanks a ++ blanks b.
Proof.
  induction a as [|a IH]; intros b; [reflexivity|].
  change (S a + b) with (S (a + b)). rewrite !blanks_S, IH. reflexivity.
Qed.

Lemma cline_aux_blanks : forall k t, cline_aux k (blanks (S k) ++ t) = false.
Proof.
  induction k as [|k IH]; intros t.
  - rewrite blanks_S. reflexivity.
  - rewrite blanks_S. cbn [append cline_aux]. change (is_c " "%char) with false.
    change (is_blank " "%char) with true. cbn iota. apply IH.
Qed.

Lemma cline_cont_prefix : forall cont x,
  5 <= cont -> String.prefix (blanks cont) x = true -> mcnp_comment_line x = false.
Proof.
  intros cont x Hc H. apply prefix_elim in H. destruct H as [t ->].
  replace cont with (5 + (cont - 5)) by lia. rewrite blanks_add, app_assoc_s.
  apply (cline_aux_blanks 4).
Qed.

Lemma cline_c_blank : forall b, mcnp_comment_line (comment_si ++ b) = true.
Proof. intros b. reflexivity. Qed.

(* the first k+2 characters decide *)
Lemma cline_prefix_long : forall k x t, k + 2 <= slen x -> cline_aux k (x ++ t) = cline_aux k x.
Proof.
  induction k as [|k IH]; intros x t H.
  - destruct x as [|a [|b x]]; unfold slen in H; simpl in H; try lia. reflexivity.
  - destruct x as [|a x]; [unfold slen in H; simpl in H; lia|].
    cbn [append cline_aux]. destruct (is_c a).
    + destruct x as [|b x]; [unfold slen in H; simpl in H; lia | reflexivity].
    + destruct (is_blank a); [|reflexivity]. apply IH. unfold slen in *. simpl in H. lia.
Qed.

Lemma has_char_app : forall c x y, has_char c (x ++ y) = has_char c x || has_char c y.
Proof.
  induction x as [|a x IH]; intros y; [reflexivity|]. cbn [append has_char]. rewrite IH. now rewrite orb_assoc.
Qed.

Lemma has_char_blanks : forall n, has_char dollar (blanks n) = false.
Proof. induction n as [|n IH]; [reflexivity|]. rewrite blanks_S. cbn [has_char]. rewrite IH. reflexivity. Qed.

Lemma has_char_concat_false : forall c bs, has_char c (String.concat "" bs) = false ->
  Forall (fun b => has_char c b = false) bs.
Proof.
  induction bs as [|b bs IH]; intros H; [constructor|].
  rewrite concat_cons, has_char_app in H. apply orb_false_iff in H. destruct H. constructor; auto.
Qed.

Lemma data_part_nodollar : forall x, has_char dollar x = false -> data_part x = x.
Proof.
  induction x as [|a x IH]; intros H; [reflexivity|]. cbn [has_char] in H.
  apply orb_false_iff in H. destruct H as [Ha Hx]. cbn [data_part].
  unfold dollar in Ha. rewrite Ha, (IH Hx). reflexivity.
Qed.

Lemma after_dollar_nodollar : forall x, has_char dollar x = false -> after_dollar x = "".
Proof.
  induction x as [|a x IH]; intros H; [reflexivity|]. cbn [has_char] in H.
  apply orb_false_iff in H. destruct H as [Ha Hx]. cbn [after_dollar].
  unfold dollar in Ha. rewrite Ha. auto.
Qed.

Lemma data_part_dollar : forall x u, has_char dollar x = false -> data_part (x ++ String dollar u) = x.
Proof.
  induction x as [|a x IH]; intros u H; [reflexivity|]. cbn [has_char] in H.
  apply orb_false_iff in H. destruct H as [Ha Hx]. cbn [append data_part].
  unfold dollar in Ha. rewrite Ha, (IH u Hx). reflexivity.
Qed.

Lemma after_dollar_dollar : forall x u, has_char dollar x = false -> after_dollar (x ++ String dollar u) = u.
Proof.
  induction x as [|a x IH]; intros u H; [reflexivity|]. cbn [has_char] in H.
  apply orb_false_iff in H. destruct H as [Ha Hx]. cbn [append after_dollar].
  unfold dollar in Ha. rewrite Ha. auto.
Qed.

(* line.split("$", 1) *)
Lemma split_dollar_spec : forall line,
  line = before_dollar line ++ from_dollar line /\ has_char dollar (before_dollar line) = false /\
  (has_char dollar line = true -> exists rest, from_dollar line = String dollar rest).
Proof.
  induction line as [|a r IH]; [repeat split; discriminate|].
  destruct IH as (I1 & I2 & I3). cbn [before_dollar from_dollar has_char].
  destruct (Ascii.eqb a dollar) eqn:E.
  - apply Ascii.eqb_eq in E. subst a. repeat split. intros _. eexists; reflexivity.
  - cbn [append has_char]. rewrite E. repeat split; [congruence | exact I2 | exact I3].
Qed.

Lemma noblank_app : forall x y, noblank (x ++ y) = noblank x ++ noblank y.
Proof.
  induction x as [|a x IH]; intros y; [reflexivity|]. cbn [append noblank].
  destruct (is_blank a); [apply IH | cbn [append]; now rewrite IH].
Qed.

Lemma noblank_sep : forall sep bs, noblank sep = "" ->
  noblank (String.concat "" (map (fun b => sep ++ b) bs)) = noblank (String.concat "" bs).
Proof.
  intros sep bs Hs. induction bs as [|b bs IH]; [reflexivity|].
  cbn [map]. rewrite !concat_cons, !noblank_app, Hs, IH. reflexivity.
Qed.

Lemma all_kind_true_blank : forall p, all_kind true p = true -> all_blank p = true.
Proof.
  induction p as [|a p IH]; intros H; [reflexivity|]. simpl in *.
  apply andb_true_iff in H. destruct H as [Ha Hp].
  destruct (is_blank a); [auto | discriminate].
Qed.

Lemma words_blank_only : forall p, all_kind true p = true -> words p = [].
Proof. intros p H. rewrite <- (app_nil_r_s p). rewrite words_blank_app by exact H. reflexivity. Qed.

(* ---- the shape of what wrap_chunks returns ---- *)
(* the first line is never empty-bodied *)
Lemma one_line_body_nonempty : forall c r width body any rest,
  c <> "" -> one_line (c :: r) width = (body, any, rest) -> body <> "".
Proof.
  intros c r width body any rest Hc H. apply one_line_spec in H.
  destruct H as (taken & Ht & [(H1 & H2 & _ & H4) | (c' & r' & e & H1 & H2 & H3 & H4 & _ & _)]).
  - destruct taken as [|t ts].
    + simpl in H1. subst rest. simpl in H4. apply slen_pos in Hc. lia.
    + injection H1 as <- _. subst body. rewrite concat_cons. destruct c; [congruence | discriminate].
  - destruct taken as [|t ts].
    + simpl in H1. injection H1 as <- <-. subst body. simpl.
      assert (He : 0 < e).
      { subst e. apply long_word_cut_pos. simpl. destruct (Nat.ltb width 1) eqn:E; [lia|]. apply Nat.ltb_ge in E. lia. }
      destruct c; [congruence|]. destruct e; [lia | discriminate].
    + injection H1 as <- _. subst body. rewrite concat_cons. destruct c; [congruence | discriminate].
Qed.

Lemma wrap_first_body : forall W ii si c r ls,
  c <> "" -> wrap_chunks W ii si (c :: r) = Some ls ->
  exists b0 bs rest, b0 <> "" /\ ls = (ii ++ b0) :: map (fun b => si ++ b) bs /\
                String.concat "" (b0 :: bs) = String.concat "" (c :: r) /\
                one_line (c :: r) (W - slen ii) = (b0, true, rest).
Proof.
  intros W ii si c r ls Hc H. unfold wrap_chunks in H.
  assert (Hne : c :: r <> []) by discriminate.
  rewrite wrap_loop_step in H by exact Hne.
  destruct (one_line (c :: r) (W - slen ii)) as [[body any] rest] eqn:E.
  pose proof (one_line_any _ _ _ _ _ Hne E) as ->.
  pose proof (one_line_content _ _ _ _ _ E) as Hcont.
  pose proof (one_line_body_nonempty _ _ _ _ _ _ Hc E) as Hb.
  destruct (wrap_loop _ false rest W ii si) as [ls'|] eqn:R; [|discriminate].
  injection H as <-. apply wrap_loop_content in R. destruct R as (bodies & Hls & Hcc).
  exists body, bodies, rest. split; [exact Hb|]. split; [|split; [|reflexivity]].
  - f_equal. destruct bodies as [|b0 bs]; subst ls'; reflexivity.
  - rewrite concat_cons, Hcc. exact Hcont.
Qed.

(* data text whose runs all fit a continuation line: tokens kept, and a first line that is followed by another
   one is longer than the continuation indent *)
Lemma wrap_data_lines : forall W cont ii text ls,
  5 <= cont -> cont < W -> (ii = "" \/ ii = blanks cont) ->
  Forall (fun c => slen c <= W - cont) (split_ws text) ->
  wrap_chunks W ii (blanks cont) (split_ws text) = Some ls ->
  List.concat (map words ls) = words text /\
  (exists bodies,
     (match bodies with [] => ls = [] | b0 :: bs => ls = (ii ++ b0) :: map (fun b => blanks cont ++ b) bs end) /\
     String.concat "" bodies = text) /\
  (match ls with l0 :: _ :: _ => cont < slen l0 | _ => True end).
Proof.
  intros W cont ii text ls Hc HW Hii Hfit H.
  assert (Hiik : all_kind true ii = true) by (destruct Hii as [-> | ->]; [reflexivity | apply all_kind_blanks]).
  assert (Hiil : slen ii <= cont) by (destruct Hii as [-> | ->]; [unfold slen; simpl; lia | rewrite slen_blanks; lia]).
  destruct (split_ws_spec text) as (b & Halt & Hcat).
  split; [|split].
  - replace (words text) with (words (String.concat "" (split_ws text))) by (rewrite Hcat; reflexivity).
    rewrite (words_alt _ _ Halt). unfold wrap_chunks in H.
    eapply wrap_loop_words; [exact Hiik | apply all_kind_blanks | exact Halt | | | exact H].
    + eapply Forall_impl; [|exact Hfit]. simpl. intros c Hcl. lia.
    + rewrite slen_blanks. exact Hfit.
  - apply wrap_content in H. destruct H as (bodies & Hb & Hcc). exists bodies. split; [exact Hb | congruence].
  - unfold wrap_chunks in H.
    destruct (split_ws text) as [|c0 r0] eqn:Ec; [simpl in H; injection H as <-; exact I|].
    rewrite <- Ec in *. assert (Hne : split_ws text <> []) by (rewrite Ec; discriminate).
    rewrite wrap_loop_step in H by exact Hne.
    destruct (one_line (split_ws text) (W - slen ii)) as [[body any] rest] eqn:E.
    pose proof (one_line_any _ _ _ _ _ Hne E) as ->.
    destruct (wrap_loop _ false rest W ii (blanks cont)) as [ls'|] eqn:R; [|discriminate].
    injection H as <-. destruct ls' as [|l1 ls'']; [exact I|].
    assert (Hrest : rest <> []).
    { intros ->. rewrite wrap_loop_nil in R. discriminate. }
    apply one_line_spec in E.
    destruct E as (taken & Ht & [(H1 & H2 & _ & H4) | (c' & r' & e & H1 & H2 & _)]).
    + destruct rest as [|c' r']; [congruence|]. destruct H4 as [H4a H4b].
      assert (Hc' : slen c' <= W - cont).
      { rewrite H1 in Hfit. apply Forall_app in Hfit. destruct Hfit as [_ Hf]. inversion Hf; assumption. }
      subst body. rewrite slen_app, <- total_len_concat. lia.
    + assert (Hc' : slen c' <= W - cont).
      { rewrite H1 in Hfit. apply Forall_app in Hfit. destruct Hfit as [_ Hf]. inversion Hf; assumption. }
      lia.
Qed.

(* a comment part "$..." wrapped with the continuation indent si': the first line carries the '$' *)
Lemma wrap_comment_lines : forall W ci si' rest ls,
  wrap_chunks W ci si' (split_ws (String dollar rest)) = Some ls ->
  exists u0 bs, ls = (ci ++ String dollar u0) :: map (fun b => si' ++ b) bs /\
                u0 ++ String.concat "" bs = rest.
Proof.
  intros W ci si' rest ls H.
  pose proof (split_ws_chunks_nonempty (String dollar rest)) as Hall.
  destruct (split_ws_spec (String dollar rest)) as (b & _ & Hcat).
  destruct (split_ws (String dollar rest)) as [|c r] eqn:Ec; [simpl in Hcat; discriminate|].
  inversion Hall as [|c' r' Hc _]; subst.
  destruct (wrap_first_body _ _ _ _ _ _ Hc H) as (b0 & bs & rest0 & Hb0 & Hls & Hcc & _).
  rewrite Hcat in Hcc. rewrite concat_cons in Hcc.
  destruct b0 as [|a u0]; [congruence|]. simpl in Hcc. injection Hcc as -> Hrest.
  exists u0, bs. split; [exact Hls | exact Hrest].
Qed.

(* ---- a comment line that is wrapped: its first physical line keeps the C ---- *)
Lemma is_c_not_blank : forall c, is_c c = true -> is_blank c = false.
Proof.
  intros c H. unfold is_c in H. apply orb_true_iff in H.
  destruct H as [H|H]; apply Ascii.eqb_eq in H; subst c; reflexivity.
Qed.

Lemma cline_decomp : forall k s, cline_aux k s = true ->
  exists j c t, j <= k /\ s = blanks j ++ String c t /\ is_c c = true /\
                (t = "" \/ exists t', t = String " "%char t').
Proof.
  induction k as [|k IH]; intros s H.
  - destruct s as [|a r]; [discriminate|]. cbn [cline_aux] in H.
    destruct (is_c a) eqn:Ec.
    + exists 0, a, r. split; [lia|]. split; [reflexivity|]. split; [exact Ec|].
      destruct r as [|b r']; [now left|]. right. apply is_blank_eq in H. subst b. eexists; reflexivity.
    + destruct (is_blank a); discriminate.
  - destruct s as [|a r]; [discriminate|]. cbn [cline_aux] in H.
    destruct (is_c a) eqn:Ec.
    + exists 0, a, r. split; [lia|]. split; [reflexivity|]. split; [exact Ec|].
      destruct r as [|b r']; [now left|]. right. apply is_blank_eq in H. subst b. eexists; reflexivity.
    + destruct (is_blank a) eqn:Eb; [|discriminate]. apply is_blank_eq in Eb. subst a.
      apply IH in H. destruct H as (j & c & t & Hj & Hs & Hc & Ht).
      exists (S j), c, t. split; [lia|]. split; [rewrite blanks_S, Hs; reflexivity|]. auto.
Qed.

Lemma cline_build : forall k j c more, j <= k -> is_c c = true ->
  (more = "" \/ exists m', more = String " "%char m') ->
  cline_aux k (blanks j ++ String c more) = true.
Proof.
  induction k as [|k IH]; intros j c more Hj Hc Hm.
  - assert (j = 0) by lia. subst j. cbn [blanks repeat String.concat append cline_aux]. rewrite Hc.
    destruct Hm as [-> | [m' ->]]; reflexivity.
  - destruct j as [|j].
    + cbn [blanks repeat String.concat append cline_aux]. rewrite Hc.
      destruct Hm as [-> | [m' ->]]; reflexivity.
    + rewrite blanks_S. cbn [append cline_aux]. change (is_c " "%char) with false.
      change (is_blank " "%char) with true. cbn iota. apply IH; [lia | exact Hc | exact Hm].
Qed.

Lemma string_app_inv_head : forall a x y : string, a ++ x = a ++ y -> x = y.
Proof. induction a as [|c a IH]; intros x y H; [exact H|]. simpl in H. injection H as H. auto. Qed.

Lemma split_ws_aux_same : forall u cur b v,
  cur <> "" -> all_kind b u = true -> split_ws_aux (u ++ v) cur b = split_ws_aux v (cur ++ u) b.
Proof.
  induction u as [|a u IH]; intros cur b v Hne Hk.
  - now rewrite app_nil_r_s.
  - simpl in Hk. apply andb_true_iff in Hk. destruct Hk as [Ha Hu].
    cbn [append split_ws_aux].
    destruct (String.eqb cur "") eqn:E; [apply String.eqb_eq in E; congruence|].
    rewrite Ha. rewrite IH; [| destruct cur; [congruence | discriminate] | exact Hu].
    rewrite app_assoc_s. reflexivity.
Qed.

Lemma split_ws_c : forall c t, is_c c = true -> (t = "" \/ exists t', t = String " "%char t') ->
  split_ws (String c t) = String c "" :: split_ws t.
Proof.
  intros c t Hc Ht. pose proof (is_c_not_blank c Hc) as Hb.
  unfold split_ws. cbn [split_ws_aux String.eqb]. rewrite Hb.
  destruct Ht as [-> | [t' ->]].
  - reflexivity.
  - cbn [split_ws_aux String.eqb]. reflexivity.
Qed.

Lemma split_ws_blanks_c : forall j c t, is_c c = true -> (t = "" \/ exists t', t = String " "%char t') ->
  split_ws (blanks (S j) ++ String c t) = blanks (S j) :: String c "" :: split_ws t.
Proof.
  intros j c t Hc Ht. pose proof (is_c_not_blank c Hc) as Hb.
  rewrite blanks_S. unfold split_ws at 1. cbn [append split_ws_aux String.eqb].
  change (is_blank " "%char) with true.
  rewrite split_ws_aux_same; [| discriminate | apply all_kind_blanks].
  cbn [split_ws_aux]. cbn [append String.eqb]. rewrite Hb. cbn [Bool.eqb].
  f_equal. rewrite <- (split_ws_c c t Hc Ht). unfold split_ws. cbn [split_ws_aux String.eqb]. rewrite Hb. reflexivity.
Qed.

Lemma fill_app_fits : forall pre post cur cur_len width any,
  cur_len + total_len pre <= width ->
  fill (List.app pre post) cur cur_len width any =
  fill post (cur ++ String.concat "" pre) (cur_len + total_len pre) width (if nonnil pre then true else any).
Proof.
  induction pre as [|c r IH]; intros post cur cur_len width any H.
  - simpl. now rewrite app_nil_r_s, Nat.add_0_r.
  - rewrite concat_cons. cbn [List.app fill total_len nonnil]. cbn [total_len] in H.
    destruct (Nat.leb (cur_len + slen c) width) eqn:E; [|apply Nat.leb_gt in E; lia].
    rewrite IH by lia. rewrite app_assoc_s, Nat.add_assoc.
    destruct (nonnil r); reflexivity.
Qed.

Lemma one_line_prefix : forall pre post width body any rest,
  total_len pre <= width -> one_line (List.app pre post) width = (body, any, rest) ->
  exists more, body = String.concat "" pre ++ more.
Proof.
  intros pre post width body any rest Hfit H. unfold one_line in H.
  rewrite fill_app_fits in H by (simpl; exact Hfit). simpl in H.
  destruct (fill post (String.concat "" pre) (total_len pre) width (if nonnil pre then true else false))
    as [[[cur cur_len] any0] rest0] eqn:F.
  apply fill_spec in F. destruct F as (taken & _ & H2 & _).
  destruct rest0 as [|c r].
  - injection H as <- _ _. exists (String.concat "" taken). exact H2.
  - destruct (Nat.ltb width (slen c)).
    + injection H as <- _ _. eexists. rewrite H2, app_assoc_s. reflexivity.
    + injection H as <- _ _. exists (String.concat "" taken). exact H2.
Qed.

Lemma wrap_comment_line_lines : forall W si line ls,
  5 <= W -> mcnp_comment_line line = true ->
  wrap_chunks W "" si (split_ws line) = Some ls ->
  exists b0 bs, ls = b0 :: map (fun b => si ++ b) bs /\ String.concat "" (b0 :: bs) = line /\
                mcnp_comment_line b0 = true.
Proof.
  intros W si line ls HW Hcl H.
  apply cline_decomp in Hcl. destruct Hcl as (j & c & t & Hj & Hline & Hc & Ht).
  destruct (split_ws_spec line) as (b & _ & Hcat).
  pose proof (split_ws_chunks_nonempty line) as Hall.
  (* the chunks up to the C fit the first line *)
  assert (Hpre : exists pre post, split_ws line = List.app pre post /\
                                  String.concat "" pre = blanks j ++ String c "" /\ total_len pre <= 5).
  { subst line. destruct j as [|j].
    - exists [String c ""], (split_ws t). split; [apply split_ws_c; assumption|]. split; [reflexivity|].
      unfold slen; simpl; lia.
    - exists [blanks (S j); String c ""], (split_ws t). split; [apply split_ws_blanks_c; assumption|].
      split; [rewrite !concat_cons; reflexivity|]. cbn [total_len]. rewrite slen_blanks. unfold slen; simpl; lia. }
  destruct Hpre as (pre & post & Hsplit & Hpc & Hpl).
  destruct (split_ws line) as [|c0 r0] eqn:Ec.
  { destruct pre; [|discriminate]. simpl in Hpc. destruct j; [discriminate|]. rewrite blanks_S in Hpc. discriminate. }
  inversion Hall as [|c0' r0' Hc0 _]; subst c0' r0'.
  destruct (wrap_first_body _ _ _ _ _ _ Hc0 H) as (b0 & bs & rest & Hb0 & Hls & Hcc & Hone).
  rewrite Hcat in Hcc. cbn [slen String.length] in Hone. rewrite Nat.sub_0_r in Hone.
  rewrite Hsplit in Hone. apply one_line_prefix in Hone; [|lia].
  destruct Hone as [more Hmore]. rewrite Hpc in Hmore.
  exists b0, bs. split; [exact Hls|]. split; [exact Hcc|].
  (* b0 = blanks j ++ c ++ more, and more is a prefix of t *)
  assert (Hb : b0 = blanks j ++ String c more) by (rewrite Hmore, app_assoc_s; reflexivity).
  rewrite concat_cons, Hb, Hline, app_assoc_s in Hcc. apply string_app_inv_head in Hcc.
  cbn [append] in Hcc. injection Hcc as Hcc.
  rewrite Hb. unfold mcnp_comment_line. apply cline_build; [exact Hj | exact Hc|].
  destruct more as [|m more']; [now left|]. right.
  destruct Ht as [-> | [t' ->]]; [discriminate|]. cbn [append] in Hcc. injection Hcc as -> _. eexists; reflexivity.
Qed.

(* ---- the shape of what _wrap_line returns for a plain line ---- *)
(* a physical line that is data only *)
Definition data_line (x : string) : Prop := has_char dollar x = false /\ mcnp_comment_line x = false.

Lemma data_line_tokens : forall x, data_line x -> line_tokens x = words x /\ line_comment x = "".
Proof.
  intros x [H1 H2]. unfold line_tokens, line_comment. rewrite H2.
  rewrite data_part_nodollar, after_dollar_nodollar by exact H1. auto.
Qed.

Lemma cline_dollar_irrelevant : forall k p u v,
  cline_aux k (p ++ String dollar u) = cline_aux k (p ++ String dollar v).
Proof.
  induction k as [|k IH]; intros p u v.
  - destruct p as [|a [|b p]]; reflexivity.
  - destruct p as [|a p]; [reflexivity|]. cbn [append cline_aux].
    destruct (is_c a); [destruct p; reflexivity|]. destruct (is_blank a); [apply IH | reflexivity].
Qed.

Lemma cline_pyspace_dollar : forall p k u, all_pyspace p = true -> cline_aux k (p ++ String dollar u) = false.
Proof.
  induction p as [|a p IH]; intros k u H; [destruct k; reflexivity|].
  simpl in H. apply andb_true_iff in H. destruct H as [Ha Hp].
  assert (Hc : is_c a = false).
  { unfold is_c. destruct (Ascii.eqb a "c"%char) eqn:E1; [apply Ascii.eqb_eq in E1; subst a; discriminate|].
    destruct (Ascii.eqb a "C"%char) eqn:E2; [apply Ascii.eqb_eq in E2; subst a; discriminate | reflexivity]. }
  destruct k as [|k]; cbn [append cline_aux]; rewrite Hc; destruct (is_blank a); try reflexivity.
  apply IH; exact Hp.
Qed.

Lemma before_dollar_nodollar : forall x, has_char dollar x = false -> before_dollar x = x.
Proof.
  induction x as [|a x IH]; intros H; [reflexivity|]. cbn [has_char] in H.
  apply orb_false_iff in H. destruct H as [Ha Hx]. cbn [before_dollar]. rewrite Ha, (IH Hx). reflexivity.
Qed.

Lemma concat_map_app : forall {A B} (f : A -> list B) xs ys,
  List.concat (map f (List.app xs ys)) = List.app (List.concat (map f xs)) (List.concat (map f ys)).
Proof. intros A B f xs ys. rewrite map_app, Coq.Lists.List.concat_app. reflexivity. Qed.

(* the lines of wrapped data text: no '$'; a first line that is followed by another one is no comment line *)
Lemma wrap_data_lines_ok : forall W cont ii text tail ls,
  5 <= cont -> cont < W -> (ii = "" \/ ii = blanks cont) ->
  has_char dollar text = false ->
  Forall (fun c => slen c <= W - cont) (split_ws text) ->
  mcnp_comment_line (ii ++ text ++ tail) = false ->
  wrap_chunks W ii (blanks cont) (split_ws text) = Some ls ->
  List.concat (map words ls) = words text /\
  Forall (fun x => has_char dollar x = false) ls /\
  match ls with
  | [] => True
  | l0 :: rs => String.prefix ii l0 = true /\
                Forall (fun x => String.prefix (blanks cont) x = true) rs /\
                ((rs = [] /\ l0 = ii ++ text) \/ (rs <> [] /\ mcnp_comment_line l0 = false))
  end.
Proof.
  intros W cont ii text tail ls Hc HW Hii Hnd Hfit Hcl H.
  pose proof (wrap_indent _ _ _ _ _ H) as Hind.
  destruct (wrap_data_lines _ _ _ _ _ Hc HW Hii Hfit H) as (Hw & (bodies & Hb & Hcat) & Hlen).
  assert (Hiid : has_char dollar ii = false) by (destruct Hii as [-> | ->]; [reflexivity | apply has_char_blanks]).
  split; [exact Hw|].
  rewrite <- Hcat in Hnd. apply has_char_concat_false in Hnd.
  destruct bodies as [|b0 bs]; [subst ls; split; [constructor | exact I]|].
  subst ls. inversion Hnd as [|x xs Hb0 Hbs]; subst x xs. split.
  - constructor; [rewrite has_char_app, Hiid, Hb0; reflexivity|].
    rewrite Forall_forall in *. intros x Hx. apply in_map_iff in Hx. destruct Hx as (bb & <- & Hbb).
    rewrite has_char_app, has_char_blanks. simpl. auto.
  - destruct Hind as [Hi1 Hi2]. split; [exact Hi1|]. split; [exact Hi2|].
    destruct bs as [|b1 bs'].
    + left. split; [reflexivity|]. rewrite concat_cons in Hcat. simpl in Hcat. rewrite app_nil_r_s in Hcat. now subst b0.
    + right. split; [discriminate|]. cbn [map] in Hlen.
      assert (E : ii ++ text ++ tail = (ii ++ b0) ++ (String.concat "" (b1 :: bs') ++ tail)).
      { rewrite <- Hcat, concat_cons, !app_assoc_s. reflexivity. }
      rewrite E in Hcl. unfold mcnp_comment_line in *. rewrite cline_prefix_long in Hcl; [exact Hcl | lia].
Qed.

Definition dollar_shape (cont : nat) (pdata rest : string) (out : list string) : Prop :=
  exists dl p u0 bs,
    out = List.app dl ((p ++ String dollar u0) :: map (fun b => dollar_si (blanks cont) ++ b) bs) /\
    Forall data_line dl /\ has_char dollar p = false /\
    mcnp_comment_line (p ++ String dollar u0) = false /\
    List.app (List.concat (map words dl)) (words p) = words pdata /\
    u0 ++ String.concat "" bs = rest.

(* a plain line: its only whitespace characters are blanks (no tab, CR, LF, VT, FF, FS..US, NEL, NBSP) *)
Definition plain_char (a : ascii) : bool := orb (negb (is_pyspace a)) (is_blank a).
Fixpoint plain_text (s : string) : bool :=
  match s with
  | EmptyString => true
  | String a r => andb (plain_char a) (plain_text r)
  end.

Lemma plain_pyspace_blank : forall s, plain_text s = true -> all_pyspace s = true -> all_kind true s = true.
Proof.
  induction s as [|a s IH]; intros Hp Hs; [reflexivity|]. simpl in *.
  apply andb_true_iff in Hp. destruct Hp as [Ha Hp]. apply andb_true_iff in Hs. destruct Hs as [Hsa Hs].
  unfold plain_char in Ha. rewrite Hsa in Ha. simpl in Ha. rewrite Ha, (IH Hp Hs). reflexivity.
Qed.

Lemma plain_text_before_dollar : forall s, plain_text s = true -> plain_text (before_dollar s) = true.
Proof.
  induction s as [|a s IH]; intros H; [reflexivity|]. simpl in *.
  apply andb_true_iff in H. destruct H as [Ha Hs]. destruct (Ascii.eqb a dollar); [reflexivity|].
  simpl. rewrite Ha, (IH Hs). reflexivity.
Qed.

Lemma wrap_line_shape : forall W cont (first : bool) line out,
  5 <= cont -> cont + 2 < W -> 11 < W -> plain_text line = true ->
  comment_branch cont ((if first then "" else blanks cont) ++ line) =
    mcnp_comment_line ((if first then "" else blanks cont) ++ line) ->
  (mcnp_comment_line ((if first then "" else blanks cont) ++ line) = false ->
   Forall (fun c => slen c <= W - cont) (split_ws (before_dollar line))) ->
  wrap_line_chunks W cont (if first then "" else blanks cont) (blanks cont) (plain_line line) = WOk out ->
  let ii := if first then "" else blanks cont in
  out = [ii ++ line] \/
  (line = "" /\ out = []) \/
  (has_char dollar line = false /\ mcnp_comment_line (ii ++ line) = false /\
   Forall data_line out /\ List.concat (map words out) = words line) \/
  (ii = "" /\ mcnp_comment_line line = true /\
   exists b0 bs, out = b0 :: map (fun b => comment_si ++ b) bs /\ String.concat "" (b0 :: bs) = line /\
                 mcnp_comment_line b0 = true) \/
  (mcnp_comment_line (ii ++ line) = false /\
   exists rest, line = before_dollar line ++ String dollar rest /\
                dollar_shape cont (ii ++ before_dollar line) rest out).
Proof.
  intros W cont first line out Hc HW HW12 Hplain Hcls Hfit H ii.
  assert (HcW : cont < W) by lia.
  assert (Hii : ii = "" \/ ii = blanks cont) by (unfold ii; destruct first; auto).
  fold ii in H, Hcls, Hfit.
  assert (Hiib : all_kind true ii = true) by (destruct Hii as [-> | ->]; [reflexivity | apply all_kind_blanks]).
  unfold wrap_line_chunks in H. cbn [l_text l_chunks l_data_chunks l_comment_chunks plain_line] in H.
  destruct (split_ws_spec line) as (b & _ & Hcat).
  destruct (Nat.leb (slen ii + slen line) W) eqn:Efit.
  { (* the line fits *)
    apply Nat.leb_le in Efit. destruct line as [|a r] eqn:El.
    - right. left. split; [reflexivity|]. cbn in H. apply WOk_inj in H. auto.
    - left. rewrite <- El in *.
      rewrite wrap_identity in H.
      + apply WOk_inj in H. rewrite Hcat in H. auto.
      + apply split_ws_nonnil. rewrite El. discriminate.
      + apply split_ws_chunks_nonempty.
      + rewrite Hcat. exact Efit. }
  destruct (comment_branch cont (ii ++ line)) eqn:Ecom.
  { (* a comment line *)
    right. right. right. left.
    assert (Hi : ii = "").
    { destruct Hii as [Hi|Hi]; [exact Hi|]. exfalso. symmetry in Hcls. rewrite Hi in Hcls.
      rewrite (cline_cont_prefix cont) in Hcls; [discriminate | exact Hc | apply prefix_app]. }
    rewrite Hi in *. cbn [append] in Hcls. split; [reflexivity|]. split; [auto|].
    destruct (wrap_chunks W "" comment_si (split_ws line)) as [ls|] eqn:R; [|discriminate H].
    apply WOk_inj in H. subst out.
    apply (wrap_comment_line_lines W comment_si line ls); [lia | auto | exact R]. }
  assert (Hncl : mcnp_comment_line (ii ++ line) = false) by (rewrite <- Hcls; reflexivity).
  specialize (Hfit Hncl).
  destruct (has_char dollar line) eqn:Ed; cbn [negb] in H.
  2:{ (* no '$' *)
    right. right. left. split; [reflexivity|]. split; [exact Hncl|].
    rewrite before_dollar_nodollar in Hfit by exact Ed.
    destruct (wrap_chunks W ii (blanks cont) (split_ws line)) as [ls|] eqn:R; [|discriminate H].
    apply WOk_inj in H. subst out.
    assert (Hcl' : mcnp_comment_line (ii ++ line ++ "") = false) by (rewrite app_nil_r_s; exact Hncl).
    destruct (wrap_data_lines_ok _ _ _ _ _ _ Hc HcW Hii Ed Hfit Hcl' R) as (Hw & Hnd & Hsh).
    split; [|exact Hw].
    destruct ls as [|l0 rs]; [constructor|].
    destruct Hsh as (_ & Hrs & Hl0). inversion Hnd as [|x xs Hd0 Hdr]; subst x xs.
    constructor.
    - split; [exact Hd0|]. destruct Hl0 as [[_ ->] | [_ Hl0]]; [exact Hncl | exact Hl0].
    - rewrite Forall_forall in *. intros x Hx. split; [auto|]. eapply cline_cont_prefix; [exact Hc | auto]. }
  (* a '$' comment *)
  right. right. right. right. split; [exact Hncl|].
  destruct (split_dollar_spec line) as (Hsplit & Hbd & Hfd). destruct (Hfd Ed) as [rest Hrest].
  exists rest. split; [rewrite <- Hrest; exact Hsplit|].
  pose proof (plain_text_before_dollar line Hplain) as Hpd.
  remember (before_dollar line) as data eqn:Hdata. rewrite Hrest in *.
  assert (Hline : ii ++ line = ii ++ data ++ String dollar rest) by (rewrite Hsplit at 1; reflexivity).
  assert (Hsi_d : has_char dollar (blanks cont) = false) by apply has_char_blanks.
  assert (Hiid : has_char dollar ii = false) by (destruct Hii as [-> | ->]; [reflexivity | apply has_char_blanks]).
  destruct (all_pyspace data) eqn:Eb; cbn [negb] in H.
  { (* only blanks before the '$' *)
    destruct (Nat.leb (Nat.div W 2) (slen (ii ++ data))).
    - (* half the width or more: the comment starts on an ordinary continuation line *)
      destruct (wrap_chunks W (blanks cont) (dollar_si (blanks cont)) (split_ws (String dollar rest))) as [ls|] eqn:R;
        [|discriminate H].
      apply WOk_inj in H. subst out. apply wrap_comment_lines in R. destruct R as (u0 & bs & -> & Hu).
      exists [], (blanks cont), u0, bs. split; [reflexivity|]. split; [constructor|].
      split; [exact Hsi_d|]. split; [eapply cline_cont_prefix; [exact Hc | apply prefix_app]|].
      split; [|exact Hu]. cbn [map List.concat List.app].
      rewrite (words_blank_only (blanks cont)) by apply all_kind_blanks.
      rewrite (words_blank_app ii data Hiib). symmetry. apply words_blank_only.
      apply plain_pyspace_blank; assumption.
    - destruct (wrap_chunks W (ii ++ data) (dollar_si (blanks cont)) (split_ws (String dollar rest))) as [ls|] eqn:R;
        [|discriminate H].
      apply WOk_inj in H. subst out. apply wrap_comment_lines in R. destruct R as (u0 & bs & -> & Hu).
      exists [], (ii ++ data), u0, bs. split; [reflexivity|]. split; [constructor|].
      split; [rewrite has_char_app, Hiid, Hbd; reflexivity|]. split; [|split; [reflexivity | exact Hu]].
      unfold mcnp_comment_line in *. rewrite (cline_dollar_irrelevant 4 (ii ++ data) u0 rest).
      rewrite app_assoc_s, <- Hline. exact Hncl. }
  destruct (wrap_chunks W ii (blanks cont) (split_ws data)) as [ret|] eqn:R; [|discriminate H].
  assert (Hcl' : mcnp_comment_line (ii ++ data ++ String dollar rest) = false) by (rewrite <- Hline; exact Hncl).
  destruct (wrap_data_lines_ok _ _ _ _ _ _ Hc HcW Hii Hbd Hfit Hcl' R) as (Hw & Hnd & Hsh).
  destruct ret as [|r0 rs]; [discriminate H|].
  destruct Hsh as (Hp0 & Hrs & Hl0).
  set (ret := r0 :: rs) in *. set (lst := List.last ret "") in *.
  assert (Hret : ret = List.app (removelast ret) [lst]) by (apply app_removelast_last; discriminate).
  assert (Hlst_d : has_char dollar lst = false)
    by (apply (Forall_last (fun x => has_char dollar x = false) ret ""); [discriminate | exact Hnd]).
  (* all lines but the last are data lines; the last is [lst] *)
  assert (Hdl : Forall data_line (removelast ret)).
  { destruct Hl0 as [[-> _] | [Hne Hl0]]; [constructor|].
    apply Forall_removelast. constructor.
    - inversion Hnd; subst. split; assumption.
    - inversion Hnd as [|x xs _ Hdr]; subst x xs. rewrite Forall_forall in *. intros x Hx.
      split; [auto|]. eapply cline_cont_prefix; [exact Hc | auto]. }
  assert (Hwords : List.app (List.concat (map words (removelast ret))) (words lst) = words (ii ++ data)).
  { rewrite (words_blank_app ii data Hiib), <- Hw.
    transitivity (List.concat (map words (List.app (removelast ret) [lst]))).
    - rewrite concat_map_app. simpl. rewrite app_nil_r. reflexivity.
    - rewrite <- Hret. reflexivity. }
  (* the last data line followed by '$': not a comment line *)
  assert (Hlst_cl : forall u, mcnp_comment_line (lst ++ String dollar u) = false).
  { intros u. destruct Hl0 as [[Hrs0 Hr0] | [Hne _]].
    - unfold lst, ret. rewrite Hrs0. cbn [List.last]. rewrite Hr0.
      unfold mcnp_comment_line in *. rewrite (cline_dollar_irrelevant 4 (ii ++ data) u rest).
      rewrite app_assoc_s. exact Hcl'.
    - eapply cline_cont_prefix; [exact Hc|]. apply prefix_app_r.
      unfold lst, ret. destruct rs as [|r1 rs']; [congruence|].
      change (List.last (r0 :: r1 :: rs') "") with (List.last (r1 :: rs') "").
      apply (Forall_last (fun x => String.prefix (blanks cont) x = true) (r1 :: rs') ""); [discriminate | exact Hrs]. }
  destruct (Nat.leb (slen lst + slen (String dollar rest)) W).
  { (* the comment fits on the last data line *)
    apply WOk_inj in H. subst out.
    exists (removelast ret), lst, rest, []. split; [reflexivity|]. split; [exact Hdl|]. split; [exact Hlst_d|].
    split; [apply Hlst_cl|]. split; [exact Hwords | apply app_nil_r_s]. }
  destruct (Nat.ltb (slen lst) (Nat.div W 2)) eqn:Eh.
  { (* the comment starts on the (short) last data line *)
    destruct (wrap_chunks W lst (dollar_si (blanks cont)) (split_ws (String dollar rest))) as [ls|] eqn:R2;
      [|discriminate H].
    apply WOk_inj in H. subst out. apply wrap_comment_lines in R2. destruct R2 as (u0 & bs & -> & Hu).
    exists (removelast ret), lst, u0, bs. split; [reflexivity|]. split; [exact Hdl|]. split; [exact Hlst_d|].
    split; [apply Hlst_cl|]. split; [exact Hwords | exact Hu]. }
  (* the comment starts on a continuation line of its own *)
  apply Nat.ltb_ge in Eh.
  destruct (wrap_chunks W (blanks cont) (dollar_si (blanks cont)) (split_ws (String dollar rest))) as [ls|] eqn:R2;
    [|discriminate H].
  apply WOk_inj in H. subst out. apply wrap_comment_lines in R2. destruct R2 as (u0 & bs & -> & Hu).
  exists ret, (blanks cont), u0, bs. split; [reflexivity|].
  assert (H6 : 6 <= slen lst).
  { assert (6 <= Nat.div W 2) by (apply Nat.div_le_lower_bound; lia). lia. }
  split; [|split; [exact Hsi_d|]].
  - (* every data line, the last included, is a data line: the last one has 6 columns or more *)
    rewrite Hret. apply Forall_app. split; [exact Hdl|]. constructor; [|constructor]. split; [exact Hlst_d|].
    pose proof (Hlst_cl rest) as Hx. unfold mcnp_comment_line in *.
    rewrite cline_prefix_long in Hx; [exact Hx | lia].
  - split; [eapply cline_cont_prefix; [exact Hc | apply prefix_app]|]. split; [|exact Hu].
    rewrite (words_blank_only (blanks cont)) by apply all_kind_blanks. rewrite app_nil_r.
    rewrite (words_blank_app ii data Hiib). exact Hw.
Qed.

(* ---- wrapping never turns comment text into data or data into comment ---- *)
Lemma dollar_cont_line : forall cont b, 5 <= cont ->
  line_tokens (dollar_si (blanks cont) ++ b) = [] /\
  line_comment (dollar_si (blanks cont) ++ b) = " " ++ b.
Proof.
  intros cont b Hc. unfold dollar_si.
  assert (E : (blanks cont ++ "$ ") ++ b = blanks cont ++ String dollar (" " ++ b))
    by (rewrite app_assoc_s; reflexivity).
  rewrite E. unfold line_tokens, line_comment.
  rewrite (cline_cont_prefix cont) by (try exact Hc; apply prefix_app).
  rewrite data_part_dollar, after_dollar_dollar by apply has_char_blanks.
  split; [apply words_blank_only, all_kind_blanks | reflexivity].
Qed.

Lemma data_lines_tokens : forall dl, Forall data_line dl ->
  List.concat (map line_tokens dl) = List.concat (map words dl) /\
  String.concat "" (map line_comment dl) = "".
Proof.
  induction 1 as [|x dl Hx _ [IH1 IH2]]; [split; reflexivity|].
  destruct (data_line_tokens x Hx) as [E1 E2]. cbn [map List.concat]. rewrite concat_cons, E1, E2, IH1, IH2.
  split; reflexivity.
Qed.

Lemma dollar_shape_meaning : forall cont pdata rest out,
  5 <= cont -> dollar_shape cont pdata rest out ->
  data_tokens out = words pdata /\ noblank (comment_text out) = noblank rest.
Proof.
  intros cont pdata rest out Hc (dl & p & u0 & bs & -> & Hdl & Hp & Hcl & Hw & Hu).
  destruct (data_lines_tokens dl Hdl) as [T1 T2].
  assert (Tb : List.concat (map line_tokens (map (fun b => dollar_si (blanks cont) ++ b) bs)) = [] /\
               String.concat "" (map line_comment (map (fun b => dollar_si (blanks cont) ++ b) bs)) =
               String.concat "" (map (fun b => " " ++ b) bs)).
  { induction bs as [|b bs IH]; [split; reflexivity|].
    assert (IHx : u0 ++ String.concat "" bs = u0 ++ String.concat "" bs) by reflexivity.
    destruct (dollar_cont_line cont b Hc) as [E1 E2]. cbn [map List.concat].
    rewrite !concat_cons, E1, E2.
    assert (IH' : List.concat (map line_tokens (map (fun b0 => dollar_si (blanks cont) ++ b0) bs)) = [] /\
                  String.concat "" (map line_comment (map (fun b0 => dollar_si (blanks cont) ++ b0) bs)) =
                  String.concat "" (map (fun b0 => " " ++ b0) bs)).
    { clear - Hc. induction bs as [|b' bs IH]; [split; reflexivity|].
      destruct (dollar_cont_line cont b' Hc) as [E1 E2]. destruct IH as [I1 I2]. cbn [map List.concat].
      rewrite !concat_cons, E1, E2, I1, I2. split; reflexivity. }
    destruct IH' as [I1 I2]. rewrite I1, I2. split; reflexivity. }
  destruct Tb as [Tb1 Tb2].
  unfold data_tokens, comment_text. rewrite !map_app, Coq.Lists.List.concat_app, concat_app.
  cbn [map List.concat]. rewrite concat_cons, T1, T2, Tb1, Tb2.
  unfold line_tokens at 1, line_comment at 1. rewrite Hcl.
  rewrite data_part_dollar, after_dollar_dollar by exact Hp. split.
  - rewrite app_nil_r. exact Hw.
  - change ("" ++ u0 ++ String.concat "" (map (fun b => " " ++ b) bs))
      with (u0 ++ String.concat "" (map (fun b => " " ++ b) bs)).
    rewrite noblank_app, (noblank_sep " " bs eq_refl), <- noblank_app, Hu. reflexivity.
Qed.

Lemma cline_after_c_app : forall k x y, cline_aux k x = true -> after_c (x ++ y) = after_c x ++ y.
Proof.
  induction k as [|k IH]; intros x y H; (destruct x as [|a r]; [discriminate|]); cbn [cline_aux] in H;
    cbn [append after_c]; destruct (is_c a) eqn:Ec.
  - rewrite (is_c_not_blank a Ec). reflexivity.
  - destruct (is_blank a); discriminate.
  - rewrite (is_c_not_blank a Ec). reflexivity.
  - destruct (is_blank a); [apply IH; exact H | discriminate].
Qed.

Theorem wrap_line_chunks_meaning : forall W cont (first : bool) line out,
  5 <= cont -> cont + 2 < W -> 11 < W -> plain_text line = true ->
  comment_branch cont ((if first then "" else blanks cont) ++ line) =
    mcnp_comment_line ((if first then "" else blanks cont) ++ line) ->
  (mcnp_comment_line ((if first then "" else blanks cont) ++ line) = false ->
   Forall (fun c => slen c <= W - cont) (split_ws (before_dollar line))) ->
  wrap_line_chunks W cont (if first then "" else blanks cont) (blanks cont) (plain_line line) = WOk out ->
  data_tokens out = data_tokens [(if first then "" else blanks cont) ++ line] /\
  noblank (comment_text out) = noblank (comment_text [(if first then "" else blanks cont) ++ line]).
Proof.
  intros W cont first line out Hc HW HW12 Hplain Hcls Hfit H.
  pose proof (wrap_line_shape W cont first line out Hc HW HW12 Hplain Hcls Hfit H) as S. cbn zeta in S.
  set (ii := if first then "" else blanks cont) in *.
  assert (Hii : ii = "" \/ ii = blanks cont) by (unfold ii; destruct first; auto).
  assert (Hiib : all_kind true ii = true) by (destruct Hii as [-> | ->]; [reflexivity | apply all_kind_blanks]).
  assert (Hiid : has_char dollar ii = false) by (destruct Hii as [-> | ->]; [reflexivity | apply has_char_blanks]).
  destruct S as [-> | [[-> ->] | [(Hd & Hncl & Hdl & Hw) | [(Hi & Hcl & b0 & bs & -> & Hcat & Hb0) | (Hncl & rest & Hline & Hsh)]]]].
  - split; reflexivity.
  - (* the empty line *)
    rewrite app_nil_r_s. unfold data_tokens, comment_text, line_tokens, line_comment. cbn [map List.concat].
    assert (E : mcnp_comment_line ii = false)
      by (destruct Hii as [-> | ->]; [reflexivity | eapply cline_cont_prefix; [exact Hc | rewrite <- (app_nil_r_s (blanks cont)) at 2; apply prefix_app]]).
    rewrite E, data_part_nodollar, after_dollar_nodollar by exact Hiid.
    rewrite (words_blank_only ii Hiib). split; reflexivity.
  - (* data without '$' *)
    destruct (data_lines_tokens out Hdl) as [T1 T2].
    unfold data_tokens, comment_text. rewrite T1, T2, Hw. cbn [map List.concat].
    unfold line_tokens, line_comment. rewrite Hncl.
    assert (Hd' : has_char dollar (ii ++ line) = false) by (rewrite has_char_app, Hiid, Hd; reflexivity).
    rewrite data_part_nodollar, after_dollar_nodollar by exact Hd'.
    rewrite (words_blank_app ii line Hiib), app_nil_r. split; reflexivity.
  - (* a comment line *)
    rewrite Hi. cbn [append].
    assert (Tb : List.concat (map line_tokens (map (fun b => comment_si ++ b) bs)) = [] /\
                 String.concat "" (map line_comment (map (fun b => comment_si ++ b) bs)) =
                 String.concat "" (map (fun b => " " ++ b) bs)).
    { clear. induction bs as [|b bs [I1 I2]]; [split; reflexivity|]. cbn [map List.concat].
      rewrite !concat_cons, I1, I2. split; reflexivity. }
    destruct Tb as [Tb1 Tb2].
    unfold data_tokens, comment_text. cbn [map List.concat]. rewrite !concat_cons, Tb1, Tb2.
    unfold line_tokens, line_comment. rewrite Hb0, Hcl. split; [reflexivity|]. cbn [String.concat].
    rewrite <- Hcat. rewrite concat_cons.
    rewrite (cline_after_c_app 4 b0 (String.concat "" bs) Hb0).
    rewrite !noblank_app, (noblank_sep " " bs eq_refl). cbn [noblank]. rewrite ?app_nil_r_s. reflexivity.
  - (* a '$' comment *)
    destruct (dollar_shape_meaning _ _ _ _ Hc Hsh) as [T1 T2].
    rewrite T1, T2. unfold data_tokens, comment_text. cbn [map List.concat String.concat].
    unfold line_tokens, line_comment. rewrite Hncl.
    destruct (split_dollar_spec line) as (_ & Hbd & _).
    assert (Hp : has_char dollar (ii ++ before_dollar line) = false) by (rewrite has_char_app, Hiid, Hbd; reflexivity).
    replace (ii ++ line) with ((ii ++ before_dollar line) ++ String dollar rest)
      by (rewrite app_assoc_s; f_equal; symmetry; exact Hline).
    rewrite data_part_dollar, after_dollar_dollar by exact Hp.
    rewrite app_nil_r. split; reflexivity.
Qed.

(* ---- from the raw line: a plain line is its own tab expansion and its chunks are its blank-separated runs ---- *)
Lemma plain_char_spec : forall a, plain_char a = true ->
  Ascii.eqb a tab_char = false /\ Ascii.eqb a nl_char = false /\ Ascii.eqb a cr_char = false /\
  (if is_munged_ws a then " "%char else a) = a /\ (is_pyspace a = true -> is_blank a = true).
Proof.
  intros [[] [] [] [] [] [] [] []]; vm_compute; intros H;
    first [discriminate H | repeat split; first [reflexivity | intros; assumption | intros; discriminate]].
Qed.

Lemma expandtabs_aux_plain : forall s col, plain_text s = true -> expandtabs_aux s col = s.
Proof.
  induction s as [|a s IH]; intros col H; [reflexivity|]. simpl in H.
  apply andb_true_iff in H. destruct H as [Ha Hs].
  destruct (plain_char_spec a Ha) as (E1 & E2 & E3 & _). cbn [expandtabs_aux].
  rewrite E1, E2, E3. cbn [orb]. rewrite IH by exact Hs. reflexivity.
Qed.

Lemma translate_ws_plain : forall s, plain_text s = true -> translate_ws s = s.
Proof.
  induction s as [|a s IH]; intros H; [reflexivity|]. simpl in H.
  apply andb_true_iff in H. destruct H as [Ha Hs].
  destruct (plain_char_spec a Ha) as (_ & _ & _ & E & _). cbn [translate_ws]. rewrite E, IH by exact Hs. reflexivity.
Qed.

Lemma munge_plain : forall s, plain_text s = true -> munge s = s.
Proof.
  intros s H. unfold munge, expandtabs. rewrite expandtabs_aux_plain by exact H. apply translate_ws_plain. exact H.
Qed.

Lemma plain_text_from_dollar : forall s, plain_text s = true -> plain_text (from_dollar s) = true.
Proof.
  induction s as [|a s IH]; intros H; [reflexivity|]. pose proof H as H'. simpl in H.
  apply andb_true_iff in H. destruct H as [Ha Hs]. cbn [from_dollar].
  destruct (Ascii.eqb a dollar); [exact H' | exact (IH Hs)].
Qed.

Lemma wrap_line_plain : forall W cont ii si line,
  plain_text line = true -> wrap_line W cont ii si line = wrap_line_chunks W cont ii si (plain_line line).
Proof.
  intros W cont ii si line H. unfold wrap_line, expandtabs, plain_line, chunks_of.
  rewrite (expandtabs_aux_plain line 0 H).
  rewrite (munge_plain line H), (munge_plain _ (plain_text_before_dollar line H)),
          (munge_plain _ (plain_text_from_dollar line H)).
  reflexivity.
Qed.

(* ---- MontePy's test for a comment line (is_comment and a non-blank in the first five columns) is MCNP's rule
        on every plain line of seven or more characters ---- *)
Lemma plain_has_no_newline : forall s, plain_text s = true -> has_char nl_char s = false.
Proof.
  induction s as [|a s IH]; intros H; [reflexivity|]. simpl in H.
  apply andb_true_iff in H. destruct H as [Ha Hs].
  destruct (plain_char_spec a Ha) as (_ & E & _). cbn [has_char]. rewrite E, (IH Hs). reflexivity.
Qed.

Lemma is_c_not_pyspace : forall a, is_c a = true -> is_pyspace a = false.
Proof.
  intros a H. unfold is_c in H. apply orb_true_iff in H.
  destruct H as [H|H]; apply Ascii.eqb_eq in H; subst a; reflexivity.
Qed.

Lemma comment_test_agrees_aux : forall k w, plain_text w = true -> k + 3 <= slen w ->
  andb (starts_c_blank (lstrip_py w)) (negb (all_pyspace (take (S k) w))) = cline_aux k w.
Proof.
  induction k as [|k IH]; intros w Hp Hl; (destruct w as [|a r]; [unfold slen in Hl; simpl in Hl; lia|]);
    simpl in Hp; apply andb_true_iff in Hp; destruct Hp as [Ha Hr];
    destruct (plain_char_spec a Ha) as (_ & _ & _ & _ & Hpb);
    cbn [cline_aux lstrip_py take all_pyspace]; destruct (is_c a) eqn:Ec.
  - rewrite (is_c_not_pyspace a Ec). cbn [andb negb]. rewrite andb_true_r.
    destruct r as [|b r']; [unfold slen in Hl; simpl in Hl; lia|]. cbn [starts_c_blank]. rewrite Ec. reflexivity.
  - destruct (is_blank a) eqn:Eb.
    + apply is_blank_eq in Eb. subst a. change (is_pyspace " "%char) with true. cbn [andb all_pyspace negb].
      apply andb_false_r.
    + destruct (is_pyspace a) eqn:Es; [discriminate (Hpb eq_refl)|].
      cbn [andb negb]. destruct r as [|b r']; cbn [starts_c_blank]; rewrite ?Ec; reflexivity.
  - rewrite (is_c_not_pyspace a Ec). cbn [andb negb]. rewrite andb_true_r.
    destruct r as [|b r']; [unfold slen in Hl; simpl in Hl; lia|]. cbn [starts_c_blank]. rewrite Ec. reflexivity.
  - destruct (is_blank a) eqn:Eb.
    + apply is_blank_eq in Eb. subst a. change (is_pyspace " "%char) with true. cbn [andb].
      apply IH; [exact Hr | unfold slen in *; simpl in Hl; lia].
    + destruct (is_pyspace a) eqn:Es; [discriminate (Hpb eq_refl)|].
      cbn [andb negb]. destruct r as [|b r']; cbn [starts_c_blank]; rewrite ?Ec; reflexivity.
Qed.

Lemma comment_test_agrees : forall w, plain_text w = true -> 7 <= slen w ->
  comment_branch 5 w = mcnp_comment_line w.
Proof.
  intros w Hp Hl. unfold comment_branch, mcnp_comment_line.
  rewrite <- (comment_test_agrees_aux 4 w Hp ltac:(lia)). f_equal.
  unfold is_comment. rewrite (plain_has_no_newline w Hp).
  destruct w as [|a0 [|a1 [|a2 [|a3 [|a4 [|a5 [|a6 w']]]]]]]; try (unfold slen in Hl; simpl in Hl; lia).
  cbn [take String.eqb negb andb].
  remember (String a0 (String a1 (String a2 (String a3 (String a4 (String a5 (String a6 w'))))))) as w.
  cbn [is_single_c]. destruct (starts_c_blank (lstrip_py w)); reflexivity.
Qed.

(* ---- wrap_string_for_mcnp's call of _wrap_line, from the raw line, with MontePy's constants ---- *)
Theorem wrap_line_meaning : forall W (first : bool) line out,
  11 < W -> plain_text line = true ->
  (mcnp_comment_line ((if first then "" else blanks 5) ++ line) = false ->
   Forall (fun c => slen c <= W - 5) (split_ws (before_dollar line))) ->
  wrap_line W 5 (if first then "" else blanks 5) (blanks 5) line = WOk out ->
  data_tokens out = data_tokens [(if first then "" else blanks 5) ++ line] /\
  noblank (comment_text out) = noblank (comment_text [(if first then "" else blanks 5) ++ line]).
Proof.
  intros W first line out HW Hp Hfit H. rewrite (wrap_line_plain _ _ _ _ _ Hp) in H.
  set (ii := if first then "" else blanks 5) in *.
  destruct (Nat.leb (slen ii + slen line) W) eqn:Efit.
  - (* the line fits: nothing depends on the comment test *)
    unfold wrap_line_chunks in H. cbn [l_text l_chunks plain_line] in H. rewrite Efit in H.
    apply Nat.leb_le in Efit. destruct (split_ws_spec line) as (b & _ & Hcat).
    destruct line as [|a r] eqn:El.
    + cbn in H. apply WOk_inj in H. subst out. rewrite app_nil_r_s.
      unfold data_tokens, comment_text, line_tokens, line_comment. cbn [map List.concat String.concat].
      unfold ii. destruct first; split; reflexivity.
    + rewrite <- El in *. rewrite wrap_identity in H.
      * apply WOk_inj in H. rewrite Hcat in H. subst out. split; reflexivity.
      * apply split_ws_nonnil. rewrite El. discriminate.
      * apply split_ws_chunks_nonempty.
      * rewrite Hcat. exact Efit.
  - apply Nat.leb_gt in Efit.
    assert (Hpw : plain_text (ii ++ line) = true).
    { unfold ii. destruct first; [exact Hp|]. simpl. exact Hp. }
    assert (Hlw : 7 <= slen (ii ++ line)) by (rewrite slen_app; lia).
    apply (wrap_line_chunks_meaning W 5 first line out); try lia; auto.
    fold ii. apply comment_test_agrees; assumption.
Qed.

(* the bound 11 < W is needed: with W = 9 a data word "c" is left alone on a line and becomes a comment line *)
Lemma wrap_line_meaning_needs_wide_lines :
  exists W line out,
    5 + 2 < W /\ plain_text line = true /\
    Forall (fun c => slen c <= W - 5) (split_ws (before_dollar line)) /\
    wrap_line W 5 "" (blanks 5) line = WOk out /\
    data_tokens out <> data_tokens [line].
Proof.
  exists 9, "   c$ a b c d", ["   c"; "     $ a "; "     $ b "; "     $ c "; "     $ d"].
  split; [lia|]. split; [reflexivity|].
  split; [vm_compute; repeat (constructor; [lia|]); constructor|].
  split; [vm_compute; reflexivity | vm_compute; discriminate].
Qed.

(* the bound on the runs of the data part is needed: a word longer than a continuation line is cut *)
Lemma wrap_line_meaning_needs_writable_words :
  exists W line out,
    11 < W /\ plain_text line = true /\ wrap_line W 5 "" (blanks 5) line = WOk out /\
    data_tokens out <> data_tokens [line].
Proof.
  exists 12, "1 abcdefghijklmno", ["1 abcdefghij"; "     klmno"].
  split; [lia|]. split; [reflexivity|]. split; [vm_compute; reflexivity | vm_compute; discriminate].
Qed.

(* tabs: the raw line is expanded first, and the theorem applies to the expanded line *)
Lemma wrap_line_tabs : forall W cont ii si line,
  plain_text (expandtabs line) = true ->
  wrap_line W cont ii si line = wrap_line W cont ii si (expandtabs line).
Proof.
  intros W cont ii si line H. unfold wrap_line.
  assert (E : expandtabs (expandtabs line) = expandtabs line)
    by (unfold expandtabs at 1; apply expandtabs_aux_plain; exact H).
  rewrite E. reflexivity.
Qed.

Lemma wrap_line_identity : forall W cont ii si line,
  plain_text line = true -> line <> "" -> slen ii + slen line <= W ->
  wrap_line W cont ii si line = WOk [ii ++ line].
Proof.
  intros W cont ii si line Hp Hne Hfit. rewrite (wrap_line_plain _ _ _ _ _ Hp).
  unfold wrap_line_chunks. cbn [l_text l_chunks plain_line].
  apply Nat.leb_le in Hfit. rewrite Hfit. apply Nat.leb_le in Hfit.
  destruct (split_ws_spec line) as (b & _ & Hcat).
  rewrite wrap_identity.
  - rewrite Hcat. reflexivity.
  - apply split_ws_nonnil. exact Hne.
  - apply split_ws_chunks_nonempty.
  - rewrite Hcat. exact Hfit.
Qed.

Lemma wrap_line_meaning_example :
  let line := "1 2 3 $ a long comment that is wrapped" in
  11 < 20 /\ plain_text line = true /\
  Forall (fun c => slen c <= 20 - 5) (split_ws (before_dollar line)) /\
  wrap_line 20 5 "" (blanks 5) line =
    WOk ["1 2 3 $ a long "; "     $ comment that "; "     $ is wrapped"].
Proof.
  cbn zeta. split; [lia|]. split; [reflexivity|].
  split; [vm_compute; repeat (constructor; [lia|]); constructor | vm_compute; reflexivity].
Qed.

Lemma wrap_line_comment_example :
  let line := "c a comment line that is longer than twenty columns" in
  plain_text line = true /\ mcnp_comment_line line = true /\
  wrap_line 20 5 "" (blanks 5) line =
    WOk ["c a comment line "; "c that is longer "; "c than twenty "; "c columns"].
Proof. cbn zeta. split; [reflexivity|]. split; [reflexivity | vm_compute; reflexivity]. Qed.

(* what was refuted before /repo commits 6283f05 and c3da1f2 now comes out right *)
Lemma wrap_line_repaired_examples :
  wrap_line 20 5 "" (blanks 5) (blanks 22 ++ "$ x y") = WOk ["     $ x y"] /\
  wrap_line 20 5 "" (blanks 5) "          c 1 2 3 4 5 6 7 8" = WOk ["          c 1 2 3 4 "; "     5 6 7 8"] /\
  wrap_line 20 5 "" (blanks 5) "mt1 lwtr.10t be-met.40t" = WOk ["mt1 lwtr.10t "; "     be-met.40t"] /\
  wrap_line 20 5 "" (blanks 5) ("1" ++ String tab_char (String tab_char "2 $ aa bb cc")) =
    WOk ["1               2 "; "     $ aa bb cc"].
Proof. repeat split; vm_compute; reflexivity. Qed.

(* ------------------------------------------------------------------ *)
(* 8b. the title and the message block *)
Lemma slen_take_le : forall n s, slen (take n s) <= n.
Proof. intros n s. rewrite slen_take. lia. Qed.

Lemma take_all : forall n s, slen s <= n -> take n s = s.
Proof.
  induction n as [|n IH]; intros s H.
  - destruct s; [reflexivity | unfold slen in H; simpl in H; lia].
  - destruct s as [|a s]; [reflexivity|]. simpl. rewrite IH; [reflexivity | unfold slen in *; simpl in H; lia].
Qed.

(* the title line fits, and it is a prefix of the title *)
Lemma title_line_width : forall W t, 1 <= W -> slen (title_line W t) < W.
Proof. intros W t HW. unfold title_line. pose proof (slen_take_le (W - 1) t). lia. Qed.

Lemma title_line_prefix : forall W t, title_line W t ++ drop (W - 1) t = t.
Proof. intros W t. unfold title_line. apply take_drop. Qed.

(* the title is written unchanged exactly when it is shorter than the limit: a title that fills all W columns
   loses its last character (known finding F-C01-spec-title-last-column; the model is the code) *)
Lemma title_line_kept_iff : forall W t, title_line W t = t <-> slen t <= W - 1.
Proof.
  intros W t. unfold title_line. split.
  - intros E. rewrite <- E. apply slen_take_le.
  - apply take_all.
Qed.

Lemma title_full_width_cut : exists W t, slen t = W /\ title_line W t <> t.
Proof. exists 5, "abcde". split; [reflexivity | vm_compute; discriminate]. Qed.

(* every line of the written message block fits: the first with its "MESSAGE: " prefix, the others, and the blank
   line that ends the block *)
Lemma message_lines_width : forall W lines, 10 <= W -> Forall (fun x => slen x < W) (message_lines W lines).
Proof.
  intros W lines HW. unfold message_lines. destruct lines as [|l0 r].
  - constructor; [unfold slen; simpl; lia | constructor].
  - constructor.
    + rewrite slen_app. pose proof (slen_take_le (W - 10) l0). unfold message_prefix, slen at 1. simpl. lia.
    + apply Forall_app. split.
      * rewrite Forall_forall. intros x Hx. apply in_map_iff in Hx. destruct Hx as (y & <- & _).
        pose proof (slen_take_le (W - 1) y). lia.
      * constructor; [unfold slen; simpl; lia | constructor].
Qed.

(* the block keeps its lines: one written line per message line, then the blank line; every written line is the
   prefix of its message line (the first after "MESSAGE: ") *)
Lemma message_lines_shape : forall W lines,
  List.length (message_lines W lines) = S (List.length lines) /\
  List.last (message_lines W lines) "x" = "" /\
  match lines with
  | [] => True
  | l0 :: r =>
      exists cut0 cuts,
        message_lines W lines = (message_prefix ++ cut0) :: List.app cuts [""] /\
        cut0 ++ drop (W - 10) l0 = l0 /\
        Forall2 (fun c l => c ++ drop (W - 1) l = l) cuts r
  end.
Proof.
  intros W lines. unfold message_lines. destruct lines as [|l0 r].
  - repeat split.
  - split; [cbn [List.length]; rewrite app_length, map_length; simpl; lia|]. split.
    + change (List.last ((message_prefix ++ take (W - 10) l0) :: (map (take (W - 1)) r ++ [""])%list) "x")
        with (List.last ((message_prefix ++ take (W - 10) l0) :: (map (take (W - 1)) r ++ [""])%list) "x").
      rewrite (app_comm_cons (map (take (W - 1)) r) [""] (message_prefix ++ take (W - 10) l0)).
      apply last_last.
    + exists (take (W - 10) l0), (map (take (W - 1)) r). split; [reflexivity|]. split; [apply take_drop|].
      induction r as [|x r IH]; [constructor|]. constructor; [apply take_drop | exact IH].
Qed.

(* a block whose lines all fit is written as it is *)
Lemma message_lines_identity : forall W l0 r,
  slen l0 <= W - 10 -> Forall (fun l => slen l <= W - 1) r ->
  message_lines W (l0 :: r) = (message_prefix ++ l0) :: List.app r [""].
Proof.
  intros W l0 r H0 Hr. unfold message_lines. rewrite (take_all _ _ H0). f_equal. f_equal.
  induction Hr as [|x r Hx _ IH]; [reflexivity|]. simpl. rewrite (take_all _ _ Hx), IH. reflexivity.
Qed.

(* the cut of the first line is needed: cutting it like the other lines and putting the prefix in front afterwards
   (seeded change C10-6) writes a line that is too long *)
Lemma message_first_line_cut_needed :
  exists W l0, 10 <= W /\ W < slen (message_prefix ++ take (W - 1) l0).
Proof. exists 12, "abcdefghijklmnop". split; [lia | vm_compute; lia]. Qed.

Lemma message_lines_example :
  message_lines 20 ["outp=abcdefghijklm.o"; " runtpe=abcdefghijklmnopq.r"; "x"] =
    ["MESSAGE: outp=abcde"; " runtpe=abcdefghijk"; "x"; ""].
Proof. vm_compute. reflexivity. Qed.

(* ------------------------------------------------------------------ *)
(* 9. non-vacuity *)
Lemma wrap_width_example :
  wrap_chunks 20 "" (blanks 5) (split_ws "1 0 -1 2 -3 4 -5 6 imp:n=1 vol=12345")
  = Some ["1 0 -1 2 -3 4 -5 6 "; "     imp:n=1 "; "     vol=12345"].
Proof. vm_compute. reflexivity. Qed.

Lemma wrap_resplit_example_premises :
  5 < 20 /\
  Forall (fun c => slen c <= 20 - 5) (split_ws "1 0 -1 2 -3 4 -5 6 imp:n=1 vol=12345").
Proof.
  split; [lia|]. vm_compute. repeat (constructor; [lia|]). constructor.
Qed.
