(* LinesProofs.v — proofs about Model/Lines.v (the line layer of MontePy's reader) for property C11.

   Contents
     A  strings: append, takeS, blanks, plain characters, strip functions
     B  tabs: str.expandtabs(8) is rule S1, column-accurate (C11_tabs)
     C  line ends: _clean_line gives the same line for LF and CR LF (C11_eol)
     D  is_comment against rule S5
     E  words
     F  the reader as a transducer over line classes; simulation by rd_loop
     G  the class of a plain line
     H  layout steps on the data part and their soundness
     I  front matter, whole files, the closure theorem
     J  is_comment is not rule S5; examples (the layouts that the reader before commit 2db4963 read differently)
     K  obligations on the generated lexer / grammar facts (Gen/LexerFlags.v)            *)
From Coq Require Import List String Ascii Arith Bool Lia.
From MPV Require Import Model.Wire Model.Lines Gen.LexerFlags.
Import ListNotations.
Open Scope string_scope.

(* ================================================================== A  strings *)
Lemma sapp_nil_r : forall s : string, s ++ "" = s.
Proof. induction s; simpl; congruence. Qed.

Lemma sapp_assoc : forall a b c : string, (a ++ b) ++ c = a ++ (b ++ c).
Proof. induction a; simpl; intros; congruence. Qed.

Lemma slen_app : forall a b : string, String.length (a ++ b) = String.length a + String.length b.
Proof. induction a; simpl; intros; auto. Qed.

Lemma blanks_app : forall n s, blanks n s = blanks n "" ++ s.
Proof. induction n; simpl; intros; auto. rewrite IHn. reflexivity. Qed.

Lemma blanks_len : forall n s, String.length (blanks n s) = n + String.length s.
Proof. induction n; simpl; intros; auto. Qed.

Lemma blanks_plus : forall n m s, blanks (n + m) s = blanks n (blanks m s).
Proof. induction n; simpl; intros; auto. rewrite IHn. reflexivity. Qed.

Lemma takeS_all : forall s n, String.length s <= n -> takeS n s = s.
Proof.
  induction s; intros n H; destruct n; simpl in *; auto; try lia.
  rewrite IHs by lia. reflexivity.
Qed.

Lemma takeS_nil : forall n, takeS n "" = "".
Proof. destruct n; reflexivity. Qed.

(* plain characters: printable ASCII, 32 .. 126 *)
Definition plain (a : ascii) : bool :=
  let n := nat_of_ascii a in andb (Nat.leb 32 n) (Nat.leb n 126).

Fixpoint all_plain (s : string) : bool :=
  match s with
  | EmptyString => true
  | String a r => andb (plain a) (all_plain r)
  end.

(* no line-end character *)
Fixpoint no_eol (s : string) : bool :=
  match s with
  | EmptyString => true
  | String a r => andb (negb (Ascii.eqb a nl)) (andb (negb (Ascii.eqb a cr)) (no_eol r))
  end.

Lemma plain_facts : forall a, plain a = true ->
  py_space a = is_blank a /\ clean_byte a = a /\ Ascii.eqb a tab = false /\
  Ascii.eqb a nl = false /\ Ascii.eqb a cr = false.
Proof.
  intros [[] [] [] [] [] [] [] []]; vm_compute; intro H; try discriminate H; repeat split; reflexivity.
Qed.

Lemma plain_space : forall a, plain a = true -> py_space a = is_blank a.
Proof. intros a H. apply plain_facts in H. tauto. Qed.

Definition isC (a : ascii) : bool := orb (Ascii.eqb a "c"%char) (Ascii.eqb a "C"%char).

Lemma up_facts : forall a,
  py_space (up a) = py_space a /\ Ascii.eqb (up a) "C"%char = isC a /\
  (Ascii.eqb (up a) " "%char = Ascii.eqb a " "%char).
Proof.
  intros [[] [] [] [] [] [] [] []]; vm_compute; repeat split; reflexivity.
Qed.

Lemma isC_not_blank : forall a, isC a = true -> is_blank a = false.
Proof. intros [[] [] [] [] [] [] [] []]; vm_compute; intro H; try discriminate H; reflexivity. Qed.

Lemma isC_plain : forall a, isC a = true -> plain a = true.
Proof. intros [[] [] [] [] [] [] [] []]; vm_compute; intro H; try discriminate H; reflexivity. Qed.

Lemma all_plain_app : forall a b, all_plain (a ++ b) = andb (all_plain a) (all_plain b).
Proof. induction a; simpl; intros; auto. rewrite IHa. rewrite andb_assoc. reflexivity. Qed.

Lemma all_plain_blanks : forall n s, all_plain (blanks n s) = all_plain s.
Proof. induction n; simpl; intros; auto. Qed.

Lemma all_plain_no_eol : forall s, all_plain s = true -> no_eol s = true.
Proof.
  induction s; simpl; intros H; auto.
  apply andb_true_iff in H. destruct H as [Ha Hs].
  destruct (plain_facts _ Ha) as (_ & _ & _ & Hn & Hc).
  rewrite Hn, Hc. simpl. auto.
Qed.

Lemma no_eol_app : forall a b, no_eol (a ++ b) = andb (no_eol a) (no_eol b).
Proof.
  induction a; simpl; intros; auto. rewrite IHa.
  destruct (Ascii.eqb a nl), (Ascii.eqb a cr); simpl; auto.
Qed.

(* all_space / all_blank *)
Lemma all_space_app : forall a b, all_space (a ++ b) = andb (all_space a) (all_space b).
Proof. induction a; simpl; intros; auto. rewrite IHa, andb_assoc. reflexivity. Qed.

Lemma all_blank_app : forall a b, all_blank (a ++ b) = andb (all_blank a) (all_blank b).
Proof. induction a; simpl; intros; auto. rewrite IHa, andb_assoc. reflexivity. Qed.

Lemma all_space_plain : forall s, all_plain s = true -> all_space s = all_blank s.
Proof.
  induction s; simpl; intros H; auto.
  apply andb_true_iff in H. destruct H as [Ha Hs].
  rewrite (plain_space _ Ha), IHs; auto.
Qed.

Lemma all_blank_blanks : forall n s, all_blank (blanks n s) = all_blank s.
Proof. induction n; simpl; intros; auto. Qed.

Lemma all_space_blanks : forall n s, all_space (blanks n s) = all_space s.
Proof. induction n; simpl; intros; auto. Qed.

Lemma all_plain_takeS : forall n s, all_plain s = true -> all_plain (takeS n s) = true.
Proof.
  induction n; destruct s; simpl; intros H; auto.
  apply andb_true_iff in H. destruct H as [Ha Hs]. rewrite Ha, IHn; auto.
Qed.

(* takeS n of an extended string, seen through predicates that a non-blank character decides *)
Lemma all_blank_takeS_app : forall a n s, all_blank a = false ->
  all_blank (takeS n (a ++ s)) = all_blank (takeS n a).
Proof.
  induction a; intros n s H; simpl in H; try discriminate.
  destruct n; simpl; auto.
  destruct (is_blank a) eqn:Eb; simpl in *; auto.
Qed.

Lemma all_space_takeS_nl : forall n x, all_plain x = true ->
  all_space (takeS n (x ++ String nl "")) = all_blank (takeS n x).
Proof.
  induction n; intros x H; simpl; auto.
  destruct x; simpl.
  - destruct n; reflexivity.
  - simpl in H. apply andb_true_iff in H. destruct H as [Ha Hs].
    rewrite (plain_space _ Ha), IHn; auto.
Qed.

Lemma contains_app : forall c a b, contains c (a ++ b) = orb (contains c a) (contains c b).
Proof. induction a; simpl; intros; auto. rewrite IHa, orb_assoc. reflexivity. Qed.

Lemma contains_takeS_false : forall c n s, contains c s = false -> contains c (takeS n s) = false.
Proof.
  induction n; destruct s; simpl; intros H; auto.
  apply orb_false_iff in H. destruct H as [H1 H2]. rewrite H1, IHn; auto.
Qed.

Lemma contains_takeS_app : forall c n a s, contains c s = false ->
  contains c (takeS n (a ++ s)) = contains c (takeS n a).
Proof.
  induction n; intros a s H; simpl; auto.
  destruct a; simpl.
  - change (contains c (takeS (S n) s) = false). apply contains_takeS_false; auto.
  - rewrite IHn; auto.
Qed.

Lemma contains_blanks : forall c n s, Ascii.eqb sp c = false -> contains c (blanks n s) = contains c s.
Proof. induction n; simpl; intros; auto. rewrite H, IHn; auto. Qed.

Lemma contains_nl_end : forall x, contains nl (x ++ String nl "") = true.
Proof. induction x; simpl; auto. rewrite IHx. apply orb_true_r. Qed.

(* rstrip / lstrip *)
Lemma rstrip_empty_iff : forall s, is_empty (rstrip s) = all_space s.
Proof.
  induction s; simpl; auto.
  destruct (py_space a) eqn:Ea; simpl.
  - destruct (all_space s); simpl; auto.
  - reflexivity.
Qed.

Lemma rstrip_all_space : forall s, all_space s = true -> rstrip s = "".
Proof. destruct s; simpl; intros H; auto. rewrite H. reflexivity. Qed.

Lemma rstrip_cons_ns : forall a s, py_space a = false -> rstrip (String a s) = String a (rstrip s).
Proof. intros a s H. simpl. rewrite H. reflexivity. Qed.

Lemma rstrip_app_space : forall x s, all_space s = true -> rstrip (x ++ s) = rstrip x.
Proof.
  induction x; intros s H; simpl.
  - apply rstrip_all_space; auto.
  - rewrite all_space_app, H, andb_true_r. rewrite IHx; auto.
Qed.

Lemma rstrip_plain : forall x, all_plain x = true -> rstrip x = rstrip_blanks x.
Proof.
  induction x; simpl; intros H; auto.
  apply andb_true_iff in H. destruct H as [Ha Hs].
  rewrite (plain_space _ Ha), (all_space_plain _ Hs), IHx; auto.
Qed.

Lemma rstrip_plain_nl : forall x, all_plain x = true -> rstrip (x ++ String nl "") = rstrip_blanks x.
Proof. intros x H. rewrite rstrip_app_space by reflexivity. apply rstrip_plain; auto. Qed.

Lemma lstrip_blanks : forall n s, lstrip (blanks n s) = lstrip s.
Proof. induction n; simpl; intros; auto. Qed.

Lemma rstrip_blanks_ns : forall n s, all_space s = false -> rstrip (blanks n s) = blanks n (rstrip s).
Proof.
  induction n; intros s H; simpl; auto.
  rewrite all_space_blanks, H. rewrite IHn; auto.
Qed.

(* rstrip_blanks: what it removes is a run of blanks *)
Lemma rstrip_blanks_decomp : forall x, exists n, x = rstrip_blanks x ++ blanks n "".
Proof.
  induction x; simpl.
  - exists 0. reflexivity.
  - destruct (is_blank a) eqn:Ea; simpl.
    + destruct (all_blank x) eqn:Ex.
      * destruct IHx as [n Hn]. exists (S n). simpl.
        apply Ascii.eqb_eq in Ea. subst a.
        assert (rstrip_blanks x = "") as Hr.
        { clear Hn. destruct x; simpl in *; auto. rewrite Ex. reflexivity. }
        rewrite Hr in Hn. simpl in Hn. rewrite <- Hn. reflexivity.
      * destruct IHx as [n Hn]. exists n. simpl. rewrite <- Hn. reflexivity.
    + destruct IHx as [n Hn]. exists n. simpl. rewrite <- Hn. reflexivity.
Qed.

Lemma rstrip_blanks_app_blanks : forall x n, rstrip_blanks (x ++ blanks n "") = rstrip_blanks x.
Proof.
  induction x; intros n; simpl.
  - destruct n; simpl; auto. rewrite all_blank_blanks. reflexivity.
  - rewrite all_blank_app, all_blank_blanks. simpl. rewrite andb_true_r. rewrite IHx. reflexivity.
Qed.

Lemma all_blank_rstrip_blanks : forall x, all_blank x = false -> all_blank (rstrip_blanks x) = false.
Proof.
  induction x; simpl; intros H; auto.
  destruct (is_blank a) eqn:Ea; simpl in *.
  - rewrite H. simpl. rewrite Ea. simpl. auto.
  - rewrite Ea. reflexivity.
Qed.

Lemma all_plain_rstrip_blanks : forall x, all_plain x = true -> all_plain (rstrip_blanks x) = true.
Proof.
  induction x; simpl; intros H; auto.
  apply andb_true_iff in H. destruct H as [Ha Hs].
  destruct (andb (is_blank a) (all_blank x)); simpl; auto. rewrite Ha, IHx; auto.
Qed.

(* upper *)
Lemma upper_app : forall a b, upper (a ++ b) = upper a ++ upper b.
Proof. unfold upper. induction a; simpl; intros; auto. rewrite IHa. reflexivity. Qed.

Lemma upper_blanks : forall n s, upper (blanks n s) = blanks n (upper s).
Proof. unfold upper. induction n; simpl; intros; auto. rewrite IHn. reflexivity. Qed.

Lemma upper_takeS : forall n s, upper (takeS n s) = takeS n (upper s).
Proof. unfold upper. induction n; destruct s; simpl; auto. rewrite IHn. reflexivity. Qed.

Lemma all_space_upper : forall s, all_space (upper s) = all_space s.
Proof.
  unfold upper. induction s; simpl; auto.
  destruct (up_facts a) as (H & _). rewrite H, IHs. reflexivity.
Qed.

Lemma takeS_blanks_le : forall n m s, n <= m -> takeS m (blanks n s) = blanks n (takeS (m - n) s).
Proof.
  induction n; intros m s H; simpl.
  - rewrite Nat.sub_0_r. reflexivity.
  - destruct m; [lia|]. simpl. rewrite IHn by lia. reflexivity.
Qed.

Lemma takeS_blanks_ge : forall n m s, m <= n -> takeS m (blanks n s) = blanks m "".
Proof.
  induction n; intros m s H; simpl.
  - assert (m = 0) by lia. subst. reflexivity.
  - destruct m; simpl; auto. rewrite IHn by lia. reflexivity.
Qed.

(* ends_with *)
Lemma ends_with_app : forall suf x, ends_with suf (x ++ suf) = true.
Proof.
  induction x; simpl.
  - destruct suf; simpl; auto. rewrite Ascii.eqb_refl, String.eqb_refl. reflexivity.
  - rewrite IHx. apply orb_true_r.
Qed.

Lemma sapp_inv_tail : forall s x y : string, x ++ s = y ++ s -> x = y.
Proof.
  induction x; destruct y; simpl; intros H; auto.
  - apply (f_equal String.length) in H. simpl in H. rewrite slen_app in H. lia.
  - apply (f_equal String.length) in H. simpl in H. rewrite slen_app in H. lia.
  - injection H as H1 H2. subst. f_equal. auto.
Qed.

Lemma seqb_app_tail : forall s x y : string, String.eqb (x ++ s) (y ++ s) = String.eqb x y.
Proof.
  intros. destruct (String.eqb_spec x y) as [E|E].
  - subst. apply String.eqb_refl.
  - apply String.eqb_neq. intro H. apply E. eapply sapp_inv_tail; eauto.
Qed.

Lemma ends_with_nl : forall x,
  ends_with (String sp (String "&"%char (String nl ""))) (x ++ String nl "")
  = ends_with (String sp (String "&"%char "")) x.
Proof.
  induction x.
  - reflexivity.
  - change ((String a x) ++ String nl "") with (String a (x ++ String nl "")).
    cbn [ends_with]. rewrite IHx. f_equal.
    change (String a (x ++ String nl "")) with ((String a x) ++ String nl "").
    change (String sp (String "&"%char (String nl ""))) with ((String sp (String "&"%char "")) ++ String nl "").
    apply seqb_app_tail.
Qed.

(* ================================================================== B  tabs *)
Lemma tab_arith : forall col, col + (8 - col mod 8) = 8 * S (col / 8) /\ 8 - col mod 8 = 8 * S (col / 8) - col.
Proof.
  intros col.
  pose proof (Nat.div_mod col 8 ltac:(lia)) as H.
  pose proof (Nat.mod_upper_bound col 8 ltac:(lia)) as H2.
  lia.
Qed.

Lemma tab_arith_lt : forall col, col < 8 * S (col / 8).
Proof.
  intros col.
  pose proof (Nat.div_mod col 8 ltac:(lia)) as H.
  pose proof (Nat.mod_upper_bound col 8 ltac:(lia)) as H2.
  lia.
Qed.

(* C11_tabs: for a line body without line-end characters, Python's expandtabs(8) is rule S1 *)
Lemma expandtabs_spec_from : forall x col, no_eol x = true ->
  expandtabs_from 8 col (x ++ String nl "") = spec_expand_from col x ++ String nl "".
Proof.
  induction x; intros col H.
  - reflexivity.
  - simpl in H. apply andb_true_iff in H. destruct H as [Hn H]. apply andb_true_iff in H. destruct H as [Hc H].
    apply negb_true_iff in Hn. apply negb_true_iff in Hc.
    change ((String a x) ++ String nl "") with (String a (x ++ String nl "")).
    cbn [expandtabs_from spec_expand_from].
    destruct (Ascii.eqb a tab) eqn:Et.
    + destruct (tab_arith col) as [E1 E2]. rewrite E1, E2.
      rewrite IHx by auto. rewrite (blanks_app _ (_ ++ _)), (blanks_app _ (spec_expand_from _ _)).
      rewrite sapp_assoc. reflexivity.
    + rewrite Hn, Hc. cbn [orb]. rewrite IHx by auto. reflexivity.
Qed.

Lemma expandtabs_is_S1 : forall x, no_eol x = true ->
  expandtabs TABSIZE (x ++ String nl "") = spec_expand_from 0 x ++ String nl "".
Proof. intros. apply expandtabs_spec_from; auto. Qed.

Lemma spec_expand_plain : forall x col, all_plain x = true -> spec_expand_from col x = x.
Proof.
  induction x; intros col H; simpl; auto.
  simpl in H. apply andb_true_iff in H. destruct H as [Ha Hs].
  destruct (plain_facts _ Ha) as (_ & _ & Ht & _). rewrite Ht, IHx; auto.
Qed.

Lemma spec_expand_app : forall u col s,
  spec_expand_from col (u ++ s)
  = spec_expand_from col u ++ spec_expand_from (col + String.length (spec_expand_from col u)) s.
Proof.
  induction u; intros col s.
  - simpl. rewrite Nat.add_0_r. reflexivity.
  - change ((String a u) ++ s) with (String a (u ++ s)). cbn [spec_expand_from].
    destruct (Ascii.eqb a tab).
    + pose proof (tab_arith_lt col) as Hlt. set (nx := 8 * S (col / 8)) in *.
      rewrite IHu. rewrite (blanks_app _ (_ ++ _)), (blanks_app _ (spec_expand_from _ u)).
      rewrite sapp_assoc. f_equal. f_equal. f_equal.
      rewrite slen_app, blanks_len. cbn [String.length]. lia.
    + rewrite IHu. cbn [String.append String.length]. f_equal. f_equal. f_equal. lia.
Qed.

Lemma spec_expand_blanks : forall n col s, spec_expand_from col (blanks n s) = blanks n (spec_expand_from (col + n) s).
Proof.
  induction n; intros col s; simpl.
  - rewrite Nat.add_0_r. reflexivity.
  - rewrite IHn. f_equal. f_equal. f_equal. lia.
Qed.

(* the number of blanks a tab written after [u] stands for *)
Definition tab_fill (u : string) : nat :=
  TABSIZE - (String.length (spec_expand_from 0 u)) mod TABSIZE.

Lemma tab_is_blanks : forall u v,
  spec_expand_from 0 (u ++ String tab v) = spec_expand_from 0 (u ++ blanks (tab_fill u) v).
Proof.
  intros u v. rewrite !spec_expand_app. f_equal. rewrite Nat.add_0_l.
  set (c := String.length (spec_expand_from 0 u)).
  cbn [spec_expand_from]. rewrite Ascii.eqb_refl.
  rewrite spec_expand_blanks. unfold tab_fill. fold c. unfold TABSIZE.
  destruct (tab_arith c) as [E1 E2]. rewrite E2. f_equal. f_equal. lia.
Qed.

(* ================================================================== C  line ends *)
Lemma smap_app : forall f a b, smap f (a ++ b) = smap f a ++ smap f b.
Proof. induction a; simpl; intros; auto. rewrite IHa. reflexivity. Qed.

Lemma clean_byte_eol : forall a, Ascii.eqb (clean_byte a) nl = Ascii.eqb a nl /\ Ascii.eqb (clean_byte a) cr = Ascii.eqb a cr.
Proof. intros [[] [] [] [] [] [] [] []]; vm_compute; split; reflexivity. Qed.

Lemma no_eol_clean : forall x, no_eol (smap clean_byte x) = no_eol x.
Proof.
  induction x; simpl; auto. destruct (clean_byte_eol a) as [E1 E2]. rewrite E1, E2, IHx. reflexivity.
Qed.

Lemma replace_crlf_cons : forall a t, Ascii.eqb a cr = false -> replace_crlf (String a t) = String a (replace_crlf t).
Proof. intros a t H. destruct t; simpl; rewrite ?H; reflexivity. Qed.

Lemma replace_crlf_no_eol : forall y s, no_eol y = true -> replace_crlf (y ++ s) = y ++ replace_crlf s.
Proof.
  induction y; intros s H; auto.
  simpl in H. apply andb_true_iff in H. destruct H as [Hn H]. apply andb_true_iff in H. destruct H as [Hc H].
  apply negb_true_iff in Hc.
  change ((String a y) ++ s) with (String a (y ++ s)).
  rewrite replace_crlf_cons by auto. rewrite IHy by auto. reflexivity.
Qed.

Lemma replace_cr_no_eol : forall y, no_eol y = true -> replace_cr y = y.
Proof.
  unfold replace_cr. induction y; simpl; intros H; auto.
  apply andb_true_iff in H. destruct H as [Hn H]. apply andb_true_iff in H. destruct H as [Hc H].
  apply negb_true_iff in Hc. rewrite Hc, IHy; auto.
Qed.

Lemma replace_cr_app : forall a b, replace_cr (a ++ b) = replace_cr a ++ replace_cr b.
Proof. intros. unfold replace_cr. apply smap_app. Qed.

Definition crlf : string := String cr (String nl "").
Definition lf : string := String nl "".

(* C11_eol *)
Lemma clean_line_lf : forall x, no_eol x = true -> clean_line (x ++ lf) = smap clean_byte x ++ lf.
Proof.
  intros x H. unfold clean_line, lf. rewrite smap_app.
  rewrite replace_crlf_no_eol by (rewrite no_eol_clean; auto).
  rewrite replace_cr_app. rewrite replace_cr_no_eol by (rewrite no_eol_clean; auto). reflexivity.
Qed.

Lemma clean_line_crlf : forall x, no_eol x = true -> clean_line (x ++ crlf) = clean_line (x ++ lf).
Proof.
  intros x H. rewrite clean_line_lf by auto. unfold clean_line, crlf. rewrite smap_app.
  rewrite replace_crlf_no_eol by (rewrite no_eol_clean; auto).
  rewrite replace_cr_app. rewrite replace_cr_no_eol by (rewrite no_eol_clean; auto). reflexivity.
Qed.

Lemma smap_clean_plain : forall x, all_plain x = true -> smap clean_byte x = x.
Proof.
  induction x; simpl; intros H; auto.
  apply andb_true_iff in H. destruct H as [Ha Hs].
  destruct (plain_facts _ Ha) as (_ & Hc & _). rewrite Hc, IHx; auto.
Qed.

Inductive eol : string -> Prop := eol_lf : eol lf | eol_crlf : eol crlf.

Lemma clean_line_eol : forall x e, no_eol x = true -> eol e -> clean_line (x ++ e) = smap clean_byte x ++ lf.
Proof. intros x e H [ | ]; [|rewrite clean_line_crlf by auto]; apply clean_line_lf; auto. Qed.

Lemma clean_line_plain : forall x e, all_plain x = true -> eol e -> clean_line (x ++ e) = x ++ lf.
Proof.
  intros. rewrite clean_line_eol by (auto using all_plain_no_eol). rewrite smap_clean_plain; auto.
Qed.

(* whole files: writing every LF as CR LF does not change the cleaned lines *)
Fixpoint to_crlf (s : string) : string :=
  match s with
  | EmptyString => EmptyString
  | String a r => if Ascii.eqb a nl then String cr (String nl (to_crlf r)) else String a (to_crlf r)
  end.

Fixpoint no_cr (s : string) : bool :=
  match s with
  | EmptyString => true
  | String a r => andb (negb (Ascii.eqb a cr)) (no_cr r)
  end.

Lemma clean_line_cons : forall a l, Ascii.eqb a cr = false ->
  clean_line (String a l) = String (if Ascii.eqb (clean_byte a) cr then nl else clean_byte a) (clean_line l).
Proof.
  intros a l H. unfold clean_line. cbn [smap].
  destruct (clean_byte_eol a) as [_ E]. rewrite replace_crlf_cons by (rewrite E; auto).
  unfold replace_cr. cbn [smap]. reflexivity.
Qed.

(* writing every LF of a file as CR LF does not change the lines MontePy iterates over *)
Theorem file_lines_crlf : forall s, no_cr s = true -> file_lines (to_crlf s) = file_lines s.
Proof.
  unfold file_lines. induction s; intros H; auto.
  cbn [no_cr] in H. apply andb_true_iff in H. destruct H as [Ha Hs]. apply negb_true_iff in Ha.
  specialize (IHs Hs). cbn [to_crlf split_lines].
  destruct (Ascii.eqb a nl) eqn:En.
  - apply Ascii.eqb_eq in En. subst a.
    cbn [split_lines]. change (Ascii.eqb cr nl) with false. cbv iota.
    cbn [split_lines]. rewrite Ascii.eqb_refl. cbn [map]. rewrite IHs. reflexivity.
  - cbn [split_lines]. rewrite En.
    destruct (split_lines (to_crlf s)) as [|l ls]; destruct (split_lines s) as [|l' ls']; cbn [map] in *;
      try discriminate; auto.
    injection IHs as E1 E2. rewrite !clean_line_cons by auto. rewrite E1, E2. reflexivity.
Qed.

(* ================================================================== D  is_comment against rule S5 *)
Definition hb (r : string) : bool := match r with EmptyString => false | String b _ => is_blank b end.
Definition endblank (r : string) : bool := match r with EmptyString => true | String b _ => is_blank b end.

Lemma spec_comment_from_shape : forall n k a r, is_blank a = false ->
  spec_comment_from k (blanks n (String a r)) = andb (Nat.leb n k) (andb (isC a) (endblank r)).
Proof.
  induction n; intros k a r Ha.
  - unfold isC. destruct r, k; simpl; rewrite ?Ha;
      destruct (Ascii.eqb a "c"), (Ascii.eqb a "C"); reflexivity.
  - destruct k; simpl; auto.
Qed.

Lemma spec_comment_from_blank : forall n k, spec_comment_from k (blanks n "") = false.
Proof.
  induction n; intros k; destruct k; simpl; auto.
Qed.

Lemma late_c_from_shape : forall n k a r, is_blank a = false ->
  late_c_from k (blanks n (String a r))
  = andb (isC a) (andb (Nat.leb 5 (k + n)) (orb (Nat.eqb (k + n) 5) (hb r))).
Proof.
  induction n; intros k a r Ha.
  - simpl. rewrite Ha, Nat.add_0_r. reflexivity.
  - simpl blanks. simpl late_c_from.
    rewrite IHn by auto. replace (S k + n) with (k + S n) by lia. reflexivity.
Qed.

Lemma late_c_from_blank : forall n k, late_c_from k (blanks n "") = false.
Proof. induction n; intros k; auto. cbn [blanks]. simpl. auto. Qed.

Lemma plain_shape : forall x,
  (exists n, x = blanks n "") \/ (exists n a r, x = blanks n (String a r) /\ is_blank a = false).
Proof.
  induction x.
  - left. exists 0. reflexivity.
  - destruct (is_blank a) eqn:Ea.
    + apply Ascii.eqb_eq in Ea. subst a. destruct IHx as [[n H]|[n [b [r [H Hb]]]]].
      * left. exists (S n). simpl. congruence.
      * right. exists (S n), b, r. simpl. split; congruence.
    + right. exists 0, a, x. auto.
Qed.

Lemma prefix_cons : forall c s1 a s2,
  String.prefix (String c s1) (String a s2) = if ascii_dec c a then String.prefix s1 s2 else false.
Proof. reflexivity. Qed.

Lemma prefix_nil : forall s, String.prefix "" s = true.
Proof. destruct s; reflexivity. Qed.

Lemma ascii_dec_eqb : forall (c a : ascii) (x y : bool),
  (if ascii_dec c a then x else y) = if Ascii.eqb a c then x else y.
Proof. intros. destruct (ascii_dec c a); destruct (Ascii.eqb_spec a c); try congruence; reflexivity. Qed.

Lemma prefix_C_sp : forall a t,
  String.prefix "C " (String a t)
  = andb (Ascii.eqb a "C"%char) (match t with EmptyString => false | String b _ => Ascii.eqb b " "%char end).
Proof.
  intros a t. rewrite prefix_cons, ascii_dec_eqb. destruct (Ascii.eqb a "C"); auto.
  destruct t as [|b t]; auto. rewrite prefix_cons, ascii_dec_eqb, prefix_nil.
  destruct (Ascii.eqb b " "); reflexivity.
Qed.

Lemma seqb_single : forall A R c, String.eqb (String A R) (String c "") = andb (Ascii.eqb A c) (is_empty R).
Proof. intros. cbn [String.eqb]. destruct (Ascii.eqb A c); auto. destruct R; reflexivity. Qed.

Lemma all_space_takeS : forall n s, all_space s = true -> all_space (takeS n s) = true.
Proof.
  induction n; destruct s; simpl; intros H; auto.
  apply andb_true_iff in H. destruct H as [H1 H2]. rewrite H1, IHn; auto.
Qed.

Lemma is_comment_shape : forall n a r, plain a = true -> is_blank a = false -> all_plain r = true ->
  is_comment (blanks n (String a (r ++ lf)))
  = andb (isC a) (orb (hb r) (orb (Nat.eqb n 5) (andb (Nat.leb n 4) (is_empty r)))).
Proof.
  intros n a r Hp Ha Hr.
  assert (py_space a = false) as Hs by (rewrite plain_space; auto).
  destruct (up_facts a) as (Hu1 & Hu2 & Hu3).
  unfold is_comment. change (BLANK_SPACE_CONTINUE + 1) with 6.
  (* contains nl *)
  assert (contains nl (blanks n (String a (r ++ lf))) = true) as Hnl.
  { rewrite (blanks_app n). change (String a (r ++ lf)) with ((String a r) ++ lf).
    rewrite <- sapp_assoc. apply contains_nl_end. }
  rewrite Hnl. cbn [negb]. rewrite andb_true_r, andb_false_r, orb_false_r.
  (* the "C " test *)
  rewrite lstrip_blanks. cbn [lstrip]. rewrite Hs.
  assert (String.prefix "C " (upper (String a (r ++ lf))) = andb (isC a) (hb r)) as Hpre.
  { unfold upper. cbn [smap]. rewrite prefix_C_sp, Hu2. f_equal.
    destruct r as [|b r]; cbn [String.append smap hb]; auto.
    destruct (up_facts b) as (_ & _ & E). exact E. }
  rewrite Hpre.
  (* upper_start is not empty *)
  assert (is_empty (upper (takeS 6 (blanks n (String a (r ++ lf))))) = false) as Hne.
  { destruct n; reflexivity. }
  rewrite Hne. cbn [negb andb].
  (* the bare C test *)
  destruct (le_lt_dec n 5) as [Hle|Hgt].
  - rewrite takeS_blanks_le by lia. replace (6 - n) with (S (5 - n)) by lia. cbn [takeS].
    rewrite upper_blanks. unfold upper at 1. cbn [smap]. fold (upper (takeS (5 - n) (r ++ lf))).
    unfold strip. rewrite rstrip_blanks_ns by (cbn [all_space]; rewrite Hu1, Hs; reflexivity).
    rewrite rstrip_cons_ns by (rewrite Hu1; auto).
    rewrite lstrip_blanks. cbn [lstrip]. rewrite Hu1, Hs.
    rewrite seqb_single, Hu2, rstrip_empty_iff, all_space_upper.
    unfold lf. rewrite all_space_takeS_nl by auto.
    destruct (isC a); cbn [andb orb]; auto.
    destruct (Nat.eq_dec n 5) as [E5|N5].
    + subst n. cbn [Nat.sub takeS all_blank Nat.eqb]. destruct (hb r); reflexivity.
    + assert (Nat.eqb n 5 = false) as E1 by (apply Nat.eqb_neq; auto).
      assert (Nat.leb n 4 = true) as E2 by (apply Nat.leb_le; lia).
      rewrite E1, E2. cbn [orb andb].
      destruct (5 - n) as [|m] eqn:Em; [lia|].
      destruct r as [|b r]; cbn [takeS all_blank hb is_empty]; auto.
      destruct (is_blank b); cbn [andb orb]; auto.
  - rewrite takeS_blanks_ge by lia. rewrite upper_blanks.
    change (strip (blanks 6 (upper ""))) with "". cbn [String.eqb].
    assert (Nat.eqb n 5 = false) as E1 by (apply Nat.eqb_neq; lia).
    assert (Nat.leb n 4 = false) as E2 by (apply Nat.leb_gt; lia).
    rewrite E1, E2. cbn [orb andb]. rewrite !orb_false_r. destruct (isC a), (hb r); reflexivity.
Qed.

Lemma is_comment_blank_line : forall n, is_comment (blanks n lf) = false.
Proof.
  intros n. unfold is_comment. change (BLANK_SPACE_CONTINUE + 1) with 6.
  rewrite lstrip_blanks. change (lstrip lf) with "". change (upper "") with "". cbn [String.prefix].
  rewrite andb_false_r.
  assert (contains nl (blanks n lf) = true) as Hnl.
  { rewrite blanks_app. apply contains_nl_end. }
  rewrite Hnl. cbn [negb]. rewrite andb_false_r, orb_false_r, andb_true_r.
  unfold strip. rewrite rstrip_all_space.
  - reflexivity.
  - rewrite all_space_upper. apply all_space_takeS. rewrite all_space_blanks. reflexivity.
Qed.

(* C11_comment_rule: on plain lines, is_comment is rule S5 plus the lines [late_c] describes *)
Theorem is_comment_S5 : forall x, all_plain x = true ->
  is_comment (x ++ lf) = orb (spec_comment x) (late_c x).
Proof.
  intros x Hx. destruct (plain_shape x) as [[n H]|[n [a [r [H Ha]]]]]; subst x.
  - rewrite <- blanks_app. rewrite is_comment_blank_line.
    unfold spec_comment, late_c. rewrite spec_comment_from_blank, late_c_from_blank. reflexivity.
  - rewrite all_plain_blanks in Hx. cbn [all_plain] in Hx. apply andb_true_iff in Hx. destruct Hx as [Hp Hr].
    assert (blanks n (String a r) ++ lf = blanks n (String a (r ++ lf))) as E.
    { rewrite (blanks_app n (String a r)), sapp_assoc, <- blanks_app. reflexivity. }
    rewrite E. rewrite is_comment_shape by auto.
    unfold spec_comment, late_c. rewrite spec_comment_from_shape, late_c_from_shape by auto.
    cbn [Nat.add].
    destruct (isC a), r as [|b r]; cbn [hb endblank is_empty andb orb];
      try destruct (is_blank b); destruct n as [|[|[|[|[|[|n]]]]]]; reflexivity.
Qed.

(* ================================================================== E  words *)
Lemma split_on_aux_app : forall c a b cur,
  split_on_aux c (a ++ String c b) cur = (split_on_aux c a cur ++ split_on_aux c b "")%list.
Proof.
  induction a; intros b cur.
  - simpl. rewrite Ascii.eqb_refl. reflexivity.
  - change ((String a a0) ++ String c b) with (String a (a0 ++ String c b)).
    cbn [split_on_aux]. destruct (Ascii.eqb a c).
    + rewrite IHa. reflexivity.
    + apply IHa.
Qed.

Lemma words_app_sp : forall a b, words (a ++ String sp b) = (words a ++ words b)%list.
Proof. intros. unfold words, split_on. rewrite split_on_aux_app, filter_app. reflexivity. Qed.

Lemma words_blanks : forall n b, words (blanks n b) = words b.
Proof.
  induction n; intros b; auto. cbn [blanks].
  change (String sp (blanks n b)) with ("" ++ String sp (blanks n b)).
  rewrite words_app_sp. rewrite IHn. reflexivity.
Qed.

Lemma words_app_blanks : forall a n, words (a ++ blanks n "") = words a.
Proof.
  intros a n. destruct n.
  - simpl. rewrite sapp_nil_r. reflexivity.
  - cbn [blanks]. rewrite words_app_sp, words_blanks. change (words "") with (@nil string).
    apply app_nil_r.
Qed.

Lemma words_rstrip_blanks : forall x, words (rstrip_blanks x) = words x.
Proof.
  intros x. destruct (rstrip_blanks_decomp x) as [n H]. rewrite H at 2. rewrite words_app_blanks. reflexivity.
Qed.

(* spec_data: the text before the first '$' *)
Lemma spec_data_app : forall y t,
  spec_data (y ++ t) = if contains "$"%char y then spec_data y else y ++ spec_data t.
Proof.
  induction y; intros t; simpl; auto.
  destruct (Ascii.eqb a "$"); simpl; auto. rewrite IHy. destruct (contains "$" y); reflexivity.
Qed.

Lemma spec_data_no_dollar : forall y, contains "$"%char y = false -> spec_data y = y.
Proof.
  induction y; simpl; intros H; auto.
  apply orb_false_iff in H. destruct H as [H1 H2]. rewrite H1, IHy; auto.
Qed.

Lemma all_plain_spec_data : forall y, all_plain y = true -> all_plain (spec_data y) = true.
Proof.
  induction y; simpl; intros H; auto.
  apply andb_true_iff in H. destruct H as [Ha Hs].
  destruct (Ascii.eqb a "$"); simpl; auto. rewrite Ha, IHy; auto.
Qed.

Lemma words_spec_data_rstrip : forall x, words (spec_data (rstrip_blanks x)) = words (spec_data x).
Proof.
  intros x. destruct (rstrip_blanks_decomp x) as [n H]. rewrite H at 2.
  rewrite spec_data_app. destruct (contains "$" (rstrip_blanks x)) eqn:E; auto.
  rewrite (spec_data_no_dollar (rstrip_blanks x)) by auto.
  rewrite (spec_data_no_dollar (blanks n "")).
  - rewrite words_app_blanks. reflexivity.
  - rewrite contains_blanks; reflexivity.
Qed.

Lemma spec_comment_from_rstrip : forall x k, spec_comment_from k (rstrip_blanks x) = spec_comment_from k x.
Proof.
  induction x; intros k; auto.
  cbn [rstrip_blanks]. destruct (all_blank (String a x)) eqn:Eb.
  - (* all blanks: neither is a comment *)
    clear IHx. revert k Eb. generalize (String a x). intros s.
    induction s; intros k Eb; destruct k; simpl in *; auto.
    + apply andb_true_iff in Eb. destruct Eb as [E1 E2]. apply Ascii.eqb_eq in E1. subst. reflexivity.
    + apply andb_true_iff in Eb. destruct Eb as [E1 E2]. apply Ascii.eqb_eq in E1. subst. simpl.
      rewrite <- IHs by auto. destruct k; reflexivity.
  - assert (forall r, endblank (rstrip_blanks r) = endblank r) as He.
    { destruct r as [|b r]; auto. cbn [rstrip_blanks]. destruct (all_blank (String b r)) eqn:E2; auto.
      simpl in E2. apply andb_true_iff in E2. destruct E2 as [E3 _]. simpl. auto. }
    destruct k; simpl.
    + fold (endblank (rstrip_blanks x)). fold (endblank x). rewrite He. reflexivity.
    + fold (endblank (rstrip_blanks x)). fold (endblank x). rewrite He, IHx. reflexivity.
Qed.

Lemma ends_with_blanks_body : forall n c t, Ascii.eqb c sp = false -> Ascii.eqb c "&"%char = false ->
  ends_with (String sp (String "&"%char "")) (blanks n (String c t))
  = ends_with (String sp (String "&"%char "")) (String c t).
Proof.
  induction n; intros c t H1 H2; auto.
  cbn [blanks]. cbn [ends_with]. rewrite IHn by auto.
  destruct n; cbn [blanks String.eqb]; rewrite ?Ascii.eqb_refl.
  - rewrite Ascii.eqb_sym in H2. cbn [String.eqb]. rewrite Ascii.eqb_sym, H2. reflexivity.
  - change (Ascii.eqb sp "&") with false. reflexivity.
Qed.

(* ================================================================== F  the reader as a transducer over line classes *)
Record lk := mkLk {
  k_blank : bool;            (* a blank line: ends a block *)
  k_com : bool;              (* is_comment *)
  k_start : bool;            (* a non-blank in columns 1-5 *)
  k_hash : bool;             (* '#' in columns 1-5 of a line that is not a comment *)
  k_ampf : bool;             (* no '$' on the line and, trailing blanks dropped, it ends in " &" *)
  k_words : list string      (* line_words of the stored line *)
}.

Definition line_class (w : nat) (l : string) : lk :=
  let line := expandtabs TABSIZE l in
  let c := is_comment line in
  let line' := takeS w line in
  mkLk (all_space line) c (negb (all_space (takeS BLANK_SPACE_CONTINUE line)))
       (andb (contains "#"%char (takeS BLANK_SPACE_CONTINUE line)) (negb c))
       (amp_data line') (line_words (rstrip line')).

Record ast := mkA { a_bc : nat; a_bt : nat; a_cont : bool; a_hnc : bool; a_ne : bool; a_acc : list string;
                    a_top : bool;     (* the top-level file (read_data's recursion argument is False) *)
                    a_done : bool     (* ... whose third block has ended: nothing more is read *) }.

Definition out := (nat * list string)%type.

Definition aflush (bt : nat) (ne : bool) (acc : list string) : list out := if ne then [(bt, acc)] else [].

Definition astep (k : lk) (s : ast) : list out * option ast :=
  if a_done s then ([], Some s) else
  if k_blank k then
    let bc' := S (a_bc s) in
    (aflush (a_bt s) (a_ne s) (a_acc s),
     Some (mkA bc' (if Nat.ltb bc' 3 then bc' else a_bt s) (a_cont s) false false []
               (a_top s) (andb (Nat.leb 3 bc') (a_top s))))
  else
    let newinp := andb (k_start k) (andb (negb (a_cont s)) (andb (negb (k_com k)) (andb (a_hnc s) (a_ne s)))) in
    let pre := if newinp then aflush (a_bt s) (a_ne s) (a_acc s) else [] in
    let acc1 := if newinp then [] else a_acc s in
    if k_hash k then (pre, None)
    else (pre, Some (mkA (a_bc s) (a_bt s)
                         (if andb (k_com k) (k_start k) then a_cont s else k_ampf k)
                         (orb (a_hnc s) (negb (k_com k))) true (acc1 ++ k_words k)%list
                         (a_top s) false)).

Fixpoint arun (ks : list lk) (s : ast) : list out * option rd_err :=
  match ks with
  | [] => (aflush (a_bt s) (a_ne s) (a_acc s), None)
  | k :: r =>
      match astep k s with
      | (o, None) => (o, Some UnsupportedFeature)
      | (o, Some s1) => let (o2, e) := arun r s1 in ((o ++ o2)%list, e)
      end
  end.

(* a segment of lines: output and the state after it (None: the reader stopped with the error) *)
Fixpoint asteps (ks : list lk) (s : ast) : list out * option ast :=
  match ks with
  | [] => ([], Some s)
  | k :: r =>
      match astep k s with
      | (o, None) => (o, None)
      | (o, Some s1) => let (o2, s2) := asteps r s1 in ((o ++ o2)%list, s2)
      end
  end.

Lemma arun_app : forall p q s,
  arun (p ++ q)%list s =
  match asteps p s with
  | (o, None) => (o, Some UnsupportedFeature)
  | (o, Some s1) => let (o2, e) := arun q s1 in ((o ++ o2)%list, e)
  end.
Proof.
  induction p; intros q s.
  - simpl. destruct (arun q s). reflexivity.
  - simpl. destruct (astep a s) as [o [s1|]]; auto.
    rewrite IHp. destruct (asteps p s1) as [o2 [s2|]].
    + destruct (arun q s2). rewrite app_assoc. reflexivity.
    + reflexivity.
Qed.

(* every reachable state: an empty accumulator has seen no data line *)
Definition inv (s : ast) : Prop := a_ne s = false -> a_hnc s = false.

Lemma astep_inv : forall k s o s1, inv s -> astep k s = (o, Some s1) -> inv s1.
Proof.
  intros k s o s1 Hi H. unfold astep in H.
  destruct (a_done s); [inversion H; subst; auto|].
  destruct (k_blank k).
  - inversion H. subst. intro. reflexivity.
  - destruct (k_hash k); inversion H. subst. intro Hc. discriminate Hc.
Qed.

Lemma asteps_inv : forall p s o s1, inv s -> asteps p s = (o, Some s1) -> inv s1.
Proof.
  induction p; intros s o s1 Hi H; simpl in H.
  - inversion H. subst. auto.
  - destruct (astep a s) as [o1 [s2|]] eqn:E; try discriminate.
    destruct (asteps p s2) as [o2 s3] eqn:E2. inversion H. subst.
    eapply IHp; [|eauto]. eapply astep_inv; eauto.
Qed.

(* replacing a segment by one that behaves the same from every reachable state *)
Lemma seg_replace : forall pre p p' post s,
  inv s ->
  (forall s1, inv s1 -> asteps p s1 = asteps p' s1) ->
  arun (pre ++ p ++ post)%list s = arun (pre ++ p' ++ post)%list s.
Proof.
  intros pre p p' post s Hi H.
  rewrite !(arun_app pre). destruct (asteps pre s) as [o [s1|]] eqn:E; auto.
  rewrite !(arun_app _ post). rewrite H; auto.
  eapply asteps_inv; eauto.
Qed.

Lemma arun_done : forall ks s, a_done s = true ->
  arun ks s = (aflush (a_bt s) (a_ne s) (a_acc s), None).
Proof.
  induction ks; intros s H; auto.
  cbn [arun]. unfold astep. rewrite H. rewrite IHks by auto. reflexivity.
Qed.

(* ---- rd_loop and rd_loop are this transducer *)
Lemma nonempty_app1 : forall (A : Type) (l : list A) x, nonempty (l ++ [x])%list = true.
Proof. destruct l; reflexivity. Qed.

Lemma logical_flush : forall bt raw ln,
  logical (flush bt raw ln) = aflush bt (nonempty raw) (flat_map line_words raw).
Proof. intros. unfold flush, aflush. destruct (nonempty raw); reflexivity. Qed.

Lemma logical_app : forall a b, logical (a ++ b)%list = (logical a ++ logical b)%list.
Proof. intros. unfold logical. apply map_app. Qed.

Definition lift (r : list input * option rd_err) : list out * option rd_err := (logical (fst r), snd r).

Lemma rd_loop_sim : forall w rc ls lineno bc bt cont hnc raw,
  lift (rd_loop w rc ls lineno bc bt cont hnc raw)
  = arun (map (line_class w) ls)
         (mkA bc bt cont hnc (nonempty raw) (flat_map line_words raw) (negb rc) false).
Proof.
  induction ls; intros lineno bc bt cont hnc raw.
  - unfold lift. simpl. rewrite logical_flush. reflexivity.
  - cbn [map arun rd_loop]. unfold astep. cbn [line_class k_blank k_com k_start k_hash k_ampf k_words
      a_bc a_bt a_cont a_hnc a_ne a_acc a_top a_done].
    destruct (all_space (expandtabs TABSIZE a)) eqn:Eb.
    + destruct (andb (Nat.leb 3 (S bc)) (negb rc)) eqn:Estop.
      { rewrite arun_done by reflexivity. cbn [a_bt a_ne a_acc aflush]. unfold lift. cbn [fst snd].
        rewrite logical_flush, app_nil_r. reflexivity. }
      specialize (IHls (S lineno) (S bc) (if Nat.ltb (S bc) 3 then S bc else bt) cont false []).
      cbn [nonempty flat_map] in IHls.
      destruct (rd_loop w rc ls (S lineno) (S bc) (if Nat.ltb (S bc) 3 then S bc else bt) cont false []) as [o e] eqn:E.
      unfold lift in *. cbn [fst snd] in *. rewrite <- IHls.
      rewrite logical_app, logical_flush. reflexivity.
    + set (c := is_comment (expandtabs TABSIZE a)).
      set (newinp := andb (negb (all_space (takeS BLANK_SPACE_CONTINUE (expandtabs TABSIZE a))))
                       (andb (negb cont) (andb (negb c) (andb hnc (nonempty raw))))).
      destruct (andb (contains "#"%char (takeS BLANK_SPACE_CONTINUE (expandtabs TABSIZE a))) (negb c)) eqn:Eh.
      * unfold lift. cbn [fst snd]. destruct newinp; cbn [logical map]; rewrite ?logical_flush; reflexivity.
      * set (line' := takeS w (expandtabs TABSIZE a)).
        set (st := negb (all_space (takeS BLANK_SPACE_CONTINUE (expandtabs TABSIZE a)))).
        specialize (IHls (S lineno) bc bt (if andb c st then cont else amp_data line') (orb hnc (negb c))
                         ((if newinp then [] else raw) ++ [rstrip line'])%list).
        destruct (rd_loop w rc ls (S lineno) bc bt (if andb c st then cont else amp_data line') (orb hnc (negb c))
                    ((if newinp then [] else raw) ++ [rstrip line'])%list) as [o e] eqn:E.
        unfold lift in *. cbn [fst snd] in *.
        rewrite nonempty_app1, flat_map_app in IHls. cbn [flat_map] in IHls. rewrite app_nil_r in IHls.
        assert (flat_map line_words (if newinp then [] else raw)
                = if newinp then [] else flat_map line_words raw) as Ef by (destruct newinp; reflexivity).
        rewrite Ef in IHls. rewrite <- IHls.
        rewrite logical_app. destruct newinp; cbn [logical map]; rewrite ?logical_flush; reflexivity.
Qed.

(* ================================================================== G  the class of a plain line *)
Definition amp2 : string := String sp (String "&"%char "").

Definition pk (x : string) : lk :=
  let c := orb (spec_comment x) (late_c x) in
  mkLk (all_blank x) c (negb (all_blank (takeS 5 x)))
       (andb (contains "#"%char (takeS 5 x)) (negb c))
       (andb (negb (contains "$"%char x)) (ends_with amp2 (rstrip_blanks x)))
       (if spec_comment x then [] else filter not_amp (words (spec_data x))).

(* the class of a raw line (as iterated from the file) *)
Definition lc (w : nat) (l : string) : lk := line_class w (clean_line l).

Lemma expandtabs_plain : forall x, all_plain x = true -> expandtabs TABSIZE (x ++ lf) = x ++ lf.
Proof.
  intros x H. unfold lf. rewrite expandtabs_is_S1 by (apply all_plain_no_eol; auto).
  rewrite spec_expand_plain; auto.
Qed.

Lemma takeS_app_exact : forall x s, takeS (String.length x) (x ++ s) = x.
Proof. induction x; intros s; simpl; [destruct s; reflexivity|]. rewrite IHx. reflexivity. Qed.

Lemma contains_dollar_nl : forall x, contains "$"%char (x ++ lf) = contains "$"%char x.
Proof. intros. unfold lf. rewrite contains_app. cbn [contains]. rewrite orb_false_r. reflexivity. Qed.

(* a line of exactly w columns loses its LF when it is cut at w characters; nothing else changes *)
Lemma cut_plain : forall w x, all_plain x = true -> String.length x <= w ->
  let l' := takeS w (x ++ lf) in
  amp_data l' = andb (negb (contains "$"%char x)) (ends_with amp2 (rstrip_blanks x)) /\
  rstrip l' = rstrip_blanks x.
Proof.
  intros w x Hx Hw. cbv zeta.
  destruct (Nat.eq_dec (String.length x) w) as [E|E].
  - subst w. rewrite takeS_app_exact. unfold amp_data. fold amp2. rewrite rstrip_plain by auto. auto.
  - rewrite (takeS_all (x ++ lf) w) by (rewrite slen_app; unfold lf; cbn [String.length]; lia).
    unfold amp_data. fold amp2. rewrite contains_dollar_nl. unfold lf. rewrite rstrip_plain_nl by auto. auto.
Qed.

Lemma lc_plain : forall w x e, all_plain x = true -> eol e -> String.length x <= w ->
  lc w (x ++ e) = pk x.
Proof.
  intros w x e Hx He Hw. unfold lc. rewrite clean_line_plain by auto.
  unfold line_class. rewrite expandtabs_plain by auto.
  destruct (cut_plain w x Hx Hw) as [Ea Er]. cbv zeta in Ea, Er. rewrite Ea, Er.
  change BLANK_SPACE_CONTINUE with 5.
  unfold pk. f_equal.
  - rewrite all_space_app. change (all_space lf) with true. rewrite andb_true_r. apply all_space_plain; auto.
  - apply is_comment_S5; auto.
  - unfold lf. rewrite all_space_takeS_nl by auto. reflexivity.
  - rewrite is_comment_S5 by auto. unfold lf. rewrite contains_takeS_app by reflexivity. reflexivity.
  - unfold line_words, spec_comment.
    rewrite spec_comment_from_rstrip, words_spec_data_rstrip. reflexivity.
Qed.

(* a line equal to another one after tab expansion and cleaning has the same class *)
Lemma lc_same : forall w l l', expandtabs TABSIZE (clean_line l) = expandtabs TABSIZE (clean_line l') ->
  lc w l = lc w l'.
Proof. intros w l l' H. unfold lc, line_class. rewrite H. reflexivity. Qed.

(* ================================================================== H  layout steps on the data part *)
(* the first word of the line is a lone c/C (followed by a blank or the end), or a c/C sits in column 6:
   exactly the lines that rule S5 or MontePy's is_comment may take for a comment line, closed under
   extending the line *)
Fixpoint c_led_from (k : nat) (s : string) : bool :=
  match s with
  | EmptyString => false
  | String c r => if is_blank c then c_led_from (S k) r
                  else andb (isC c) (orb (Nat.eqb k 5) (endblank r))
  end.
Definition c_led (x : string) : bool := c_led_from 0 x.

Lemma c_led_from_shape : forall n k a r, is_blank a = false ->
  c_led_from k (blanks n (String a r)) = andb (isC a) (orb (Nat.eqb (k + n) 5) (endblank r)).
Proof.
  induction n; intros k a r Ha.
  - simpl. rewrite Ha, Nat.add_0_r. reflexivity.
  - simpl blanks. simpl c_led_from. rewrite IHn by auto. replace (S k + n) with (k + S n) by lia. reflexivity.
Qed.

Lemma c_led_from_blank : forall n k, c_led_from k (blanks n "") = false.
Proof. induction n; intros k; auto. cbn [blanks]. simpl. auto. Qed.

Lemma c_led_none : forall x, c_led x = false -> spec_comment x = false /\ late_c x = false.
Proof.
  intros x H. destruct (plain_shape x) as [[n E]|[n [a [r [E Ha]]]]]; subst x.
  - unfold spec_comment, late_c. rewrite spec_comment_from_blank, late_c_from_blank. auto.
  - unfold c_led in H. rewrite c_led_from_shape in H by auto.
    unfold spec_comment, late_c. rewrite spec_comment_from_shape, late_c_from_shape by auto.
    cbn [Nat.add] in *.
    destruct (isC a); cbn [andb] in *; [|rewrite andb_false_r; auto].
    apply orb_false_iff in H. destruct H as [H1 H2]. rewrite H1, H2.
    destruct r as [|b r]; cbn [endblank hb] in *; try discriminate. rewrite H2.
    rewrite !andb_false_r. auto.
Qed.

Lemma blanks_app_cons : forall n a r s, blanks n (String a r) ++ s = blanks n (String a (r ++ s)).
Proof. intros. rewrite (blanks_app n (String a r)), sapp_assoc, <- blanks_app. reflexivity. Qed.

Lemma c_led_app : forall a s, all_blank a = false -> c_led a = false -> c_led (a ++ s) = false.
Proof.
  intros x s Hb H. destruct (plain_shape x) as [[n E]|[n [a [r [E Ha]]]]]; subst x.
  - rewrite all_blank_blanks in Hb. discriminate.
  - unfold c_led in *. rewrite blanks_app_cons. rewrite c_led_from_shape in * by auto.
    destruct (isC a); cbn [andb] in *; auto.
    apply orb_false_iff in H. destruct H as [H1 H2]. rewrite H1.
    destruct r as [|b r]; cbn [endblank] in *; try discriminate. exact H2.
Qed.

Lemma spec_comment_not_blank : forall x, spec_comment x = true -> all_blank x = false.
Proof.
  intros x H. destruct (plain_shape x) as [[n E]|[n [a [r [E Ha]]]]]; subst x.
  - unfold spec_comment in H. rewrite spec_comment_from_blank in H. discriminate.
  - rewrite all_blank_blanks. simpl. rewrite Ha. reflexivity.
Qed.

(* a data line: not blank, and not taken for a comment line *)
Definition data_line (a : string) : Prop := all_blank a = false /\ c_led a = false.

Lemma data_line_app : forall a s, data_line a -> data_line (a ++ s).
Proof.
  intros a s [H1 H2]. split.
  - rewrite all_blank_app, H1. reflexivity.
  - apply c_led_app; auto.
Qed.

Lemma pk_data_line : forall a, data_line a ->
  k_blank (pk a) = false /\ k_com (pk a) = false /\
  k_hash (pk a) = contains "#"%char (takeS 5 a) /\
  k_words (pk a) = filter not_amp (words (spec_data a)).
Proof.
  intros a [H1 H2]. destruct (c_led_none a H2) as [H3 H4].
  unfold pk. cbn [k_blank k_com k_hash k_words]. rewrite H1, H3, H4. cbn [orb negb].
  rewrite andb_true_r. auto.
Qed.

Lemma spec_comment_start : forall x, spec_comment x = true -> all_blank (takeS 5 x) = false.
Proof.
  intros x H. destruct (plain_shape x) as [[n E]|[n [a [r [E Ha]]]]]; subst x.
  - unfold spec_comment in H. rewrite spec_comment_from_blank in H. discriminate.
  - unfold spec_comment in H. rewrite spec_comment_from_shape in H by auto.
    apply andb_true_iff in H. destruct H as [Hn _]. apply Nat.leb_le in Hn.
    rewrite takeS_blanks_le by lia. rewrite all_blank_blanks.
    destruct (5 - n) eqn:E; [lia|]. simpl. rewrite Ha. reflexivity.
Qed.

Lemma pk_comment_line : forall c, spec_comment c = true ->
  k_blank (pk c) = false /\ k_com (pk c) = true /\ k_hash (pk c) = false /\ k_words (pk c) = [] /\
  k_start (pk c) = true.
Proof.
  intros c H. unfold pk. cbn [k_blank k_com k_hash k_words k_start]. rewrite H.
  rewrite (spec_comment_not_blank c H), (spec_comment_start c H). cbn [orb negb]. rewrite andb_false_r. auto.
Qed.

(* ---- segments of classes that behave alike *)
Ltac seg_crush :=
  repeat match goal with
         | |- context [match ?b with true => _ | false => _ end] => destruct b eqn:?; cbn [andb orb negb]
         end; try reflexivity; try congruence.

Lemma seg_amp : forall ka ka' kb kb',
  k_blank ka = false -> k_com ka = false -> k_hash ka = false ->
  k_blank ka' = false -> k_com ka' = false -> k_hash ka' = false ->
  k_start ka' = k_start ka -> k_words ka' = k_words ka -> k_ampf ka' = true ->
  k_blank kb = false -> k_com kb = false -> k_hash kb = false -> k_start kb = false ->
  k_blank kb' = false -> k_com kb' = false -> k_hash kb' = false ->
  k_words kb' = k_words kb -> k_ampf kb' = k_ampf kb ->
  forall s, asteps [ka; kb] s = asteps [ka'; kb'] s.
Proof.
  intros ka ka' kb kb' A1 A2 A3 B1 B2 B3 B4 B5 B6 C1 C2 C3 C4 D1 D2 D3 D4 D5 [bc bt cont hnc ne acc top dn].
  destruct dn; [reflexivity|].
  unfold asteps, astep. cbn [a_bc a_bt a_cont a_hnc a_ne a_acc a_top a_done].
  rewrite A1, A2, A3, B1, B2, B3, B4, B5, B6, C1, C2, C3, C4, D1, D2, D3, D4, D5.
  cbn [andb orb negb]. rewrite !andb_false_r.
  destruct (k_start ka), cont, hnc, ne; cbn [andb orb negb]; reflexivity.
Qed.

(* two lines of the same class *)
Definition same_fix (k k' : lk) : Prop :=
  k_blank k' = k_blank k /\ k_com k' = k_com k /\ k_start k' = k_start k /\ k_hash k' = k_hash k /\
  k_ampf k' = k_ampf k /\ k_words k' = k_words k.

Lemma seg_same : forall k k', same_fix k k' -> forall s, asteps [k] s = asteps [k'] s.
Proof.
  intros k k' (H1 & H2 & H3 & H4 & H5 & H6) s.
  unfold asteps, astep. rewrite H1, H2, H3, H4, H5, H6. reflexivity.
Qed.

Lemma seg_blank : forall k k', k_blank k = true -> k_blank k' = true ->
  forall s, asteps [k] s = asteps [k'] s.
Proof. intros k k' H1 H2 s. unfold asteps, astep. rewrite H1, H2. reflexivity. Qed.

Definition comment_class (k : lk) : Prop :=
  k_blank k = false /\ k_com k = true /\ k_hash k = false /\ k_words k = [] /\ k_start k = true.

Lemma step_comment_noop : forall kc s, comment_class kc -> a_done s = true \/ a_ne s = true ->
  astep kc s = ([], Some s).
Proof.
  intros kc [bc bt cont hnc ne acc top dn] (H1 & H2 & H3 & H4 & H5) Hne. cbn [a_ne a_done] in Hne.
  destruct dn; [reflexivity|]. destruct Hne as [Hne|Hne]; [discriminate|]. subst ne.
  unfold astep. cbn [a_bc a_bt a_cont a_hnc a_ne a_acc a_top a_done]. rewrite H1, H2, H3, H4, H5.
  cbn [negb andb]. rewrite !andb_false_r. rewrite orb_false_r, app_nil_r. reflexivity.
Qed.

Lemma step_nonblank_ne : forall k s o s1, k_blank k = false -> astep k s = (o, Some s1) ->
  a_done s1 = true \/ a_ne s1 = true.
Proof.
  intros k s o s1 Hb H. unfold astep in H. destruct (a_done s) eqn:Ed.
  - inversion H. subst. auto.
  - rewrite Hb in H. destruct (k_hash k); inversion H. auto.
Qed.

Lemma seg_comment_text : forall kc kc', comment_class kc -> comment_class kc' ->
  forall s, asteps [kc] s = asteps [kc'] s.
Proof.
  intros kc kc' (H1 & H2 & H3 & H4 & H5) (G1 & G2 & G3 & G4 & G5) s.
  unfold asteps, astep. rewrite H1, H2, H3, H4, H5, G1, G2, G3, G4, G5. cbn [negb andb]. reflexivity.
Qed.

Lemma seg_comment_after : forall kx kc, k_blank kx = false -> comment_class kc ->
  forall s, asteps [kx; kc] s = asteps [kx] s.
Proof.
  intros kx kc Hx Hc s. cbn [asteps].
  destruct (astep kx s) as [o [s1|]] eqn:E; auto.
  rewrite step_comment_noop; auto.
  eapply step_nonblank_ne; eauto.
Qed.

Lemma seg_comment_before : forall ky kc, k_blank ky = false -> comment_class kc ->
  forall s, inv s -> asteps [kc; ky] s = asteps [ky] s.
Proof.
  intros ky kc Hy Hc s Hi. destruct (a_done s) eqn:Hdn.
  { cbn [asteps]. rewrite step_comment_noop by auto. cbn [app].
    destruct (astep ky s) as [o [s1|]]; reflexivity. }
  destruct (a_ne s) eqn:Hne.
  - cbn [asteps]. rewrite step_comment_noop by auto. cbn [app].
    destruct (astep ky s) as [o [s1|]]; reflexivity.
  - specialize (Hi Hne). destruct s as [bc bt cont hnc ne acc top dn]. cbn [a_ne a_hnc a_done] in *. subst ne hnc dn.
    destruct Hc as (H1 & H2 & H3 & H4 & H5).
    unfold asteps, astep. cbn [a_bc a_bt a_cont a_hnc a_ne a_acc a_top a_done].
    rewrite H1, H2, H3, H4, H5, Hy. cbn [negb andb orb]. rewrite !andb_false_r. cbn [app].
    rewrite app_nil_r. destruct (k_hash ky); reflexivity.
Qed.

(* ---- facts about pk under the re-layouts *)
Lemma rstrip_blanks_snoc : forall x c, is_blank c = false ->
  rstrip_blanks (x ++ String c "") = x ++ String c "".
Proof.
  induction x; intros c Hc; simpl.
  - rewrite Hc. reflexivity.
  - rewrite all_blank_app. simpl. rewrite Hc. rewrite !andb_false_r. rewrite IHx by auto. reflexivity.
Qed.

Lemma rstrip_blanks_lead : forall n c t, is_blank c = false ->
  rstrip_blanks (blanks n (String c t)) = blanks n (String c (rstrip_blanks t)).
Proof.
  induction n; intros c t Hc.
  - simpl. rewrite Hc. reflexivity.
  - cbn [blanks]. cbn [rstrip_blanks]. cbn [all_blank]. rewrite all_blank_blanks. cbn [all_blank].
    rewrite Hc. cbn [andb]. rewrite andb_false_r. rewrite IHn by auto. reflexivity.
Qed.

Lemma spec_data_blanks : forall n s, spec_data (blanks n s) = blanks n (spec_data s).
Proof. induction n; intros s; simpl; auto. rewrite IHn. reflexivity. Qed.

Lemma filter_words_amp : forall a, contains "$"%char a = false ->
  filter not_amp (words (spec_data (a ++ amp2))) = filter not_amp (words (spec_data a)).
Proof.
  intros a H. rewrite spec_data_app, H. change (spec_data amp2) with amp2.
  rewrite (spec_data_no_dollar a H). unfold amp2. rewrite words_app_sp, filter_app.
  change (filter not_amp (words "&")) with (@nil string). apply app_nil_r.
Qed.

Lemma pk_amp : forall a, data_line a -> contains "$"%char a = false -> contains "#"%char (takeS 5 a) = false ->
  let k := pk a in let k' := pk (a ++ amp2) in
  k_blank k = false /\ k_com k = false /\ k_hash k = false /\
  k_blank k' = false /\ k_com k' = false /\ k_hash k' = false /\
  k_start k' = k_start k /\ k_words k' = k_words k /\ k_ampf k' = true.
Proof.
  intros a Hd Hdol Hh.
  destruct (pk_data_line a Hd) as (A1 & A2 & A3 & A4).
  destruct (pk_data_line _ (data_line_app a amp2 Hd)) as (B1 & B2 & B3 & B4).
  cbv zeta. rewrite A1, A2, A3, A4, B1, B2, B3, B4, Hh.
  rewrite contains_takeS_app by reflexivity. rewrite Hh.
  rewrite filter_words_amp by auto.
  repeat split; auto.
  - unfold pk. cbn [k_start]. destruct Hd as [Hb _]. rewrite all_blank_takeS_app by auto. reflexivity.
  - unfold pk. cbn [k_ampf]. rewrite contains_app, Hdol. cbn [orb contains negb andb].
    assert (a ++ amp2 = (a ++ String sp "") ++ String "&"%char "") as E by (rewrite sapp_assoc; reflexivity).
    rewrite E, rstrip_blanks_snoc by reflexivity. rewrite <- E. apply ends_with_app.
Qed.

Definition head_ok (b : string) : bool :=
  match b with
  | EmptyString => false
  | String c _ => andb (negb (is_blank c)) (negb (Ascii.eqb c "&"%char))
  end.

Lemma pk_cont : forall b n, head_ok b = true -> c_led (blanks n b) = false ->
  let k := pk (blanks n b) in
  k_blank k = false /\ k_com k = false /\
  k_hash k = contains "#"%char (takeS 5 (blanks n b)) /\
  k_start k = negb (all_blank (takeS 5 (blanks n b))) /\
  k_words k = filter not_amp (words (spec_data b)) /\
  k_ampf k = andb (negb (contains "$"%char b)) (ends_with amp2 (rstrip_blanks b)).
Proof.
  intros b n Hh Hc. destruct b as [|c t]; [discriminate|]. cbn [head_ok] in Hh.
  apply andb_true_iff in Hh. destruct Hh as [H1 H2]. apply negb_true_iff in H1. apply negb_true_iff in H2.
  assert (data_line (blanks n (String c t))) as Hd.
  { split; auto. rewrite all_blank_blanks. simpl. rewrite H1. reflexivity. }
  destruct (pk_data_line _ Hd) as (A1 & A2 & A3 & A4).
  cbv zeta. rewrite A1, A2, A3, A4. repeat split; auto.
  - rewrite spec_data_blanks, words_blanks. reflexivity.
  - unfold pk. cbn [k_ampf]. rewrite contains_blanks by reflexivity. f_equal.
    rewrite rstrip_blanks_lead by auto. cbn [rstrip_blanks all_blank]. rewrite H1. cbn [andb].
    apply ends_with_blanks_body; auto.
Qed.

Lemma start_blanks : forall n b, head_ok b = true ->
  all_blank (takeS 5 (blanks n b)) = negb (Nat.ltb n 5).
Proof.
  intros n b H. destruct b as [|c t]; [discriminate|]. cbn [head_ok] in H.
  apply andb_true_iff in H. destruct H as [H1 _]. apply negb_true_iff in H1.
  destruct (Nat.ltb n 5) eqn:E.
  - apply Nat.ltb_lt in E. rewrite takeS_blanks_le by lia. rewrite all_blank_blanks.
    destruct (5 - n) eqn:E2; [lia|]. simpl. rewrite H1. reflexivity.
  - apply Nat.ltb_ge in E. rewrite takeS_blanks_ge by lia. rewrite all_blank_blanks. reflexivity.
Qed.

Lemma pk_indent : forall b n m, head_ok b = true -> Nat.ltb n 5 = Nat.ltb m 5 ->
  c_led (blanks n b) = false -> c_led (blanks m b) = false ->
  contains "#"%char (takeS 5 (blanks n b)) = false -> contains "#"%char (takeS 5 (blanks m b)) = false ->
  same_fix (pk (blanks n b)) (pk (blanks m b)).
Proof.
  intros b n m Hh Hnm Hc1 Hc2 Hh1 Hh2.
  destruct (pk_cont b n Hh Hc1) as (A1 & A2 & A3 & A4 & A5 & A6).
  destruct (pk_cont b m Hh Hc2) as (B1 & B2 & B3 & B4 & B5 & B6).
  unfold same_fix. rewrite A1, A2, A3, A4, A5, A6, B1, B2, B3, B4, B5, B6, Hh1, Hh2.
  rewrite !start_blanks by auto. rewrite Hnm. repeat split; reflexivity.
Qed.

Lemma pk_dollar : forall a t, data_line a -> contains "$"%char a = false ->
  ends_with amp2 (rstrip_blanks a) = false ->
  contains "#"%char (takeS 5 a) = false -> contains "#"%char (takeS 5 (a ++ String "$"%char t)) = false ->
  same_fix (pk a) (pk (a ++ String "$"%char t)).
Proof.
  intros a t Hd Hdol Hamp Hh Hh2.
  destruct (pk_data_line a Hd) as (A1 & A2 & A3 & A4).
  destruct (pk_data_line _ (data_line_app a (String "$"%char t) Hd)) as (B1 & B2 & B3 & B4).
  unfold same_fix. rewrite A1, A2, A3, A4, B1, B2, B3, B4, Hh, Hh2.
  assert (spec_data (a ++ String "$"%char t) = spec_data a) as Es.
  { rewrite spec_data_app, Hdol. cbn [spec_data]. rewrite Ascii.eqb_refl, sapp_nil_r.
    symmetry. apply spec_data_no_dollar; auto. }
  repeat split; auto.
  - unfold pk. cbn [k_start]. destruct Hd as [Hb _]. rewrite all_blank_takeS_app by auto. reflexivity.
  - unfold pk. cbn [k_ampf]. rewrite contains_app, Hdol, Hamp. cbn [contains]. rewrite Ascii.eqb_refl. reflexivity.
  - rewrite Es. reflexivity.
Qed.

Lemma pk_trail : forall a n, data_line a ->
  same_fix (pk a) (pk (a ++ blanks n "")).
Proof.
  intros a n Hd.
  destruct (pk_data_line a Hd) as (A1 & A2 & A3 & A4).
  destruct (pk_data_line _ (data_line_app a (blanks n "") Hd)) as (B1 & B2 & B3 & B4).
  unfold same_fix. rewrite A1, A2, A3, A4, B1, B2, B3, B4.
  assert (contains "$"%char (blanks n "") = false) as Eb by (rewrite contains_blanks; reflexivity).
  repeat split; auto.
  - unfold pk. cbn [k_start]. destruct Hd as [Hb _]. rewrite all_blank_takeS_app by auto. reflexivity.
  - apply contains_takeS_app. rewrite contains_blanks; reflexivity.
  - unfold pk. cbn [k_ampf]. rewrite contains_app, Eb, orb_false_r, rstrip_blanks_app_blanks. reflexivity.
  - rewrite spec_data_app. destruct (contains "$" a) eqn:Ed; auto.
    rewrite (spec_data_no_dollar _ Eb), (spec_data_no_dollar _ Ed). rewrite words_app_blanks. reflexivity.
Qed.

(* ---- the relation *)
Definition raw_blank (l : string) : bool := all_space (expandtabs TABSIZE (clean_line l)).

Fixpoint all_printable (s : string) : bool :=
  match s with
  | EmptyString => true
  | String a r => andb (printable a) (all_printable r)
  end.

(* one elementary re-layout of the data part of a file; the lines are the raw lines of the file
   (body followed by LF or CR LF) *)
Inductive data_step : list string -> list string -> Prop :=
| DS_amp : forall pre post a b j k e1 e2,
    (* continuation by >= 5 leading blanks  ->  trailing " &" and any indentation *)
    all_plain a = true -> all_plain b = true -> eol e1 -> eol e2 ->
    data_line a -> contains "$"%char a = false -> contains "#"%char (takeS 5 a) = false ->
    5 <= k -> head_ok b = true ->
    c_led (blanks j b) = false -> c_led (blanks k b) = false ->
    contains "#"%char (takeS 5 (blanks j b)) = false ->
    data_step (pre ++ [a ++ e1; blanks k b ++ e2] ++ post)
              (pre ++ [a ++ amp2 ++ e1; blanks j b ++ e2] ++ post)
| DS_comment_after : forall pre post x c e,
    (* a C comment line after a non-blank line *)
    all_plain c = true -> eol e -> spec_comment c = true -> raw_blank x = false ->
    data_step (pre ++ [x] ++ post) (pre ++ [x; c ++ e] ++ post)
| DS_comment_before : forall pre post y c e,
    (* a C comment line before a non-blank line *)
    all_plain c = true -> eol e -> spec_comment c = true -> raw_blank y = false ->
    data_step (pre ++ [y] ++ post) (pre ++ [c ++ e; y] ++ post)
| DS_comment_text : forall pre post c c' e e',
    (* another text (or indentation within columns 1-5) of a C comment line *)
    all_plain c = true -> all_plain c' = true -> eol e -> eol e' ->
    spec_comment c = true -> spec_comment c' = true ->
    data_step (pre ++ [c ++ e] ++ post) (pre ++ [c' ++ e'] ++ post)
| DS_dollar : forall pre post a t e,
    (* a '$' comment at the end of a data line that is not continued by '&' *)
    all_plain a = true -> all_plain t = true -> eol e ->
    data_line a -> contains "$"%char a = false -> ends_with amp2 (rstrip_blanks a) = false ->
    contains "#"%char (takeS 5 a) = false -> contains "#"%char (takeS 5 (a ++ String "$"%char t)) = false ->
    data_step (pre ++ [a ++ e] ++ post) (pre ++ [a ++ String "$"%char t ++ e] ++ post)
| DS_trail : forall pre post a n e,
    (* blanks at the end of a data line *)
    all_plain a = true -> eol e -> data_line a ->
    data_step (pre ++ [a ++ e] ++ post) (pre ++ [a ++ blanks n "" ++ e] ++ post)
| DS_tab : forall pre post u v e,
    (* a tab  ->  the blanks up to the next multiple of 8 columns *)
    all_printable u = true -> all_printable v = true -> eol e ->
    data_step (pre ++ [u ++ String tab v ++ e] ++ post) (pre ++ [u ++ blanks (tab_fill u) v ++ e] ++ post)
| DS_eol : forall pre post x,
    (* LF -> CR LF *)
    no_eol x = true ->
    data_step (pre ++ [x ++ lf] ++ post) (pre ++ [x ++ crlf] ++ post)
| DS_indent : forall pre post b n m e,
    (* the indentation of a line, on either side of column 5 *)
    all_plain b = true -> eol e -> head_ok b = true ->
    Nat.ltb n 5 = Nat.ltb m 5 ->
    c_led (blanks n b) = false -> c_led (blanks m b) = false ->
    contains "#"%char (takeS 5 (blanks n b)) = false -> contains "#"%char (takeS 5 (blanks m b)) = false ->
    data_step (pre ++ [blanks n b ++ e] ++ post) (pre ++ [blanks m b ++ e] ++ post)
| DS_blank : forall pre post x y,
    (* what a blank line consists of *)
    raw_blank x = true -> raw_blank y = true ->
    data_step (pre ++ [x] ++ post) (pre ++ [y] ++ post).

(* ---- soundness *)
Definition lim (w : nat) (l : string) : bool :=
  Nat.leb (String.length (chomp (expandtabs TABSIZE (clean_line l)))) w.

Lemma chomp_plain : forall x, all_plain x = true -> chomp (x ++ lf) = x.
Proof.
  induction x; simpl; intros H; auto.
  apply andb_true_iff in H. destruct H as [Ha Hs].
  destruct (plain_facts _ Ha) as (_ & _ & _ & Hn & Hc). rewrite Hn, Hc. simpl. rewrite IHx; auto.
Qed.

Lemma within_limit_forallb : forall w f, within_limit w f = forallb (lim w) f.
Proof. reflexivity. Qed.

Lemma lim_plain : forall w x e, all_plain x = true -> eol e -> lim w (x ++ e) = true -> String.length x <= w.
Proof.
  intros w x e Hx He H. unfold lim in H. rewrite clean_line_plain, expandtabs_plain, chomp_plain in H by auto.
  apply Nat.leb_le in H. exact H.
Qed.

Lemma within_mid : forall w pre p post, within_limit w (pre ++ p ++ post) = true -> forallb (lim w) p = true.
Proof.
  intros w pre p post H. rewrite within_limit_forallb, !forallb_app in H.
  apply andb_true_iff in H. destruct H as [_ H]. apply andb_true_iff in H. tauto.
Qed.

Lemma raw_blank_class : forall w l, k_blank (lc w l) = raw_blank l.
Proof. reflexivity. Qed.

Lemma printable_facts : forall a, printable a = true ->
  clean_byte a = a /\ Ascii.eqb a nl = false /\ Ascii.eqb a cr = false.
Proof.
  intros [[] [] [] [] [] [] [] []]; vm_compute; intro H; try discriminate H; repeat split; reflexivity.
Qed.

Lemma printable_clean : forall x, all_printable x = true -> smap clean_byte x = x /\ no_eol x = true.
Proof.
  induction x; simpl; intros H; auto.
  apply andb_true_iff in H. destruct H as [Ha Hs].
  destruct (printable_facts _ Ha) as (E1 & E2 & E3). destruct (IHx Hs) as [E4 E5].
  rewrite E1, E2, E3, E4, E5. auto.
Qed.

Lemma all_printable_app : forall a b, all_printable (a ++ b) = andb (all_printable a) (all_printable b).
Proof. induction a; simpl; intros; auto. rewrite IHa, andb_assoc. reflexivity. Qed.

Lemma all_printable_blanks : forall n s, all_printable (blanks n s) = all_printable s.
Proof. induction n; simpl; intros; auto. Qed.

Lemma expand_printable : forall x e, all_printable x = true -> eol e ->
  expandtabs TABSIZE (clean_line (x ++ e)) = spec_expand_from 0 x ++ lf.
Proof.
  intros x e Hx He. destruct (printable_clean x Hx) as [E1 E2].
  rewrite clean_line_eol by auto. rewrite E1. unfold lf. apply expandtabs_is_S1; auto.
Qed.

Theorem data_step_sound : forall w d d', data_step d d' ->
  within_limit w d = true -> within_limit w d' = true ->
  forall s, inv s -> arun (map (lc w) d) s = arun (map (lc w) d') s.
Proof.
  intros w d d' Hstep Hl Hl' s Hi.
  destruct Hstep; rewrite !map_app; apply seg_replace; auto; intros s1 Hi1; cbn [map];
    apply within_mid in Hl; apply within_mid in Hl'; cbn [forallb] in Hl, Hl';
    repeat match goal with H : andb _ _ = true |- _ => apply andb_true_iff in H; destruct H end.
  - (* DS_amp *)
    assert (all_plain (a ++ amp2) = true) as Hpa by (rewrite all_plain_app; rewrite H; reflexivity).
    assert (all_plain (blanks k b) = true) as Hpk by (rewrite all_plain_blanks; auto).
    assert (all_plain (blanks j b) = true) as Hpj by (rewrite all_plain_blanks; auto).
    rewrite (lc_plain w a e1) by (auto; apply (lim_plain w a e1); auto). rewrite (lc_plain w (blanks k b) e2) by (auto; apply (lim_plain w (blanks k b) e2); auto).
    rewrite <- (sapp_assoc a amp2 e1) in *.
    rewrite (lc_plain w (a ++ amp2) e1) by (auto; apply (lim_plain w (a ++ amp2) e1); auto). rewrite (lc_plain w (blanks j b) e2) by (auto; apply (lim_plain w (blanks j b) e2); auto).
    destruct (pk_amp a H3 H4 H5) as (A1 & A2 & A3 & B1 & B2 & B3 & B4 & B5 & B6).
    destruct (pk_cont b k H7 H9) as (C1 & C2 & C3 & C4 & C5 & C6).
    destruct (pk_cont b j H7 H8) as (D1 & D2 & D3 & D4 & D5 & D6).
    apply seg_amp; auto.
    + rewrite C3. rewrite takeS_blanks_ge by lia. reflexivity.
    + rewrite C4. rewrite takeS_blanks_ge by lia. reflexivity.
    + rewrite D3. auto.
    + congruence.
    + congruence.
  - (* DS_comment_after *)
    rewrite (lc_plain w c e) by (auto; apply (lim_plain w c e); auto).
    symmetry. apply seg_comment_after.
    + rewrite raw_blank_class. auto.
    + apply pk_comment_line; auto.
  - (* DS_comment_before *)
    rewrite (lc_plain w c e) by (auto; apply (lim_plain w c e); auto).
    symmetry. apply seg_comment_before; auto.
    apply pk_comment_line; auto.
  - (* DS_comment_text *)
    rewrite (lc_plain w c e) by (auto; apply (lim_plain w c e); auto). rewrite (lc_plain w c' e') by (auto; apply (lim_plain w c' e'); auto).
    apply seg_comment_text; apply pk_comment_line; auto.
  - (* DS_dollar *)
    assert (all_plain (a ++ String "$"%char t) = true) as Hp.
    { rewrite all_plain_app. cbn [all_plain]. rewrite H, H0. reflexivity. }
    change (a ++ String "$"%char t ++ e) with (a ++ (String "$"%char t) ++ e) in *.
    rewrite <- (sapp_assoc a (String "$"%char t) e) in *.
    rewrite (lc_plain w a e) by (auto; apply (lim_plain w a e); auto). rewrite (lc_plain w (a ++ String "$"%char t) e) by (auto; apply (lim_plain w (a ++ String "$"%char t) e); auto).
    apply seg_same. apply pk_dollar; auto.
  - (* DS_trail *)
    assert (all_plain (a ++ blanks n "") = true) as Hp.
    { rewrite all_plain_app, all_plain_blanks, H. reflexivity. }
    rewrite <- (sapp_assoc a (blanks n "") e) in *.
    rewrite (lc_plain w a e) by (auto; apply (lim_plain w a e); auto). rewrite (lc_plain w (a ++ blanks n "") e) by (auto; apply (lim_plain w (a ++ blanks n "") e); auto).
    apply seg_same. apply pk_trail; auto.
  - (* DS_tab *)
    rewrite (lc_same w (u ++ String tab v ++ e) (u ++ blanks (tab_fill u) v ++ e)); auto.
    change (u ++ String tab v ++ e) with (u ++ (String tab v) ++ e).
    rewrite (blanks_app (tab_fill u) v). rewrite !(sapp_assoc (blanks (tab_fill u) "")).
    rewrite <- !(sapp_assoc u). rewrite <- (sapp_assoc (u ++ blanks (tab_fill u) "")).
    rewrite !expand_printable; auto.
    + rewrite sapp_assoc, <- blanks_app. rewrite tab_is_blanks. reflexivity.
    + rewrite !all_printable_app, all_printable_blanks. cbn [all_printable]. rewrite H, H0. reflexivity.
    + rewrite all_printable_app. cbn [all_printable]. rewrite H, H0. reflexivity.
  - (* DS_eol *)
    rewrite (lc_same w (x ++ lf) (x ++ crlf)); auto. rewrite clean_line_crlf; auto.
  - (* DS_indent *)
    assert (all_plain (blanks n b) = true) as Hpn by (rewrite all_plain_blanks; auto).
    assert (all_plain (blanks m b) = true) as Hpm by (rewrite all_plain_blanks; auto).
    rewrite (lc_plain w (blanks n b) e) by (auto; apply (lim_plain w (blanks n b) e); auto).
    rewrite (lc_plain w (blanks m b) e) by (auto; apply (lim_plain w (blanks m b) e); auto).
    apply seg_same. apply pk_indent; auto.
  - (* DS_blank *)
    apply seg_blank; rewrite raw_blank_class; auto.
Qed.

(* ================================================================== I  front matter, whole files *)
(* the lines before the data part: the title line, possibly after a message block;
   the second component is the title MontePy reads *)
Inductive front : list string -> option string -> Prop :=
| F_title : forall t,
    String.prefix "MESSAGE:" (upper (clean_line t)) = false ->
    front [t] (Some (rstrip (clean_line t)))
| F_message : forall m0 ms b t,
    String.prefix "MESSAGE:" (upper (clean_line m0)) = true ->
    Forall (fun l => all_space (clean_line l) = false) ms ->
    all_space (clean_line b) = true ->
    front (m0 :: ms ++ [b; t])%list (Some (rstrip (clean_line t))).

Lemma message_loop_front : forall ms acc b t d,
  Forall (fun l => all_space (clean_line l) = false) ms ->
  all_space (clean_line b) = true ->
  let fm := message_loop (map clean_line (ms ++ [b; t] ++ d)%list) acc in
  f_title fm = Some (rstrip (clean_line t)) /\ f_rest fm = map clean_line d.
Proof.
  induction ms; intros acc b t d Hms Hb.
  - simpl. rewrite Hb. auto.
  - inversion Hms; subst. cbn [app map message_loop]. rewrite H1. apply IHms; auto.
Qed.

Lemma front_read : forall fr ti d, front fr ti ->
  let fm := read_front_matters (map clean_line (fr ++ d)%list) in
  f_title fm = ti /\ f_rest fm = map clean_line d.
Proof.
  intros fr ti d H. destruct H.
  - cbn [app map read_front_matters]. rewrite H. auto.
  - cbn [app map read_front_matters]. rewrite H. rewrite <- app_assoc.
    apply message_loop_front; auto.
Qed.

Definition s0 : ast := mkA 0 0 false false false [] true false.

Lemma inv_s0 : inv s0.
Proof. intro. reflexivity. Qed.

Lemma read_lines_run : forall w f,
  read_lines w f =
  let fm := read_front_matters (map clean_line f) in
  let r := arun (map (line_class w) (f_rest fm)) s0 in (f_title fm, fst r, snd r).
Proof.
  intros w f. unfold read_lines, read_data_from. cbv zeta.
  pose proof (rd_loop_sim w false (f_rest (read_front_matters (map clean_line f))) 0 0 0 false false []) as H.
  cbn [nonempty flat_map negb] in H. fold s0 in H. rewrite <- H.
  destruct (rd_loop w false _ 0 0 0 false false []) as [ins e]. reflexivity.
Qed.

Lemma read_lines_front : forall w fr ti d, front fr ti ->
  read_lines w (fr ++ d)%list = (ti, fst (arun (map (lc w) d) s0), snd (arun (map (lc w) d) s0)).
Proof.
  intros w fr ti d H. rewrite read_lines_run. cbv zeta.
  destruct (front_read fr ti d H) as [E1 E2]. rewrite E1, E2, map_map. reflexivity.
Qed.

(* ---- the top-level file is read up to the blank line that ends its third block *)
Fixpoint nblank (ks : list lk) : nat :=
  match ks with
  | [] => 0
  | k :: r => (if k_blank k then 1 else 0) + nblank r
  end.

Definition stops (s : ast) : Prop := a_top s = true -> 3 <= a_bc s -> a_done s = true.

Lemma astep_stops : forall k s o s1, stops s -> astep k s = (o, Some s1) ->
  stops s1 /\ a_top s1 = a_top s /\
  (a_done s = false -> a_bc s1 = (if k_blank k then 1 else 0) + a_bc s).
Proof.
  intros k s o s1 Hq H. unfold astep in H. destruct (a_done s) eqn:Ed.
  - inversion H; subst. repeat split; auto. intro; discriminate.
  - destruct (k_blank k).
    + inversion H; subst. cbn [a_top a_bc a_done]. repeat split; auto.
      intros Ht Hb. cbn [a_top a_bc a_done] in *. rewrite Ht, andb_true_r.
      change (Nat.leb 3 (S (a_bc s)) = true). apply Nat.leb_le. exact Hb.
    + destruct (k_hash k); inversion H; subst. cbn [a_top a_bc a_done]. repeat split; auto.
      intros Ht Hb. cbn [a_top a_bc] in *. specialize (Hq Ht Hb). congruence.
Qed.

Lemma tail_ignored : forall ks s t t', stops s -> a_top s = true -> 3 <= a_bc s + nblank ks ->
  arun (ks ++ t)%list s = arun (ks ++ t')%list s.
Proof.
  induction ks; intros s t t' Hq Ht Hb.
  - cbn [nblank] in Hb. rewrite Nat.add_0_r in Hb. cbn [app].
    rewrite !arun_done by (apply Hq; auto). reflexivity.
  - destruct (a_done s) eqn:Ed; [rewrite !arun_done by auto; reflexivity|].
    cbn [app arun]. destruct (astep a s) as [o [s1|]] eqn:E; auto.
    destruct (astep_stops a s o s1 Hq E) as (Hq1 & Ht1 & Hbc). specialize (Hbc Ed).
    rewrite (IHks s1 t t'); auto; try congruence.
    cbn [nblank] in Hb. rewrite Hbc. lia.
Qed.

Lemma stops_s0 : stops s0.
Proof. intros _ H. cbn in H. lia. Qed.

Definition nblank_raw (d : list string) : nat := List.length (filter raw_blank d).

Lemma nblank_map : forall w d, nblank (map (lc w) d) = nblank_raw d.
Proof.
  induction d; auto. cbn [map nblank]. rewrite raw_blank_class, IHd. unfold nblank_raw. cbn [filter].
  destruct (raw_blank a); reflexivity.
Qed.

(* one elementary re-layout of a file *)
Inductive layout_step : list string -> list string -> Prop :=
| LS_data : forall fr ti d d',
    front fr ti -> data_step d d' -> layout_step (fr ++ d)%list (fr ++ d')%list
| LS_front : forall fr fr' ti d,
    (* message block added, removed or changed; line ends and trailing blanks of the title line *)
    front fr ti -> front fr' ti -> layout_step (fr ++ d)%list (fr' ++ d)%list
| LS_tail : forall fr ti d t t',
    (* anything after the blank line that ends the third block *)
    front fr ti -> 3 <= nblank_raw d -> layout_step (fr ++ d ++ t)%list (fr ++ d ++ t')%list.

Lemma within_limit_app : forall w a b, within_limit w (a ++ b)%list = true -> within_limit w b = true.
Proof.
  intros w a b H. rewrite within_limit_forallb in *. rewrite forallb_app in H.
  apply andb_true_iff in H. tauto.
Qed.

Theorem layout_step_sound : forall w f f', layout_step f f' ->
  within_limit w f = true -> within_limit w f' = true ->
  read_lines w f = read_lines w f'.
Proof.
  intros w f f' H Hl Hl'. destruct H.
  - rewrite !(read_lines_front w fr ti) by auto.
    rewrite (data_step_sound w d d' H0); eauto using within_limit_app, inv_s0.
  - rewrite (read_lines_front w fr ti), (read_lines_front w fr' ti) by auto. reflexivity.
  - rewrite !(read_lines_front w fr ti) by auto. rewrite !map_app.
    rewrite (tail_ignored (map (lc w) d) s0 (map (lc w) t) (map (lc w) t')); auto using stops_s0.
    rewrite nblank_map. cbn. lia.
Qed.

(* layouts reachable from each other by elementary re-layouts, every file on the way within the line limit *)
Inductive layout_equiv (w : nat) : list string -> list string -> Prop :=
| LE_refl : forall f, layout_equiv w f f
| LE_step : forall f f', layout_step f f' -> within_limit w f = true -> within_limit w f' = true ->
    layout_equiv w f f'
| LE_sym : forall f f', layout_equiv w f f' -> layout_equiv w f' f
| LE_trans : forall f g h, layout_equiv w f g -> layout_equiv w g h -> layout_equiv w f h.

Theorem layout_equiv_sound : forall w f f', layout_equiv w f f' -> read_lines w f = read_lines w f'.
Proof.
  intros w f f' H. induction H; auto.
  - apply layout_step_sound; auto.
  - congruence.
Qed.

(* ================================================================== J  examples, is_comment *)
(* ---- examples: single steps across which the reader before commit 2db4963 read differently (w = 128) *)
Definition wt : string := "t" ++ lf.
Definition mk3 (fr pre p post : list string) : list string := List.app fr (List.app pre (List.app p post)).

(* 1  blanks after the '&' *)
Definition wit1 : list string := mk3 [wt] [] ["2 0 1 -2 &" ++ lf] ["imp:n=1" ++ lf].
Definition wit1' : list string := mk3 [wt] [] ["2 0 1 -2 &" ++ blanks 2 "" ++ lf] ["imp:n=1" ++ lf].
(* 2  a comment line between the '&' line and its continuation *)
Definition wit2 : list string := mk3 [wt] [] ["2 0 1 -2 &" ++ lf] ["imp:n=1" ++ lf].
Definition wit2' : list string := mk3 [wt] [] ["2 0 1 -2 &" ++ lf; "c hello" ++ lf] ["imp:n=1" ++ lf].
(* 3  a comment line whose text ends in " &" *)
Definition wit3 : list string := mk3 [wt] ["1 0 -1" ++ lf] ["c see" ++ lf] ["2 0 1" ++ lf].
Definition wit3' : list string := mk3 [wt] ["1 0 -1" ++ lf] ["c see &" ++ lf] ["2 0 1" ++ lf].
(* 4  a '$' comment whose text ends in " &" *)
Definition wit4 : list string := mk3 [wt] [] ["1 0 -1 " ++ lf] ["2 0 1" ++ lf].
Definition wit4' : list string := mk3 [wt] [] ["1 0 -1 " ++ String "$"%char " a &" ++ lf] ["2 0 1" ++ lf].
Lemma front_wt : front [wt] (Some "t").
Proof. apply (F_title wt). reflexivity. Qed.

Ltac dl := split; reflexivity.

Lemma wit1_step : layout_step wit1 wit1'.
Proof. apply (LS_data [wt] (Some "t")); [apply front_wt|]. apply DS_trail; try reflexivity; try constructor; dl. Qed.

Lemma wit2_step : layout_step wit2 wit2'.
Proof. apply (LS_data [wt] (Some "t")); [apply front_wt|]. apply DS_comment_after; try reflexivity; constructor. Qed.

Lemma wit3_step : layout_step wit3 wit3'.
Proof. apply (LS_data [wt] (Some "t")); [apply front_wt|]. apply DS_comment_text; try reflexivity; constructor. Qed.

Lemma wit4_step : layout_step wit4 wit4'.
Proof. apply (LS_data [wt] (Some "t")); [apply front_wt|]. apply DS_dollar; try reflexivity; try constructor; dl. Qed.


Definition same_reading (f f' : list string) : Prop :=
  layout_equiv 128 f f' /\ read_lines 128 f = read_lines 128 f'.

Lemma wit1_same : same_reading wit1 wit1'.
Proof. split; [apply LE_step; [apply wit1_step|reflexivity|reflexivity]|reflexivity]. Qed.
Lemma wit2_same : same_reading wit2 wit2'.
Proof. split; [apply LE_step; [apply wit2_step|reflexivity|reflexivity]|reflexivity]. Qed.
Lemma wit3_same : same_reading wit3 wit3'.
Proof. split; [apply LE_step; [apply wit3_step|reflexivity|reflexivity]|reflexivity]. Qed.
Lemma wit4_same : same_reading wit4 wit4'.
Proof. split; [apply LE_step; [apply wit4_step|reflexivity|reflexivity]|reflexivity]. Qed.

Lemma wit_values :
  read_lines 128 wit1' = (Some "t", [(0, ["2"; "0"; "1"; "-2"; "imp:n=1"])], None) /\
  read_lines 128 wit2' = (Some "t", [(0, ["2"; "0"; "1"; "-2"; "imp:n=1"])], None) /\
  read_lines 128 wit3' = (Some "t", [(0, ["1"; "0"; "-1"]); (0, ["2"; "0"; "1"])], None) /\
  read_lines 128 wit4' = (Some "t", [(0, ["1"; "0"; "-1"]); (0, ["2"; "0"; "1"])], None).
Proof. repeat split; reflexivity. Qed.

(* the '&' in the last allowed column (w = 10): the line is cut to 10 characters, its LF is lost, the '&' is seen *)
Definition edge_a : list string := mk3 [wt] [] ["1 0 -1 2" ++ lf; blanks 5 "3" ++ lf] [].
Definition edge_b : list string := mk3 [wt] [] ["1 0 -1 2" ++ amp2 ++ lf; blanks 0 "3" ++ lf] [].

Lemma edge_same : layout_equiv 10 edge_a edge_b /\
  read_lines 10 edge_b = (Some "t", [(0, ["1"; "0"; "-1"; "2"; "3"])], None).
Proof.
  split; [|reflexivity]. apply LE_step; try reflexivity.
  apply (LS_data [wt] (Some "t")); [apply front_wt|].
  apply DS_amp; try reflexivity; try constructor; try dl.
Qed.

(* is_comment is not rule S5 *)
Theorem is_comment_refuted : exists x, all_plain x = true /\ is_comment (x ++ lf) <> spec_comment x.
Proof. exists "     cz 5". split; [reflexivity|]. intro H. vm_compute in H. discriminate H. Qed.

Theorem is_comment_partial : forall x, all_plain x = true -> late_c x = false ->
  is_comment (x ++ lf) = spec_comment x.
Proof. intros x H1 H2. rewrite is_comment_S5, H2, orb_false_r; auto. Qed.

(* ---- non-vacuity: a pair of layouts two steps apart, with content *)
Definition ex_a : list string := mk3 [wt] [] ["2 0 1 -2" ++ lf; blanks 5 "imp:n=1" ++ lf] ["" ++ lf; "1 px 0" ++ lf].
Definition ex_b : list string := mk3 [wt] [] ["2 0 1 -2" ++ amp2 ++ lf; blanks 1 "imp:n=1" ++ lf] ["" ++ lf; "1 px 0" ++ lf].
Definition ex_c : list string := mk3 [wt] ["2 0 1 -2" ++ amp2 ++ lf; blanks 1 "imp:n=1" ++ lf; "" ++ lf] ["1 px 0" ++ lf] [].
Definition ex_d : list string := mk3 [wt] ["2 0 1 -2" ++ amp2 ++ lf; blanks 1 "imp:n=1" ++ lf; "" ++ lf] ["C surfaces" ++ crlf; "1 px 0" ++ lf] [].

Lemma ex_equiv : layout_equiv 128 ex_a ex_d.
Proof.
  apply (LE_trans 128 ex_a ex_b).
  - apply LE_step; try reflexivity.
    apply (LS_data [wt] (Some "t")); [apply front_wt|].
    apply DS_amp; try reflexivity; try constructor; try dl.
  - change ex_b with ex_c. apply LE_step; try reflexivity.
    apply (LS_data [wt] (Some "t")); [apply front_wt|].
    apply DS_comment_before; try reflexivity; constructor.
Qed.

Lemma ex_value : read_lines 128 ex_d
  = (Some "t", [(0, ["2"; "0"; "1"; "-2"; "imp:n=1"]); (1, ["1"; "px"; "0"])], None).
Proof. reflexivity. Qed.

(* ================================================================== K  generated lexer / grammar facts *)
Fixpoint lbeq {A : Type} (eqb : A -> A -> bool) (a b : list A) : bool :=
  match a, b with
  | [], [] => true
  | x :: a', y :: b' => andb (eqb x y) (lbeq eqb a' b')
  | _, _ => false
  end.

Definition lexer_names : list string := map (fun x => fst (fst x)) lexer_flags.

Lemma lexers_listed :
  lexer_names = ["MCNP_Lexer"; "ParticleLexer"; "CellLexer"; "DataLexer"; "SurfaceLexer"].
Proof. reflexivity. Qed.

Lemma lexers_ignore_case : forallb (fun x => snd x) lexer_flags = true.
Proof. reflexivity. Qed.

Definition rule_of (lexer rule : string) : list string :=
  map (fun x => snd x)
      (filter (fun x => andb (String.eqb (fst (fst x)) lexer) (String.eqb (snd (fst x)) rule)) layout_rules).

(* every lexer: white space is one token whatever its length, '$' comments run to the end of the line,
   a C comment is "C" + end of line or "C" + a white space character + the rest of the line *)
Lemma lexer_layout_rules :
  forallb (fun lx => andb (lbeq String.eqb (rule_of lx "SPACE") ["(\s+)"])
                    (andb (lbeq String.eqb (rule_of lx "DOLLAR_COMMENT") ["(\$.*)"])
                          (lbeq String.eqb (rule_of lx "COMMENT") ["(C\n)|(C\s.*)"])))
          lexer_names = true.
Proof. reflexivity. Qed.

Definition alts_of (parser nt : string) : list (list (list string)) :=
  map (fun x => snd x)
      (filter (fun x => andb (String.eqb (fst (fst x)) parser) (String.eqb (snd (fst x)) nt)) layout_grammar).

Definition lls_beq : list (list (list string)) -> list (list (list string)) -> bool := lbeq (lbeq (lbeq String.eqb)).

(* every parser: padding is any sequence of white space, comments and '&' (not first);
   a key and its value are separated by padding, by '=' or by both *)
Lemma grammar_layout_rules :
  forallb (fun p =>
    andb (lls_beq (alts_of p "padding")
            [[["COMMENT"]; ["DOLLAR_COMMENT"]; ["SPACE"]; ["padding"; "&"]; ["padding"; "COMMENT"];
              ["padding"; "DOLLAR_COMMENT"]; ["padding"; "SPACE"]]])
    (andb (lls_beq (alts_of p "equals_sign") [[["="]; ["="; "padding"]]])
          (lls_beq (alts_of p "param_seperator") [[["equals_sign"]; ["padding"]; ["padding"; "equals_sign"]]])))
    ["cell"; "surface"; "data"; "read"] = true.
Proof. reflexivity. Qed.

(* the constants of the model are those of montepy/constants.py *)
Lemma constants_agree :
  blank_space_continue = BLANK_SPACE_CONTINUE /\ tabsize = TABSIZE /\ ascii_ceiling = ASCII_CEILING /\
  line_length = [([5; 1; 60], 80); ([6; 1; 0], 80); ([6; 2; 0], 128)] /\ default_version = [6; 2; 0].
Proof. repeat split; reflexivity. Qed.
