(* RoundtripProofs.v — the unedited round trip read -> write, composed from the existing models:
     reader         Model/Lines.v (read_front_matters, read_data)            = MCNP's rules on well-formed files
                    (Proofs/SpecProofs.v: split_agrees, H_lines_conserved, W_line)
     trees          Model/Tree.v (format, flatten, unedited, as_parsed, cell_text, write_lines)
                    (Proofs/TreeProofs.v: format_unchanged)
     wrapper        Model/Wrap.v (wrap_lines, title_line)                     (Proofs/WrapProofs.v: wrap_line_identity)
   and read back by the rules (Spec/Cards.v).  Nothing is re-modelled here: [read_model] and [write_model] only plug
   the existing functions together; the parsers are a Section variable [P] with the Lossless hypothesis.
   Unqualified names: Model/Lines.v, Proofs/LinesProofs.v, Proofs/SpecProofs.v. *)
From Coq Require Import List String Ascii Arith Bool Lia.
From MPV Require Import Model.Wire Model.Lines Gen.LexerFlags Proofs.LinesProofs Proofs.SpecProofs.
From MPV Require Spec.Cards Model.SpecWire Model.Tree Proofs.TreeProofs Model.Wrap Proofs.WrapProofs.
Import ListNotations.
Open Scope string_scope.

(* ================================================================== A  the rules: trailing blanks, blocks *)
Lemma split_dollar_fst_app_blanks : forall y n,
  Cards.strip_right (fst (Cards.split_dollar (y ++ blanks n ""))) = Cards.strip_right (fst (Cards.split_dollar y)).
Proof.
  intros y n. rewrite !A_split_dollar_fst, !A_strip_right.
  rewrite spec_data_app. destruct (contains "$" y) eqn:E; [reflexivity|].
  rewrite (spec_data_no_dollar (blanks n "")) by (rewrite contains_blanks; reflexivity).
  rewrite (spec_data_no_dollar y E). apply rstrip_blanks_app_blanks.
Qed.

Lemma classify_app_blanks : forall y n, Cards.classify (y ++ blanks n "") = Cards.classify y.
Proof.
  intros y n. unfold Cards.classify.
  rewrite (A_all_blank (y ++ blanks n "")), (A_all_blank y), all_blank_app, all_blank_blanks.
  cbn [all_blank]. rewrite andb_true_r.
  destruct (all_blank y) eqn:Eb; [reflexivity|].
  rewrite (A_comment (y ++ blanks n "")), (A_comment y). unfold spec_comment.
  rewrite <- (spec_comment_from_rstrip (y ++ blanks n "")), rstrip_blanks_app_blanks, spec_comment_from_rstrip.
  destruct (spec_comment_from 4 y) eqn:Ec.
  - unfold Cards.comment_text. rewrite after_c_app, strip_app_blanks; [reflexivity|].
    apply (c_within_has_c 5). rewrite (A_c_within 4). exact Ec.
  - pose proof (split_dollar_fst_app_blanks y n) as E1. pose proof (split_dollar_app_blanks y n) as E2.
    destruct (Cards.split_dollar (y ++ blanks n "")) as [d1 c1]. destruct (Cards.split_dollar y) as [d2 c2].
    cbn [fst snd] in E1, E2. rewrite E1, E2.
    rewrite !A_first_columns.
    change Cards.all_blank with all_blank. rewrite (all_blank_takeS_app y 5 (blanks n "") Eb).
    reflexivity.
Qed.

Lemma classify_rstrip : forall z, Cards.classify (rstrip_blanks z) = Cards.classify z.
Proof.
  intros z. destruct (rstrip_blanks_decomp z) as [n H]. rewrite H at 2. symmetry. apply classify_app_blanks.
Qed.

(* ---- what a problem denotes: the title without trailing blanks, and the cards in order with the number of their
   block, their tokens (rule S8: '=' is a blank, case folded) and their comment texts *)
Definition card_denotation (nb : nat) (c : Cards.card) : nat * list string * list string :=
  (nb, Cards.tokens c, Cards.card_comments c).

Fixpoint blocks_denotation (nb : nat) (bs : list (list Cards.card)) : list (nat * list string * list string) :=
  match bs with
  | [] => []
  | b :: r => (map (card_denotation nb) b ++ blocks_denotation (S nb) r)%list
  end.

Definition denotation (p : Cards.problem) : option string * list (nat * list string * list string) :=
  (option_map Cards.strip_right (Cards.title p), blocks_denotation 0 (Cards.cards p)).

(* the cards of the non-blank physical lines of one block *)
Definition lines_denotation (nb : nat) (ls : list string) : list (nat * list string * list string) :=
  map (card_denotation nb) (Cards.block_cards (map Cards.classify ls)).

Lemma cut_block_until_blank : forall zs,
  Cards.cut_block (map Cards.classify zs)
  = (map Cards.classify (fst (Cards.until_blank zs)),
     if forallb (fun z => negb (Cards.all_blank z)) zs then None
     else Some (map Cards.classify (snd (Cards.until_blank zs)))).
Proof.
  induction zs as [|z r IH]; [reflexivity|].
  cbn [map Cards.cut_block Cards.until_blank forallb].
  unfold Cards.classify at 1. destruct (Cards.all_blank z) eqn:Eb; [reflexivity|].
  cbn [negb andb].
  assert (forall l, (if Cards.is_comment_line z then Cards.Comment (Cards.comment_text z) else l) <> Cards.Blank
                    \/ l = Cards.Blank) as _ by (intros; destruct (Cards.is_comment_line z); [left; discriminate|destruct l; auto; left; discriminate]).
  rewrite IH. destruct (Cards.until_blank r) as [m t]. cbn [fst snd].
  destruct (Cards.is_comment_line z); [reflexivity|].
  destruct (Cards.split_dollar z) as [d c].
  destruct (Cards.continuation_mark (Cards.strip_right d)); reflexivity.
Qed.

Lemma blocks_denotation_step : forall n nb zs,
  blocks_denotation nb (Cards.blocks (S n) (map Cards.classify zs))
  = (lines_denotation nb (fst (Cards.until_blank zs))
     ++ blocks_denotation (S nb) (Cards.blocks n (map Cards.classify (snd (Cards.until_blank zs)))))%list.
Proof.
  intros n nb zs. cbn [Cards.blocks]. rewrite cut_block_until_blank.
  cbn [blocks_denotation]. unfold lines_denotation. f_equal.
  destruct (forallb (fun z => negb (Cards.all_blank z)) zs) eqn:E; [|reflexivity].
  (* no blank line: nothing follows, and until_blank has nothing left either *)
  assert (snd (Cards.until_blank zs) = []) as ->.
  { clear -E. induction zs as [|z r IH]; [reflexivity|]. cbn [forallb] in E. apply andb_true_iff in E.
    destruct E as [E1 E2]. cbn [Cards.until_blank]. apply negb_true_iff in E1. rewrite E1.
    specialize (IH E2). destruct (Cards.until_blank r). exact IH. }
  destruct n; reflexivity.
Qed.

(* ================================================================== B  what the reader stores, block by block *)
(* the non-blank physical lines of the first three blocks, without trailing blanks, with their block number *)
Fixpoint stored_from (nb : nat) (zs : list string) : list (nat * string) :=
  match zs with
  | [] => []
  | z :: r =>
      if all_blank z then (if Nat.leb 3 (S nb) then [] else stored_from (S nb) r)
      else (nb, rstrip_blanks z) :: stored_from nb r
  end.

Lemma walk_stored : forall w raws nb card cmt, nb <= 2 ->
  SpecWire.wf_data w nb card cmt raws = true ->
  walk w (map cl raws) nb nb = stored_from nb (map (Cards.physical_line w) raws).
Proof.
  induction raws as [|l r IH]; intros nb card cmt Hnb Hwf; [reflexivity|].
  cbn [SpecWire.wf_data] in Hwf. apply andb_true_iff in Hwf. destruct Hwf as [Hok Hwf].
  destruct (W_line w l Hok) as [Eb Es]. cbv zeta in Hwf. cbn [map walk stored_from]. cbv zeta.
  rewrite Eb, Es. set (z := Cards.physical_line w l) in *.
  pose proof (C_classify z) as HC.
  destruct (Cards.classify z) as [|t|st ws am dc] eqn:Ecl.
  - rewrite HC. apply andb_true_iff in Hwf. destruct Hwf as [_ Hwf].
    destruct (Nat.leb 3 (S nb)) eqn:E3; [reflexivity|].
    apply Nat.leb_gt in E3. assert (Nat.ltb (S nb) 3 = true) as Elt by (apply Nat.ltb_lt; lia).
    rewrite Elt in *. apply (IH (S nb) false false); [lia|exact Hwf].
  - destruct HC as [Hb _]. rewrite Hb. f_equal. apply (IH nb card true Hnb Hwf).
  - destruct HC as [Hb _]. rewrite Hb. f_equal.
    apply andb_true_iff in Hwf. destruct Hwf as [_ Hwf].
    apply andb_true_iff in Hwf. destruct Hwf as [_ Hwf].
    apply andb_true_iff in Hwf. destruct Hwf as [_ Hwf].
    apply andb_true_iff in Hwf. destruct Hwf as [_ Hwf].
    apply (IH nb true cmt Hnb Hwf).
Qed.

Lemma stored_from_step : forall zs nb,
  stored_from nb zs
  = (tag nb (map rstrip_blanks (fst (Cards.until_blank zs)))
     ++ (if Nat.leb 3 (S nb) then [] else stored_from (S nb) (snd (Cards.until_blank zs))))%list.
Proof.
  induction zs as [|z r IH]; intros nb; [destruct (Nat.leb 3 (S nb)); reflexivity|].
  cbn [stored_from Cards.until_blank]. change Cards.all_blank with all_blank.
  destruct (all_blank z); [reflexivity|].
  rewrite IH. destruct (Cards.until_blank r) as [m t]. reflexivity.
Qed.

(* the three blocks of a list of physical lines *)
Definition chunk0 (zs : list string) := fst (Cards.until_blank zs).
Definition chunk1 (zs : list string) := fst (Cards.until_blank (snd (Cards.until_blank zs))).
Definition chunk2 (zs : list string) :=
  fst (Cards.until_blank (snd (Cards.until_blank (snd (Cards.until_blank zs))))).
Definition chunk (b : nat) (zs : list string) : list string :=
  match b with 0 => chunk0 zs | 1 => chunk1 zs | 2 => chunk2 zs | _ => [] end.

Lemma stored_three : forall zs,
  stored_from 0 zs = (tag 0 (map rstrip_blanks (chunk0 zs)) ++ tag 1 (map rstrip_blanks (chunk1 zs))
                      ++ tag 2 (map rstrip_blanks (chunk2 zs)))%list.
Proof.
  intros zs. rewrite (stored_from_step zs 0). cbn [Nat.leb].
  rewrite (stored_from_step _ 1). cbn [Nat.leb]. rewrite (stored_from_step _ 2). cbn [Nat.leb].
  rewrite app_nil_r. reflexivity.
Qed.

Lemma blocks_three : forall zs,
  blocks_denotation 0 (Cards.blocks 3 (map Cards.classify zs))
  = (lines_denotation 0 (chunk0 zs) ++ lines_denotation 1 (chunk1 zs) ++ lines_denotation 2 (chunk2 zs))%list.
Proof.
  intros zs. rewrite !blocks_denotation_step. cbn [Cards.blocks blocks_denotation]. rewrite app_nil_r. reflexivity.
Qed.

Lemma lines_denotation_rstrip : forall nb ls, lines_denotation nb (map rstrip_blanks ls) = lines_denotation nb ls.
Proof.
  intros. unfold lines_denotation. rewrite map_map.
  rewrite (map_ext (fun x => Cards.classify (rstrip_blanks x)) Cards.classify classify_rstrip). reflexivity.
Qed.

(* the stored lines of the inputs of block b *)
Definition block_inputs (b : nat) (ins : list input) : list input := filter (fun i => Nat.eqb (i_bt i) b) ins.

Lemma filter_tag : forall (A : Type) b k (l : list A),
  filter (fun x : nat * A => Nat.eqb (fst x) b) (tag k l) = if Nat.eqb k b then tag k l else [].
Proof.
  intros A b k l. induction l; [destruct (Nat.eqb k b); reflexivity|].
  cbn [tag map filter fst]. fold (tag k l). rewrite IHl. destruct (Nat.eqb k b); reflexivity.
Qed.

Lemma block_lines_tagged : forall b ins,
  flat_map i_lines (block_inputs b ins)
  = map snd (filter (fun x : nat * string => Nat.eqb (fst x) b) (tagged_lines ins)).
Proof.
  induction ins as [|i r IH]; [reflexivity|].
  unfold tagged_lines, block_inputs in *. cbn [filter flat_map]. rewrite filter_app, map_app, filter_tag.
  destruct (Nat.eqb (i_bt i) b); cbn [flat_map]; rewrite IH; [|reflexivity].
  unfold tag. rewrite map_map. cbn [snd]. rewrite map_id. reflexivity.
Qed.

Lemma block_lines_of_stored : forall b zs ins, b <= 2 ->
  tagged_lines ins = stored_from 0 zs ->
  flat_map i_lines (block_inputs b ins) = map rstrip_blanks (chunk b zs).
Proof.
  intros b zs ins Hb H. rewrite block_lines_tagged, H, stored_three.
  rewrite !filter_app, !filter_tag.
  assert (forall k l, map snd (tag k l) = (l : list string)) as Hs
    by (intros; unfold tag; rewrite map_map; cbn [snd]; apply map_id).
  destruct b as [|[|[|b]]]; try lia; cbn [Nat.eqb chunk]; rewrite ?app_nil_r; cbn [app]; apply Hs.
Qed.

(* ================================================================== C  objects, wrapper, writer: the models plugged together *)
(* what the parsers make of an input: a syntax tree (surface and data inputs), or the parts of the parameter loop
   of Cell.format_for_mcnp_input *)
Inductive obj :=
| OTree (n : Tree.node)
| OCell (parts : list Tree.cpart).

(* the text the object hands to the wrapper: MCNP_Object.format_for_mcnp_input / Cell.format_for_mcnp_input *)
Definition obj_text (o : obj) : string :=
  match o with
  | OTree n => fst (Tree.format n)
  | OCell parts => Tree.cell_text parts
  end.

(* the lines of a text that the wrapper does not skip (wrap_string_for_mcnp: "if line.strip()") *)
Definition text_lines (t : string) : list string := filter Wrap.keep_part (Tree.split_nl t).

(* MCNP_Object.wrap_string_for_mcnp(text, version, True) *)
Definition obj_lines (W : nat) (o : obj) : option (list string) :=
  match Wrap.wrap_lines W 5 true (Tree.split_nl (obj_text o)) with
  | Wrap.WOk ls => Some ls
  | _ => None
  end.

(* write_to_file: every line right-stripped and followed by a line end *)
Fixpoint file_bytes (ls : list string) : string :=
  match ls with
  | [] => ""
  | l :: r => rstrip l ++ lf ++ file_bytes r
  end.

Record pmodel := mkPM { pm_title : string; pm_cells : list obj; pm_surfaces : list obj; pm_data : list obj }.

Definition write_model (W : nat) (pm : pmodel) : option string :=
  match map_opt (obj_lines W) (pm_cells pm), map_opt (obj_lines W) (pm_surfaces pm),
        map_opt (obj_lines W) (pm_data pm) with
  | Some c, Some s, Some d =>
      Some (file_bytes (Tree.write_lines [] (Wrap.title_line W (pm_title pm)) c s d []))
  | _, _, _ => None
  end.

(* a line that passes the wrapper unchanged *)
Definition fits (W : nat) (l : string) : Prop :=
  all_plain l = true /\ all_blank l = false /\ String.length l <= W /\ rstrip_blanks l = l.

Lemma plain_is_plain_char : forall a, plain a = true -> WrapProofs.plain_char a = true.
Proof. intros [[] [] [] [] [] [] [] []]; vm_compute; intro H; try discriminate H; reflexivity. Qed.

Lemma plain_blank_pyspace : forall a, plain a = true -> Wrap.is_pyspace a = is_blank a.
Proof. intros [[] [] [] [] [] [] [] []]; vm_compute; intro H; try discriminate H; reflexivity. Qed.

Lemma all_plain_plain_text : forall s, all_plain s = true -> WrapProofs.plain_text s = true.
Proof.
  induction s; intros H; [reflexivity|]. cbn [all_plain] in H. apply andb_true_iff in H. destruct H as [Ha Hs].
  cbn [WrapProofs.plain_text]. rewrite (plain_is_plain_char _ Ha), IHs; auto.
Qed.

Lemma all_plain_pyspace : forall s, all_plain s = true -> Wrap.all_pyspace s = all_blank s.
Proof.
  induction s; intros H; [reflexivity|]. cbn [all_plain] in H. apply andb_true_iff in H. destruct H as [Ha Hs].
  cbn [Wrap.all_pyspace all_blank]. rewrite (plain_blank_pyspace _ Ha), IHs; auto.
Qed.

Lemma fits_keep : forall W l, fits W l -> Wrap.keep_part l = true.
Proof.
  intros W l (Hp & Hb & _). unfold Wrap.keep_part. rewrite (all_plain_pyspace _ Hp), Hb. reflexivity.
Qed.

Lemma wrap_lines_id : forall W lines,
  Forall (fun l => Wrap.keep_part l = true -> fits W l) lines ->
  Wrap.wrap_lines W 5 true lines = Wrap.WOk (filter Wrap.keep_part lines).
Proof.
  induction lines as [|l r IH]; intros H; [reflexivity|].
  inversion H as [|? ? Hl Hr]; subst. cbn [Wrap.wrap_lines filter].
  assert (Wrap.keep_part l = negb (Wrap.all_pyspace l)) as Ek by reflexivity. rewrite Ek in *.
  destruct (Wrap.all_pyspace l) eqn:E; cbn [negb] in *; [apply IH; exact Hr|].
  destruct (Hl eq_refl) as (Hp & Hb & Hlen & _).
  rewrite WrapProofs.wrap_line_identity.
  - rewrite (IH Hr). cbn [append filter]. rewrite Ek. reflexivity.
  - apply all_plain_plain_text. exact Hp.
  - intro; subst. discriminate.
  - cbn. exact Hlen.
Qed.

(* ---- reading the written bytes back by rule S1 *)
Fixpoint no_lf (s : string) : bool :=
  match s with EmptyString => true | String a r => andb (negb (Ascii.eqb a nl)) (no_lf r) end.

Lemma lines_of_line : forall x s, no_lf x = true -> Cards.lines_of (x ++ lf ++ s) = x :: Cards.lines_of s.
Proof.
  induction x; intros s H.
  - reflexivity.
  - cbn [no_lf] in H. apply andb_true_iff in H. destruct H as [Ha Hx]. apply negb_true_iff in Ha.
    cbn [append Cards.lines_of]. change Cards.LF with nl. rewrite Ha, (IHx s Hx). reflexivity.
Qed.

Lemma all_plain_no_lf : forall s, all_plain s = true -> no_lf s = true.
Proof.
  induction s; intros H; [reflexivity|]. cbn [all_plain] in H. apply andb_true_iff in H. destruct H as [Ha Hs].
  destruct (plain_facts _ Ha) as (_ & _ & _ & Hn & _). cbn [no_lf]. rewrite Hn, IHs; auto.
Qed.

(* a written line: plain, without trailing blanks (possibly empty) *)
Definition written_ok (W : nat) (l : string) : Prop :=
  all_plain l = true /\ String.length l <= W /\ rstrip_blanks l = l.

Lemma file_bytes_lines : forall W ls, Forall (written_ok W) ls -> Cards.lines_of (file_bytes ls) = ls.
Proof.
  induction ls as [|l r IH]; intros H; [reflexivity|].
  inversion H as [|? ? (Hp & _ & Hr) Hrest]; subst. cbn [file_bytes].
  rewrite (rstrip_plain _ Hp), Hr, lines_of_line by (apply all_plain_no_lf; exact Hp).
  rewrite (IH Hrest). reflexivity.
Qed.

Lemma plain_drop_cr : forall s, all_plain s = true -> Cards.drop_cr s = s.
Proof.
  induction s; intros H; [reflexivity|]. cbn [all_plain] in H. apply andb_true_iff in H. destruct H as [Ha Hs].
  destruct (plain_facts _ Ha) as (_ & _ & _ & _ & Hc). unfold Cards.drop_cr in *. cbn [Cards.string_filter].
  change cr with Cards.CR in Hc. rewrite Hc. cbn [negb]. rewrite IHs; auto.
Qed.

Lemma plain_high : forall s, all_plain s = true -> Cards.string_map Cards.high_to_blank s = s.
Proof.
  intros s H. rewrite A_clean. apply smap_clean_plain. exact H.
Qed.

Lemma physical_plain : forall w l, all_plain l = true -> String.length l <= w -> Cards.physical_line w l = l.
Proof.
  intros w l Hp Hl. unfold Cards.physical_line.
  rewrite (plain_drop_cr _ Hp), (plain_high _ Hp), A_expand_tabs, (spec_expand_plain _ 0 Hp), A_first_columns.
  apply takeS_all. exact Hl.
Qed.

Lemma physical_written : forall w ls, Forall (written_ok w) ls -> map (Cards.physical_line w) ls = ls.
Proof.
  induction ls as [|l r IH]; intros H; [reflexivity|].
  inversion H as [|? ? (Hp & Hl & _) Hrest]; subst. cbn [map]. rewrite (physical_plain w l Hp Hl), (IH Hrest). reflexivity.
Qed.

Lemma until_blank_app : forall a r, Forall (fun l => all_blank l = false) a ->
  Cards.until_blank (a ++ "" :: r) = (a, r).
Proof.
  induction a as [|x a IH]; intros r H; [reflexivity|].
  inversion H; subst. cbn [app Cards.until_blank]. change Cards.all_blank with all_blank.
  rewrite H2, (IH r H3). reflexivity.
Qed.

Lemma chunks_written : forall s0 s1 s2,
  Forall (fun l => all_blank l = false) s0 -> Forall (fun l => all_blank l = false) s1 ->
  Forall (fun l => all_blank l = false) s2 ->
  let body := (s0 ++ "" :: s1 ++ "" :: s2 ++ [""; ""])%list in
  chunk0 body = s0 /\ chunk1 body = s1 /\ chunk2 body = s2.
Proof.
  intros s0 s1 s2 H0 H1 H2 body. unfold chunk0, chunk1, chunk2, body.
  rewrite (until_blank_app s0 _ H0). cbn [fst snd].
  rewrite (until_blank_app s1 _ H1). cbn [fst snd].
  rewrite (until_blank_app s2 _ H2). cbn [fst snd]. auto.
Qed.

(* ================================================================== D  the stored lines pass the wrapper unchanged *)
Lemma rstrip_blanks_idem : forall z, rstrip_blanks (rstrip_blanks z) = rstrip_blanks z.
Proof.
  intros z. destruct (rstrip_blanks_decomp z) as [n H]. rewrite H at 2. symmetry. apply rstrip_blanks_app_blanks.
Qed.

Lemma length_takeS : forall n s, String.length (takeS n s) <= n.
Proof. induction n; destruct s; simpl; try lia. specialize (IHn s). lia. Qed.

Lemma length_rstrip_blanks : forall s, String.length (rstrip_blanks s) <= String.length s.
Proof.
  induction s; simpl; [lia|]. destruct (andb (is_blank a) (all_blank s)); simpl; lia.
Qed.

Lemma stored_line_fits : forall w raw, SpecWire.line_ok w raw = true ->
  all_blank (Cards.physical_line w raw) = false -> fits w (rstrip_blanks (Cards.physical_line w raw)).
Proof.
  intros w raw H Hb. unfold SpecWire.line_ok in H. cbv zeta in H. apply andb_true_iff in H. destruct H as [Hok _].
  destruct (lc_raw w raw Hok) as [Hpl _].
  assert (Cards.physical_line w raw = takeS w (phys raw)) as Ep.
  { unfold Cards.physical_line. fold (SpecWire.uncut_line raw). rewrite uncut_phys by auto. apply A_first_columns. }
  rewrite Ep in *. assert (all_plain (takeS w (phys raw)) = true) as Hz by (apply all_plain_takeS; exact Hpl).
  repeat split.
  - apply all_plain_rstrip_blanks. exact Hz.
  - apply all_blank_rstrip_blanks. exact Hb.
  - pose proof (length_rstrip_blanks (takeS w (phys raw))). pose proof (length_takeS w (phys raw)). lia.
  - apply rstrip_blanks_idem.
Qed.

Lemma stored_good : forall w raws nb card cmt, nb <= 2 ->
  SpecWire.wf_data w nb card cmt raws = true ->
  Forall (fun bx => fits w (snd bx)) (stored_from nb (map (Cards.physical_line w) raws)).
Proof.
  induction raws as [|l r IH]; intros nb card cmt Hnb Hwf; [constructor|].
  cbn [SpecWire.wf_data] in Hwf. apply andb_true_iff in Hwf. destruct Hwf as [Hok Hwf].
  cbv zeta in Hwf. cbn [map stored_from]. set (z := Cards.physical_line w l) in *.
  pose proof (C_classify z) as HC.
  destruct (Cards.classify z) as [|t|st ws am dc] eqn:Ecl.
  - rewrite HC. apply andb_true_iff in Hwf. destruct Hwf as [_ Hwf].
    destruct (Nat.leb 3 (S nb)) eqn:E3; [constructor|].
    apply Nat.leb_gt in E3. assert (Nat.ltb (S nb) 3 = true) as Elt by (apply Nat.ltb_lt; lia).
    rewrite Elt in *. apply (IH (S nb) false false); [lia|exact Hwf].
  - destruct HC as [Hb _]. rewrite Hb. constructor; [apply stored_line_fits; assumption|].
    apply (IH nb card true Hnb Hwf).
  - destruct HC as [Hb _]. rewrite Hb. constructor; [apply stored_line_fits; assumption|].
    apply andb_true_iff in Hwf. destruct Hwf as [_ Hwf].
    apply andb_true_iff in Hwf. destruct Hwf as [_ Hwf].
    apply andb_true_iff in Hwf. destruct Hwf as [_ Hwf].
    apply andb_true_iff in Hwf. destruct Hwf as [_ Hwf].
    apply (IH nb true cmt Hnb Hwf).
Qed.

Lemma Forall_tag : forall (A : Type) (Q : A -> Prop) k l,
  Forall (fun bx : nat * A => Q (snd bx)) (tag k l) -> Forall Q l.
Proof.
  induction l; intros H; [constructor|]. inversion H; subst. constructor; auto.
Qed.

Lemma chunk_fits : forall w r b, b <= 2 -> SpecWire.wf_data w 0 false false r = true ->
  Forall (fits w) (map rstrip_blanks (chunk b (map (Cards.physical_line w) r))).
Proof.
  intros w r b Hb H. pose proof (stored_good w r 0 false false ltac:(lia) H) as G.
  rewrite stored_three in G. apply Forall_app in G. destruct G as [G0 G]. apply Forall_app in G. destruct G as [G1 G2].
  destruct b as [|[|[|b]]]; try lia; cbn [chunk]; eapply Forall_tag; eassumption.
Qed.

Lemma Forall_flat_map_in : forall (A B : Type) (Q : B -> Prop) (g : A -> list B) L,
  Forall Q (flat_map g L) -> forall x, In x L -> Forall Q (g x).
Proof.
  induction L; intros H x Hx; [destruct Hx|]. cbn [flat_map] in H. apply Forall_app in H. destruct H as [H1 H2].
  destruct Hx as [<-|Hx]; auto.
Qed.

Lemma obj_lines_id : forall W o, Forall (fits W) (text_lines (obj_text o)) ->
  obj_lines W o = Some (text_lines (obj_text o)).
Proof.
  intros W o H. unfold obj_lines. rewrite wrap_lines_id; [reflexivity|].
  apply Forall_forall. intros l Hl Hk. rewrite Forall_forall in H. apply H.
  unfold text_lines. apply filter_In. auto.
Qed.

Lemma map_opt_all : forall (A B : Type) (f : A -> option B) (g : A -> B) L,
  (forall x, In x L -> f x = Some (g x)) -> map_opt f L = Some (map g L).
Proof.
  induction L; intros H; [reflexivity|]. cbn [map_opt map]. rewrite (H a) by (left; reflexivity).
  rewrite IHL by (intros; apply H; right; assumption). reflexivity.
Qed.

Lemma take_all : forall s n, String.length s <= n -> Wrap.take n s = s.
Proof.
  induction s; intros n H; destruct n; simpl in *; try reflexivity; try lia. rewrite IHs by lia. reflexivity.
Qed.

Lemma prefix_app_r : forall p a b, String.prefix p a = true -> String.prefix p (a ++ b) = true.
Proof.
  induction p as [|pc p IHp]; intros s b H; [apply prefix_nil|].
  destruct s as [|c s']; [discriminate|]. cbn [append]. rewrite prefix_cons in *.
  destruct (ascii_dec pc c); [apply IHp; exact H|discriminate].
Qed.

Lemma starts_message_rstrip : forall y, Cards.starts_message y = false -> Cards.starts_message (rstrip_blanks y) = false.
Proof.
  intros y H. destruct (Cards.starts_message (rstrip_blanks y)) eqn:E; [|reflexivity].
  destruct (rstrip_blanks_decomp y) as [n Hn]. rewrite Hn in H. unfold Cards.starts_message in *.
  change (Cards.string_map Cards.upcase) with upper in *. rewrite upper_app in H.
  rewrite (prefix_app_r _ _ _ E) in H. discriminate.
Qed.

(* ================================================================== E  the round trip *)
(* side conditions beyond wf_file, decidable on the bytes:
   no message block (what write_to_file makes of a message block is not covered here);
   the title, trailing blanks dropped, has at most w - 1 columns (Title.format_for_mcnp_input cuts the title to
   line_length - 1 characters: a title that reaches the last column loses its last character) *)
Definition no_message (w : nat) (bytes : string) : bool :=
  match Cards.lines_of bytes with
  | l0 :: _ => negb (Cards.starts_message (Cards.physical_line w l0))
  | [] => false
  end.

Definition title_fits (w : nat) (bytes : string) : bool :=
  match Cards.lines_of bytes with
  | l0 :: _ => Nat.leb (S (String.length (Cards.strip_right (Cards.physical_line w l0)))) w
  | [] => false
  end.

Lemma inputs_stored : forall w bytes, SpecWire.wf_file w bytes = true -> no_message w bytes = true ->
  exists l0 r,
    Cards.lines_of bytes = l0 :: r /\
    all_plain (Cards.physical_line w l0) = true /\ String.length (Cards.physical_line w l0) <= w /\
    Cards.starts_message (Cards.physical_line w l0) = false /\
    SpecWire.wf_data w 0 false false r = true /\
    f_title (read_front_matters (map clean_line (split_lines bytes))) = Some (rstrip_blanks (Cards.physical_line w l0)) /\
    tagged_lines (read_inputs w (split_lines bytes)) = stored_from 0 (map (Cards.physical_line w) r) /\
    Cards.read w bytes
    = Cards.mkProblem None (Some (Cards.physical_line w l0))
                      (Cards.blocks 3 (map Cards.classify (map (Cards.physical_line w) r))).
Proof.
  intros w bytes H Hm. pose proof (split_agrees w bytes H) as SA.
  unfold SpecWire.wf_file in H. apply andb_true_iff in H. destruct H as [Hlf H].
  unfold no_message in Hm. unfold read_inputs. unfold read_lines in SA.
  rewrite (B_split_lines bytes Hlf) in *. unfold Cards.read, Cards.physical_lines in *.
  destruct (Cards.lines_of bytes) as [|l0 r] eqn:El; [discriminate|].
  apply negb_true_iff in Hm. exists l0, r.
  cbn [SpecWire.wf_lines] in H. rewrite Hm in H. cbn [SpecWire.wf_title] in H.
  apply andb_true_iff in H. destruct H as [Hl0 Hd].
  destruct (B_front_line w l0 Hl0) as (Hpl & Hlen & Ep & Ec). cbv zeta in *.
  rewrite map_map in *. change (fun x => clean_line (add_lf x)) with cl in *.
  change (clean_line (add_lf l0)) with (cl l0) in Ec.
  cbn [map read_front_matters] in *. rewrite Ec in *. rewrite E_msg_prefix in *. rewrite <- Ep in *. rewrite Hm in *.
  cbn [f_title f_rest] in *.
  destruct (read_data_from w 0 (map cl r)) as [ins e] eqn:E. cbn [fst].
  assert (e = None) as He by (unfold montepy_view in SA; congruence). subst e.
  unfold read_data_from in E. pose proof (H_lines_conserved _ _ _ _ _ _ _ _ _ E) as T. cbn [tag map app] in T.
  repeat split; auto.
  - f_equal. unfold lf. apply rstrip_plain_nl. exact Hpl.
  - rewrite T. apply (walk_stored w r 0 false false); [lia|exact Hd].
  - unfold Cards.read_physical. rewrite Hm. reflexivity.
Qed.

Section Roundtrip.
  (* the parsers and object constructors: what they make of one input (block type, stored lines) *)
  Variable P : input -> obj.

  (* read_input: the reader, then P on every input; the problem keeps the inputs of each block in file order *)
  Definition read_model (w : nat) (bytes : string) : pmodel :=
    let fm := read_front_matters (map clean_line (split_lines bytes)) in
    let ins := read_inputs w (split_lines bytes) in
    mkPM (match f_title fm with Some t => t | None => "" end)
         (map P (block_inputs 0 ins)) (map P (block_inputs 1 ins)) (map P (block_inputs 2 ins)).

  (* Lossless, per block: the lines of the texts the objects of a block hand to the wrapper are, in order, the lines
     the reader stored for the inputs of that block (per block rather than per input: parse_input hands the trailing
     C comment lines of an input to the next input of its block) *)
  Definition Lossless_blocks (w : nat) (bytes : string) : Prop :=
    forall b, b <= 2 ->
      flat_map (fun i => text_lines (obj_text (P i))) (block_inputs b (read_inputs w (split_lines bytes)))
      = flat_map i_lines (block_inputs b (read_inputs w (split_lines bytes))).

  Theorem roundtrip : forall w bytes,
    SpecWire.wf_file w bytes = true -> no_message w bytes = true -> title_fits w bytes = true ->
    Lossless_blocks w bytes ->
    exists out, write_model w (read_model w bytes) = Some out /\
                denotation (Cards.read w out) = denotation (Cards.read w bytes).
  Proof.
    intros w bytes Hwf Hm Ht HL.
    destruct (inputs_stored w bytes Hwf Hm) as (l0 & r & El & Hpl & Hlen & Hnm & Hd & Eti & Etag & Eread).
    unfold title_fits in Ht. rewrite El in Ht. apply Nat.leb_le in Ht. rewrite A_strip_right in Ht.
    set (p0 := Cards.physical_line w l0) in *. set (zs := map (Cards.physical_line w) r) in *.
    set (ins := read_inputs w (split_lines bytes)) in *.
    set (SB := fun b => map rstrip_blanks (chunk b zs)).
    assert (forall b, b <= 2 -> flat_map i_lines (block_inputs b ins) = SB b) as HS
      by (intros b Hb; apply block_lines_of_stored; assumption).
    assert (forall b, b <= 2 -> Forall (fits w) (SB b)) as HF by (intros b Hb; apply chunk_fits; assumption).
    (* every object passes the wrapper unchanged *)
    assert (forall b, b <= 2 ->
              map_opt (obj_lines w) (map P (block_inputs b ins))
              = Some (map (fun i => text_lines (obj_text (P i))) (block_inputs b ins))) as HO.
    { intros b Hb. rewrite <- (map_map P (fun o => text_lines (obj_text o))).
      apply map_opt_all. intros o Ho. apply in_map_iff in Ho. destruct Ho as (i & <- & Hi).
      apply obj_lines_id.
      apply (Forall_flat_map_in _ _ (fits w) (fun i => text_lines (obj_text (P i))) (block_inputs b ins)); [|exact Hi].
      unfold Lossless_blocks in HL. fold ins in HL. rewrite (HL b Hb), (HS b Hb). apply HF. exact Hb. }
    assert (forall b, b <= 2 ->
              List.concat (map (fun i => text_lines (obj_text (P i))) (block_inputs b ins)) = SB b) as HC.
    { intros b Hb. rewrite <- flat_map_concat_map. unfold Lossless_blocks in HL. fold ins in HL.
      rewrite (HL b Hb). apply HS. exact Hb. }
    unfold write_model, read_model. fold ins. cbn [pm_title pm_cells pm_surfaces pm_data].
    rewrite (HO 0), (HO 1), (HO 2) by lia. eexists. split; [reflexivity|].
    rewrite Eti. unfold Tree.write_lines. rewrite (HC 0), (HC 1), (HC 2) by lia.
    unfold Wrap.title_line. rewrite take_all by lia.
    cbn [List.concat app].
    set (t := rstrip_blanks p0).
    set (L := (t :: SB 0 ++ "" :: SB 1 ++ "" :: SB 2 ++ [""; ""])%list).
    assert (written_ok w t) as Wt.
    { repeat split; [apply all_plain_rstrip_blanks; exact Hpl | | apply rstrip_blanks_idem].
      pose proof (length_rstrip_blanks p0). unfold t. lia. }
    assert (forall l, fits w l -> written_ok w l) as FW by (intros l (A1 & _ & A2 & A3); repeat split; assumption).
    assert (written_ok w "") as We by (unfold written_ok; cbn; repeat split; lia).
    assert (Forall (written_ok w) L) as WL.
    { assert (forall b, b <= 2 -> Forall (written_ok w) (SB b)) as HW
        by (intros b Hb; eapply Forall_impl; [exact FW | apply HF; exact Hb]).
      unfold L. constructor; [exact Wt|].
      apply Forall_app; split; [apply HW; lia|]. constructor; [exact We|].
      apply Forall_app; split; [apply HW; lia|]. constructor; [exact We|].
      apply Forall_app; split; [apply HW; lia|]. constructor; [exact We|]. constructor; [exact We|constructor]. }
    unfold Cards.read at 1, Cards.physical_lines.
    rewrite (file_bytes_lines w L WL), (physical_written w L WL).
    unfold L, t. unfold Cards.read_physical. rewrite (starts_message_rstrip p0 Hnm).
    rewrite Eread. unfold denotation. cbn [Cards.title Cards.cards option_map].
    f_equal.
    - rewrite !A_strip_right. rewrite rstrip_blanks_idem. reflexivity.
    - rewrite !blocks_three.
      assert (forall b, b <= 2 -> Forall (fun l => all_blank l = false) (SB b)) as NB.
      { intros b Hb. eapply Forall_impl; [|apply (HF b Hb)]. intros l (_ & A & _). exact A. }
      destruct (chunks_written (SB 0) (SB 1) (SB 2) (NB 0 ltac:(lia)) (NB 1 ltac:(lia)) (NB 2 ltac:(lia))) as (C0 & C1 & C2).
      cbv zeta in C0, C1, C2. rewrite C0, C1, C2. unfold SB. cbn [chunk].
      rewrite !lines_denotation_rstrip. reflexivity.
  Qed.

  (* Lossless per input, in the terms of the tree theorems: the parsed tree is unedited and as parsed, and flattens
     to the stored lines (C01_format_unchanged then gives the written text); for a cell the parameter loop gives
     back the stored lines *)
  Definition Lossless_input (i : input) : Prop :=
    match P i with
    | OTree n => Tree.unedited n = true /\ Tree.as_parsed n = true /\ text_lines (Tree.flatten n) = i_lines i
    | OCell parts => text_lines (Tree.cell_text parts) = i_lines i
    end.

  Lemma lossless_input_text : forall i, Lossless_input i -> text_lines (obj_text (P i)) = i_lines i.
  Proof.
    intros i H. unfold Lossless_input in H. destruct (P i) as [n|parts]; cbn [obj_text].
    - destruct H as (Hu & Ha & Hf). rewrite (TreeProofs.format_unchanged n Hu Ha). exact Hf.
    - exact H.
  Qed.

  Lemma flat_map_ext_in : forall (A B : Type) (f g : A -> list B) L,
    (forall x, In x L -> f x = g x) -> flat_map f L = flat_map g L.
  Proof.
    induction L; intros H; [reflexivity|]. cbn [flat_map]. rewrite (H a) by (left; reflexivity).
    rewrite IHL by (intros; apply H; right; assumption). reflexivity.
  Qed.

  Theorem roundtrip_inputs : forall w bytes,
    SpecWire.wf_file w bytes = true -> no_message w bytes = true -> title_fits w bytes = true ->
    (forall i, In i (read_inputs w (split_lines bytes)) -> Lossless_input i) ->
    exists out, write_model w (read_model w bytes) = Some out /\
                denotation (Cards.read w out) = denotation (Cards.read w bytes).
  Proof.
    intros w bytes Hwf Hm Ht HL. apply roundtrip; auto.
    intros b Hb. apply flat_map_ext_in. intros i Hi. apply lossless_input_text. apply HL.
    unfold block_inputs in Hi. apply filter_In in Hi. tauto.
  Qed.
End Roundtrip.

(* ================================================================== F  witnesses and an example *)
(* a title that reaches the last column loses its last character: the round trip of the model on a file whose title
   has exactly w columns (w = 10), with a lossless oracle *)
Definition line_tree (lines : list string) : Tree.node :=
  Tree.NC (map (fun l => Tree.NV l (Some [Tree.PS Tree.nl]) false true None None) lines).

(* an oracle that is lossless on every input: one value node per stored line; cells go through the parameter loop *)
Definition P_lines (i : input) : obj :=
  if Nat.eqb (i_bt i) 0 then OCell [Tree.CNode (line_tree (i_lines i))] else OTree (line_tree (i_lines i)).

Definition ex_rt : string :=
  nlq "a title  " ++
  nlq "c cells" ++
  nlq ("1 0" ++ String tab "-1 $ inner") ++
  nlq "     imp:n=1 &" ++
  nlq "  C in between" ++
  nlq "vol=2   " ++
  nlq "2 0 1" ++
  nlq "" ++
  nlq "1 so 1 $ sphere" ++
  nlq "c before the plane" ++
  nlq "2 PX 3" ++
  nlq "   " ++
  nlq "mode n" ++
  nlq "c the end" ++
  nlq "" ++
  nlq "text after the data block".

Definition ex_rt_out : string :=
  nlq "a title" ++
  nlq "c cells" ++
  nlq "1 0     -1 $ inner" ++
  nlq "     imp:n=1 &" ++
  nlq "  C in between" ++
  nlq "vol=2" ++
  nlq "2 0 1" ++
  nlq "" ++
  nlq "1 so 1 $ sphere" ++
  nlq "c before the plane" ++
  nlq "2 PX 3" ++
  nlq "" ++
  nlq "mode n" ++
  nlq "c the end" ++
  nlq "" ++
  nlq "".

Lemma ex_rt_facts :
  SpecWire.wf_file 80 ex_rt = true /\ no_message 80 ex_rt = true /\ title_fits 80 ex_rt = true /\
  forallb (fun i => match P_lines i with
                    | OTree n => andb (andb (Tree.unedited n) (Tree.as_parsed n))
                                      (if list_eq_dec string_dec (text_lines (Tree.flatten n)) (i_lines i) then true else false)
                    | OCell parts => if list_eq_dec string_dec (text_lines (Tree.cell_text parts)) (i_lines i) then true else false
                    end) (read_inputs 80 (split_lines ex_rt)) = true /\
  write_model 80 (read_model P_lines 80 ex_rt) = Some ex_rt_out /\
  denotation (Cards.read 80 ex_rt)
  = (Some "a title",
     [(0, ["1"; "0"; "-1"; "IMP:N"; "1"; "VOL"; "2"], ["cells"; "inner"; "in between"]);
      (0, ["2"; "0"; "1"], []);
      (1, ["1"; "SO"; "1"], ["sphere"]);
      (1, ["2"; "PX"; "3"], ["before the plane"]);
      (2, ["MODE"; "N"], ["the end"])]) /\
  denotation (Cards.read 80 ex_rt_out) = denotation (Cards.read 80 ex_rt).
Proof. repeat (apply conj; [vm_compute; reflexivity|]). vm_compute. reflexivity. Qed.

Definition ex_title10 : string := nlq "abcdefghij" ++ nlq "1 0 -1".

Lemma ex_title_last_column :
  SpecWire.wf_file 10 ex_title10 = true /\ no_message 10 ex_title10 = true /\ title_fits 10 ex_title10 = false /\
  write_model 10 (read_model P_lines 10 ex_title10) = Some (nlq "abcdefghi" ++ nlq "1 0 -1" ++ nlq "" ++ nlq "" ++ nlq "" ++ nlq "") /\
  fst (denotation (Cards.read 10 ex_title10)) = Some "abcdefghij".
Proof. repeat (apply conj; [vm_compute; reflexivity|]). vm_compute. reflexivity. Qed.

Lemma ex_rt_lossless : forall i, In i (read_inputs 80 (split_lines ex_rt)) -> Lossless_input P_lines i.
Proof.
  destruct ex_rt_facts as (_ & _ & _ & H & _). rewrite forallb_forall in H.
  intros i Hi. specialize (H i Hi). unfold Lossless_input. destruct (P_lines i) as [n|parts].
  - apply andb_true_iff in H. destruct H as [H1 H2]. apply andb_true_iff in H1. destruct H1 as [Hu Ha].
    destruct (list_eq_dec string_dec (text_lines (Tree.flatten n)) (i_lines i)); [auto|discriminate].
  - destruct (list_eq_dec string_dec (text_lines (Tree.cell_text parts)) (i_lines i)); [auto|discriminate].
Qed.

Lemma ex_title_changes :
  exists out, write_model 10 (read_model P_lines 10 ex_title10) = Some out /\
              fst (denotation (Cards.read 10 out)) <> fst (denotation (Cards.read 10 ex_title10)).
Proof.
  destruct ex_title_last_column as (_ & _ & _ & H & _). eexists. split; [exact H|].
  vm_compute. discriminate.
Qed.
