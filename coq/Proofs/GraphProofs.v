(* GraphProofs.v — proofs about the object-graph model Model/Graph.v (properties C16 and C04). *)
From Coq Require Import List ZArith Bool String Ascii Lia Arith.
From MPV Require Import Model.Wire Model.Graph.
Import ListNotations.
Open Scope list_scope.

(* ================================================================ definitions of the properties *)
(* cell.complements (isc = true) / cell.surfaces (isc = false) *)
Definition lst (isc : bool) (r : cellr) : list oid := if isc then c_comps r else c_surfs r.

(* the lists of a cell cover the dividers its geometry uses *)
Definition cell_ok (r : cellr) : Prop :=
  forall h, c_geom r = Some h -> forall isc, incl (leaves isc h) (lst isc r).
(* ... and contain nothing else *)
Definition cell_exact (r : cellr) : Prop :=
  forall h, c_geom r = Some h -> forall isc x, In x (lst isc r) <-> In x (leaves isc h).

Definition Links (g : st) : Prop := forall c, In c (coll g KCell) -> cell_ok (cellf g c).
Definition LinksAll (g : st) : Prop := forall c, cell_ok (cellf g c).
Definition LinksExact (g : st) : Prop := forall c, In c (coll g KCell) -> cell_exact (cellf g c).

(* every member of a problem collection is linked to the problem; the collections are linked *)
Definition Linked (g : st) : Prop :=
  (forall k o, In o (coll g k) -> plink g k o = true) /\ (forall k, clinked g k = true).

(* every member cell points at a universe that the problem holds *)
Definition UnivOK (g : st) : Prop :=
  forall c, In c (coll g KCell) ->
    exists u, c_univ (cellf g c) = Some u /\ In u (coll g KUniv) /\ plink g KUniv u = true.

(* what the parser produces: every divider of a member cell is still an integer *)
Fixpoint all_int (h : hs) : Prop :=
  match h with
  | Leaf _ (DInt _) _ => True
  | Leaf _ (DObj _) _ => False
  | Un l _ => all_int l
  | Bin _ l r _ => all_int l /\ all_int r
  end.
Definition Raw (g : st) : Prop :=
  NoDup (coll g KCell) /\
  forall c, In c (coll g KCell) -> forall h, c_geom (cellf g c) = Some h -> all_int h.

(* ================================================================ small facts *)
Lemma mem_o_In : forall o l, mem_o o l = true <-> In o l.
Proof.
  intros o l. unfold mem_o. rewrite existsb_exists. split.
  - intros [x [H1 H2]]. apply Nat.eqb_eq in H2. subst. exact H1.
  - intro H. exists o. split; [exact H | apply Nat.eqb_refl].
Qed.

Lemma mem_o_false : forall o l, mem_o o l = false <-> ~ In o l.
Proof.
  intros o l. rewrite <- mem_o_In. destruct (mem_o o l); split; intro H; try discriminate; auto.
  exfalso. apply H. reflexivity.
Qed.

Lemma mem_Z_In : forall n l, mem_Z n l = true <-> In n l.
Proof.
  intros n l. unfold mem_Z. rewrite existsb_exists. split.
  - intros [x [H1 H2]]. apply Z.eqb_eq in H2. subst. exact H1.
  - intro H. exists n. split; [exact H | apply Z.eqb_refl].
Qed.

Lemma opt_is_true : forall x o, opt_is x o = true <-> x = Some o.
Proof.
  intros [y|] o; simpl; split; intro H; try discriminate.
  - apply Nat.eqb_eq in H. subst. reflexivity.
  - inversion H. apply Nat.eqb_refl.
Qed.

Lemma nodup_o_In : forall l seen x, In x l -> In x seen \/ In x (nodup_o l seen).
Proof.
  induction l as [|y l IH]; intros seen x H; simpl; [destruct H|].
  destruct (mem_o y seen) eqn:M.
  - destruct H as [<-|H]; [left; apply mem_o_In; exact M | apply IH; exact H].
  - destruct H as [<-|H]; [right; left; reflexivity|].
    destruct (IH (y :: seen) x H) as [[<-|K]|K]; [right; left; reflexivity | left; exact K | right; right; exact K].
Qed.
Lemma remove_first_incl : forall o l, incl (remove_first o l) l.
Proof.
  intros o l. induction l as [|x l IH]; simpl; [apply incl_refl|].
  destruct (Nat.eqb x o); [apply incl_tl, incl_refl|]. intros y [<-|Hy]; [left; reflexivity | right; apply IH; exact Hy].
Qed.
Lemma remove_first_other : forall o l x, x <> o -> In x l -> In x (remove_first o l).
Proof.
  intros o l x N. induction l as [|y l IH]; simpl; [auto|]. intros [<-|H].
  - destruct (Nat.eqb y o) eqn:E; [apply Nat.eqb_eq in E; contradiction | left; reflexivity].
  - destruct (Nat.eqb y o); [exact H | right; apply IH; exact H].
Qed.

Lemma upd_same : forall A (f : oid -> A) o v, upd f o v o = v.
Proof. intros. unfold upd. rewrite Nat.eqb_refl. reflexivity. Qed.
Lemma upd_other : forall A (f : oid -> A) o v x, x <> o -> upd f o v x = f x.
Proof. intros. unfold upd. destruct (Nat.eqb x o) eqn:E; [apply Nat.eqb_eq in E; contradiction | reflexivity]. Qed.

Lemma cellf_set_cell_same : forall g c r, cellf (set_cell g c r) c = r.
Proof. intros. unfold set_cell. cbn [cellf]. apply upd_same. Qed.
Lemma cellf_set_cell_other : forall g c r x, x <> c -> cellf (set_cell g c r) x = cellf g x.
Proof. intros. unfold set_cell. cbn [cellf]. apply upd_other. assumption. Qed.

Lemma coll_set_cell : forall g c r k, coll (set_cell g c r) k = coll g k.
Proof. reflexivity. Qed.
Lemma plink_set_cell : forall g c r k o, plink (set_cell g c r) k o = plink g k o.
Proof. reflexivity. Qed.
Lemma clinked_set_cell : forall g c r k, clinked (set_cell g c r) k = clinked g k.
Proof. reflexivity. Qed.

Lemma leaves_set_cp : forall isc h c, leaves isc (set_cp h c) = leaves isc h.
Proof. intros isc [b d cp|l cp|o l r cp] c; reflexivity. Qed.

(* ================================================================ frames *)
(* geometry unchanged, lists only grow *)
Definition grows (g g' : st) : Prop :=
  forall c, c_geom (cellf g' c) = c_geom (cellf g c) /\
            forall isc, incl (lst isc (cellf g c)) (lst isc (cellf g' c)).
(* geometry and lists unchanged *)
Definition same_lk (g g' : st) : Prop :=
  forall c, c_geom (cellf g' c) = c_geom (cellf g c) /\
            forall isc, lst isc (cellf g' c) = lst isc (cellf g c).
(* membership, collection links, universes unchanged; object links only grow *)
Definition frameG (g g' : st) : Prop :=
  (forall k, coll g' k = coll g k) /\ (forall k, clinked g' k = clinked g k) /\
  (forall k o, plink g k o = true -> plink g' k o = true) /\
  (forall c, c_univ (cellf g' c) = c_univ (cellf g c)).

Lemma grows_refl : forall g, grows g g.
Proof. intros g c. split; [reflexivity | intros; apply incl_refl]. Qed.
Lemma grows_trans : forall a b c, grows a b -> grows b c -> grows a c.
Proof.
  intros a b c H1 H2 x. destruct (H1 x) as [E1 I1]. destruct (H2 x) as [E2 I2]. split.
  - congruence.
  - intro isc. eapply incl_tran; [apply I1 | apply I2].
Qed.
Lemma same_lk_grows : forall g g', same_lk g g' -> grows g g'.
Proof. intros g g' H c. destruct (H c) as [E L]. split; [exact E|]. intro isc. rewrite L. apply incl_refl. Qed.
Lemma same_lk_refl : forall g, same_lk g g.
Proof. intros g c. split; reflexivity. Qed.
Lemma same_lk_trans : forall a b c, same_lk a b -> same_lk b c -> same_lk a c.
Proof.
  intros a b c H1 H2 x. destruct (H1 x) as [E1 I1]. destruct (H2 x) as [E2 I2]. split.
  - congruence.
  - intro isc. rewrite I2. apply I1.
Qed.
Lemma frameG_refl : forall g, frameG g g.
Proof. intro g. repeat split; auto. Qed.
Lemma frameG_trans : forall a b c, frameG a b -> frameG b c -> frameG a c.
Proof.
  intros a b c (A1 & A2 & A3 & A4) (B1 & B2 & B3 & B4). repeat split; intros.
  - rewrite B1. apply A1.
  - rewrite B2. apply A2.
  - apply B3. apply A3. assumption.
  - rewrite B4. apply A4.
Qed.

Lemma cell_ok_grows : forall g g' c, grows g g' -> cell_ok (cellf g c) -> cell_ok (cellf g' c).
Proof.
  intros g g' c H K h Hh isc. destruct (H c) as [E I]. rewrite E in Hh.
  eapply incl_tran; [apply K; exact Hh | apply I].
Qed.
Lemma LinksAll_grows : forall g g', grows g g' -> LinksAll g -> LinksAll g'.
Proof. intros g g' H K c. eapply cell_ok_grows; eauto. Qed.

Lemma Linked_frameG : forall g g', frameG g g' -> Linked g -> Linked g'.
Proof.
  intros g g' (A1 & A2 & A3 & A4) [L1 L2]. split.
  - intros k o H. rewrite A1 in H. apply A3. apply L1. exact H.
  - intro k. rewrite A2. apply L2.
Qed.
Lemma UnivOK_frameG : forall g g', frameG g g' -> UnivOK g -> UnivOK g'.
Proof.
  intros g g' (A1 & A2 & A3 & A4) U c Hc. rewrite A1 in Hc. destruct (U c Hc) as [u [E [M P]]].
  exists u. rewrite A4, A1. auto.
Qed.

(* a cell record changed in fields other than geometry / lists *)
Definition same_rec (r r' : cellr) : Prop :=
  c_geom r' = c_geom r /\ c_surfs r' = c_surfs r /\ c_comps r' = c_comps r.

Lemma set_cell_same_lk : forall g c r, same_rec (cellf g c) r -> same_lk g (set_cell g c r).
Proof.
  intros g c r (E1 & E2 & E3) x. destruct (Nat.eq_dec x c) as [->|N].
  - rewrite cellf_set_cell_same. split; [exact E1|]. intros []; simpl; assumption.
  - rewrite cellf_set_cell_other by exact N. split; reflexivity.
Qed.
Lemma set_cell_frameG : forall g c r, c_univ r = c_univ (cellf g c) -> frameG g (set_cell g c r).
Proof.
  intros g c r E. unfold frameG. cbn [set_cell coll clinked plink]. repeat split; auto.
  intro x. destruct (Nat.eq_dec x c) as [->|N].
  - rewrite cellf_set_cell_same. exact E.
  - rewrite cellf_set_cell_other by exact N. reflexivity.
Qed.

(* link_obj *)
Lemma link_obj_same_lk : forall g k o, same_lk g (link_obj g k o).
Proof.
  intros g k o. unfold link_obj. destruct k; try (intro c; split; reflexivity).
  eapply same_lk_trans with (b := set_plink g KCell o); [intro c; split; reflexivity|].
  apply set_cell_same_lk. repeat split; reflexivity.
Qed.
Lemma link_obj_frame : forall g k o,
  (forall k', coll (link_obj g k o) k' = coll g k') /\
  (forall k', clinked (link_obj g k o) k' = clinked g k') /\
  (forall k' x, plink g k' x = true -> plink (link_obj g k o) k' x = true) /\
  plink (link_obj g k o) k o = true /\
  (forall c, c_univ (cellf (link_obj g k o) c) = c_univ (cellf g c)) /\
  (forall k' x, num (link_obj g k o) k' x = num g k' x).
Proof.
  intros g k o.
  assert (P : forall k' x, plink g k' x = true -> plink (set_plink g k o) k' x = true).
  { intros k' x H. unfold set_plink. cbn [plink]. unfold updk. destruct (kind_eqb k' k) eqn:Ek; [|exact H].
    unfold upd. destruct (Nat.eqb x o); [reflexivity|].
    destruct k', k; try discriminate; exact H. }
  assert (Q : plink (set_plink g k o) k o = true).
  { unfold set_plink. cbn [plink]. unfold updk. replace (kind_eqb k k) with true by (destruct k; reflexivity).
    apply upd_same. }
  unfold link_obj. destruct k; cbn [set_cell set_plink coll clinked plink num]; repeat split; auto;
    try (intros; apply P; assumption).
  intro c. destruct (Nat.eq_dec c o) as [->|N].
  - fold (set_plink g KCell o). rewrite cellf_set_cell_same. reflexivity.
  - fold (set_plink g KCell o). rewrite cellf_set_cell_other by exact N. reflexivity.
Qed.
Lemma link_obj_frameG : forall g k o, frameG g (link_obj g k o).
Proof. intros g k o. destruct (link_obj_frame g k o) as (A & B & C & D & E & F). repeat split; auto. Qed.

Lemma link_all_same_lk : forall l g k, same_lk g (link_all g k l).
Proof.
  induction l as [|o l IH]; intros g k; simpl; [apply same_lk_refl|].
  eapply same_lk_trans; [apply link_obj_same_lk | apply IH].
Qed.
Lemma link_all_spec : forall l g k,
  let g' := link_all g k l in
  (forall k', coll g' k' = coll g k') /\ (forall k', clinked g' k' = clinked g k') /\
  (forall k' x, plink g k' x = true -> plink g' k' x = true) /\
  (forall o, In o l -> plink g' k o = true) /\
  (forall c, c_univ (cellf g' c) = c_univ (cellf g c)).
Proof.
  induction l as [|o l IH]; intros g k; simpl.
  - repeat split; auto; intros o [].
  - destruct (link_obj_frame g k o) as (A & B & C & D & E & F).
    destruct (IH (link_obj g k o) k) as (A' & B' & C' & D' & E'). repeat split; intros.
    + rewrite A'. apply A.
    + rewrite B'. apply B.
    + apply C'. apply C. assumption.
    + destruct H as [<-|H]; [apply C'; exact D | apply D'; exact H].
    + rewrite E'. apply E.
Qed.

Lemma link_all_frameG : forall l g k, frameG g (link_all g k l).
Proof. intros l g k. destruct (link_all_spec l g k) as (A & B & C & D & E). repeat split; auto. Qed.

Lemma LinksAll_same_lk : forall g g', same_lk g g' -> LinksAll g -> LinksAll g'.
Proof. intros g g' H. apply LinksAll_grows. apply same_lk_grows. exact H. Qed.
Lemma link_if_same_lk : forall g k l, same_lk g (link_if g k l).
Proof. intros g k l. unfold link_if. destruct (clinked g k); [apply link_all_same_lk | apply same_lk_refl]. Qed.
Lemma cellf_only_same_lk : forall g g', (forall c, cellf g' c = cellf g c) -> same_lk g g'.
Proof. intros g g' H c. rewrite H. split; reflexivity. Qed.

(* ================================================================ adding dividers to a cell *)
Definition add_lst (isc : bool) (r : cellr) (o : oid) : cellr :=
  if isc then cr_lists r (c_surfs r) (c_comps r ++ [o]) else cr_lists r (c_surfs r ++ [o]) (c_comps r).

Lemma cell_add_eq : forall g c isc o,
  cell_add g c isc o =
  let r := cellf g c in
  let k := kind_of_isc isc in
  if mem_o o (lst isc r) then (g, true)
  else if mem_Z (num g k o) (map (num g k) (lst isc r)) then (g, false)
  else let g1 := set_cell g c (add_lst isc r o) in ((if c_lnk r then link_obj g1 k o else g1), true).
Proof. intros g c [] o; reflexivity. Qed.

Lemma cell_add_spec : forall g c isc o g' b,
  cell_add g c isc o = (g', b) ->
  grows g g' /\ frameG g g' /\ (b = true -> In o (lst isc (cellf g' c))).
Proof.
  intros g c isc o g' b H. rewrite cell_add_eq in H. cbv zeta in H.
  destruct (mem_o o (lst isc (cellf g c))) eqn:M.
  - inversion H; subst. split; [apply grows_refl|]. split; [apply frameG_refl|]. intros _.
    apply mem_o_In in M. exact M.
  - destruct (mem_Z _ _) eqn:Z.
    + inversion H; subst. split; [apply grows_refl|]. split; [apply frameG_refl|]. discriminate.
    + set (r := cellf g c) in *. set (r' := add_lst isc r o) in *.
      assert (G1 : grows g (set_cell g c r')).
      { intro x. destruct (Nat.eq_dec x c) as [->|N].
        - rewrite cellf_set_cell_same. fold r. split.
          + unfold r', add_lst. destruct isc; reflexivity.
          + intro i. unfold r', add_lst. destruct isc, i; simpl; try apply incl_refl; apply incl_appl; apply incl_refl.
        - rewrite cellf_set_cell_other by exact N. split; [reflexivity | intro; apply incl_refl]. }
      assert (F1 : frameG g (set_cell g c r')).
      { apply set_cell_frameG. fold r. unfold r', add_lst. destruct isc; reflexivity. }
      assert (I1 : In o (lst isc (cellf (set_cell g c r') c))).
      { rewrite cellf_set_cell_same. unfold r', add_lst. destruct isc; simpl; apply in_or_app; right; left; reflexivity. }
      destruct (c_lnk r).
      * inversion H; subst. split; [|split].
        -- eapply grows_trans; [exact G1 | apply same_lk_grows, link_obj_same_lk].
        -- eapply frameG_trans; [exact F1 | apply link_obj_frameG].
        -- intros _. destruct (link_obj_same_lk (set_cell g c r') (kind_of_isc isc) o c) as [_ L].
           rewrite L. exact I1.
      * inversion H; subst. split; [exact G1|]. split; [exact F1|]. intros _. exact I1.
Qed.

Lemma cell_new_spec : forall g c isc l nw,
  cell_new g c isc l = Some nw -> forall x, In x l -> In x (lst isc (cellf g c)) \/ In x nw.
Proof.
  intros g c isc l nw H x Hx. unfold cell_new in H.
  destruct (clash _ _ _ _); [discriminate|]. inversion H; subst. clear H.
  change (if isc then c_comps (cellf g c) else c_surfs (cellf g c)) with (lst isc (cellf g c)).
  destruct (mem_o x (lst isc (cellf g c))) eqn:M; [left; apply mem_o_In; exact M|]. right.
  match goal with |- In x (nodup_o ?f []) => destruct (nodup_o_In f [] x) as [[]|K]; [|exact K] end.
  apply filter_In. split; [exact Hx|]. rewrite M. reflexivity.
Qed.

Lemma cell_extend_spec : forall g c isc nw,
  let g' := cell_extend g c isc nw in
  grows g g' /\ frameG g g' /\ incl nw (lst isc (cellf g' c)).
Proof.
  intros g c isc nw. unfold cell_extend. set (r := cellf g c).
  set (r' := if isc then cr_lists r (c_surfs r) (c_comps r ++ nw) else cr_lists r (c_surfs r ++ nw) (c_comps r)).
  assert (G1 : grows g (set_cell g c r')).
  { intro x. destruct (Nat.eq_dec x c) as [->|N].
    - rewrite cellf_set_cell_same. fold r. split.
      + unfold r'. destruct isc; reflexivity.
      + intro i. unfold r'. destruct isc, i; simpl; try apply incl_refl; apply incl_appl; apply incl_refl.
    - rewrite cellf_set_cell_other by exact N. split; [reflexivity | intro; apply incl_refl]. }
  assert (F1 : frameG g (set_cell g c r')).
  { apply set_cell_frameG. fold r. unfold r'. destruct isc; reflexivity. }
  assert (I1 : incl nw (lst isc (cellf (set_cell g c r') c))).
  { rewrite cellf_set_cell_same. unfold r'. destruct isc; simpl; apply incl_appr; apply incl_refl. }
  cbv zeta. destruct (c_lnk r).
  - split; [|split].
    + eapply grows_trans; [exact G1 | apply same_lk_grows, link_all_same_lk].
    + eapply frameG_trans; [exact F1 | apply link_all_frameG].
    + destruct (link_all_same_lk nw (set_cell g c r') (kind_of_isc isc) c) as [_ L]. rewrite L. exact I1.
  - split; [exact G1|]. split; [exact F1 | exact I1].
Qed.

Lemma add_children_spec : forall g cp other g' b,
  add_children g cp other = (g', b) ->
  grows g g' /\ frameG g g' /\
  (b = true -> forall c, cp = Some c -> forall isc, incl (leaves isc other) (lst isc (cellf g' c))).
Proof.
  intros g cp other g' b H. unfold add_children in H. destruct cp as [c|].
  - destruct (cell_new g c true (leaves_cell other)) as [nc|] eqn:E1;
      [|inversion H; subst; split; [apply grows_refl|]; split; [apply frameG_refl | discriminate]].
    destruct (cell_new g c false (leaves_surf other)) as [ns|] eqn:E2;
      [|inversion H; subst; split; [apply grows_refl|]; split; [apply frameG_refl | discriminate]].
    inversion H; subst. clear H.
    destruct (cell_extend_spec g c true nc) as (G1 & F1 & I1).
    destruct (cell_extend_spec (cell_extend g c true nc) c false ns) as (G2 & F2 & I2).
    split; [eapply grows_trans; eauto|]. split; [eapply frameG_trans; eauto|].
    intros _ c' Hc isc x Hx. inversion Hc; subst c'. destruct isc.
    + destruct (G2 c) as [_ Inc2]. apply (Inc2 true).
      destruct (cell_new_spec _ _ _ _ _ E1 x Hx) as [K|K].
      * destruct (G1 c) as [_ Inc1]. apply (Inc1 true). exact K.
      * apply I1. exact K.
    + destruct (cell_new_spec _ _ _ _ _ E2 x Hx) as [K|K].
      * destruct (G2 c) as [_ Inc2]. apply (Inc2 false). destruct (G1 c) as [_ Inc1]. apply (Inc1 false). exact K.
      * apply I2. exact K.
  - inversion H; subst. split; [apply grows_refl|]. split; [apply frameG_refl|]. intros _ c Hc. discriminate.
Qed.

Lemma add_children_refused : forall g cp other g', add_children g cp other = (g', false) -> g' = g.
Proof.
  intros g cp other g' H. unfold add_children in H. destruct cp as [c|]; [|discriminate].
  destruct (cell_new g c true (leaves_cell other)); [|inversion H; reflexivity].
  destruct (cell_new g c false (leaves_surf other)); [discriminate | inversion H; reflexivity].
Qed.

(* nothing new: the cell cannot refuse *)
Lemma cell_new_present : forall g c isc l,
  incl l (lst isc (cellf g c)) -> cell_new g c isc l = Some [].
Proof.
  intros g c isc l H. unfold cell_new.
  change (if isc then c_comps (cellf g c) else c_surfs (cellf g c)) with (lst isc (cellf g c)).
  assert (E : filter (fun o => negb (mem_o o (lst isc (cellf g c)))) l = []).
  { induction l as [|x l IH]; [reflexivity|]. simpl.
    assert (M : mem_o x (lst isc (cellf g c)) = true) by (apply mem_o_In; apply H; left; reflexivity).
    rewrite M. simpl. apply IH. intros y Hy. apply H. right. exact Hy. }
  rewrite E. reflexivity.
Qed.

Lemma add_children_present : forall g c other,
  (forall isc, incl (leaves isc other) (lst isc (cellf g c))) ->
  snd (add_children g (Some c) other) = true.
Proof.
  intros g c other H. unfold add_children.
  rewrite (cell_new_present g c true (leaves_cell other) (H true)).
  rewrite (cell_new_present g c false (leaves_surf other) (H false)). reflexivity.
Qed.

(* ================================================================ geometry trees *)
Lemma node_at_leaves : forall p t sub isc, node_at t p = Some sub -> incl (leaves isc sub) (leaves isc t).
Proof.
  induction p as [|d p IH]; intros t sub isc H; simpl in H.
  - destruct t; inversion H; subst; apply incl_refl.
  - destruct t as [b dv cp|l cp|o l r cp]; destruct d; simpl in H; try discriminate.
    + simpl. eapply IH; eauto.
    + simpl. eapply incl_tran; [eapply IH; eauto | apply incl_appr, incl_refl].
    + simpl. eapply incl_tran; [eapply IH; eauto | apply incl_appl, incl_refl].
Qed.

Lemma replace_at_leaves : forall p t n isc,
  incl (leaves isc (replace_at t p n)) (leaves isc t ++ leaves isc n).
Proof.
  induction p as [|d p IH]; intros t n isc.
  - destruct t; simpl; apply incl_appr, incl_refl.
  - destruct t as [b dv cp|l cp|o l r cp]; destruct d; try (apply incl_appl, incl_refl).
    + simpl. apply IH.
    + simpl. intros x Hx. apply in_app_or in Hx. destruct Hx as [Hx|Hx].
      * apply in_or_app; left; apply in_or_app; left; assumption.
      * apply IH in Hx. apply in_app_or in Hx. destruct Hx; apply in_or_app; [left; apply in_or_app; right|right]; assumption.
    + simpl. intros x Hx. apply in_app_or in Hx. destruct Hx as [Hx|Hx].
      * apply IH in Hx. apply in_app_or in Hx. destruct Hx; apply in_or_app; [left; apply in_or_app; left|right]; assumption.
      * apply in_or_app; left; apply in_or_app; right; assumption.
Qed.

(* ---- which cell the nodes of a tree point at *)
(* every node of the tree points at cell c *)
Fixpoint owned (c : oid) (h : hs) : Prop :=
  match h with
  | Leaf _ _ cp => cp = Some c
  | Un l cp => cp = Some c /\ owned c l
  | Bin _ l r cp => cp = Some c /\ owned c l /\ owned c r
  end.
(* a tree built from pieces of cell c's geometry and from fresh nodes *)
Fixpoint wm (c : oid) (h : hs) : Prop :=
  match h with
  | Leaf _ _ cp => cp = None \/ cp = Some c
  | Un l cp => (cp = Some c /\ owned c l) \/ (cp = None /\ wm c l)
  | Bin _ l r cp => (cp = Some c /\ owned c l /\ owned c r) \/ (cp = None /\ wm c l /\ wm c r)
  end.
Definition kids_wm (c : oid) (h : hs) : Prop :=
  match h with
  | Leaf _ _ _ => True
  | Un l _ => wm c l
  | Bin _ l r _ => wm c l /\ wm c r
  end.
(* no node of the tree belongs to a cell (an expression of fresh leaves) *)
Fixpoint orphan (h : hs) : Prop :=
  match h with
  | Leaf _ _ cp => cp = None
  | Un l cp => cp = None /\ orphan l
  | Bin _ l r cp => cp = None /\ orphan l /\ orphan r
  end.
(* every node of every cell's geometry points at that cell *)
Definition Owned (g : st) : Prop := forall c h, c_geom (cellf g c) = Some h -> owned c h.

Lemma owned_cp : forall c h, owned c h -> get_cp h = Some c.
Proof. intros c [b d cp|l cp|o l r cp]; simpl; intro H; [exact H | apply H | apply H]. Qed.
Lemma owned_wm : forall c h, owned c h -> wm c h.
Proof.
  intros c h. induction h as [b d cp|l IHl cp|o l IHl r IHr cp]; simpl; intro H.
  - right. exact H.
  - left. exact H.
  - left. exact H.
Qed.
Lemma orphan_wm : forall c h, orphan h -> wm c h.
Proof.
  intros c h. induction h as [b d cp|l IHl cp|o l IHl r IHr cp]; simpl; intro H.
  - left. exact H.
  - right. destruct H. auto.
  - right. destruct H as (A & B & C). auto.
Qed.
Lemma wm_kids : forall c h, wm c h -> kids_wm c h.
Proof.
  intros c [b d cp|l cp|o l r cp]; simpl; intro H; [exact I| |].
  - destruct H as [[_ H]|[_ H]]; [apply owned_wm; exact H | exact H].
  - destruct H as [(_ & A & B)|(_ & A & B)]; [split; apply owned_wm; assumption | auto].
Qed.

Lemma link_false_owned : forall c h, wm c h -> owned c (link_tree false c h).
Proof.
  intros c h. induction h as [b d cp|l IHl cp|o l IHl r IHr cp]; simpl; intro H.
  - destruct H as [-> | ->]; simpl; reflexivity.
  - destruct H as [[-> H]|[-> H]]; simpl; [split; [reflexivity | exact H] | split; [reflexivity | apply IHl; exact H]].
  - destruct H as [(-> & A & B)|(-> & A & B)]; simpl; [auto | split; [reflexivity | split; [apply IHl | apply IHr]; assumption]].
Qed.
Lemma link_true_owned : forall c h, kids_wm c h -> owned c (link_tree true c h).
Proof.
  intros c [b d cp|l cp|o l r cp]; simpl; intro H.
  - reflexivity.
  - split; [reflexivity | apply link_false_owned; exact H].
  - destruct H. split; [reflexivity | split; apply link_false_owned; assumption].
Qed.
Lemma leaves_link_tree : forall isc c h f, leaves isc (link_tree f c h) = leaves isc h.
Proof.
  intros isc c h. induction h as [b d cp|l IHl cp|o l IHl r IHr cp]; intro f; simpl.
  - destruct (orb f _); reflexivity.
  - destruct (orb f _); simpl; [apply IHl | reflexivity].
  - destruct (orb f _); simpl; [rewrite IHl, IHr; reflexivity | reflexivity].
Qed.

Lemma node_at_owned : forall p c t sub, owned c t -> node_at t p = Some sub -> owned c sub.
Proof.
  induction p as [|d p IH]; intros c t sub O H.
  - destruct t; inversion H; subst; exact O.
  - destruct t as [b dv cp|l cp|o l r cp]; destruct d; simpl in H; try discriminate; simpl in O.
    + eapply IH; [apply O | exact H].
    + destruct O as (_ & _ & Or). eapply IH; [exact Or | exact H].
    + destruct O as (_ & Ol & _). eapply IH; [exact Ol | exact H].
Qed.
Lemma replace_at_owned : forall p c t n, owned c t -> owned c n -> owned c (replace_at t p n).
Proof.
  induction p as [|d p IH]; intros c t n O N.
  - destruct t; exact N.
  - destruct t as [b dv cp|l cp|o l r cp]; destruct d; simpl; try exact O; simpl in O.
    + split; [apply O | apply IH; [apply O | exact N]].
    + destruct O as (A & B & C). split; [exact A|]. split; [exact B | apply IH; assumption].
    + destruct O as (A & B & C). split; [exact A|]. split; [apply IH; assumption | exact C].
Qed.

Lemma eval_ex_wm : forall c old e t, (forall h, old = Some h -> owned c h) -> eval_ex old e = Some t -> wm c t.
Proof.
  intros c old e. induction e as [| s | x | a IHa b IHb | a IHa b IHb | a IHa]; intros t O H; simpl in H.
  - apply owned_wm. apply O. exact H.
  - inversion H; subst. simpl. left. reflexivity.
  - inversion H; subst. simpl. right. split; [reflexivity | left; reflexivity].
  - destruct (eval_ex old a) as [x|]; [|discriminate]. destruct (eval_ex old b) as [y|]; [|discriminate].
    inversion H; subst. simpl. right. split; [reflexivity|]. split; [apply IHa | apply IHb]; auto.
  - destruct (eval_ex old a) as [x|]; [|discriminate]. destruct (eval_ex old b) as [y|]; [|discriminate].
    inversion H; subst. simpl. right. split; [reflexivity|]. split; [apply IHa | apply IHb]; auto.
  - destruct (eval_ex old a) as [x|]; [|discriminate]. inversion H; subst. simpl. right. split; [reflexivity | apply IHa; auto].
Qed.
Lemma fresh_ex_wm : forall c e t, fresh_ex e = Some t -> wm c t.
Proof.
  intros c e t H. unfold fresh_ex in H. destruct (Nat.eqb (uses_old e) 0); [|discriminate].
  eapply eval_ex_wm; [|exact H]. intros h Hh. discriminate.
Qed.

(* ================================================================ linking a tree / a side to a cell *)
Lemma link_geometry_spec : forall g c t g' t' b,
  link_geometry g c t = (g', t', b) ->
  grows g g' /\ frameG g g' /\ (forall isc, leaves isc t' = leaves isc t) /\
  (b = true -> (forall isc, incl (leaves isc t) (lst isc (cellf g' c))) /\ t' = link_tree true c t) /\
  (b = false -> g' = g /\ t' = t).
Proof.
  intros g c t g' t' b H. unfold link_geometry in H.
  destruct (add_children g (Some c) t) as [g1 ok] eqn:E. inversion H; subst. pose proof E as E0.
  apply add_children_spec in E. destruct E as (G & F & I). split; [exact G|]. split; [exact F|]. split; [|split].
  - intro isc. destruct b; [apply leaves_link_tree | reflexivity].
  - intros Hb. subst b. split; [intro isc; apply (I eq_refl c eq_refl) | reflexivity].
  - intros Hb. subst b. split; [apply (add_children_refused _ _ _ _ E0) | reflexivity].
Qed.

Lemma link_side_spec : forall g cp side g' side' ok,
  link_side g cp side = (g', side', ok) ->
  grows g g' /\ frameG g g' /\ (forall isc, leaves isc side' = leaves isc side) /\
  (ok = true -> forall c, cp = Some c -> forall isc, incl (leaves isc side) (lst isc (cellf g' c))) /\
  (ok = false -> g' = g /\ side' = side) /\
  (ok = true -> forall c, cp = Some c -> kids_wm c side -> (get_cp side = None \/ owned c side) -> owned c side').
Proof.
  intros g cp side g' side' ok H. unfold link_side in H. destruct cp as [c|].
  - destruct (add_children g (Some c) side) as [g1 b] eqn:E. pose proof E as E0.
    apply add_children_spec in E. destruct E as (G & F & I). destruct b; inversion H; subst; clear H.
    + split; [exact G|]. split; [exact F|]. split; [|split; [|split]].
      * intro isc. destruct (get_cp side); [reflexivity | apply leaves_link_tree].
      * intros _ c' Hc isc. inversion Hc; subst c'. apply (I eq_refl c eq_refl).
      * discriminate.
      * intros _ c' Hc K O. inversion Hc; subst c'. destruct (get_cp side) eqn:Eg.
        -- destruct O as [O|O]; [discriminate | exact O].
        -- apply link_true_owned. exact K.
    + apply add_children_refused in E0. subst g'. split; [apply grows_refl|]. split; [apply frameG_refl|].
      split; [reflexivity|]. split; [discriminate|]. split; [auto | discriminate].
  - inversion H; subst. split; [apply grows_refl|]. split; [apply frameG_refl|]. split; [reflexivity|].
    split; [intros _ c Hc; discriminate|]. split; [discriminate | intros _ c Hc; discriminate].
Qed.

(* ================================================================ the augmented operators *)
Definition is_leaf (h : hs) : bool := match h with Leaf _ _ _ => true | _ => false end.

Lemma iop_bin_eq : forall g o o' l r cp other, is_leaf r = false ->
  iop g o (Bin o' l r cp) other =
  (let '(g1, r', inner_self, ok) := iop g o r other in
   let r_now := if inner_self then r' else r in
   if ok then
     match link_side g1 cp r' with
     | (g2, side, true) =>
         match add_children g2 cp other with
         | (g3, true) => (g3, Bin o' l side cp, true, true)
         | (g3, false) => (g3, Bin o' l side cp, true, false)
         end
     | (g2, _, false) => (g2, Bin o' l r_now cp, true, false)
     end
   else (g1, Bin o' l r_now cp, true, false)).
Proof. intros g o o' l r cp other H. destruct r; [discriminate | reflexivity | reflexivity]. Qed.

Lemma iop_leaf_eq : forall g o o' l rb rd rcp cp other,
  iop g o (Bin o' l (Leaf rb rd rcp) cp) other =
  match link_side g cp (Bin o (Leaf rb rd rcp) other None) with
  | (g1, side, true) => (g1, Bin o' l side cp, true, true)
  | (g1, _, false) => (g1, Bin o' l (Leaf rb rd rcp) cp, true, false)
  end.
Proof. reflexivity. Qed.

Lemma link_side_present : forall g c side,
  (forall isc, incl (leaves isc side) (lst isc (cellf g c))) -> snd (link_side g (Some c) side) = true.
Proof.
  intros g c side H. unfold link_side. pose proof (add_children_present g c side H) as P.
  destruct (add_children g (Some c) side) as [g1 b]. simpl in P. subst b. reflexivity.
Qed.

Lemma iop_spec : forall self g o other g' t' is_self ok c,
  owned c self -> wm c other ->
  (forall isc, incl (leaves isc self) (lst isc (cellf g c))) ->
  iop g o self other = (g', t', is_self, ok) ->
  grows g g' /\ frameG g g' /\
  (forall isc, incl (leaves isc t') (leaves isc self ++ leaves isc other)) /\
  (is_self = false -> g' = g /\ ok = true /\ get_cp t' = None /\ kids_wm c t' /\
                      forall isc, incl (leaves isc other) (leaves isc t')) /\
  (is_self = true -> ok = true ->
     owned c t' /\ forall isc, incl (leaves isc other) (lst isc (cellf g' c))) /\
  (is_self = true -> ok = false -> g' = g /\ t' = self).
Proof.
  intros self. induction self as [b d cp|l IHl cp|o' l IHl r IHr cp]; intros g o other g' t' is_self ok c O W L H.
  - simpl in H. inversion H; subst. split; [apply grows_refl|]. split; [apply frameG_refl|].
    split; [intro isc; simpl; apply incl_refl|]. split; [|split; discriminate].
    intros _. split; [reflexivity|]. split; [reflexivity|]. split; [reflexivity|]. split.
    + simpl. split; [right; exact O | exact W].
    + intro isc. simpl. apply incl_appr, incl_refl.
  - simpl in H. inversion H; subst. split; [apply grows_refl|]. split; [apply frameG_refl|].
    split; [intro isc; simpl; apply incl_refl|]. split; [|split; discriminate].
    intros _. split; [reflexivity|]. split; [reflexivity|]. split; [reflexivity|]. split.
    + simpl. split; [right; split; [reflexivity | apply owned_wm; apply O] | exact W].
    + intro isc. simpl. apply incl_appr, incl_refl.
  - simpl in O. destruct O as (Ocp & Ol & Or). subst cp.
    assert (Lr : forall isc, incl (leaves isc r) (lst isc (cellf g c))).
    { intro isc. eapply incl_tran; [|apply (L isc)]. simpl. apply incl_appr, incl_refl. }
    destruct (is_leaf r) eqn:Elf.
    + (* right side is a leaf *)
      destruct r as [rb rd rcp|rl rcp|ro rl rr rcp]; try discriminate. rewrite iop_leaf_eq in H.
      destruct (link_side g (Some c) (Bin o (Leaf rb rd rcp) other None)) as [[g1 side] ok1] eqn:E.
      apply link_side_spec in E. destruct E as (G & F & Lv & I & R & OW).
      destruct ok1; inversion H; subst; clear H.
      * split; [exact G|]. split; [exact F|]. split; [|split; [discriminate|split; [|discriminate]]].
        -- intro isc. simpl. rewrite Lv. simpl. rewrite <- app_assoc. apply incl_refl.
        -- intros _ _. split.
           ++ simpl. split; [reflexivity|]. split; [exact Ol|]. apply (OW eq_refl c eq_refl).
              ** cbn [kids_wm]. split; [apply (owned_wm c (Leaf rb rd rcp)); exact Or | exact W].
              ** left. reflexivity.
           ++ intro isc. eapply incl_tran; [|apply (I eq_refl c eq_refl isc)]. simpl. apply incl_appr, incl_refl.
      * destruct (R eq_refl) as [-> _]. split; [apply grows_refl|]. split; [apply frameG_refl|].
        split; [intro isc; apply incl_appl, incl_refl|]. split; [discriminate|]. split; [discriminate | auto].
    + (* right side is a tree *)
      rewrite iop_bin_eq in H by exact Elf.
      destruct (iop g o r other) as [[[g1 r'] inner_self] ok0] eqn:E0.
      destruct (IHr _ _ _ _ _ _ _ c Or W Lr E0) as (G0 & F0 & Lv0 & NS & SS & SF).
      cbv zeta in H. destruct ok0.
      * destruct (link_side g1 (Some c) r') as [[g2 side] ok2] eqn:E2. pose proof E2 as E2'.
        apply link_side_spec in E2. destruct E2 as (G2 & F2 & Lv2 & I2 & R2 & OW2).
        destruct ok2.
        -- destruct (add_children g2 (Some c) other) as [g3 ok3] eqn:E3.
           assert (P3 : ok3 = true).
           { pose proof (add_children_present g2 c other) as P. rewrite E3 in P. apply P. intro isc.
             destruct inner_self.
             - destruct (SS eq_refl eq_refl) as [_ K]. destruct (G2 c) as [_ Inc].
               eapply incl_tran; [apply K | apply Inc].
             - destruct (NS eq_refl) as (_ & _ & _ & _ & K).
               eapply incl_tran; [apply K|]. apply (I2 eq_refl c eq_refl). }
           subst ok3. apply add_children_spec in E3. destruct E3 as (G3 & F3 & I3).
           inversion H; subst; clear H.
           split; [eapply grows_trans; [exact G0|]; eapply grows_trans; eauto|].
           split; [eapply frameG_trans; [exact F0|]; eapply frameG_trans; eauto|].
           split; [|split; [discriminate|split; [|discriminate]]].
           ++ intro isc. simpl. rewrite Lv2. rewrite <- app_assoc. apply incl_app; [apply incl_appl, incl_refl|].
              apply incl_appr. apply Lv0.
           ++ intros _ _. split; [|intro isc; apply (I3 eq_refl c eq_refl)].
              simpl. split; [reflexivity|]. split; [exact Ol|]. apply (OW2 eq_refl c eq_refl).
              ** destruct inner_self.
                 --- destruct (SS eq_refl eq_refl) as [K _]. apply wm_kids. apply owned_wm. exact K.
                 --- destruct (NS eq_refl) as (_ & _ & _ & K & _). exact K.
              ** destruct inner_self.
                 --- destruct (SS eq_refl eq_refl) as [K _]. right. exact K.
                 --- destruct (NS eq_refl) as (_ & _ & K & _). left. exact K.
        -- (* the setter of this level refused *)
           destruct (R2 eq_refl) as [-> ->]. inversion H; subst; clear H.
           destruct inner_self.
           ++ exfalso. destruct (SS eq_refl eq_refl) as [_ K].
              assert (P : snd (link_side g' (Some c) r') = true).
              { apply link_side_present. intro isc. eapply incl_tran; [apply Lv0|]. apply incl_app.
                - destruct (G0 c) as [_ Inc]. eapply incl_tran; [apply Lr | apply Inc].
                - apply K. }
              rewrite E2' in P. discriminate.
           ++ destruct (NS eq_refl) as (-> & _). split; [apply grows_refl|]. split; [apply frameG_refl|].
              split; [intro isc; apply incl_appl, incl_refl|]. split; [discriminate|]. split; [discriminate | auto].
      * inversion H; subst; clear H. destruct inner_self.
        -- destruct (SF eq_refl eq_refl) as [-> ->]. split; [apply grows_refl|]. split; [apply frameG_refl|].
           split; [intro isc; apply incl_appl, incl_refl|]. split; [discriminate|]. split; [discriminate | auto].
        -- destruct (NS eq_refl) as (_ & K & _). discriminate.
Qed.

(* ================================================================ reading: update_pointers *)
Definition same_core (g g' : st) : Prop :=
  (forall c, cellf g' c = cellf g c) /\ (forall k, coll g' k = coll g k) /\
  (forall k o, plink g' k o = plink g k o) /\ (forall k, clinked g' k = clinked g k).
Lemma same_core_refl : forall g, same_core g g.
Proof. intro g. repeat split; reflexivity. Qed.
Lemma same_core_trans : forall a b c, same_core a b -> same_core b c -> same_core a c.
Proof.
  intros a b c (A1 & A2 & A3 & A4) (B1 & B2 & B3 & B4). repeat split; intros; congruence.
Qed.
Lemma same_core_lk : forall g g', same_core g g' -> same_lk g g'.
Proof. intros g g' (A & _). apply cellf_only_same_lk. exact A. Qed.
Lemma same_core_frameG : forall g g', same_core g g' -> frameG g g'.
Proof.
  intros g g' (A1 & A2 & A3 & A4). repeat split; auto.
  - intros k o H. rewrite A3. exact H.
  - intro c. rewrite A1. reflexivity.
Qed.

(* both frames at once *)
Definition quiet (g g' : st) : Prop := same_lk g g' /\ frameG g g'.
Lemma quiet_refl : forall g, quiet g g.
Proof. intro g. split; [apply same_lk_refl | apply frameG_refl]. Qed.
Lemma quiet_trans : forall a b c, quiet a b -> quiet b c -> quiet a c.
Proof. intros a b c [A1 A2] [B1 B2]. split; [eapply same_lk_trans; eauto | eapply frameG_trans; eauto]. Qed.
Lemma same_core_quiet : forall g g', same_core g g' -> quiet g g'.
Proof. intros g g' H. split; [apply same_core_lk | apply same_core_frameG]; exact H. Qed.
Lemma set_cell_quiet : forall g c r,
  same_rec (cellf g c) r -> c_univ r = c_univ (cellf g c) -> quiet g (set_cell g c r).
Proof. intros g c r H1 H2. split; [apply set_cell_same_lk; exact H1 | apply set_cell_frameG; exact H2]. Qed.

Lemma cell_exact_same_lk : forall g g' c, same_lk g g' -> cell_exact (cellf g c) -> cell_exact (cellf g' c).
Proof.
  intros g g' c H K h Hh isc x. destruct (H c) as [E L]. rewrite E in Hh. rewrite L. apply K. exact Hh.
Qed.
Lemma cell_exact_ok : forall r, cell_exact r -> cell_ok r.
Proof. intros r K h Hh isc x Hx. apply (K h Hh isc x). exact Hx. Qed.

Lemma list_add_spec : forall numf l o l',
  list_add numf l o = Some l' -> forall x, In x l' <-> In x l \/ x = o.
Proof.
  intros numf l o l' H x. unfold list_add in H. destruct (mem_o o l) eqn:M.
  - inversion H; subst. apply mem_o_In in M. split; [auto | intros [K| ->]; assumption].
  - destruct (mem_Z _ _); [discriminate|]. inversion H; subst. rewrite in_app_iff. simpl.
    split; [intros [K|[K|[]]]; auto | intros [K|K]; auto].
Qed.

Lemma hs_up_spec : forall g c h ls lc h' ls' lc',
  all_int h -> hs_up g c h ls lc = (h', ls', lc', ROk) ->
  (forall x, In x ls' <-> In x ls \/ In x (leaves false h')) /\
  (forall x, In x lc' <-> In x lc \/ In x (leaves true h')).
Proof.
  intros g c h. induction h as [isc d cp|l IHl cp|o l IHl r IHr cp]; intros ls lc h' ls' lc' A H; simpl in H.
  - destruct d as [z|ob]; [|destruct A].
    destruct (lookup g (kind_of_isc isc) z) as [ob|]; [|discriminate].
    destruct (list_add _ _ ob) as [l'|] eqn:El; [|discriminate].
    inversion H; subst. pose proof (list_add_spec _ _ _ _ El) as S. destruct isc; simpl; split; intro x.
    + tauto.
    + rewrite S. intuition.
    + rewrite S. intuition.
    + tauto.
  - destruct (hs_up g c l ls lc) as [[[l' ls1] lc1] r1] eqn:E. inversion H; subst. simpl.
    apply (IHl _ _ _ _ _ A E).
  - destruct A as [Al Ar].
    destruct (hs_up g c l ls lc) as [[[l' ls1] lc1] r1] eqn:E1. destruct r1; [|discriminate].
    destruct (hs_up g c r ls1 lc1) as [[[r' ls2] lc2] r2] eqn:E2. inversion H; subst.
    destruct (IHl _ _ _ _ _ Al E1) as [S1 C1]. destruct (IHr _ _ _ _ _ Ar E2) as [S2 C2]. simpl. split; intro x.
    + rewrite S2, S1, in_app_iff. tauto.
    + rewrite C2, C1, in_app_iff. tauto.
Qed.

Lemma hs_up_owned : forall g c h ls lc h' ls' lc',
  hs_up g c h ls lc = (h', ls', lc', ROk) -> owned c h'.
Proof.
  intros g c h. induction h as [isc d cp|l IHl cp|o l IHl r IHr cp]; intros ls lc h' ls' lc' H; simpl in H.
  - destruct d as [z|ob].
    + destruct (lookup g (kind_of_isc isc) z) as [ob|]; [|discriminate].
      destruct (list_add _ _ ob) as [l'|]; [|discriminate]. inversion H; subst. reflexivity.
    + inversion H; subst. reflexivity.
  - destruct (hs_up g c l ls lc) as [[[l' ls1] lc1] r1] eqn:E. inversion H; subst. simpl.
    split; [reflexivity | eapply IHl; exact E].
  - destruct (hs_up g c l ls lc) as [[[l' ls1] lc1] r1] eqn:E1. destruct r1; [|discriminate].
    destruct (hs_up g c r ls1 lc1) as [[[r' ls2] lc2] r2] eqn:E2. inversion H; subst. simpl.
    split; [reflexivity|]. split; [eapply IHl; exact E1 | eapply IHr; exact E2].
Qed.

Lemma cell_up_spec : forall g c g',
  cell_up g c = (g', ROk) -> (forall h, c_geom (cellf g c) = Some h -> all_int h) ->
  cell_exact (cellf g' c) /\ (forall x, x <> c -> cellf g' x = cellf g x) /\ frameG g g' /\
  (forall k o, num g' k o = num g k o) /\ (forall h, c_geom (cellf g' c) = Some h -> owned c h).
Proof.
  intros g c g' H A. unfold cell_up in H.
  set (r0 := cr_lnk (cr_lists (cellf g c) [] []) false) in *.
  destruct (if (0 <? c_oldmat r0)%Z then _ else _) as [m|]; [|discriminate].
  destruct (c_geom (cr_mat r0 m)) as [h|] eqn:Eg; [|discriminate].
  destruct (hs_up g c h [] []) as [[[h' ls] lc] rs] eqn:E. inversion H; subst. clear H.
  assert (Ah : all_int h) by (apply A; exact Eg).
  destruct (hs_up_spec _ _ _ _ _ _ _ _ Ah E) as [S C]. split; [|split; [|split; [|split]]].
  - rewrite cellf_set_cell_same. intros h0 Hh isc x. simpl in Hh. inversion Hh; subst h0.
    destruct isc; simpl; [rewrite C | rewrite S]; simpl; tauto.
  - intros x N. apply cellf_set_cell_other. exact N.
  - apply set_cell_frameG. reflexivity.
  - reflexivity.
  - intros h0 Hh. rewrite cellf_set_cell_same in Hh. simpl in Hh. inversion Hh; subst h0.
    eapply hs_up_owned. exact E.
Qed.

Lemma cells_up_spec : forall cs g g',
  cells_up g cs = (g', ROk) -> NoDup cs ->
  (forall c, In c cs -> forall h, c_geom (cellf g c) = Some h -> all_int h) ->
  (forall c, In c cs -> cell_exact (cellf g' c)) /\ (forall x, ~ In x cs -> cellf g' x = cellf g x) /\
  frameG g g' /\ (forall c, In c cs -> forall h, c_geom (cellf g' c) = Some h -> owned c h).
Proof.
  induction cs as [|c cs IH]; intros g g' H N A; simpl in H.
  - inversion H; subst. split; [intros c []|]. split; [reflexivity|]. split; [apply frameG_refl | intros c []].
  - destruct (cell_up g c) as [g1 r1] eqn:E. destruct r1; [|inversion H].
    inversion N as [|? ? Nc Ncs]; subst.
    destruct (cell_up_spec _ _ _ E (A c (or_introl eq_refl))) as (X1 & O1 & F1 & _ & W1).
    assert (A1 : forall c0, In c0 cs -> forall h, c_geom (cellf g1 c0) = Some h -> all_int h).
    { intros c0 Hc h Hh. rewrite O1 in Hh by (intro; subst; contradiction). apply (A c0 (or_intror Hc) h Hh). }
    destruct (IH _ _ H Ncs A1) as (X2 & O2 & F2 & W2). split; [|split; [|split]].
    + intros c0 [<-|Hc]; [rewrite O2 by exact Nc; exact X1 | apply X2; exact Hc].
    + intros x Hx. rewrite O2 by (intro; apply Hx; right; assumption).
      apply O1. intro; subst; apply Hx; left; reflexivity.
    + eapply frameG_trans; eauto.
    + intros c0 [<-|Hc] h Hh; [rewrite O2 in Hh by exact Nc; apply W1; exact Hh | apply (W2 c0 Hc h Hh)].
Qed.

Lemma push_data_quiet : forall f, (forall r v, same_rec r (f r v) /\ c_univ (f r v) = c_univ r) ->
  forall cs vals g, quiet g (push_data f g cs vals).
Proof.
  intros f Hf. induction cs as [|c cs IH]; intros vals g; simpl; [apply quiet_refl|].
  destruct vals as [|v vals]; [apply quiet_refl|].
  eapply quiet_trans; [|apply IH]. destruct v; [|apply quiet_refl].
  destruct (Hf (cellf g c) (Some z)). apply set_cell_quiet; assumption.
Qed.

Lemma find_num_In : forall numf l n o, find_num numf l n = Some o -> In o l.
Proof.
  intros numf l n o. induction l as [|x l IH]; simpl; [discriminate|].
  destruct (numf x =? n)%Z; [intro H; inversion H; left; reflexivity | intro H; right; apply IH; exact H].
Qed.

Definition has_univ (g : st) (c : oid) : Prop :=
  exists u, c_univ (cellf g c) = Some u /\ In u (coll g KUniv) /\ plink g KUniv u = true.

Definition univ_step (g : st) (c : oid) : st :=
  let n := match c_oldu (cellf g c) with Some n => n | None => 0%Z end in
  match lookup g KUniv n with
  | Some u => set_cell g c (cr_univ (cellf g c) (Some u))
  | None =>
      let u := nu g in
      let g1 := set_nu (set_coll (set_plink (set_num g KUniv u n) KUniv u) KUniv (coll g KUniv ++ [u])) (S u) in
      set_cell g1 c (cr_univ (cellf g1 c) (Some u))
  end.
Lemma univ_push_cons : forall g c rest, univ_push g (c :: rest) = univ_push (univ_step g c) rest.
Proof. intros. unfold univ_step. simpl. destruct (lookup g KUniv _); reflexivity. Qed.

Lemma kind_eqb_refl : forall k, kind_eqb k k = true.
Proof. destruct k; reflexivity. Qed.
Lemma kind_eqb_eq : forall a b, kind_eqb a b = true -> a = b.
Proof. destruct a, b; simpl; intro; try discriminate; reflexivity. Qed.

Lemma univ_step_spec : forall g c, Linked g ->
  let g' := univ_step g c in
  Linked g' /\ same_lk g g' /\ (forall k, k <> KUniv -> coll g' k = coll g k) /\
  has_univ g' c /\ (forall x, has_univ g x -> has_univ g' x).
Proof.
  intros g c [L1 L2]. unfold univ_step.
  set (n := match c_oldu (cellf g c) with Some n => n | None => 0%Z end).
  destruct (lookup g KUniv n) as [u|] eqn:El.
  - assert (Hu : In u (coll g KUniv)) by (eapply find_num_In; exact El).
    cbv zeta. split; [|split; [|split; [|split]]].
    + split; [intros k o H; apply (L1 k o H) | exact L2].
    + apply set_cell_same_lk. repeat split; reflexivity.
    + reflexivity.
    + exists u. rewrite cellf_set_cell_same. simpl. auto.
    + intros x [u' (E & M & P)]. destruct (Nat.eq_dec x c) as [->|N].
      * exists u. rewrite cellf_set_cell_same. simpl. auto.
      * exists u'. rewrite cellf_set_cell_other by exact N. auto.
  - cbv zeta. set (u := nu g).
    set (g1 := set_nu (set_coll (set_plink (set_num g KUniv u n) KUniv u) KUniv (coll g KUniv ++ [u])) (S u)).
    assert (C1 : forall k, coll g1 k = if kind_eqb k KUniv then coll g KUniv ++ [u] else coll g k).
    { intro k. reflexivity. }
    assert (P1 : forall k o, plink g k o = true -> plink g1 k o = true).
    { intros k o H. unfold g1, set_nu, set_coll, set_plink, set_num. cbn [plink]. unfold updk.
      destruct (kind_eqb k KUniv) eqn:Ek; [|exact H]. apply kind_eqb_eq in Ek. subst k.
      unfold upd. destruct (Nat.eqb o u); [reflexivity | exact H]. }
    assert (P2 : plink g1 KUniv u = true).
    { unfold g1, set_nu, set_coll, set_plink, set_num. cbn [plink]. unfold updk. simpl. apply upd_same. }
    split; [|split; [|split; [|split]]].
    + split.
      * intros k o H. rewrite coll_set_cell in H. rewrite plink_set_cell. rewrite C1 in H.
        destruct (kind_eqb k KUniv) eqn:Ek.
        -- apply kind_eqb_eq in Ek. subst k. apply in_app_or in H. destruct H as [H|[<-|[]]].
           ++ apply P1. apply L1. exact H.
           ++ exact P2.
        -- apply P1. apply L1. exact H.
      * intro k. rewrite clinked_set_cell. apply L2.
    + eapply same_lk_trans with (b := g1); [apply cellf_only_same_lk; reflexivity|].
      apply set_cell_same_lk. repeat split; reflexivity.
    + intros k Hk. rewrite coll_set_cell. rewrite C1. destruct k; try reflexivity. contradiction.
    + exists u. rewrite cellf_set_cell_same. split; [reflexivity|]. rewrite plink_set_cell. split; [|exact P2].
      rewrite coll_set_cell. rewrite C1. simpl. apply in_or_app. right. left. reflexivity.
    + intros x [u' (E & M & P)]. destruct (Nat.eq_dec x c) as [->|N].
      * exists u. rewrite cellf_set_cell_same. split; [reflexivity|]. rewrite plink_set_cell. split; [|exact P2].
        rewrite coll_set_cell. rewrite C1. simpl. apply in_or_app. right. left. reflexivity.
      * exists u'. rewrite cellf_set_cell_other by exact N. split; [exact E|]. split.
        -- rewrite coll_set_cell. rewrite C1. simpl. apply in_or_app. left. exact M.
        -- apply P1. exact P.
Qed.

Lemma univ_push_spec : forall cs g, Linked g ->
  let g' := univ_push g cs in
  Linked g' /\ same_lk g g' /\ (forall k, k <> KUniv -> coll g' k = coll g k) /\
  (forall c, In c cs -> has_univ g' c) /\ (forall x, has_univ g x -> has_univ g' x).
Proof.
  induction cs as [|c cs IH]; intros g L.
  - simpl. split; [exact L|]. split; [apply same_lk_refl|]. split; [reflexivity|]. split; [intros c []|auto].
  - rewrite univ_push_cons. destruct (univ_step_spec g c L) as (L1 & S1 & C1 & H1 & M1).
    destruct (IH _ L1) as (L2 & S2 & C2 & H2 & M2). cbv zeta.
    split; [exact L2|]. split; [eapply same_lk_trans; eauto|]. split; [|split].
    + intros k Hk. rewrite C2 by exact Hk. apply C1. exact Hk.
    + intros x [<-|Hx]; [apply M2; exact H1 | apply H2; exact Hx].
    + intros x Hx. apply M2. apply M1. exact Hx.
Qed.

Lemma fill_push_quiet : forall cs g, quiet g (fst (fill_push g cs)).
Proof.
  induction cs as [|c cs IH]; intro g; simpl; [apply quiet_refl|].
  destruct (nonzero (c_oldftr (cellf g c))) as [n|].
  - destruct (lookup g KTr n) as [t|]; [|apply quiet_refl].
    destruct (c_oldfill (cr_ftr (cellf g c) (Some t))) as [m|] eqn:Ef.
    + destruct (lookup g KUniv m) as [u|].
      * eapply quiet_trans; [|apply IH]. apply set_cell_quiet; [repeat split; reflexivity | reflexivity].
      * simpl. apply set_cell_quiet; [repeat split; reflexivity | reflexivity].
    + eapply quiet_trans; [|apply IH]. apply set_cell_quiet; [repeat split; reflexivity | reflexivity].
  - destruct (c_oldfill (cellf g c)) as [m|] eqn:Ef.
    + destruct (lookup g KUniv m) as [u|].
      * eapply quiet_trans; [|apply IH]. apply set_cell_quiet; [repeat split; reflexivity | reflexivity].
      * simpl. apply set_cell_quiet; [repeat split; reflexivity | reflexivity].
    + eapply quiet_trans; [|apply IH]. apply set_cell_quiet; [repeat split; reflexivity | reflexivity].
Qed.

Lemma surf_up_core : forall g s, same_core g (fst (surf_up g s)).
Proof.
  intros g s. unfold surf_up.
  destruct (nonzero (s_oldper (surff g s))) as [n|].
  - destruct (lookup g KSurf n) as [p|]; [|apply same_core_refl]. cbn [s_oldtr].
    destruct (nonzero (s_oldtr (surff g s))) as [m|]; [|repeat split; reflexivity].
    destruct (last_tr _ _ _ _); repeat split; reflexivity.
  - destruct (nonzero (s_oldtr (surff g s))) as [m|]; [|repeat split; reflexivity].
    destruct (last_tr _ _ _ _); repeat split; reflexivity.
Qed.
Lemma surfs_up_core : forall l g, same_core g (fst (surfs_up g l)).
Proof.
  induction l as [|s l IH]; intro g; simpl; [apply same_core_refl|].
  pose proof (surf_up_core g s) as H. destruct (surf_up g s) as [g1 r]. simpl in H.
  destruct r; [eapply same_core_trans; [exact H | apply IH] | exact H].
Qed.

Lemma mat_up_core : forall copy g m, same_core g (fst (mat_up g m copy)).
Proof.
  induction copy as [|d copy IH]; intros g m; simpl; [apply same_core_refl|].
  destruct d; try apply IH.
  destruct (t_old (mtf g x) =? num g KMat m)%Z; [|apply IH].
  destruct (matf g m); [apply same_core_refl|].
  eapply same_core_trans; [|apply IH]. repeat split; reflexivity.
Qed.
Lemma mt_up_core : forall g x, same_core g (fst (mt_up g x)).
Proof. intros g x. unfold mt_up. destruct (last_mat _ _ _ _); [repeat split; reflexivity | apply same_core_refl]. Qed.

Lemma data_loop_core : forall snap g, same_core g (fst (data_loop g snap)).
Proof.
  induction snap as [|it snap IH]; intro g; simpl; [apply same_core_refl|].
  assert (H : same_core g (fst (match it with DMat m => mat_up g m (dins g) | DMT x => mt_up g x | _ => (g, ROk) end))).
  { destruct it; try apply same_core_refl; [apply mat_up_core | apply mt_up_core]. }
  destruct (match it with DMat m => mat_up g m (dins g) | DMT x => mt_up g x | _ => (g, ROk) end) as [g1 r].
  simpl in H. destruct r; [eapply same_core_trans; [exact H | apply IH] | exact H].
Qed.

Lemma has_univ_frameG : forall g g' c, frameG g g' -> has_univ g c -> has_univ g' c.
Proof.
  intros g g' c (A1 & A2 & A3 & A4) [u (E & M & P)]. exists u. rewrite A4, A1. auto.
Qed.

Theorem update_pointers_spec : forall g0 g,
  Raw g0 -> Linked g0 -> update_pointers g0 = (g, ROk) ->
  LinksExact g /\ Linked g /\ UnivOK g /\ coll g KCell = coll g0 KCell /\
  (forall x, ~ In x (coll g0 KCell) ->
     c_geom (cellf g x) = c_geom (cellf g0 x) /\ forall isc, lst isc (cellf g x) = lst isc (cellf g0 x)) /\
  (forall c, In c (coll g KCell) -> forall h, c_geom (cellf g c) = Some h -> owned c h).
Proof.
  intros g0 g [ND RA] LK H. unfold update_pointers in H.
  destruct (andb (ran g0) _); [discriminate|].
  set (ga := set_ran (set_dins g0 (drop_imps (negb (ran g0)) (dins g0)))) in *.
  assert (Ca : same_core g0 ga) by (repeat split; reflexivity).
  destruct (cells_up ga (coll ga KCell)) as [g1 r1] eqn:E1. destruct r1; [|discriminate].
  assert (RAa : forall c, In c (coll ga KCell) -> forall h, c_geom (cellf ga c) = Some h -> all_int h) by exact RA.
  destruct (cells_up_spec _ _ _ E1 ND RAa) as (X1 & O1 & F1 & W1).
  set (g2 := match data_u g1 with
             | Some vals => if negb (ran g0) then push_data cr_oldu g1 (coll g1 KCell) vals else g1
             | None => g1 end) in *.
  assert (Q2 : quiet g1 g2).
  { unfold g2. destruct (data_u g1); [|apply quiet_refl]. destruct (negb (ran g0)); [|apply quiet_refl].
    apply push_data_quiet. intros r v. repeat split; reflexivity. }
  set (g3 := univ_push g2 (coll g2 KCell)) in *.
  assert (L1 : Linked g1) by (eapply Linked_frameG; [exact F1|]; eapply Linked_frameG; [apply same_core_frameG; exact Ca | exact LK]).
  assert (L2 : Linked g2) by (eapply Linked_frameG; [apply Q2 | exact L1]).
  destruct (univ_push_spec (coll g2 KCell) g2 L2) as (L3 & S3 & C3 & H3 & M3). fold g3 in L3, S3, C3, H3, M3.
  set (g4 := match data_fill g3 with
             | Some vals => if negb (ran g0) then push_data cr_oldfill g3 (coll g3 KCell) vals else g3
             | None => g3 end) in *.
  assert (Q4 : quiet g3 g4).
  { unfold g4. destruct (data_fill g3); [|apply quiet_refl]. destruct (negb (ran g0)); [|apply quiet_refl].
    apply push_data_quiet. intros r v. repeat split; reflexivity. }
  pose proof (fill_push_quiet (coll g4 KCell) g4) as Q5.
  destruct (fill_push g4 (coll g4 KCell)) as [g5 r5]. simpl in Q5. destruct r5; [|discriminate].
  pose proof (surfs_up_core (coll g5 KSurf) g5) as Q6.
  destruct (surfs_up g5 (coll g5 KSurf)) as [g6 r6]. simpl in Q6. destruct r6; [|discriminate].
  pose proof (data_loop_core (dins g6) g6) as Q7. rewrite H in Q7. simpl in Q7.
  assert (Q37 : quiet g3 g).
  { eapply quiet_trans; [exact Q4|]. eapply quiet_trans; [exact Q5|].
    eapply quiet_trans; apply same_core_quiet; eassumption. }
  assert (CC1 : coll g1 KCell = coll g0 KCell).
  { destruct F1 as (A & _). rewrite A. destruct Ca as (_ & B & _). apply B. }
  assert (CC2 : coll g2 KCell = coll g0 KCell).
  { destruct Q2 as [_ (A & _)]. rewrite A. exact CC1. }
  assert (CC3 : coll g3 KCell = coll g0 KCell).
  { rewrite C3 by discriminate. exact CC2. }
  assert (CC : coll g KCell = coll g0 KCell).
  { destruct Q37 as [_ (A & _)]. rewrite A. exact CC3. }
  assert (SL : same_lk g1 g).
  { eapply same_lk_trans; [apply Q2|]. eapply same_lk_trans; [exact S3 | apply Q37]. }
  split; [|split; [|split; [|split; [|split]]]].
  - intros c Hc. rewrite CC in Hc.
    eapply cell_exact_same_lk; [apply Q37|]. eapply cell_exact_same_lk; [exact S3|].
    eapply cell_exact_same_lk; [apply Q2|]. apply X1. destruct Ca as (_ & B & _). rewrite B. exact Hc.
  - eapply Linked_frameG; [apply Q37 | exact L3].
  - intros c Hc. rewrite CC in Hc. eapply has_univ_frameG; [apply Q37|]. apply H3. rewrite CC2. exact Hc.
  - exact CC.
  - intros x Hx.
    destruct (SL x) as [E1' E2']. rewrite E1'. rewrite O1 by exact Hx. split; [reflexivity|].
    intro isc. rewrite E2'. rewrite O1 by exact Hx. reflexivity.
  - intros c Hc h Hh. rewrite CC in Hc. destruct (SL c) as [E1' _]. rewrite E1' in Hh.
    apply (W1 c); [destruct Ca as (_ & B & _); rewrite B; exact Hc | exact Hh].
Qed.

Lemma read_then_links_all : forall g0 g,
  Raw g0 -> Linked g0 -> update_pointers g0 = (g, ROk) ->
  (forall x, ~ In x (coll g0 KCell) -> cell_ok (cellf g0 x)) -> LinksAll g.
Proof.
  intros g0 g R L H NM. destruct (update_pointers_spec g0 g R L H) as (X & _ & _ & CC & O & _).
  intro c. destruct (in_dec Nat.eq_dec c (coll g0 KCell)) as [Hc|Hc].
  - apply cell_exact_ok. apply X. rewrite CC. exact Hc.
  - destruct (O c Hc) as [E1' E2']. intros h Hh isc. rewrite E1' in Hh. rewrite E2'. apply (NM c Hc h Hh isc).
Qed.


(* ================================================================ Links and Owned are preserved, operation by operation *)
Definition Inv (g : st) : Prop := LinksAll g /\ Owned g.

Lemma Owned_grows : forall g g', grows g g' -> Owned g -> Owned g'.
Proof. intros g g' G O c h Hh. destruct (G c) as [E _]. rewrite E in Hh. apply O. exact Hh. Qed.
Lemma Inv_grows : forall g g', grows g g' -> Inv g -> Inv g'.
Proof. intros g g' G [L O]. split; [eapply LinksAll_grows; eauto | eapply Owned_grows; eauto]. Qed.
Lemma Inv_same_lk : forall g g', same_lk g g' -> Inv g -> Inv g'.
Proof. intros g g' H. apply Inv_grows. apply same_lk_grows. exact H. Qed.

Lemma inv_set_geom : forall g c t,
  Inv g -> (forall isc, incl (leaves isc t) (lst isc (cellf g c))) -> owned c t ->
  Inv (set_cell g c (cr_geom (cellf g c) (Some t))).
Proof.
  intros g c t [L O] I Ot. split.
  - intro x. destruct (Nat.eq_dec x c) as [->|N].
    + rewrite cellf_set_cell_same. intros h Hh isc. simpl in Hh. inversion Hh; subst h.
      destruct isc; simpl; [apply (I true) | apply (I false)].
    + rewrite cellf_set_cell_other by exact N. apply L.
  - intros x h Hh. destruct (Nat.eq_dec x c) as [->|N].
    + rewrite cellf_set_cell_same in Hh. simpl in Hh. inversion Hh; subst h. exact Ot.
    + rewrite cellf_set_cell_other in Hh by exact N. apply O. exact Hh.
Qed.

Lemma cell_leaves_in : forall g c t isc, Inv g -> c_geom (cellf g c) = Some t -> incl (leaves isc t) (lst isc (cellf g c)).
Proof. intros g c t isc [L _] E. apply (L c t E isc). Qed.

Lemma set_geom_inv : forall g c e, Inv g -> Inv (fst (set_geom g c e)).
Proof.
  intros g c e V. unfold set_geom. destruct (Nat.ltb 1 (uses_old e)); [exact V|].
  destruct (eval_ex _ e) as [t|] eqn:Ee; [|exact V].
  assert (W : wm c t) by (eapply eval_ex_wm; [|exact Ee]; intros h Hh; apply (proj2 V); exact Hh).
  destruct (link_geometry g c t) as [[g1 t'] ok] eqn:E. apply link_geometry_spec in E.
  destruct E as (G & F & Lv & T & Fl). pose proof (Inv_grows _ _ G V) as V1. destruct ok; simpl; [|exact V1].
  destruct (T eq_refl) as [I ->]. apply inv_set_geom; [exact V1 | | apply link_true_owned, wm_kids, W].
  intro isc. rewrite leaves_link_tree. apply I.
Qed.

Lemma iop_set_inv : forall g c o e, Inv g -> Inv (fst (iop_set g c o e)).
Proof.
  intros g c o e V. unfold iop_set. destruct (fresh_ex e) as [other|] eqn:Ef; [|exact V].
  destruct (c_geom (cellf g c)) as [t|] eqn:Eg; [|exact V].
  destruct (iop g o t other) as [[[g1 t1] is_self] ok] eqn:Ei.
  assert (Ot : owned c t) by (apply (proj2 V); exact Eg).
  assert (Wo : wm c other) by (eapply fresh_ex_wm; exact Ef).
  assert (Lt : forall isc, incl (leaves isc t) (lst isc (cellf g c))) by (intro; apply cell_leaves_in; assumption).
  destruct (iop_spec _ _ _ _ _ _ _ _ c Ot Wo Lt Ei) as (G1 & F1 & Lv & NS & SS & SF).
  pose proof (Inv_grows _ _ G1 V) as V1.
  assert (Lt1 : forall isc, incl (leaves isc t) (lst isc (cellf g1 c))).
  { intro isc. destruct (G1 c) as [_ Inc]. eapply incl_tran; [apply Lt | apply Inc]. }
  destruct ok.
  - destruct (link_geometry g1 c t1) as [[g2 t2] ok2] eqn:E2. apply link_geometry_spec in E2.
    destruct E2 as (G2 & F2 & Lv2 & T2 & Fl2). pose proof (Inv_grows _ _ G2 V1) as V2. destruct ok2; simpl.
    + destruct (T2 eq_refl) as [I2 ->]. apply inv_set_geom; [exact V2 | intro isc; rewrite leaves_link_tree; apply I2|].
      apply link_true_owned. destruct is_self.
      * apply wm_kids, owned_wm. apply (SS eq_refl eq_refl).
      * apply (NS eq_refl).
    + destruct (Fl2 eq_refl) as [-> ->]. destruct is_self; [|exact V1]. simpl.
      destruct (SS eq_refl eq_refl) as [O1 K]. apply inv_set_geom; [exact V1 | | exact O1].
      intro isc. eapply incl_tran; [apply Lv|]. apply incl_app; [apply Lt1 | apply K].
  - simpl. destruct is_self.
    + destruct (SF eq_refl eq_refl) as [-> ->]. apply inv_set_geom; [exact V | exact Lt | exact Ot].
    + destruct (NS eq_refl) as (_ & K & _). discriminate.
Qed.

Lemma iop_in_inv : forall g c p o e, Inv g -> Inv (fst (iop_in g c p o e)).
Proof.
  intros g c p o e V. unfold iop_in. destruct (fresh_ex e) as [other|] eqn:Ef; [|exact V].
  destruct (c_geom (cellf g c)) as [t|] eqn:Eg; [|exact V].
  destruct (node_at t p) as [sub|] eqn:En; [|exact V].
  destruct (iop g o sub other) as [[[g1 sub1] is_self] ok] eqn:Ei.
  assert (Ot : owned c t) by (apply (proj2 V); exact Eg).
  assert (Os : owned c sub) by (eapply node_at_owned; [exact Ot | exact En]).
  assert (Wo : wm c other) by (eapply fresh_ex_wm; exact Ef).
  assert (Lt : forall isc, incl (leaves isc t) (lst isc (cellf g c))) by (intro; apply cell_leaves_in; assumption).
  assert (Ls : forall isc, incl (leaves isc sub) (lst isc (cellf g c))).
  { intro isc. eapply incl_tran; [eapply node_at_leaves; exact En | apply Lt]. }
  destruct (iop_spec _ _ _ _ _ _ _ _ c Os Wo Ls Ei) as (G1 & F1 & Lv & NS & SS & SF).
  pose proof (Inv_grows _ _ G1 V) as V1.
  assert (Lt1 : forall isc, incl (leaves isc t) (lst isc (cellf g1 c))).
  { intro isc. destruct (G1 c) as [_ Inc]. eapply incl_tran; [apply Lt | apply Inc]. }
  simpl. destruct is_self; [|apply inv_set_geom; [exact V1 | exact Lt1 | exact Ot]].
  destruct ok.
  - destruct (SS eq_refl eq_refl) as [O1 K]. apply inv_set_geom; [exact V1 | | apply replace_at_owned; assumption].
    intro isc. eapply incl_tran; [apply replace_at_leaves|]. apply incl_app; [apply Lt1|].
    eapply incl_tran; [apply Lv|]. apply incl_app; [|apply K].
    eapply incl_tran; [eapply node_at_leaves; exact En | apply Lt1].
  - destruct (SF eq_refl eq_refl) as [-> ->]. apply inv_set_geom; [exact V | | apply replace_at_owned; assumption].
    intro isc. eapply incl_tran; [apply replace_at_leaves|]. apply incl_app; [apply Lt | apply Ls].
Qed.

Lemma iop_child_inv : forall g c p s o e, Inv g -> Inv (fst (iop_child g c p s o e)).
Proof.
  intros g c p s o e V. unfold iop_child. destruct (fresh_ex e) as [other|] eqn:Ef; [|exact V].
  destruct (c_geom (cellf g c)) as [t|] eqn:Eg; [|exact V].
  destruct (node_at t p) as [parent|] eqn:Ep; [|exact V].
  destruct (node_at t (p ++ [s])) as [sub|] eqn:En; [|exact V].
  destruct (iop g o sub other) as [[[g1 sub1] is_self] ok] eqn:Ei.
  assert (Ot : owned c t) by (apply (proj2 V); exact Eg).
  assert (Os : owned c sub) by (eapply node_at_owned; [exact Ot | exact En]).
  assert (Op : get_cp parent = Some c) by (apply owned_cp; apply (node_at_owned p c t parent Ot Ep)).
  assert (Wo : wm c other) by (eapply fresh_ex_wm; exact Ef).
  assert (Lt : forall isc, incl (leaves isc t) (lst isc (cellf g c))) by (intro; apply cell_leaves_in; assumption).
  assert (Ls : forall isc, incl (leaves isc sub) (lst isc (cellf g c))).
  { intro isc. eapply incl_tran; [eapply node_at_leaves; exact En | apply Lt]. }
  destruct (iop_spec _ _ _ _ _ _ _ _ c Os Wo Ls Ei) as (G1 & F1 & Lv & NS & SS & SF).
  pose proof (Inv_grows _ _ G1 V) as V1.
  assert (Lt1 : forall isc, incl (leaves isc t) (lst isc (cellf g1 c))).
  { intro isc. destruct (G1 c) as [_ Inc]. eapply incl_tran; [apply Lt | apply Inc]. }
  assert (Ls1 : forall isc, incl (leaves isc sub) (lst isc (cellf g1 c))).
  { intro isc. eapply incl_tran; [eapply node_at_leaves; exact En | apply Lt1]. }
  destruct ok.
  - rewrite Op. destruct (link_side g1 (Some c) sub1) as [[g2 sub2] ok2] eqn:E2.
    apply link_side_spec in E2. destruct E2 as (G2 & F2 & Lv2 & I2 & R2 & OW2).
    pose proof (Inv_grows _ _ G2 V1) as V2.
    assert (Lt2 : forall isc, incl (leaves isc t) (lst isc (cellf g2 c))).
    { intro isc. destruct (G2 c) as [_ Inc]. eapply incl_tran; [apply Lt1 | apply Inc]. }
    destruct ok2; simpl.
    + apply inv_set_geom; [exact V2 | |].
      * intro isc. eapply incl_tran; [apply replace_at_leaves|]. apply incl_app; [apply Lt2|].
        rewrite Lv2. apply (I2 eq_refl c eq_refl).
      * apply replace_at_owned; [exact Ot|]. apply (OW2 eq_refl c eq_refl).
        -- destruct is_self; [apply wm_kids, owned_wm; apply (SS eq_refl eq_refl) | apply (NS eq_refl)].
        -- destruct is_self; [right; apply (SS eq_refl eq_refl) | left; apply (NS eq_refl)].
    + destruct (R2 eq_refl) as [-> ->]. destruct is_self; [|apply inv_set_geom; [exact V1 | exact Lt1 | exact Ot]].
      destruct (SS eq_refl eq_refl) as [O1 K]. apply inv_set_geom; [exact V1 | | apply replace_at_owned; assumption].
      intro isc. eapply incl_tran; [apply replace_at_leaves|]. apply incl_app; [apply Lt1|].
      eapply incl_tran; [apply Lv|]. apply incl_app; [apply Ls1 | apply K].
  - simpl. destruct is_self.
    + destruct (SF eq_refl eq_refl) as [-> ->]. apply inv_set_geom; [exact V | | apply replace_at_owned; assumption].
      intro isc. eapply incl_tran; [apply replace_at_leaves|]. apply incl_app; [apply Lt | apply Ls].
    + destruct (NS eq_refl) as (_ & K & _). discriminate.
Qed.

Lemma set_div_inv : forall g c p isc d, Inv g -> Inv (fst (set_div g c p isc d)).
Proof.
  intros g c p isc d V. unfold set_div.
  destruct (c_geom (cellf g c)) as [t|] eqn:Eg; [|exact V].
  destruct (node_at t p) as [[b dv cp|l cp|o l r cp]|] eqn:En; try exact V.
  destruct (Bool.eqb b isc) eqn:Eb; simpl negb; cbv iota; [|exact V].
  apply Bool.eqb_prop in Eb. subst b.
  assert (Ot : owned c t) by (apply (proj2 V); exact Eg).
  assert (Ol : owned c (Leaf isc dv cp)) by (eapply node_at_owned; [exact Ot | exact En]). simpl in Ol. subst cp.
  destruct (cell_add g c isc d) as [g2 b] eqn:E. apply cell_add_spec in E. destruct E as (G & F & I).
  pose proof (Inv_grows _ _ G V) as V2. destruct b; simpl; [|exact V2].
  apply inv_set_geom; [exact V2 | | apply replace_at_owned; [exact Ot | reflexivity]].
  intro isc'. eapply incl_tran; [apply replace_at_leaves|]. apply incl_app.
  - destruct (G c) as [_ Inc]. eapply incl_tran; [apply (cell_leaves_in g c t isc' V Eg) | apply Inc].
  - simpl. destruct (Bool.eqb isc isc') eqn:Eb; [|intros y []].
    apply Bool.eqb_prop in Eb. subst isc'. intros y [<-|[]]. apply I. reflexivity.
Qed.

(* ---- remove_duplicate_surfaces *)
Definition survivors_ok (m : list (oid * oid)) : Prop := forall d k, In (d, k) m -> ~ In k (map fst m).

Lemma dedup_map_ok_spec : forall m, dedup_map_ok m = true -> survivors_ok m.
Proof.
  intros m H d k Hin K. unfold dedup_map_ok in H. apply andb_true_iff in H. destruct H as [_ H].
  rewrite forallb_forall in H. specialize (H (d, k) Hin). simpl in H. apply negb_true_iff in H.
  apply mem_o_In in K. rewrite K in H. discriminate.
Qed.

Lemma assoc_In : forall m o k, assoc m o = Some k -> In (o, k) m.
Proof.
  induction m as [|[a b] m IH]; intros o k H; simpl in H; [discriminate|].
  destruct (Nat.eqb a o) eqn:E.
  - apply Nat.eqb_eq in E. inversion H; subst. left. reflexivity.
  - right. apply IH. exact H.
Qed.
Lemma assoc_None : forall m o, assoc m o = None -> ~ In o (map fst m).
Proof.
  induction m as [|[a b] m IH]; intros o H; simpl in *; [tauto|].
  destruct (Nat.eqb a o) eqn:E; [discriminate|]. apply Nat.eqb_neq in E. intros [K|K]; [contradiction|].
  apply (IH o H K).
Qed.

Lemma hs_dedup_spec : forall h g m g' h' ok c,
  survivors_ok m -> owned c h -> hs_dedup g m h = (g', h', ok) ->
  grows g g' /\ frameG g g' /\ owned c h' /\ leaves true h' = leaves true h /\
  (incl (leaves false h) (lst false (cellf g c)) -> incl (leaves false h') (lst false (cellf g' c))) /\
  (ok = true -> forall x, In x (leaves false h') -> ~ In x (map fst m)).
Proof.
  intros h. induction h as [isc d cp|l IHl cp|o l IHl r IHr cp]; intros g m g' h' ok c S O H.
  - assert (Triv : forall isc0 d0, (isc0 = true \/ exists z, d0 = DInt z) ->
                   (g, Leaf isc0 d0 cp, true) = (g', h', ok) ->
                   grows g g' /\ frameG g g' /\ owned c h' /\ leaves true h' = leaves true (Leaf isc0 d0 cp) /\
                   (incl (leaves false (Leaf isc0 d0 cp)) (lst false (cellf g c)) ->
                    incl (leaves false h') (lst false (cellf g' c))) /\
                   (ok = true -> forall x, In x (leaves false h') -> ~ In x (map fst m))).
    { intros isc0 d0 Hc E. inversion E; subst. split; [apply grows_refl|]. split; [apply frameG_refl|].
      split; [exact O|]. split; [reflexivity|]. split; [auto|]. intros _ x Hx.
      destruct Hc as [-> | [z ->]]; [destruct d0; simpl in Hx; destruct Hx | simpl in Hx; destruct isc0; destruct Hx]. }
    destruct isc; [apply (Triv true d); [left; reflexivity | exact H]|].
    destruct d as [z|ob]; [apply (Triv false (DInt z)); [right; exists z; reflexivity | exact H]|].
    simpl in H. simpl in O. subst cp.
    destruct (assoc m ob) as [k|] eqn:Ea.
    + destruct (cell_add g c false k) as [g1 b] eqn:E. apply cell_add_spec in E. destruct E as (G & F & I).
      inversion H; subst; clear H. split; [exact G|]. split; [exact F|]. destruct ok.
      * split; [reflexivity|]. split; [reflexivity|]. split.
        -- intros _ x [<-|[]]. apply I. reflexivity.
        -- intros _ x [<-|[]]. apply (S ob k). apply assoc_In. exact Ea.
      * split; [reflexivity|]. split; [reflexivity|]. split; [|discriminate].
        intros K. destruct (G c) as [_ Inc]. eapply incl_tran; [exact K | apply (Inc false)].
    + inversion H; subst. split; [apply grows_refl|]. split; [apply frameG_refl|]. split; [reflexivity|].
      split; [reflexivity|]. split; [auto|]. intros _ x [<-|[]]. apply assoc_None. exact Ea.
  - simpl in H. destruct (hs_dedup g m l) as [[g1 l'] ok1] eqn:E. inversion H; subst; clear H.
    simpl in O. destruct O as [Ocp Ol].
    destruct (IHl _ _ _ _ _ c S Ol E) as (G & F & O1 & Lt & Lf & K).
    split; [exact G|]. split; [exact F|]. split; [simpl; auto|]. split; [simpl; exact Lt|]. split; [simpl; exact Lf|].
    simpl. exact K.
  - simpl in H. simpl in O. destruct O as (Ocp & Ol & Or).
    destruct (hs_dedup g m l) as [[g1 l'] ok1] eqn:E1.
    destruct (IHl _ _ _ _ _ c S Ol E1) as (G1 & F1 & O1 & Lt1 & Lf1 & K1).
    destruct ok1.
    + destruct (hs_dedup g1 m r) as [[g2 r'] ok2] eqn:E2. inversion H; subst; clear H.
      destruct (IHr _ _ _ _ _ c S Or E2) as (G2 & F2 & O2 & Lt2 & Lf2 & K2).
      split; [eapply grows_trans; eauto|]. split; [eapply frameG_trans; eauto|]. split; [simpl; auto|].
      split; [simpl; rewrite Lt1, Lt2; reflexivity|]. split.
      * simpl. intro Hin. apply incl_app.
        -- destruct (G2 c) as [_ Inc]. eapply incl_tran; [|apply (Inc false)]. apply Lf1.
           eapply incl_tran; [|exact Hin]. apply incl_appl, incl_refl.
        -- apply Lf2. destruct (G1 c) as [_ Inc]. eapply incl_tran; [|apply (Inc false)].
           eapply incl_tran; [|exact Hin]. apply incl_appr, incl_refl.
      * intros Hok x Hx. simpl in Hx. apply in_app_or in Hx. destruct Hx as [Hx|Hx]; [apply (K1 eq_refl x Hx) | apply (K2 Hok x Hx)].
    + inversion H; subst; clear H. split; [exact G1|]. split; [exact F1|]. split; [simpl; auto|].
      split; [simpl; rewrite Lt1; reflexivity|]. split; [|discriminate].
      simpl. intro Hin. apply incl_app.
      * apply Lf1. eapply incl_tran; [|exact Hin]. apply incl_appl, incl_refl.
      * destruct (G1 c) as [_ Inc]. eapply incl_tran; [|apply (Inc false)].
        eapply incl_tran; [|exact Hin]. apply incl_appr, incl_refl.
Qed.

(* what swap_lists keeps *)
Definition swapped (c : oid) (m : list (oid * oid)) (g g' : st) : Prop :=
  frameG g g' /\ (forall x, c_geom (cellf g' x) = c_geom (cellf g x)) /\
  (forall x, x <> c -> forall isc, incl (lst isc (cellf g x)) (lst isc (cellf g' x))) /\
  incl (c_comps (cellf g c)) (c_comps (cellf g' c)) /\
  (forall y, In y (c_surfs (cellf g c)) -> ~ In y (map fst m) -> In y (c_surfs (cellf g' c))).

Lemma swap_lists_spec : forall m g c, swapped c m g (fst (swap_lists g c m)).
Proof.
  induction m as [|[dead kept] m IH]; intros g c; simpl.
  - split; [apply frameG_refl|]. split; [reflexivity|]. split; [intros; apply incl_refl|]. split; [apply incl_refl | auto].
  - destruct (mem_o dead (c_surfs (cellf g c))) eqn:M.
    + set (g1 := set_cell g c (cr_lists (cellf g c) (remove_first dead (c_surfs (cellf g c))) (c_comps (cellf g c)))).
      assert (S1 : swapped c ((dead, kept) :: m) g g1).
      { split; [apply set_cell_frameG; reflexivity|]. split; [|split; [|split]].
        - intro x. unfold g1. destruct (Nat.eq_dec x c) as [->|N];
            [rewrite cellf_set_cell_same; reflexivity | rewrite cellf_set_cell_other by exact N; reflexivity].
        - intros x N isc. unfold g1. rewrite cellf_set_cell_other by exact N. apply incl_refl.
        - unfold g1. rewrite cellf_set_cell_same. apply incl_refl.
        - intros y Hy Hn. unfold g1. rewrite cellf_set_cell_same. simpl. apply remove_first_other; [|exact Hy].
          intro; subst. apply Hn. left. reflexivity. }
      destruct (cell_add g1 c false kept) as [g2 b] eqn:E. apply cell_add_spec in E. destruct E as (G & F & I).
      assert (S2 : swapped c ((dead, kept) :: m) g g2).
      { destruct S1 as (A1 & A2 & A3 & A4 & A5). split; [eapply frameG_trans; eauto|]. split; [|split; [|split]].
        - intro x. destruct (G x) as [E _]. rewrite E. apply A2.
        - intros x N isc. destruct (G x) as [_ Inc]. eapply incl_tran; [apply A3; exact N | apply Inc].
        - destruct (G c) as [_ Inc]. eapply incl_tran; [exact A4 | apply (Inc true)].
        - intros y Hy Hn. destruct (G c) as [_ Inc]. apply (Inc false). apply A5; assumption. }
      destruct b; [|exact S2]. specialize (IH g2 c).
      destruct S2 as (A1 & A2 & A3 & A4 & A5). destruct IH as (B1 & B2 & B3 & B4 & B5).
      split; [eapply frameG_trans; eauto|]. split; [|split; [|split]].
      * intro x. rewrite B2. apply A2.
      * intros x N isc. eapply incl_tran; [apply A3; exact N | apply B3; exact N].
      * eapply incl_tran; eauto.
      * intros y Hy Hn. apply B5; [apply A5; assumption|]. intro K. apply Hn. right. exact K.
    + split; [apply frameG_refl|]. split; [reflexivity|]. split; [intros; apply incl_refl|]. split; [apply incl_refl | auto].
Qed.

Lemma survivors_ok_filter : forall f m, survivors_ok m -> survivors_ok (filter f m).
Proof.
  intros f m S d k Hin K. apply filter_In in Hin. destruct Hin as [Hin _]. apply (S d k Hin).
  apply in_map_iff in K. destruct K as [[a b] [E Hab]]. apply filter_In in Hab. destruct Hab as [Hab _].
  apply in_map_iff. exists (a, b). auto.
Qed.

Lemma cell_dedup_inv : forall g c m, survivors_ok m -> Inv g ->
  Inv (fst (cell_dedup g c m)) /\ frameG g (fst (cell_dedup g c m)).
Proof.
  intros g c m S V. unfold cell_dedup.
  set (m' := filter (fun p => mem_o (fst p) (c_surfs (cellf g c))) m).
  assert (S' : survivors_ok m') by (apply survivors_ok_filter; exact S).
  destruct m' as [|p0 mr] eqn:Em; [split; [exact V | apply frameG_refl]|]. rewrite <- Em in *. clear Em p0 mr.
  destruct (c_geom (cellf g c)) as [t|] eqn:Eg; [|split; [exact V | apply frameG_refl]].
  assert (Ot : owned c t) by (apply (proj2 V); exact Eg).
  destruct (hs_dedup g m' t) as [[g1 t'] ok] eqn:E.
  destruct (hs_dedup_spec _ _ _ _ _ _ c S' Ot E) as (G & F & O1 & Lt & Lf & K).
  pose proof (Inv_grows _ _ G V) as V1.
  set (g2 := set_cell g1 c (cr_geom (cellf g1 c) (Some t'))).
  assert (Lt' : forall isc, incl (leaves isc t') (lst isc (cellf g1 c))).
  { intros [|].
    - rewrite Lt. destruct (G c) as [_ Inc]. eapply incl_tran; [apply (cell_leaves_in g c t true V Eg) | apply (Inc true)].
    - apply Lf. apply (cell_leaves_in g c t false V Eg). }
  assert (V2 : Inv g2) by (apply inv_set_geom; assumption).
  assert (F2 : frameG g g2) by (eapply frameG_trans; [exact F | apply set_cell_frameG; reflexivity]).
  destruct ok; [|split; [exact V2 | exact F2]].
  pose proof (swap_lists_spec m' g2 c) as (B1 & B2 & B3 & B4 & B5).
  set (g3 := fst (swap_lists g2 c m')) in *.
  assert (Eg2 : c_geom (cellf g2 c) = Some t') by (unfold g2; rewrite cellf_set_cell_same; reflexivity).
  assert (Lst2 : forall isc, lst isc (cellf g2 c) = lst isc (cellf g1 c))
    by (intro isc; unfold g2; rewrite cellf_set_cell_same; destruct isc; reflexivity).
  assert (V3 : Inv g3).
  { destruct V2 as [L2 O2]. split.
    - intro x. destruct (Nat.eq_dec x c) as [->|N].
      + intros h Hh isc. rewrite B2, Eg2 in Hh. inversion Hh; subst h. destruct isc; simpl.
        * eapply incl_tran; [|exact B4]. change (c_comps (cellf g2 c)) with (lst true (cellf g2 c)).
          rewrite (Lst2 true). apply (Lt' true).
        * intros y Hy. apply B5; [|apply (K eq_refl y Hy)].
          change (c_surfs (cellf g2 c)) with (lst false (cellf g2 c)). rewrite (Lst2 false). apply (Lt' false). exact Hy.
      + intros h Hh isc. rewrite B2 in Hh. eapply incl_tran; [apply (L2 x h Hh isc) | apply B3; exact N].
    - intros x h Hh. rewrite B2 in Hh. apply O2. exact Hh. }
  destruct (swap_lists g2 c m') as [gx rx] eqn:Es. simpl in *. subst g3.
  split; [exact V3 | eapply frameG_trans; eauto].
Qed.

Lemma cells_dedup_inv : forall cs g m, survivors_ok m -> Inv g ->
  Inv (fst (cells_dedup g cs m)) /\ frameG g (fst (cells_dedup g cs m)).
Proof.
  induction cs as [|c cs IH]; intros g m S V; simpl; [split; [exact V | apply frameG_refl]|].
  destruct (cell_dedup_inv g c m S V) as [V1 F1]. destruct (cell_dedup g c m) as [g1 r]. simpl in *.
  destruct r; [|split; assumption]. destruct (IH g1 m S V1) as [V2 F2]. split; [exact V2 | eapply frameG_trans; eauto].
Qed.

Lemma repoint_periodic_core : forall ss g m, same_core g (repoint_periodic g ss m).
Proof.
  induction ss as [|s ss IH]; intros g m; simpl; [apply same_core_refl|].
  eapply same_core_trans; [|apply IH]. destruct (s_per (surff g s)); [|apply same_core_refl].
  destruct (assoc m o); [repeat split; reflexivity | apply same_core_refl].
Qed.

Lemma remove_members_same_lk : forall dead g, same_lk g (fst (remove_members g dead)).
Proof.
  induction dead as [|d dead IH]; intro g; simpl; [apply same_lk_refl|].
  unfold remove. destruct (mem_o d (coll g KSurf)); [|apply same_lk_refl].
  eapply same_lk_trans; [|apply IH]. apply cellf_only_same_lk. reflexivity.
Qed.

Lemma dedup_inv : forall g m, survivors_ok m -> Inv g -> Inv (fst (dedup g m)).
Proof.
  intros g m S V. unfold dedup. destruct (cells_dedup_inv (coll g KCell) g m S V) as [V1 _].
  destruct (cells_dedup g (coll g KCell) m) as [g1 r]. simpl in V1. destruct r; [|exact V1].
  eapply Inv_same_lk; [apply remove_members_same_lk|].
  eapply Inv_same_lk; [apply same_core_lk, repoint_periodic_core | exact V1].
Qed.

Lemma add_children_to_problem_same_lk : forall g, same_lk g (fst (add_children_to_problem g)).
Proof.
  intro g. unfold add_children_to_problem. destruct (orb _ _); [apply same_lk_refl|]. cbv zeta. cbn [fst].
  eapply same_lk_trans; [|apply cellf_only_same_lk; reflexivity].
  eapply same_lk_trans; [|apply link_all_same_lk].
  eapply same_lk_trans; [|apply link_all_same_lk].
  eapply same_lk_trans; [|apply link_all_same_lk].
  apply cellf_only_same_lk. reflexivity.
Qed.

Lemma step_other_same_lk : forall g o,
  match o with
  | SetGeom _ _ | IopSet _ _ _ | IopIn _ _ _ _ | IopChild _ _ _ _ _ | SetDiv _ _ _ _ | SetSide _ _ _ _ _
  | Dedup _ | Relink => True
  | _ => same_lk g (fst (step g o))
  end.
Proof.
  intros g o. destruct o; try exact I; cbn [step fst].
  - apply set_cell_same_lk. repeat split; reflexivity.
  - apply set_cell_same_lk. repeat split; reflexivity.
  - apply set_cell_same_lk. repeat split; reflexivity.
  - apply set_cell_same_lk. repeat split; reflexivity.
  - apply cellf_only_same_lk. reflexivity.
  - unfold set_number. destruct (n <=? 0)%Z; [apply same_lk_refl|].
    destruct (andb _ _); [apply same_lk_refl | apply cellf_only_same_lk; reflexivity].
  - unfold append. destruct (mem_Z _ _); [apply same_lk_refl|]. simpl.
    eapply same_lk_trans; [|apply link_if_same_lk]. apply cellf_only_same_lk. reflexivity.
  - unfold remove. destruct (mem_o _ _); [apply cellf_only_same_lk; reflexivity | apply same_lk_refl].
  - unfold extend. destruct (clash _ _ _ _); [apply same_lk_refl|]. simpl.
    eapply same_lk_trans; [|apply link_if_same_lk]. apply cellf_only_same_lk. reflexivity.
  - unfold extend. destruct (clash _ _ _ _); [apply same_lk_refl|]. simpl.
    eapply same_lk_trans; [|apply link_if_same_lk]. apply cellf_only_same_lk. reflexivity.
  - apply add_children_to_problem_same_lk.
Qed.

Lemma step_inv : forall g o, Inv g -> links_safe g o = true -> Inv (fst (step g o)).
Proof.
  intros g o V S. pose proof (step_other_same_lk g o) as K.
  destruct o; try (eapply Inv_same_lk; [exact K | exact V]); cbn [links_safe step] in *.
  - apply set_geom_inv. exact V.
  - apply iop_set_inv. exact V.
  - apply iop_in_inv. exact V.
  - apply iop_child_inv. exact V.
  - apply set_div_inv. exact V.
  - discriminate.
  - apply dedup_inv; [apply dedup_map_ok_spec; exact S | exact V].
  - discriminate.
Qed.

Lemma run_inv : forall ops g, Inv g -> all_safe links_safe g ops = true -> Inv (run g ops).
Proof.
  induction ops as [|o ops IH]; intros g V S; simpl in *; [exact V|].
  apply andb_true_iff in S. destruct S as [S1 S2]. apply IH; [apply step_inv; assumption | exact S2].
Qed.

(* a program of API operations: everything but the private pointer resolution and a side taken from
   another cell's tree (foreign_side_links) *)
Fixpoint no_relink (ops : list op) : bool :=
  match ops with
  | [] => true
  | Relink :: _ => false
  | SetSide _ _ _ _ _ :: _ => false
  | Dedup m :: r => andb (dedup_map_ok m) (no_relink r)
  | _ :: r => no_relink r
  end.
Lemma no_relink_all_safe : forall ops g, no_relink ops = true -> all_safe links_safe g ops = true.
Proof.
  induction ops as [|o ops IH]; intros g H; simpl in *; [reflexivity|].
  destruct o; simpl in *; try (apply IH; exact H); try discriminate.
  apply andb_true_iff in H. destruct H as [H1 H2]. rewrite H1. simpl. apply IH. exact H2.
Qed.

(* ---- a side taken from another cell's geometry *)
Lemma set_side_links : forall g c p sd c2 p2, Inv g -> LinksAll (fst (set_side g c p sd c2 p2)).
Proof.
  intros g c p sd c2 p2 V. unfold set_side.
  destruct (c_geom (cellf g c)) as [t|] eqn:Eg; [|apply V].
  destruct (c_geom (cellf g c2)) as [t2|]; [|apply V].
  destruct (node_at t p) as [parent|] eqn:Ep; [|apply V].
  destruct (node_at t (p ++ [sd])) as [old|]; [|apply V].
  destruct (node_at t2 p2) as [sub|]; [|apply V].
  assert (Ot : owned c t) by (apply (proj2 V); exact Eg).
  assert (Op : get_cp parent = Some c) by (apply owned_cp; apply (node_at_owned p c t parent Ot Ep)).
  rewrite Op. destruct (link_side g (Some c) sub) as [[g1 sub1] ok] eqn:E.
  apply link_side_spec in E. destruct E as (G & F & Lv & I & R & _).
  pose proof (LinksAll_grows _ _ G (proj1 V)) as L1. destruct ok; simpl; [|exact L1].
  intro x. destruct (Nat.eq_dec x c) as [->|N].
  - rewrite cellf_set_cell_same. intros h Hh isc. simpl in Hh. inversion Hh; subst h.
    assert (K : incl (leaves isc (replace_at t (p ++ [sd]) sub1)) (lst isc (cellf g1 c))).
    { eapply incl_tran; [apply replace_at_leaves|]. apply incl_app.
      - destruct (G c) as [_ Inc]. eapply incl_tran; [apply (cell_leaves_in g c t isc V Eg) | apply Inc].
      - rewrite Lv. apply (I eq_refl c eq_refl). }
    destruct isc; exact K.
  - rewrite cellf_set_cell_other by exact N. apply L1.
Qed.

Lemma quiet_op_same_lk : forall g o, quiet_op o = true -> same_lk g (fst (step g o)).
Proof.
  intros g o H. pose proof (step_other_same_lk g o) as K. destruct o; try discriminate; exact K.
Qed.
Lemma run_quiet : forall ops g, LinksAll g -> forallb quiet_op ops = true -> LinksAll (run g ops).
Proof.
  induction ops as [|o ops IH]; intros g L H; simpl in *; [exact L|].
  apply andb_true_iff in H. destruct H as [H1 H2]. apply IH; [|exact H2].
  eapply LinksAll_same_lk; [apply quiet_op_same_lk; exact H1 | exact L].
Qed.
Lemma run_app : forall a b g, run g (a ++ b) = run (run g a) b.
Proof. induction a as [|o a IH]; intros b g; simpl; [reflexivity | apply IH]. Qed.

Theorem foreign_side_links : forall ops1 c p sd c2 p2 ops2 g,
  Inv g -> no_relink ops1 = true -> forallb quiet_op ops2 = true ->
  LinksAll (run g (ops1 ++ SetSide c p sd c2 p2 :: ops2)).
Proof.
  intros ops1 c p sd c2 p2 ops2 g V N Q. rewrite run_app. simpl. apply run_quiet; [|exact Q].
  apply set_side_links. apply run_inv; [exact V | apply no_relink_all_safe; exact N].
Qed.


Lemma read_then_inv : forall g0 g,
  Raw g0 -> Linked g0 -> update_pointers g0 = (g, ROk) ->
  (forall x, ~ In x (coll g0 KCell) ->
     cell_ok (cellf g0 x) /\ forall h, c_geom (cellf g0 x) = Some h -> owned x h) -> Inv g.
Proof.
  intros g0 g R L H NM. split.
  - eapply read_then_links_all; eauto. intros x Hx. apply (NM x Hx).
  - destruct (update_pointers_spec g0 g R L H) as (_ & _ & _ & CC & O & W).
    intros c h Hh. destruct (in_dec Nat.eq_dec c (coll g0 KCell)) as [Hc|Hc].
    + apply (W c); [rewrite CC; exact Hc | exact Hh].
    + destruct (O c Hc) as [E1' _]. rewrite E1' in Hh. apply (NM c Hc). exact Hh.
Qed.
(* ================================================================ members stay linked; cells stay in a universe *)
Lemma iop_frameG : forall self g o other g' t' is_self ok,
  iop g o self other = (g', t', is_self, ok) -> frameG g g'.
Proof.
  intros self. induction self as [b d cp|l IHl cp|o' l IHl r IHr cp]; intros g o other g' t' is_self ok H.
  - simpl in H. inversion H; subst. apply frameG_refl.
  - simpl in H. inversion H; subst. apply frameG_refl.
  - destruct (is_leaf r) eqn:Elf.
    + destruct r as [rb rd rcp|rl rcp|ro rl rr rcp]; try discriminate. rewrite iop_leaf_eq in H.
      destruct (link_side g cp (Bin o (Leaf rb rd rcp) other None)) as [[g1 side] ok1] eqn:E.
      apply link_side_spec in E. destruct E as (_ & F & _). destruct ok1; inversion H; subst; exact F.
    + rewrite iop_bin_eq in H by exact Elf.
      destruct (iop g o r other) as [[[g1 r'] inner_self] ok0] eqn:E0. pose proof (IHr _ _ _ _ _ _ _ E0) as F0.
      cbv zeta in H. destruct ok0; [|inversion H; subst; exact F0].
      destruct (link_side g1 cp r') as [[g2 side] ok2] eqn:E2. apply link_side_spec in E2. destruct E2 as (_ & F2 & _).
      destruct ok2; [|inversion H; subst; eapply frameG_trans; eauto].
      destruct (add_children g2 cp other) as [g3 ok3] eqn:E3. apply add_children_spec in E3. destruct E3 as (_ & F3 & _).
      destruct ok3; inversion H; subst; (eapply frameG_trans; [exact F0|]; eapply frameG_trans; eauto).
Qed.

Lemma geometry_ops_frameG : forall g o,
  match o with
  | SetGeom _ _ | IopSet _ _ _ | IopIn _ _ _ _ | IopChild _ _ _ _ _ | SetDiv _ _ _ _ | SetSide _ _ _ _ _
  | SetMat _ _ | SetFill _ _ | SetFtr _ _ | SetSurfTr _ _ | SetNum _ _ _ => frameG g (fst (step g o))
  | _ => True
  end.
Proof.
  intros g o. destruct o; try exact I; cbn [step].
  - unfold set_geom. destruct (Nat.ltb 1 (uses_old e)); [apply frameG_refl|].
    destruct (eval_ex _ e) as [t|]; [|apply frameG_refl].
    destruct (link_geometry g c t) as [[g1 t'] ok] eqn:E. apply link_geometry_spec in E. destruct E as (_ & F & _).
    destruct ok; simpl; [|exact F]. eapply frameG_trans; [exact F | apply set_cell_frameG; reflexivity].
  - unfold iop_set. destruct (fresh_ex e) as [other|]; [|apply frameG_refl].
    destruct (c_geom (cellf g c)) as [t|]; [|apply frameG_refl].
    destruct (iop g o t other) as [[[g1 t1] is_self] ok] eqn:Ei. pose proof (iop_frameG _ _ _ _ _ _ _ _ Ei) as F1.
    destruct ok; simpl.
    + destruct (link_geometry g1 c t1) as [[g2 t2] ok2] eqn:E2. apply link_geometry_spec in E2.
      destruct E2 as (_ & F2 & _). pose proof (frameG_trans _ _ _ F1 F2) as F.
      destruct ok2; simpl; [eapply frameG_trans; [exact F | apply set_cell_frameG; reflexivity]|].
      destruct is_self; simpl; [eapply frameG_trans; [exact F | apply set_cell_frameG; reflexivity] | exact F].
    + eapply frameG_trans; [exact F1 | apply set_cell_frameG; reflexivity].
  - unfold iop_in. destruct (fresh_ex e) as [other|]; [|apply frameG_refl].
    destruct (c_geom (cellf g c)) as [t|]; [|apply frameG_refl].
    destruct (node_at t p) as [sub|]; [|apply frameG_refl].
    destruct (iop g o sub other) as [[[g1 sub1] is_self] ok] eqn:Ei. pose proof (iop_frameG _ _ _ _ _ _ _ _ Ei) as F1.
    simpl. eapply frameG_trans; [exact F1 | apply set_cell_frameG; reflexivity].
  - unfold iop_child. destruct (fresh_ex e) as [other|]; [|apply frameG_refl].
    destruct (c_geom (cellf g c)) as [t|]; [|apply frameG_refl].
    destruct (node_at t p) as [parent|]; [|apply frameG_refl].
    destruct (node_at t (p ++ [side])) as [sub|]; [|apply frameG_refl].
    destruct (iop g o sub other) as [[[g1 sub1] is_self] ok] eqn:Ei. pose proof (iop_frameG _ _ _ _ _ _ _ _ Ei) as F1.
    destruct ok; simpl; [|eapply frameG_trans; [exact F1 | apply set_cell_frameG; reflexivity]].
    destruct (link_side g1 (get_cp parent) sub1) as [[g2 sub2] ok2] eqn:E2. apply link_side_spec in E2.
    destruct E2 as (_ & F2 & _).
    destruct ok2; simpl; (eapply frameG_trans; [exact F1|]; eapply frameG_trans; [exact F2 | apply set_cell_frameG; reflexivity]).
  - unfold set_div. destruct (c_geom (cellf g c)) as [t|]; [|apply frameG_refl].
    destruct (node_at t p) as [[b dv cp|l cp|o l r cp]|]; try apply frameG_refl.
    destruct (negb (Bool.eqb b isc)); [apply frameG_refl|].
    destruct cp as [c'|]; [|apply set_cell_frameG; reflexivity].
    destruct (cell_add g c' isc d) as [g2 b2] eqn:E. apply cell_add_spec in E. destruct E as (_ & F & _).
    destruct b2; simpl; [|exact F]. eapply frameG_trans; [exact F | apply set_cell_frameG; reflexivity].
  - unfold set_side. destruct (c_geom (cellf g c)) as [t|]; [|apply frameG_refl].
    destruct (c_geom (cellf g c2)) as [t2|]; [|apply frameG_refl].
    destruct (node_at t p) as [parent|]; [|apply frameG_refl].
    destruct (node_at t (p ++ [side])) as [old|]; [|apply frameG_refl].
    destruct (node_at t2 p2) as [sub|]; [|apply frameG_refl].
    destruct (link_side g (get_cp parent) sub) as [[g1 sub1] ok] eqn:E. apply link_side_spec in E.
    destruct E as (_ & F & _). destruct ok; simpl; [|exact F].
    eapply frameG_trans; [exact F | apply set_cell_frameG; reflexivity].
  - apply set_cell_frameG. reflexivity.
  - apply set_cell_frameG. reflexivity.
  - apply set_cell_frameG. reflexivity.
  - repeat split; auto.
  - unfold set_number. destruct (n <=? 0)%Z; [apply frameG_refl|].
    destruct (andb _ _); [apply frameG_refl | repeat split; auto].
Qed.

(* ---- frames of remove_duplicate_surfaces (no hypothesis) *)
Lemma hs_dedup_frameG : forall h g m g' h' ok, hs_dedup g m h = (g', h', ok) -> frameG g g'.
Proof.
  intros h. induction h as [isc d cp|l IHl cp|o l IHl r IHr cp]; intros g m g' h' ok H; simpl in H.
  - destruct isc; [inversion H; subst; apply frameG_refl|].
    destruct d as [z|ob]; [inversion H; subst; apply frameG_refl|].
    destruct (assoc m ob) as [k|]; [|inversion H; subst; apply frameG_refl].
    destruct cp as [c|]; [|inversion H; subst; apply frameG_refl].
    destruct (cell_add g c false k) as [g1 b] eqn:E. apply cell_add_spec in E. destruct E as (_ & F & _).
    inversion H; subst. exact F.
  - destruct (hs_dedup g m l) as [[g1 l'] ok1] eqn:E. inversion H; subst. eapply IHl; exact E.
  - destruct (hs_dedup g m l) as [[g1 l'] ok1] eqn:E1. pose proof (IHl _ _ _ _ _ E1) as F1. destruct ok1.
    + destruct (hs_dedup g1 m r) as [[g2 r'] ok2] eqn:E2. pose proof (IHr _ _ _ _ _ E2) as F2.
      inversion H; subst. eapply frameG_trans; eauto.
    + inversion H; subst. exact F1.
Qed.
Lemma cell_dedup_frameG : forall g c m, frameG g (fst (cell_dedup g c m)).
Proof.
  intros g c m. unfold cell_dedup. destruct (filter _ m) as [|p0 mr] eqn:Em; [apply frameG_refl|]. rewrite <- Em. clear Em.
  destruct (c_geom (cellf g c)) as [t|]; [|apply frameG_refl].
  destruct (hs_dedup g _ t) as [[g1 t'] ok] eqn:E. pose proof (hs_dedup_frameG _ _ _ _ _ _ E) as F.
  assert (F2 : frameG g (set_cell g1 c (cr_geom (cellf g1 c) (Some t'))))
    by (eapply frameG_trans; [exact F | apply set_cell_frameG; reflexivity]).
  destruct ok; [|exact F2]. eapply frameG_trans; [exact F2|]. apply swap_lists_spec.
Qed.
Lemma cells_dedup_frameG : forall cs g m, frameG g (fst (cells_dedup g cs m)).
Proof.
  induction cs as [|c cs IH]; intros g m; simpl; [apply frameG_refl|].
  pose proof (cell_dedup_frameG g c m) as F1. destruct (cell_dedup g c m) as [g1 r]. simpl in F1.
  destruct r; [eapply frameG_trans; [exact F1 | apply IH] | exact F1].
Qed.

Lemma coll_set_coll : forall g k l k', coll (set_coll g k l) k' = if kind_eqb k' k then l else coll g k'.
Proof. reflexivity. Qed.

Lemma Linked_set_coll : forall g k l,
  Linked g -> (forall o, In o l -> plink g k o = true) -> Linked (set_coll g k l).
Proof.
  intros g k l [L1 L2] H. split; [|exact L2]. intros k' o Ho. rewrite coll_set_coll in Ho.
  change (plink (set_coll g k l) k' o) with (plink g k' o).
  destruct (kind_eqb k' k) eqn:E; [apply kind_eqb_eq in E; subst; apply H; exact Ho | apply L1; exact Ho].
Qed.

Lemma extend_linked : forall g k l, Linked g -> Linked (link_if (set_coll g k (coll g k ++ l)) k l).
Proof.
  intros g k l [L1 L2]. unfold link_if. change (clinked (set_coll g k (coll g k ++ l)) k) with (clinked g k).
  rewrite L2. destruct (link_all_spec l (set_coll g k (coll g k ++ l)) k) as (A & B & C & D & E).
  split.
  - intros k' o Ho. rewrite A in Ho. rewrite coll_set_coll in Ho. destruct (kind_eqb k' k) eqn:Ek.
    + apply kind_eqb_eq in Ek. subst k'. apply in_app_or in Ho. destruct Ho as [Ho|Ho].
      * apply C. apply L1. exact Ho.
      * apply D. exact Ho.
    + apply C. apply L1. exact Ho.
  - intro k'. rewrite B. apply L2.
Qed.

Lemma Linked_set_cell : forall g c r, Linked g -> Linked (set_cell g c r).
Proof. intros g c r L. exact L. Qed.

Lemma add_children_linked : forall g, Linked g -> Linked (fst (add_children_to_problem g)).
Proof.
  intros g [L1 L2]. unfold add_children_to_problem. destruct (orb _ _); [split; assumption|]. cbv zeta. cbn [fst].
  set (ss := sort_by (num g KSurf) (nodup_o (coll g KSurf ++ used_surfs g) [])).
  set (ms := sort_by (num g KMat) (nodup_o (coll g KMat ++ used_mats g) [])).
  set (ts := sort_by (num g KTr) (nodup_o (coll g KTr ++ used_trs g) [])).
  set (g2 := set_clinked (set_clinked (set_clinked (set_coll (set_coll (set_coll g KSurf ss) KMat ms) KTr ts)
                                                    KSurf true) KMat true) KTr true).
  destruct (link_all_spec ss g2 KSurf) as (A1 & A2 & A3 & A4 & _).
  destruct (link_all_spec ms (link_all g2 KSurf ss) KMat) as (B1 & B2 & B3 & B4 & _).
  destruct (link_all_spec ts (link_all (link_all g2 KSurf ss) KMat ms) KTr) as (C1 & C2 & C3 & C4 & _).
  split.
  - intros k o Ho. cbn [set_dins coll plink] in *. rewrite C1, B1, A1 in Ho.
    destruct k; cbn in Ho.
    + apply C3, B3, A3. apply L1. exact Ho.
    + apply C3, B3. apply A4. exact Ho.
    + apply C3. apply B4. exact Ho.
    + apply C4. exact Ho.
    + apply C3, B3, A3. apply L1. exact Ho.
  - intro k. cbn [set_dins clinked]. rewrite C2, B2, A2. destruct k; cbn; try reflexivity; apply L2.
Qed.

Lemma remove_members_linked : forall dead g, Linked g -> Linked (fst (remove_members g dead)).
Proof.
  induction dead as [|d dead IH]; intros g L; simpl; [exact L|].
  unfold remove. destruct (mem_o d (coll g KSurf)); [|exact L]. apply IH.
  apply Linked_set_coll; [exact L|]. intros x Hx. destruct L as [L1 _]. apply L1. apply (remove_first_incl d). exact Hx.
Qed.

Lemma dedup_linked : forall g m, Linked g -> Linked (fst (dedup g m)).
Proof.
  intros g m L. unfold dedup. pose proof (cells_dedup_frameG (coll g KCell) g m) as F.
  destruct (cells_dedup g (coll g KCell) m) as [g1 r]. simpl in F. pose proof (Linked_frameG _ _ F L) as L1.
  destruct r; [|exact L1]. apply remove_members_linked.
  eapply Linked_frameG; [apply same_core_frameG, repoint_periodic_core | exact L1].
Qed.

Lemma step_linked : forall g o, Linked g -> linked_safe g o = true -> Linked (fst (step g o)).
Proof.
  intros g o L S. pose proof (geometry_ops_frameG g o) as K.
  destruct o; try discriminate; try (eapply Linked_frameG; [exact K | exact L]); cbn [step].
  - apply Linked_set_cell. exact L.
  - unfold append. destruct (mem_Z _ _); [exact L|]. apply (extend_linked g k [o] L).
  - unfold remove. destruct (mem_o o (coll g k)); [|exact L]. simpl.
    apply Linked_set_coll; [exact L|]. intros x Hx. destruct L as [L1 _]. apply L1.
    apply (remove_first_incl o). exact Hx.
  - unfold extend. destruct (clash _ _ _ _); [exact L|]. apply extend_linked. exact L.
  - unfold extend. destruct (clash _ _ _ _); [exact L|]. apply extend_linked. exact L.
  - apply add_children_linked. exact L.
  - apply dedup_linked. exact L.
Qed.

Lemma run_linked : forall ops g, Linked g -> all_safe linked_safe g ops = true -> Linked (run g ops).
Proof.
  induction ops as [|o ops IH]; intros g L S; simpl in *; [exact L|].
  apply andb_true_iff in S. destruct S as [S1 S2]. apply IH; [apply step_linked; assumption | exact S2].
Qed.

(* ---- UnivOK *)
Lemma has_univ_set_coll_other : forall g k l c,
  k <> KUniv -> has_univ g c -> has_univ (set_coll g k l) c.
Proof.
  intros g k l c N [u (E & M & P)]. exists u. split; [exact E|]. split; [|exact P].
  rewrite coll_set_coll. destruct k; try exact M. contradiction.
Qed.

Lemma link_if_frameG : forall g k l, frameG g (link_if g k l).
Proof. intros g k l. unfold link_if. destruct (clinked g k); [apply link_all_frameG | apply frameG_refl]. Qed.

Lemma in_member_universe_spec : forall g c, in_member_universe g c = true -> has_univ g c.
Proof.
  intros g c H. unfold in_member_universe in H. destruct (c_univ (cellf g c)) as [u|] eqn:E; [|discriminate].
  apply andb_true_iff in H. destruct H as [H1 H2]. apply mem_o_In in H1. exists u. auto.
Qed.

Lemma UnivOK_extend : forall g k l,
  UnivOK g -> (k = KCell -> forall x, In x l -> has_univ g x) ->
  UnivOK (link_if (set_coll g k (coll g k ++ l)) k l).
Proof.
  intros g k l U H. set (g1 := set_coll g k (coll g k ++ l)).
  assert (U1 : forall c, In c (coll g1 KCell) -> has_univ g1 c).
  { intros c Hc. unfold g1 in *. rewrite coll_set_coll in Hc.
    assert (Hg : has_univ g c).
    { destruct (kind_eqb KCell k) eqn:Ek.
      - apply kind_eqb_eq in Ek. subst k. apply in_app_or in Hc. destruct Hc as [Hc|Hc]; [apply U; exact Hc | apply H; auto].
      - apply U. exact Hc. }
    destruct Hg as [u (E & M & P)]. exists u. split; [exact E|]. split; [|exact P].
    rewrite coll_set_coll. destruct (kind_eqb KUniv k) eqn:Ek2; [|exact M].
    apply kind_eqb_eq in Ek2. subst k. apply in_or_app; left; exact M. }
  intros c Hc. pose proof (link_if_frameG g1 k l) as F. destruct F as (A1 & A2 & A3 & A4).
  rewrite A1 in Hc. eapply has_univ_frameG; [apply link_if_frameG | apply U1; exact Hc].
Qed.

Lemma add_children_to_problem_frameU : forall g,
  let g' := fst (add_children_to_problem g) in
  (forall c, c_univ (cellf g' c) = c_univ (cellf g c)) /\ (coll g' KCell = coll g KCell) /\ (coll g' KUniv = coll g KUniv) /\
  (forall k o, plink g k o = true -> plink g' k o = true).
Proof.
  intro g. unfold add_children_to_problem. destruct (orb _ _); [repeat split; auto|]. cbv zeta. cbn [fst].
  set (ss := sort_by (num g KSurf) (nodup_o (coll g KSurf ++ used_surfs g) [])).
  set (ms := sort_by (num g KMat) (nodup_o (coll g KMat ++ used_mats g) [])).
  set (ts := sort_by (num g KTr) (nodup_o (coll g KTr ++ used_trs g) [])).
  set (g2 := set_clinked (set_clinked (set_clinked (set_coll (set_coll (set_coll g KSurf ss) KMat ms) KTr ts)
                                                    KSurf true) KMat true) KTr true).
  destruct (link_all_spec ss g2 KSurf) as (A1 & A2 & A3 & A4 & A5).
  destruct (link_all_spec ms (link_all g2 KSurf ss) KMat) as (B1 & B2 & B3 & B4 & B5).
  destruct (link_all_spec ts (link_all (link_all g2 KSurf ss) KMat ms) KTr) as (C1 & C2 & C3 & C4 & C5).
  cbn [set_dins coll plink cellf]. split; [|split; [|split]].
  - intro c. rewrite C5, B5, A5. reflexivity.
  - rewrite C1, B1, A1. reflexivity.
  - rewrite C1, B1, A1. reflexivity.
  - intros k o H. apply C3, B3, A3. exact H.
Qed.

Lemma remove_members_univ : forall dead g, UnivOK g -> UnivOK (fst (remove_members g dead)).
Proof.
  induction dead as [|d dead IH]; intros g U; simpl; [exact U|].
  unfold remove. destruct (mem_o d (coll g KSurf)); [|exact U]. apply IH.
  intros c Hc. destruct (U c Hc) as [u (E & M & P)]. exists u. auto.
Qed.

Lemma dedup_univ : forall g m, UnivOK g -> UnivOK (fst (dedup g m)).
Proof.
  intros g m U. unfold dedup. pose proof (cells_dedup_frameG (coll g KCell) g m) as F.
  destruct (cells_dedup g (coll g KCell) m) as [g1 r]. simpl in F. pose proof (UnivOK_frameG _ _ F U) as U1.
  destruct r; [|exact U1]. apply remove_members_univ.
  eapply UnivOK_frameG; [apply same_core_frameG, repoint_periodic_core | exact U1].
Qed.

Lemma step_univ : forall g o, UnivOK g -> univ_safe g o = true -> UnivOK (fst (step g o)).
Proof.
  intros g o U S. pose proof (geometry_ops_frameG g o) as K.
  destruct o; try discriminate; try (eapply UnivOK_frameG; [exact K | exact U]); cbn [step fst].
  - (* SetUniv *) cbn [univ_safe] in S. apply andb_true_iff in S. destruct S as [S1 S2]. apply mem_o_In in S1.
    intros x Hx. rewrite coll_set_cell in Hx. destruct (Nat.eq_dec x c) as [->|N].
    + exists u. rewrite cellf_set_cell_same. auto.
    + destruct (U x Hx) as [u' (E & M & P)]. exists u'. rewrite cellf_set_cell_other by exact N. auto.
  - (* Append *) unfold append. destruct (mem_Z _ _); [exact U|]. apply UnivOK_extend; [exact U|].
    intros -> x [<-|[]]. cbn [univ_safe] in S. apply in_member_universe_spec. exact S.
  - (* Remove *) unfold remove. destruct (mem_o o (coll g k)); [|exact U]. simpl.
    intros c Hc. rewrite coll_set_coll in Hc.
    assert (Hc' : In c (coll g KCell)).
    { destruct (kind_eqb KCell k) eqn:Ek0; [apply kind_eqb_eq in Ek0; subst k; apply (remove_first_incl o); exact Hc | exact Hc]. }
    destruct (U c Hc') as [u (E & M & P)]. exists u. split; [exact E|]. split; [|exact P].
    rewrite coll_set_coll. destruct (kind_eqb KUniv k) eqn:Ek; [|exact M].
    apply kind_eqb_eq in Ek. subst k. cbn [univ_safe] in S. apply negb_true_iff in S.
    apply remove_first_other; [|exact M]. intro; subst u.
    assert (X : existsb (fun c0 => opt_is (c_univ (cellf g c0)) o) (coll g KCell) = true).
    { apply existsb_exists. exists c. split; [exact Hc'|]. rewrite E. simpl. apply Nat.eqb_refl. }
    rewrite X in S. discriminate.
  - (* Extend *) unfold extend. destruct (clash _ _ _ _); [exact U|]. apply UnivOK_extend; [exact U|].
    intros -> x Hx. cbn [univ_safe] in S. apply in_member_universe_spec. rewrite forallb_forall in S. apply S. exact Hx.
  - (* Iadd *) unfold extend. destruct (clash _ _ _ _); [exact U|]. apply UnivOK_extend; [exact U|].
    intros -> x Hx. cbn [univ_safe] in S. apply in_member_universe_spec. rewrite forallb_forall in S. apply S. exact Hx.
  - (* AddChildren *) destruct (add_children_to_problem_frameU g) as (A & B & C & D).
    intros c Hc. rewrite B in Hc. destruct (U c Hc) as [u (E & M & P)]. exists u. rewrite A, C. auto.
  - (* Dedup *) apply dedup_univ. exact U.
Qed.

Lemma run_univ : forall ops g, UnivOK g -> all_safe univ_safe g ops = true -> UnivOK (run g ops).
Proof.
  induction ops as [|o ops IH]; intros g L S; simpl in *; [exact L|].
  apply andb_true_iff in S. destruct S as [S1 S2]. apply IH; [apply step_univ; assumption | exact S2].
Qed.

(* ================================================================ reverse look-ups *)
Lemma surface_cells_spec : forall g s c, plink g KSurf s = true ->
  (In c (surface_cells g s) <-> In c (coll g KCell) /\ In s (c_surfs (cellf g c))).
Proof.
  intros g s c P. unfold surface_cells. rewrite P. rewrite filter_In. rewrite mem_o_In. tauto.
Qed.
Lemma material_cells_spec : forall g m c, plink g KMat m = true ->
  (In c (material_cells g m) <-> In c (coll g KCell) /\ c_mat (cellf g c) = Some m).
Proof.
  intros g m c P. unfold material_cells. rewrite P. rewrite filter_In. rewrite opt_is_true. tauto.
Qed.
Lemma universe_cells_spec : forall g u c, plink g KUniv u = true ->
  (In c (universe_cells g u) <-> In c (coll g KCell) /\ c_univ (cellf g c) = Some u).
Proof.
  intros g u c P. unfold universe_cells. rewrite P. rewrite filter_In. rewrite opt_is_true. tauto.
Qed.
Lemma complementing_spec : forall g c c', plink g KCell c = true ->
  (In c' (complementing g c) <-> In c' (coll g KCell) /\ c' <> c /\ In c (c_comps (cellf g c'))).
Proof.
  intros g c c' P. unfold complementing. rewrite P. rewrite filter_In. rewrite andb_true_iff, negb_true_iff, mem_o_In.
  rewrite Nat.eqb_neq. tauto.
Qed.

(* the generators are exactly the filters over the forward links for every member of a problem
   whose members are linked *)
Lemma reverse_lookups : forall g, Linked g ->
  (forall s, In s (coll g KSurf) ->
     surface_cells g s = filter (fun c => mem_o s (c_surfs (cellf g c))) (coll g KCell)) /\
  (forall m, In m (coll g KMat) ->
     material_cells g m = filter (fun c => opt_is (c_mat (cellf g c)) m) (coll g KCell)) /\
  (forall u, In u (coll g KUniv) ->
     universe_cells g u = filter (fun c => opt_is (c_univ (cellf g c)) u) (coll g KCell)) /\
  (forall c, In c (coll g KCell) ->
     complementing g c =
     filter (fun c' => andb (negb (Nat.eqb c' c)) (mem_o c (c_comps (cellf g c')))) (coll g KCell)).
Proof.
  intros g [L _]. repeat split; intros x Hx.
  - unfold surface_cells. rewrite (L KSurf x Hx). reflexivity.
  - unfold material_cells. rewrite (L KMat x Hx). reflexivity.
  - unfold universe_cells. rewrite (L KUniv x Hx). reflexivity.
  - unfold complementing. rewrite (L KCell x Hx). reflexivity.
Qed.

Lemma reverse_membership : forall g, Linked g ->
  (forall s c, In s (coll g KSurf) ->
     (In c (surface_cells g s) <-> In c (coll g KCell) /\ In s (c_surfs (cellf g c)))) /\
  (forall m c, In m (coll g KMat) ->
     (In c (material_cells g m) <-> In c (coll g KCell) /\ c_mat (cellf g c) = Some m)) /\
  (forall u c, In u (coll g KUniv) ->
     (In c (universe_cells g u) <-> In c (coll g KCell) /\ c_univ (cellf g c) = Some u)) /\
  (forall c c', In c (coll g KCell) ->
     (In c' (complementing g c) <-> In c' (coll g KCell) /\ c' <> c /\ In c (c_comps (cellf g c')))).
Proof.
  intros g [L _]. split; [|split; [|split]]; intros x y Hx.
  - apply surface_cells_spec. apply L. exact Hx.
  - apply material_cells_spec. apply L. exact Hx.
  - apply universe_cells_spec. apply L. exact Hx.
  - apply complementing_spec. apply L. exact Hx.
Qed.

(* every member cell is yielded by exactly one universe of the problem *)
Lemma one_universe : forall g, UnivOK g ->
  forall c, In c (coll g KCell) ->
    exists u, In u (coll g KUniv) /\ forall u', In c (universe_cells g u') <-> u' = u.
Proof.
  intros g U c Hc. destruct (U c Hc) as [u (E & M & P)]. exists u. split; [exact M|]. intro u'. split.
  - intro H. unfold universe_cells in H. destruct (plink g KUniv u'); [|destruct H].
    apply filter_In in H. destruct H as [_ H]. rewrite E in H. simpl in H. apply Nat.eqb_eq in H. auto.
  - intros ->. apply universe_cells_spec; auto.
Qed.

(* an object that is not linked to the problem yields nothing *)
Lemma unlinked_yields_nothing : forall g,
  (forall s, plink g KSurf s = false -> surface_cells g s = []) /\
  (forall m, plink g KMat m = false -> material_cells g m = []) /\
  (forall u, plink g KUniv u = false -> universe_cells g u = []) /\
  (forall c, plink g KCell c = false -> complementing g c = []).
Proof.
  intro g. repeat split; intros x H.
  - unfold surface_cells. rewrite H. reflexivity.
  - unfold material_cells. rewrite H. reflexivity.
  - unfold universe_cells. rewrite H. reflexivity.
  - unfold complementing. rewrite H. reflexivity.
Qed.

(* ================================================================ add_cell_children_to_problem *)
Lemma insert_by_In : forall key o l x, In x (insert_by key o l) <-> x = o \/ In x l.
Proof.
  intros key o l x. induction l as [|y l IH]; simpl; [intuition|].
  destruct (key o <? key y)%Z; simpl; [intuition|]. rewrite IH. intuition.
Qed.
Lemma sort_by_In : forall key l x, In x (sort_by key l) <-> In x l.
Proof.
  intros key l x. induction l as [|y l IH]; simpl; [tauto|]. rewrite insert_by_In, IH. intuition.
Qed.
Lemma sorted_nodup_In : forall key l x, In x l -> In x (sort_by key (nodup_o l [])).
Proof.
  intros key l x H. apply sort_by_In. destruct (nodup_o_In l [] x H) as [[]|K]. exact K.
Qed.

Lemma ditem_eqb_eq : forall a b, ditem_eqb a b = true -> a = b.
Proof.
  intros [x|x|x|? ? ?] [y|y|y|? ? ?]; simpl; intro H; try discriminate; apply Nat.eqb_eq in H; subst; reflexivity.
Qed.
Lemma dnodup_In : forall l seen x, In x l -> existsb (ditem_eqb x) seen = true \/ In x (dnodup l seen).
Proof.
  induction l as [|y l IH]; intros seen x H; simpl; [destruct H|].
  destruct (existsb (ditem_eqb y) seen) eqn:M.
  - destruct H as [<-|H]; [left; exact M | apply IH; exact H].
  - destruct H as [<-|H]; [right; left; reflexivity|].
    destruct (IH (y :: seen) x H) as [K|K]; [|right; right; exact K].
    simpl in K. apply orb_true_iff in K. destruct K as [K|K]; [|left; exact K].
    apply ditem_eqb_eq in K. subst. right. left. reflexivity.
Qed.
Lemma dinsert_In : forall g d l x, In x (dinsert g d l) <-> x = d \/ In x l.
Proof.
  intros g d l x. induction l as [|y l IH]; simpl; [intuition|].
  destruct (dlt _ _); simpl; [intuition|]. rewrite IH. intuition.
Qed.
Lemma dsort_In : forall g l x, In x (dsort g l) <-> In x l.
Proof.
  intros g l x. induction l as [|y l IH]; simpl; [tauto|]. rewrite dinsert_In, IH. intuition.
Qed.

Lemma link_all_noncell : forall l g k, k <> KCell ->
  (forall c, cellf (link_all g k l) c = cellf g c) /\ (forall x, surff (link_all g k l) x = surff g x) /\
  dins (link_all g k l) = dins g.
Proof.
  induction l as [|o l IH]; intros g k N; simpl; [repeat split; reflexivity|].
  destruct (IH (link_obj g k o) k N) as (A & B & C).
  assert (E : link_obj g k o = set_plink g k o) by (destruct k; try reflexivity; contradiction).
  rewrite E in *. split; [|split].
  - intro c. rewrite A. reflexivity.
  - intro x. rewrite B. reflexivity.
  - rewrite C. reflexivity.
Qed.

Theorem children_spec : forall g g' r,
  add_children_to_problem g = (g', r) ->
  (r = RErr NumberConflict /\ g' = g) \/
  (r = ROk /\
   incl (used_surfs g') (coll g' KSurf) /\ incl (used_mats g') (coll g' KMat) /\ incl (used_trs g') (coll g' KTr) /\
   (forall m, In m (coll g' KMat) -> In (DMat m) (dins g')) /\
   (forall t, In t (coll g' KTr) -> In (DTr t) (dins g')) /\
   (forall s, In s (coll g' KSurf) -> plink g' KSurf s = true) /\
   (forall m, In m (coll g' KMat) -> plink g' KMat m = true) /\
   (forall t, In t (coll g' KTr) -> plink g' KTr t = true)).
Proof.
  intros g g' r H. unfold add_children_to_problem in H. destruct (orb _ _); [left; inversion H; auto|].
  right. cbv zeta in H.
  set (ss := sort_by (num g KSurf) (nodup_o (coll g KSurf ++ used_surfs g) [])) in *.
  set (ms := sort_by (num g KMat) (nodup_o (coll g KMat ++ used_mats g) [])) in *.
  set (ts := sort_by (num g KTr) (nodup_o (coll g KTr ++ used_trs g) [])) in *.
  set (g2 := set_clinked (set_clinked (set_clinked (set_coll (set_coll (set_coll g KSurf ss) KMat ms) KTr ts)
                                                    KSurf true) KMat true) KTr true) in *.
  set (gA := link_all g2 KSurf ss) in *. set (gB := link_all gA KMat ms) in *. set (gC := link_all gB KTr ts) in *.
  destruct (link_all_spec ss g2 KSurf) as (A1 & A2 & A3 & A4 & _). fold gA in A1, A2, A3, A4.
  destruct (link_all_spec ms gA KMat) as (B1 & B2 & B3 & B4 & _). fold gB in B1, B2, B3, B4.
  destruct (link_all_spec ts gB KTr) as (C1 & C2 & C3 & C4 & _). fold gC in C1, C2, C3, C4.
  destruct (link_all_noncell ss g2 KSurf ltac:(discriminate)) as (NA1 & NA2 & NA3). fold gA in NA1, NA2, NA3.
  destruct (link_all_noncell ms gA KMat ltac:(discriminate)) as (NB1 & NB2 & NB3). fold gB in NB1, NB2, NB3.
  destruct (link_all_noncell ts gB KTr ltac:(discriminate)) as (NC1 & NC2 & NC3). fold gC in NC1, NC2, NC3.
  inversion H; subst; clear H. split; [reflexivity|].
  assert (Ecell : forall c, cellf gC c = cellf g c) by (intro c; rewrite NC1, NB1, NA1; reflexivity).
  assert (Esurf : forall x, surff gC x = surff g x) by (intro x; rewrite NC2, NB2, NA2; reflexivity).
  assert (Ck : forall k, coll gC k = coll g2 k) by (intro k; rewrite C1, B1, A1; reflexivity).
  assert (Us : used_surfs (set_dins gC (dsort gC (dnodup (dins gC ++ map DMat ms ++ map DTr ts) []))) = used_surfs g).
  { unfold used_surfs, member_cells. cbn [set_dins coll cellf]. rewrite Ck. cbn [g2 set_clinked set_coll coll]. simpl.
    f_equal. apply map_ext. exact Ecell. }
  assert (Um : used_mats (set_dins gC (dsort gC (dnodup (dins gC ++ map DMat ms ++ map DTr ts) []))) = used_mats g).
  { unfold used_mats, member_cells. cbn [set_dins coll cellf]. rewrite Ck. simpl. f_equal. apply map_ext. exact Ecell. }
  assert (Ut : used_trs (set_dins gC (dsort gC (dnodup (dins gC ++ map DMat ms ++ map DTr ts) []))) = used_trs g).
  { unfold used_trs. rewrite Us. cbn [set_dins surff]. apply flat_map_ext. intro x. rewrite Esurf. reflexivity. }
  cbn [set_dins coll dins plink]. rewrite !Ck. cbn [g2 set_clinked set_coll coll]. simpl.
  split; [|split; [|split; [|split; [|split; [|split; [|split]]]]]].
  - rewrite Us. intros x Hx. apply sorted_nodup_In. apply in_or_app. right. exact Hx.
  - rewrite Um. intros x Hx. apply sorted_nodup_In. apply in_or_app. right. exact Hx.
  - rewrite Ut. intros x Hx. apply sorted_nodup_In. apply in_or_app. right. exact Hx.
  - intros x Hx. apply dsort_In.
    match goal with |- In ?d (dnodup ?l []) => destruct (dnodup_In l [] d) as [K|K]; [|discriminate K|exact K] end.
    apply in_or_app. right. apply in_or_app. left. apply in_map. exact Hx.
  - intros x Hx. apply dsort_In.
    match goal with |- In ?d (dnodup ?l []) => destruct (dnodup_In l [] d) as [K|K]; [|discriminate K|exact K] end.
    apply in_or_app. right. apply in_or_app. right. apply in_map. exact Hx.
  - intros x Hx. apply C3, B3. apply A4. exact Hx.
  - intros x Hx. apply C3. apply B4. exact Hx.
  - intros x Hx. apply C4. exact Hx.
Qed.

(* ================================================================ decidable versions, used for the witnesses *)
Definition cell_okb (r : cellr) : bool :=
  match c_geom r with
  | None => true
  | Some h => andb (forallb (fun x => mem_o x (c_surfs r)) (leaves false h))
                   (forallb (fun x => mem_o x (c_comps r)) (leaves true h))
  end.
Lemma cell_okb_spec : forall r, cell_okb r = true <-> cell_ok r.
Proof.
  intro r. unfold cell_okb, cell_ok. destruct (c_geom r) as [h|].
  - rewrite andb_true_iff, !forallb_forall. split.
    + intros [A B] h' Hh isc x Hx. inversion Hh; subst h'. destruct isc; simpl; apply mem_o_In; auto.
    + intro K. split; intros x Hx; apply mem_o_In; [apply (K h eq_refl false x Hx) | apply (K h eq_refl true x Hx)].
  - split; [intros _ h' Hh; discriminate | reflexivity].
Qed.
Lemma cell_okb_false : forall r, cell_okb r = false -> ~ cell_ok r.
Proof. intros r H K. apply cell_okb_spec in K. rewrite K in H. discriminate. Qed.

(* ================================================================ witnesses
   A small problem as the parser leaves it: cells 1 and 2, surfaces 1 2 3, materials 1 2
   (object o has number o+1).   1 1 -1.0 1 2      2 0 3 #1 *)
Definition wcell (h : hs) (oldmat : Z) : cellr :=
  mkcell (Some h) [] [] true None oldmat None None None None None None false.
Definition wit_raw : st :=
  mkst (fun _ o => Z.of_nat (S o)) (fun _ o => Nat.ltb o 3)
       (fun k => match k with KCell => [0; 1] | KSurf => [0; 1; 2] | KMat => [0; 1] | _ => [] end)%nat
       (fun _ => true) [DMat 0%nat; DMat 1%nat]
       (fun c => match c with
                 | 0%nat => wcell (Bin OAnd (Leaf false (DInt 1) None) (Leaf false (DInt 2) None) None) 1
                 | 1%nat => wcell (Bin OAnd (Leaf false (DInt 3) None) (Un (Leaf true (DInt 1) None) None) None) 0
                 | _ => blank_cell end)
       (fun _ => blank_surf) (fun _ => None) (fun _ => mkmt None 0%Z) None None false false 0%nat (0%Z, 1%Z, 2%Z).
(* the problem after reading *)
Definition wit : st := fst (update_pointers wit_raw).

Lemma wit_raw_Raw : Raw wit_raw.
Proof.
  split.
  - simpl. repeat constructor; simpl; intuition; discriminate.
  - intros c Hc h Hh. simpl in Hc. destruct Hc as [<-|[<-|[]]]; simpl in Hh; inversion Hh; subst; simpl; auto.
Qed.
Lemma wit_raw_Linked : Linked wit_raw.
Proof.
  split; [|reflexivity]. intros k o H. destruct k; simpl in H; intuition; subst; reflexivity.
Qed.
Lemma wit_read_ok : update_pointers wit_raw = (wit, ROk).
Proof.
  unfold wit. destruct (update_pointers wit_raw) as [g r] eqn:E. simpl.
  assert (R : snd (update_pointers wit_raw) = ROk) by (vm_compute; reflexivity).
  rewrite E in R. simpl in R. subst. reflexivity.
Qed.
Lemma wit_props : LinksExact wit /\ Linked wit /\ UnivOK wit /\ coll wit KCell = coll wit_raw KCell.
Proof.
  destruct (update_pointers_spec wit_raw wit wit_raw_Raw wit_raw_Linked wit_read_ok) as (A & B & C & D & _).
  auto.
Qed.

Lemma wit_Inv : Inv wit.
Proof.
  apply (read_then_inv wit_raw wit wit_raw_Raw wit_raw_Linked wit_read_ok).
  intros x Hx. destruct x as [|[|x]].
  - exfalso. apply Hx. simpl. auto.
  - exfalso. apply Hx. simpl. auto.
  - split; [intros h Hh; discriminate | intros h Hh; discriminate].
Qed.
Lemma wit_LinksAll : LinksAll wit.
Proof. apply wit_Inv. Qed.

(* a new Cell() appended to problem.cells is in no universe *)
Lemma append_breaks_univ :
  snd (step wit (Append KCell 7%nat)) = ROk /\ ~ UnivOK (run wit [Append KCell 7%nat]).
Proof.
  split; [vm_compute; reflexivity|]. intro U.
  assert (A : In 7%nat (coll (run wit [Append KCell 7%nat]) KCell)) by (vm_compute; auto).
  destruct (U _ A) as [u (E & _)]. vm_compute in E. discriminate.
Qed.

(* a program that uses every kind of operation, among them the ones that used to break the links:
   an in-place operator on a node whose right side is a leaf, a divider replaced on a leaf of an
   assigned tree, add_cell_children_to_problem, remove_duplicate_surfaces with a real merge *)
Definition wit_safe_ops : list op :=
  [SetGeom 0%nat (EOr EOld (ESurf 2%nat)); IopSet 1%nat OAnd (ENot (ESurf 5%nat)); SetDiv 1%nat [false] false 1%nat;
   IopIn 1%nat [] OOr (ECell 0%nat); IopIn 0%nat [false] OAnd (ESurf 6%nat);
   SetGeom 0%nat (EAnd (ESurf 0%nat) (ESurf 1%nat)); SetDiv 0%nat [false] false 2%nat;
   IopChild 0%nat [] true OOr (ESurf 0%nat);
   SetMat 1%nat (Some 1%nat); SetNum KSurf 0%nat 9; AddChildren; Dedup [(2%nat, 0%nat)]; Append KSurf 7%nat].
Lemma wit_safe_ops_safe :
  no_relink wit_safe_ops = true /\
  all_safe links_safe wit wit_safe_ops = true /\ all_safe linked_safe wit wit_safe_ops = true /\
  all_safe univ_safe wit wit_safe_ops = true.
Proof. repeat split; vm_compute; reflexivity. Qed.
(* ... and it is not a sequence of refused operations: the lists did change *)
Lemma wit_safe_ops_effect :
  c_surfs (cellf wit 0%nat) = [0%nat; 1%nat] /\
  c_surfs (cellf (run wit wit_safe_ops) 0%nat) <> c_surfs (cellf wit 0%nat) /\
  In 5%nat (coll (run wit wit_safe_ops) KSurf) /\ ~ In 2%nat (coll (run wit wit_safe_ops) KSurf).
Proof.
  split; [vm_compute; reflexivity|]. split; [vm_compute; discriminate|]. split; [vm_compute; auto 10|].
  vm_compute. intuition discriminate.
Qed.
(* ================================================================ C04: written references follow renumbering *)
Definition retarget (numf : kind -> oid -> Z) (w : src * slot * kind * oid) : src * slot * kind * Z :=
  let '(s, sl, k, o) := w in (s, sl, k, numf k o).

Fixpoint all_obj (h : hs) : Prop :=
  match h with
  | Leaf _ (DInt _) _ => False
  | Leaf _ (DObj _) _ => True
  | Un l _ => all_obj l
  | Bin _ l r _ => all_obj l /\ all_obj r
  end.
(* every divider of a member cell has been resolved to an object *)
Definition Resolved (g : st) : Prop :=
  forall c, In c (coll g KCell) -> forall h, c_geom (cellf g c) = Some h -> all_obj h.
(* numbers are unique inside every collection *)
Definition NumInj (g : st) : Prop := forall k, NoDup (map (num g k) (coll g k)).
(* universe 0 keeps its number, no other universe gets it *)
Definition uzero_same (g : st) (rho : kind -> oid -> Z) : Prop :=
  forall u, (rho KUniv u =? 0)%Z = (num g KUniv u =? 0)%Z.

Lemma map_flat_map : forall A B C (f : B -> C) (h : A -> list B) l,
  map f (flat_map h l) = flat_map (fun x => map f (h x)) l.
Proof. intros. induction l as [|x l IH]; simpl; [reflexivity|]. rewrite map_app, IH. reflexivity. Qed.
Lemma flat_map_ext_in : forall A B (f h : A -> list B) l,
  (forall x, In x l -> f x = h x) -> flat_map f l = flat_map h l.
Proof.
  intros A B f h l H. induction l as [|x l IH]; simpl; [reflexivity|].
  rewrite H by (left; reflexivity). rewrite IH; [reflexivity|]. intros y Hy. apply H. right. exact Hy.
Qed.

Lemma hs_written_targets : forall g h, all_obj h ->
  hs_written g h = map (fun p => (fst p, num g (fst p) (snd p))) (hs_targets h).
Proof.
  intros g h. induction h as [isc d cp|l IHl cp|o l IHl r IHr cp]; simpl; intro A.
  - destruct d; [destruct A | reflexivity].
  - apply IHl. exact A.
  - destruct A as [Al Ar]. rewrite map_app, IHl, IHr by assumption. reflexivity.
Qed.

Lemma cell_written_targets : forall g c,
  (forall h, c_geom (cellf g c) = Some h -> all_obj h) ->
  cell_written g c = map (retarget (num g)) (cell_targets g c).
Proof.
  intros g c A. unfold cell_written, cell_targets. rewrite !map_app. f_equal; [|f_equal; [|f_equal]].
  - destruct (c_geom (cellf g c)) as [h|]; [|reflexivity]. rewrite hs_written_targets by (apply A; reflexivity).
    rewrite !map_map. apply map_ext. intros [k o]. reflexivity.
  - destruct (c_mat (cellf g c)); reflexivity.
  - destruct (c_univ (cellf g c)) as [u|]; [|reflexivity]. simpl. destruct (num g KUniv u =? 0)%Z; reflexivity.
  - destruct (c_fill (cellf g c)) as [f|]; [|reflexivity]. simpl. f_equal.
    destruct (c_fparens (cellf g c)); [|reflexivity]. destruct (c_ftr (cellf g c)); reflexivity.
Qed.

Lemma written_is_retarget : forall g, Resolved g -> written_refs g = map (retarget (num g)) (resolve g).
Proof.
  intros g R. unfold written_refs, resolve. rewrite !map_app, !map_flat_map. f_equal; [|f_equal].
  - apply flat_map_ext_in. intros c Hc. apply cell_written_targets. apply R. exact Hc.
  - apply flat_map_ext_in. intros s _. unfold surf_written, surf_targets.
    destruct (s_tr (surff g s)); [reflexivity|]. destruct (s_per (surff g s)); reflexivity.
  - apply flat_map_ext_in. intros x _. unfold mt_written, mt_targets. destruct (t_parent (mtf g x)); reflexivity.
Qed.

Lemma resolve_renumber : forall g rho, uzero_same g rho -> resolve (renumber g rho) = resolve g.
Proof.
  intros g rho U. unfold resolve, renumber. f_equal. apply flat_map_ext_in. intros c _.
  unfold cell_targets. cbn [set_nums cellf num]. f_equal. f_equal. f_equal.
  destruct (c_univ (cellf g c)) as [u|]; [|reflexivity]. simpl. rewrite U. reflexivity.
Qed.

Theorem refs_follow : forall g rho, Resolved g -> uzero_same g rho ->
  written_refs g = map (retarget (num g)) (resolve g) /\
  written_refs (renumber g rho) = map (retarget rho) (resolve g) /\
  resolve (renumber g rho) = resolve g.
Proof.
  intros g rho R U. split; [apply written_is_retarget; exact R|]. split; [|apply resolve_renumber; exact U].
  rewrite written_is_retarget by exact R. rewrite resolve_renumber by exact U. reflexivity.
Qed.

(* own numbers of the written cards *)
Theorem own_numbers_renumber : forall g rho,
  own_numbers (renumber g rho) = map (fun w => let '(k, o, _) := w in (k, o, rho k o)) (own_numbers g).
Proof.
  intros g rho. unfold own_numbers, renumber. cbn [set_nums coll num dins]. rewrite !map_app, !map_map.
  f_equal. f_equal.
  rewrite map_flat_map. apply flat_map_ext_in. intros d _. destruct d; reflexivity.
Qed.

(* reading the written number back finds the same object *)
Lemma find_num_inj : forall numf l o, NoDup (map numf l) -> In o l -> find_num numf l (numf o) = Some o.
Proof.
  intros numf l o. induction l as [|x l IH]; intros N H; simpl; [destruct H|].
  inversion N as [|? ? Nx Nl]; subst. destruct H as [->|H]; [rewrite Z.eqb_refl; reflexivity|].
  destruct (numf x =? numf o)%Z eqn:E; [|apply IH; assumption].
  apply Z.eqb_eq in E. exfalso. apply Nx. rewrite E. apply in_map. exact H.
Qed.

Theorem reread_same_object : forall g rho, NumInj (renumber g rho) ->
  forall k o, In o (coll g k) -> lookup (renumber g rho) k (rho k o) = Some o.
Proof.
  intros g rho N k o H. unfold lookup. apply (find_num_inj (num (renumber g rho) k)); [apply N | exact H].
Qed.

(* ---- sequences of number assignments *)
Definition renum_safe (g : st) (o : op) : bool :=
  match o with
  | SetNum KUniv u _ => negb (num g KUniv u =? 0)%Z
  | SetNum _ _ _ => true
  | _ => false
  end.

(* everything but the numbers *)
Definition same_but_num (g g' : st) : Prop :=
  (forall k, coll g' k = coll g k) /\ (forall k o, plink g' k o = plink g k o) /\
  (forall k, clinked g' k = clinked g k) /\ dins g' = dins g /\ (forall c, cellf g' c = cellf g c) /\
  (forall s, surff g' s = surff g s) /\ (forall m, matf g' m = matf g m) /\ (forall x, mtf g' x = mtf g x).
Lemma same_but_num_refl : forall g, same_but_num g g.
Proof. intro g. repeat split; reflexivity. Qed.
Lemma same_but_num_trans : forall a b c, same_but_num a b -> same_but_num b c -> same_but_num a c.
Proof.
  intros a b c (A1 & A2 & A3 & A4 & A5 & A6 & A7 & A8) (B1 & B2 & B3 & B4 & B5 & B6 & B7 & B8).
  repeat split; intros; congruence.
Qed.

Lemma map_upd_In : forall (f : oid -> Z) o n l z,
  In z (map (upd f o n) l) -> (z = n /\ In o l) \/ (exists y, In y l /\ y <> o /\ z = f y).
Proof.
  intros f o n l z. induction l as [|x l IH]; simpl; [intros []|]. intros [H|H].
  - unfold upd in H. destruct (Nat.eqb x o) eqn:E.
    + apply Nat.eqb_eq in E. subst. left. auto.
    + apply Nat.eqb_neq in E. right. exists x. auto.
  - destruct (IH H) as [[A B]|[y (A & B & C)]]; [left; auto | right; exists y; auto].
Qed.

Lemma NoDup_map_upd : forall (f : oid -> Z) o n l,
  NoDup (map f l) -> ~ In n (map f l) -> NoDup (map (upd f o n) l).
Proof.
  intros f o n l. induction l as [|x l IH]; simpl; intros N H; [constructor|].
  inversion N as [|? ? Nx Nl]; subst. constructor.
  - intro K. apply map_upd_In in K. unfold upd in K. destruct (Nat.eqb x o) eqn:E.
    + apply Nat.eqb_eq in E. subst x. destruct K as [[_ B]|[y (A & B & C)]].
      * apply Nx. apply in_map. exact B.
      * apply H. right. rewrite C. apply in_map. exact A.
    + destruct K as [[A B]|[y (A & B & C)]].
      * apply H. left. exact A.
      * apply Nx. rewrite C. apply in_map. exact A.
  - apply IH; [exact Nl | intro K; apply H; right; exact K].
Qed.

Lemma map_upd_notin : forall (f : oid -> Z) o n l, ~ In o l -> map (upd f o n) l = map f l.
Proof.
  intros f o n l H. apply map_ext_in. intros x Hx. apply upd_other. intro; subst; contradiction.
Qed.

Lemma num_set_num : forall g k o n k',
  num (set_num g k o n) k' = if kind_eqb k' k then upd (num g k) o n else num g k'.
Proof. reflexivity. Qed.

Lemma set_number_spec : forall g k o n,
  let g' := fst (set_number g k o n) in
  same_but_num g g' /\
  (forall k' o', (k' <> k \/ o' <> o) -> num g' k' o' = num g k' o') /\
  (snd (set_number g k o n) = ROk -> num g' k o = n /\ (0 < n)%Z) /\
  (snd (set_number g k o n) <> ROk -> forall k' o', num g' k' o' = num g k' o').
Proof.
  intros g k o n. unfold set_number. destruct (n <=? 0)%Z eqn:En.
  - simpl. split; [apply same_but_num_refl|]. split; [reflexivity|]. split; [discriminate | reflexivity].
  - destruct (andb _ _); cbv zeta; cbn [fst snd].
    + split; [apply same_but_num_refl|]. split; [reflexivity|]. split; [discriminate | reflexivity].
    + split; [repeat split; reflexivity|]. split; [|split].
      * intros k' o' H. rewrite num_set_num. destruct (kind_eqb k' k) eqn:Ek; [|reflexivity].
        apply kind_eqb_eq in Ek. subst k'. destruct H as [H|H]; [contradiction | apply upd_other; exact H].
      * intros _. rewrite num_set_num, kind_eqb_refl. split; [apply upd_same | apply Z.leb_gt; exact En].
      * intro H. contradiction.
Qed.

Lemma set_number_inj : forall g k o n,
  NumInj g -> (forall x, In x (coll g k) -> plink g k x = true) -> NumInj (fst (set_number g k o n)).
Proof.
  intros g k o n N L. unfold set_number. destruct (n <=? 0)%Z; [exact N|].
  destruct (plink g k o) eqn:P; simpl andb.
  - destruct (mem_Z n (map (num g k) (coll g k))) eqn:M; [exact N|]. simpl.
    intro k'. change (coll (set_num g k o n) k') with (coll g k'). rewrite num_set_num.
    destruct (kind_eqb k' k) eqn:Ek; [|apply N]. apply kind_eqb_eq in Ek. subst k'.
    apply NoDup_map_upd; [apply N|]. intro K. apply mem_Z_In in K. rewrite K in M. discriminate.
  - simpl. intro k'. change (coll (set_num g k o n) k') with (coll g k'). rewrite num_set_num.
    destruct (kind_eqb k' k) eqn:Ek; [|apply N]. apply kind_eqb_eq in Ek. subst k'.
    rewrite map_upd_notin; [apply N|]. intro K. rewrite (L o K) in P. discriminate.
Qed.

Lemma resolve_same : forall g g', same_but_num g g' ->
  (forall u, (num g' KUniv u =? 0)%Z = (num g KUniv u =? 0)%Z) -> resolve g' = resolve g.
Proof.
  intros g g' (A1 & A2 & A3 & A4 & A5 & A6 & A7 & A8) U. unfold resolve. rewrite !A1, A4. f_equal; [|f_equal].
  - apply flat_map_ext_in. intros c _. unfold cell_targets. rewrite A5. f_equal. f_equal. f_equal.
    destruct (c_univ (cellf g c)) as [u|]; [|reflexivity]. simpl. rewrite U. reflexivity.
  - apply flat_map_ext_in. intros s _. unfold surf_targets. rewrite A6. reflexivity.
  - assert (E : forall d, ditem_mts g' d = ditem_mts g d) by (intros [m|x|t|? ? ?]; simpl; [rewrite A7|..]; reflexivity).
    rewrite (flat_map_ext_in _ _ (ditem_mts g') (ditem_mts g)) by (intros; apply E).
    apply flat_map_ext_in. intros x _. unfold mt_targets. rewrite A8. reflexivity.
Qed.

Lemma res_eq_dec_ok : forall r : res, r = ROk \/ r <> ROk.
Proof. intros [|e]; [left; reflexivity | right; discriminate]. Qed.

Lemma step_renum : forall g o, renum_safe g o = true -> NumInj g -> Linked g ->
  let g' := fst (step g o) in
  NumInj g' /\ Linked g' /\ same_but_num g g' /\ resolve g' = resolve g.
Proof.
  intros g o S N L. destruct o; try discriminate. cbn [step]. cbv zeta.
  destruct (set_number_spec g k o n) as (B & O & K1 & K2).
  split; [apply set_number_inj; [exact N | intros x Hx; apply L; exact Hx]|].
  split; [|split; [exact B|]].
  - destruct B as (B1 & B2 & B3 & _). destruct L as [L1 L2]. split.
    + intros k' x Hx. rewrite B1 in Hx. rewrite B2. apply L1. exact Hx.
    + intro k'. rewrite B3. apply L2.
  - apply resolve_same; [exact B|]. intro u.
    destruct (res_eq_dec_ok (snd (set_number g k o n))) as [E|E].
    + destruct (K1 E) as [Kn Kp]. destruct k; try (rewrite O by (left; discriminate); reflexivity).
      destruct (Nat.eq_dec u o) as [->|Nu]; [|rewrite O by (right; exact Nu); reflexivity].
      rewrite Kn. cbn [renum_safe] in S. apply negb_true_iff in S. rewrite S. apply Z.eqb_neq. lia.
    + rewrite K2 by exact E. reflexivity.
Qed.

Theorem run_renum : forall ops g, all_safe renum_safe g ops = true -> NumInj g -> Linked g ->
  NumInj (run g ops) /\ Linked (run g ops) /\ same_but_num g (run g ops) /\ resolve (run g ops) = resolve g.
Proof.
  induction ops as [|o ops IH]; intros g S N L; simpl in *.
  - split; [exact N|]. split; [exact L|]. split; [apply same_but_num_refl | reflexivity].
  - apply andb_true_iff in S. destruct S as [S1 S2].
    destruct (step_renum g o S1 N L) as (N1 & L1 & B1 & R1).
    destruct (IH _ S2 N1 L1) as (N2 & L2 & B2 & R2).
    split; [exact N2|]. split; [exact L2|]. split; [eapply same_but_num_trans; eauto | congruence].
Qed.

(* ---- a swap through a temporary number is accepted and swaps *)
Lemma set_number_accept : forall g k o n,
  (0 < n)%Z -> ~ In n (map (num g k) (coll g k)) -> set_number g k o n = (set_num g k o n, ROk).
Proof.
  intros g k o n P H. unfold set_number. destruct (n <=? 0)%Z eqn:E; [apply Z.leb_le in E; lia|].
  destruct (mem_Z n (map (num g k) (coll g k))) eqn:M; [apply mem_Z_In in M; contradiction|].
  rewrite andb_false_r. reflexivity.
Qed.

Lemma NoDup_map_inj : forall (f : oid -> Z) l x y, NoDup (map f l) -> In x l -> In y l -> f x = f y -> x = y.
Proof.
  intros f l. induction l as [|z l IH]; intros x y N Hx Hy E; [destruct Hx|].
  simpl in N. inversion N as [|? ? Nz Nl]; subst. destruct Hx as [->|Hx], Hy as [->|Hy].
  - reflexivity.
  - exfalso. apply Nz. rewrite E. apply in_map. exact Hy.
  - exfalso. apply Nz. rewrite <- E. apply in_map. exact Hx.
  - apply IH; assumption.
Qed.

Theorem swap_through_temporary : forall g k a b tmp,
  NumInj g -> In a (coll g k) -> In b (coll g k) -> a <> b ->
  (0 < num g k a)%Z -> (0 < num g k b)%Z -> (0 < tmp)%Z -> ~ In tmp (map (num g k) (coll g k)) ->
  let ops := [SetNum k a tmp; SetNum k b (num g k a); SetNum k a (num g k b)] in
  let g1 := fst (step g (SetNum k a tmp)) in
  let g2 := fst (step g1 (SetNum k b (num g k a))) in
  snd (step g (SetNum k a tmp)) = ROk /\ snd (step g1 (SetNum k b (num g k a))) = ROk /\
  snd (step g2 (SetNum k a (num g k b))) = ROk /\
  num (run g ops) k a = num g k b /\ num (run g ops) k b = num g k a /\
  (forall o, o <> a -> o <> b -> num (run g ops) k o = num g k o) /\
  (forall k' o, k' <> k -> num (run g ops) k' o = num g k' o).
Proof.
  intros g k a b tmp N Ha Hb Nab Pa Pb Pt Ht. cbv zeta. set (f := num g k) in *.
  assert (E1 : set_number g k a tmp = (set_num g k a tmp, ROk)) by (apply set_number_accept; assumption).
  set (g1 := set_num g k a tmp).
  assert (F1 : num g1 k = upd f a tmp) by (unfold g1; rewrite num_set_num, kind_eqb_refl; reflexivity).
  assert (H2 : ~ In (f a) (map (num g1 k) (coll g1 k))).
  { rewrite F1. change (coll g1 k) with (coll g k). intro K. apply map_upd_In in K.
    destruct K as [[A _]|[y (A & B & C)]].
    - apply Ht. rewrite <- A. apply in_map. exact Ha.
    - apply B. symmetry. apply (NoDup_map_inj f (coll g k)); [apply N | exact Ha | exact A | exact C]. }
  assert (E2 : set_number g1 k b (f a) = (set_num g1 k b (f a), ROk)) by (apply set_number_accept; assumption).
  set (g2 := set_num g1 k b (f a)).
  assert (F2 : num g2 k = upd (upd f a tmp) b (f a)).
  { unfold g2. rewrite num_set_num, kind_eqb_refl, F1. reflexivity. }
  assert (H3 : ~ In (f b) (map (num g2 k) (coll g2 k))).
  { rewrite F2. change (coll g2 k) with (coll g k). intro K. apply map_upd_In in K.
    destruct K as [[A _]|[y (A & B & C)]].
    - apply Nab. apply (NoDup_map_inj f (coll g k)); [apply N | exact Ha | exact Hb | symmetry; exact A].
    - unfold upd in C. destruct (Nat.eqb y a) eqn:Ey.
      + apply Ht. rewrite <- C. apply in_map. exact Hb.
      + apply B. symmetry. apply (NoDup_map_inj f (coll g k)); [apply N | exact Hb | exact A | exact C]. }
  assert (E3 : set_number g2 k a (f b) = (set_num g2 k a (f b), ROk)) by (apply set_number_accept; assumption).
  cbn [run step]. rewrite E1. cbn [fst snd]. fold g1. rewrite E2. cbn [fst snd]. fold g2. rewrite E3. cbn [fst snd].
  split; [reflexivity|]. split; [reflexivity|]. split; [reflexivity|].
  assert (F3 : num (set_num g2 k a (f b)) k = upd (upd (upd f a tmp) b (f a)) a (f b)).
  { rewrite num_set_num, kind_eqb_refl, F2. reflexivity. }
  split; [rewrite F3; apply upd_same|]. split; [|split].
  - rewrite F3. rewrite upd_other by (intro; subst; contradiction). apply upd_same.
  - intros o Na Nb. rewrite F3. rewrite !upd_other by assumption. reflexivity.
  - intros k' o Nk. unfold g2, g1. rewrite !num_set_num.
    destruct (kind_eqb k' k) eqn:Ek; [apply kind_eqb_eq in Ek; contradiction | reflexivity].
Qed.

(* the witness satisfies the hypotheses of the C04 theorems *)
Lemma wit_c04 : Resolved wit /\ NumInj wit /\ Linked wit.
Proof.
  split; [|split; [|apply wit_props]].
  - intros c Hc h Hh. assert (K : c = 0%nat \/ c = 1%nat) by (vm_compute in Hc; intuition).
    destruct K as [-> | ->]; vm_compute in Hh; inversion Hh; subst; simpl; auto.
  - intro k. destruct k; vm_compute; repeat constructor; simpl; intuition; discriminate.
Qed.
Definition wit_renum_ops : list op :=
  [SetNum KSurf 0%nat 50; SetNum KSurf 1%nat 1; SetNum KSurf 0%nat 2; SetNum KCell 0%nat 7; SetNum KMat 1%nat 9].
Lemma wit_renum_ops_ok :
  all_safe renum_safe wit wit_renum_ops = true /\
  written_refs wit <> written_refs (run wit wit_renum_ops) /\
  resolve (run wit wit_renum_ops) = resolve wit.
Proof.
  split; [vm_compute; reflexivity|]. split; [vm_compute; discriminate | vm_compute; reflexivity].
Qed.

(* ---- the two placements of U and FILL carry the same numbers *)
Definition nz (z : Z) : bool := negb (z =? 0)%Z.

Lemma slot_numbers_app : forall sl a b, slot_numbers sl (a ++ b) = slot_numbers sl a ++ slot_numbers sl b.
Proof. intros. unfold slot_numbers. apply flat_map_app. Qed.

Lemma slot_numbers_map_other : forall A sl sl' (f : A -> src * kind * Z) (l : list A),
  slot_eqb sl' sl = false ->
  slot_numbers sl (map (fun x => let '(s, k, n) := f x in (s, sl', k, n)) l) = [].
Proof.
  intros A sl sl' f l H. induction l as [|x l IH]; [reflexivity|]. simpl. destruct (f x) as [[s0 k] n]. rewrite H. exact IH.
Qed.

Lemma slot_numbers_cell : forall g c,
  slot_numbers SlU (cell_written g c) = (if (u_entry g c =? 0)%Z then [] else [u_entry g c]) /\
  slot_numbers SlFill (cell_written g c) =
    match c_fill (cellf g c) with Some f => [num g KUniv f] | None => [] end.
Proof.
  intros g c. unfold cell_written, u_entry. rewrite !slot_numbers_app.
  assert (G : forall sl, (sl = SlU \/ sl = SlFill) ->
              slot_numbers sl (map (fun p : kind * Z => (SrcCell c, SlGeom, fst p, snd p))
                (match c_geom (cellf g c) with Some h => hs_written g h | None => [] end)) = []).
  { intros sl H. induction (match c_geom (cellf g c) with Some h => hs_written g h | None => [] end) as [|x l IH];
      [reflexivity|]. destruct H; subst; simpl; exact IH. }
  rewrite (G SlU (or_introl eq_refl)), (G SlFill (or_intror eq_refl)). split.
  - destruct (c_mat (cellf g c)); destruct (c_univ (cellf g c)) as [u|]; destruct (c_fill (cellf g c)) as [f|];
      simpl; try (destruct (num g KUniv u =? 0)%Z; simpl);
      try (destruct (c_fparens (cellf g c)); destruct (c_ftr (cellf g c)); reflexivity); reflexivity.
  - destruct (c_mat (cellf g c)); destruct (c_univ (cellf g c)) as [u|]; destruct (c_fill (cellf g c)) as [f|];
      simpl; try (destruct (num g KUniv u =? 0)%Z; simpl);
      try (destruct (c_fparens (cellf g c)); destruct (c_ftr (cellf g c)); reflexivity); reflexivity.
Qed.

Lemma slot_numbers_cells : forall g cs,
  slot_numbers SlU (flat_map (cell_written g) cs) = filter nz (map (u_entry g) cs) /\
  slot_numbers SlFill (flat_map (cell_written g) cs) =
    flat_map (fun c => match c_fill (cellf g c) with Some f => [num g KUniv f] | None => [] end) cs.
Proof.
  intros g cs. induction cs as [|c cs [IH1 IH2]]; [split; reflexivity|]. simpl. rewrite !slot_numbers_app.
  destruct (slot_numbers_cell g c) as [E1 E2]. rewrite E1, E2, IH1, IH2. split; [|reflexivity].
  unfold nz. destruct (u_entry g c =? 0)%Z; reflexivity.
Qed.

Lemma slot_numbers_rest : forall g sl, (sl = SlU \/ sl = SlFill) ->
  slot_numbers sl (flat_map (surf_written g) (coll g KSurf)) = [] /\
  slot_numbers sl (flat_map (mt_written g) (flat_map (ditem_mts g) (dins g))) = [].
Proof.
  intros g sl H. split.
  - induction (coll g KSurf) as [|x l IH]; [reflexivity|]. simpl. rewrite slot_numbers_app, IH. unfold surf_written.
    destruct (s_tr (surff g x)); [destruct H; subst; reflexivity|]. destruct (s_per (surff g x)); destruct H; subst; reflexivity.
  - induction (flat_map (ditem_mts g) (dins g)) as [|x l IH]; [reflexivity|]. simpl. rewrite slot_numbers_app, IH.
    unfold mt_written. destruct (t_parent (mtf g x)); destruct H; subst; reflexivity.
Qed.

(* cell-block placement (u=n on the cell cards, nothing for universe 0) and data-block placement (one
   U card, a jump for universe 0) write the same numbers for the same cells, in the same order;
   both re-read the number of the universe object *)
Theorem placements_agree : forall g,
  slot_numbers SlU (written_refs g) = filter nz (u_card g) /\
  slot_numbers SlFill (written_refs g) =
    flat_map (fun c => match c_fill (cellf g c) with Some f => [num g KUniv f] | None => [] end) (coll g KCell) /\
  ((forall c f, c_fill (cellf g c) = Some f -> num g KUniv f <> 0%Z) ->
   slot_numbers SlFill (written_refs g) = filter nz (fill_card g)).
Proof.
  intro g. unfold written_refs. rewrite !slot_numbers_app.
  destruct (slot_numbers_cells g (coll g KCell)) as [E1 E2].
  destruct (slot_numbers_rest g SlU (or_introl eq_refl)) as [A1 A2].
  destruct (slot_numbers_rest g SlFill (or_intror eq_refl)) as [B1 B2].
  rewrite E1, E2, A1, A2, B1, B2, !app_nil_r. split; [reflexivity|]. split; [reflexivity|].
  intro H. clear E1 E2. unfold fill_card. induction (coll g KCell) as [|c cs IH]; [reflexivity|]. simpl. rewrite IH.
  unfold fill_entry, nz. destruct (c_fill (cellf g c)) as [f|] eqn:Ef; [|reflexivity].
  destruct (num g KUniv f =? 0)%Z eqn:Ez; [apply Z.eqb_eq in Ez; exfalso; apply (H c f Ef Ez) | reflexivity].
Qed.

Theorem cards_renumber : forall g rho,
  u_card (renumber g rho) =
    map (fun c => match c_univ (cellf g c) with Some u => rho KUniv u | None => 0%Z end) (coll g KCell) /\
  fill_card (renumber g rho) =
    map (fun c => match c_fill (cellf g c) with Some f => rho KUniv f | None => 0%Z end) (coll g KCell).
Proof. intros g rho. split; reflexivity. Qed.

Theorem cards_after_sequence : forall ops g, all_safe renum_safe g ops = true -> NumInj g -> Linked g ->
  u_card (run g ops) =
    map (fun c => match c_univ (cellf g c) with Some u => num (run g ops) KUniv u | None => 0%Z end) (coll g KCell) /\
  fill_card (run g ops) =
    map (fun c => match c_fill (cellf g c) with Some f => num (run g ops) KUniv f | None => 0%Z end) (coll g KCell).
Proof.
  intros ops g S N L. destruct (run_renum ops g S N L) as (_ & _ & (B1 & _ & _ & _ & B5 & _) & _).
  unfold u_card, fill_card, u_entry, fill_entry. rewrite B1. split; apply map_ext; intro c; rewrite B5; reflexivity.
Qed.

(* ================================================================ a refused geometry / divider changes nothing *)
Lemma set_geom_conflict_atomic : forall g c e g', set_geom g c e = (g', RErr NumberConflict) -> g' = g.
Proof.
  intros g c e g' H. unfold set_geom in H. destruct (Nat.ltb 1 (uses_old e)); [discriminate|].
  destruct (eval_ex _ e) as [t|]; [|discriminate]. unfold link_geometry in H.
  destruct (add_children g (Some c) t) as [g1 ok] eqn:E. destruct ok; [discriminate|].
  inversion H; subst. apply (add_children_refused _ _ _ _ E).
Qed.

Lemma set_div_conflict_atomic : forall g c p isc d g', set_div g c p isc d = (g', RErr NumberConflict) -> g' = g.
Proof.
  intros g c p isc d g' H. unfold set_div in H. destruct (c_geom (cellf g c)) as [t|]; [|discriminate].
  destruct (node_at t p) as [[b dv cp|l cp|o l r cp]|]; try discriminate.
  destruct (negb (Bool.eqb b isc)); [discriminate|]. destruct cp as [c'|]; [|discriminate].
  rewrite cell_add_eq in H. cbv zeta in H.
  destruct (mem_o d (lst isc (cellf g c'))); [discriminate|].
  destruct (mem_Z _ _); [inversion H; reflexivity | discriminate].
Qed.
