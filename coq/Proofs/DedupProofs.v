(* DedupProofs.v — lemmas and proofs about Model/Dedup.v (property C18).
   The file grew with the code: sections up to the marker "the repaired variant" are general list / geometry / dict
   lemmas and the proofs about the functions suffixed _old (the code before commits d09ab94, f2650a0, 983bf94; their
   theorems, named *_old or old_*, record what each repaired defect was: regression witnesses only).  Everything after
   that marker is about the code at HEAD; Properties/C18.v states only those. *)
From Coq Require Import List String Ascii ZArith QArith Qabs Bool Lia.
From MPV Require Import Model.Wire Model.Dedup.
Import ListNotations.
Local Open Scope Z_scope.

(* ========================================================================= basic list facts *)
Lemma memZ_In : forall n l, memZ n l = true <-> In n l.
Proof.
  intros n l. unfold memZ. rewrite existsb_exists. split.
  - intros [x [Hx He]]. apply Z.eqb_eq in He. subst. exact Hx.
  - intro H. exists n. split; [exact H | apply Z.eqb_refl].
Qed.

Lemma memZ_false : forall n l, memZ n l = false <-> ~ In n l.
Proof.
  intros n l. rewrite <- memZ_In. destruct (memZ n l); split; intro H.
  - discriminate.
  - exfalso; apply H; reflexivity.
  - intro; discriminate.
  - reflexivity.
Qed.

Lemma lookup_restrict : forall n L d,
  lookup n (restrict L d) = if memZ n L then lookup n d else None.
Proof.
  intros n L d. induction d as [|[k v] r IH]; simpl.
  - destruct (memZ n L); reflexivity.
  - destruct (memZ k L) eqn:Hk; simpl.
    + destruct (Z.eqb k n) eqn:Hkn.
      * apply Z.eqb_eq in Hkn. subst. rewrite Hk. reflexivity.
      * exact IH.
    + destruct (Z.eqb k n) eqn:Hkn.
      * apply Z.eqb_eq in Hkn. subst. rewrite Hk in *. exact IH.
      * exact IH.
Qed.

Lemma restrict_nil_lookup : forall L d n, restrict L d = [] -> In n L -> lookup n d = None.
Proof.
  intros L d n Hnil Hin.
  pose proof (lookup_restrict n L d) as H. rewrite Hnil in H. simpl in H.
  apply memZ_In in Hin. rewrite Hin in H. symmetry. exact H.
Qed.

Lemma lookup_restrict_in : forall n L d, In n L -> lookup n (restrict L d) = lookup n d.
Proof. intros n L d H. rewrite lookup_restrict. apply memZ_In in H. rewrite H. reflexivity. Qed.

Lemma ren_restrict_in : forall n L d, In n L -> ren (restrict L d) n = ren d n.
Proof. intros. unfold ren. rewrite lookup_restrict_in by assumption. reflexivity. Qed.

(* ========================================================================= geometry *)
Lemma map_leaves_ext : forall f f' g,
  (forall n, In n (leaf_surfs g) -> f n = f' n) -> map_leaves f g = map_leaves f' g.
Proof.
  intros f f' g. induction g; simpl; intro H.
  - rewrite H by (left; reflexivity). reflexivity.
  - reflexivity.
  - rewrite IHg by assumption. reflexivity.
  - rewrite IHg1, IHg2; try reflexivity; intros; apply H; apply in_or_app; auto.
  - rewrite IHg1, IHg2; try reflexivity; intros; apply H; apply in_or_app; auto.
Qed.

Lemma map_leaves_id : forall f g, (forall n, In n (leaf_surfs g) -> f n = n) -> map_leaves f g = g.
Proof.
  intros f g. induction g; simpl; intro H.
  - rewrite H by (left; reflexivity). reflexivity.
  - reflexivity.
  - rewrite IHg by assumption. reflexivity.
  - rewrite IHg1, IHg2; try reflexivity; intros; apply H; apply in_or_app; auto.
  - rewrite IHg1, IHg2; try reflexivity; intros; apply H; apply in_or_app; auto.
Qed.

Lemma leaf_surfs_map_leaves : forall f g, leaf_surfs (map_leaves f g) = map f (leaf_surfs g).
Proof.
  intros f g. induction g; simpl; try reflexivity; try assumption.
  - rewrite map_app, IHg1, IHg2. reflexivity.
  - rewrite map_app, IHg1, IHg2. reflexivity.
Qed.

Lemma region_map_leaves : forall es ec f g,
  region es ec (map_leaves f g) = region (fun n => es (f n)) ec g.
Proof.
  intros es ec f g. induction g; simpl; try reflexivity.
  - rewrite IHg. reflexivity.
  - rewrite IHg1, IHg2. reflexivity.
  - rewrite IHg1, IHg2. reflexivity.
Qed.

Lemma region_ext : forall es es' ec g,
  (forall n, In n (leaf_surfs g) -> es n = es' n) -> region es ec g = region es' ec g.
Proof.
  intros es es' ec g. induction g; simpl; intro H.
  - rewrite H by (left; reflexivity). reflexivity.
  - reflexivity.
  - rewrite IHg by assumption. reflexivity.
  - rewrite IHg1, IHg2; try reflexivity; intros; apply H; apply in_or_app; auto.
  - rewrite IHg1, IHg2; try reflexivity; intros; apply H; apply in_or_app; auto.
Qed.

(* the shape of a tree: operators and senses, leaf numbers erased *)
Definition shape (g : geom) : geom := map_leaves (fun _ => 0) g.

Lemma shape_map_leaves : forall f g, shape (map_leaves f g) = shape g.
Proof.
  intros f g. unfold shape. induction g; simpl; try reflexivity.
  - rewrite IHg. reflexivity.
  - rewrite IHg1, IHg2. reflexivity.
  - rewrite IHg1, IHg2. reflexivity.
Qed.

(* the half-space recursion with its repeated restriction of the dict is a plain renaming *)
Lemma hs_dedup_spec : forall g d, hs_dedup d g = map_leaves (ren d) g.
Proof.
  induction g; intro d.
  - simpl. unfold ren. destruct (lookup n d); reflexivity.
  - reflexivity.
  - cbn [hs_dedup map_leaves].
    destruct (restrict (leaf_surfs (GNot g)) d) as [|kv nd] eqn:Hr.
    + symmetry. change (map_leaves (ren d) (GNot g) = GNot g). apply map_leaves_id.
      intros n Hn. unfold ren. rewrite (restrict_nil_lookup _ _ _ Hr Hn). reflexivity.
    + rewrite IHg. rewrite <- Hr. f_equal. apply map_leaves_ext.
      intros n Hn. apply ren_restrict_in. simpl. exact Hn.
  - cbn [hs_dedup map_leaves].
    destruct (restrict (leaf_surfs (GAnd g1 g2)) d) as [|kv nd] eqn:Hr.
    + symmetry. change (map_leaves (ren d) (GAnd g1 g2) = GAnd g1 g2). apply map_leaves_id.
      intros n Hn. unfold ren. rewrite (restrict_nil_lookup _ _ _ Hr Hn). reflexivity.
    + rewrite IHg1, IHg2. rewrite <- Hr. f_equal; apply map_leaves_ext;
        intros n Hn; apply ren_restrict_in; simpl; apply in_or_app; auto.
  - cbn [hs_dedup map_leaves].
    destruct (restrict (leaf_surfs (GOr g1 g2)) d) as [|kv nd] eqn:Hr.
    + symmetry. change (map_leaves (ren d) (GOr g1 g2) = GOr g1 g2). apply map_leaves_id.
      intros n Hn. unfold ren. rewrite (restrict_nil_lookup _ _ _ Hr Hn). reflexivity.
    + rewrite IHg1, IHg2. rewrite <- Hr. f_equal; apply map_leaves_ext;
        intros n Hn; apply ren_restrict_in; simpl; apply in_or_app; auto.
Qed.

(* what a cell's geometry becomes: every leaf that is in cell.surfaces and is a key of the map is renamed *)
Definition cell_ren (m : list (Z * Z)) (c : cell) : Z -> Z := ren (restrict (c_surfs c) m).

Lemma cell_dedup_old_geom : forall m c,
  c_geom (cell_dedup_old m c) = map_leaves (cell_ren m c) (c_geom c).
Proof.
  intros m c. unfold cell_dedup_old, cell_ren.
  destruct (restrict (c_surfs c) m) as [|kv nd] eqn:Hr.
  - symmetry. apply map_leaves_id. intros n _. reflexivity.
  - simpl. apply hs_dedup_spec.
Qed.

Lemma cell_dedup_old_num : forall m c, c_num (cell_dedup_old m c) = c_num c.
Proof. intros m c. unfold cell_dedup_old. destruct (restrict (c_surfs c) m); reflexivity. Qed.

Lemma cell_ren_cases : forall m c n,
  cell_ren m c n = n \/ lookup n m = Some (cell_ren m c n).
Proof.
  intros m c n. unfold cell_ren, ren. rewrite lookup_restrict.
  destruct (memZ n (c_surfs c)); [|left; reflexivity].
  destruct (lookup n m) eqn:H; [right; reflexivity | left; reflexivity].
Qed.

Lemma cell_ren_not_key : forall m c n, lookup n m = None -> cell_ren m c n = n.
Proof.
  intros m c n H. destruct (cell_ren_cases m c n) as [E|E]; [exact E|]. rewrite H in E. discriminate.
Qed.

Lemma cell_ren_linked : forall m c n, In n (c_surfs c) -> cell_ren m c n = ren m n.
Proof. intros. unfold cell_ren. apply ren_restrict_in. assumption. Qed.

(* ========================================================================= the dict and the set *)
Lemma lookup_dict_set_eq : forall k v d, lookup k (dict_set k v d) = Some v.
Proof.
  intros k v d. induction d as [|[k' v'] r IH]; simpl.
  - rewrite Z.eqb_refl. reflexivity.
  - destruct (Z.eqb k' k) eqn:E; simpl; rewrite E; [reflexivity | exact IH].
Qed.

Lemma lookup_dict_set_neq : forall k v d n, n <> k -> lookup n (dict_set k v d) = lookup n d.
Proof.
  intros k v d n Hn. induction d as [|[k' v'] r IH]; simpl.
  - destruct (Z.eqb k n) eqn:E; [apply Z.eqb_eq in E; congruence | reflexivity].
  - destruct (Z.eqb k' k) eqn:E; simpl.
    + apply Z.eqb_eq in E. subst k'.
      destruct (Z.eqb k n) eqn:E2; [apply Z.eqb_eq in E2; congruence | reflexivity].
    + destruct (Z.eqb k' n); [reflexivity | exact IH].
Qed.

Lemma set_add_In : forall n x s, In n (set_add x s) <-> n = x \/ In n s.
Proof.
  intros n x s. unfold set_add. destruct (memZ x s) eqn:E.
  - apply memZ_In in E. split; [auto | intros [->|H]; assumption].
  - rewrite in_app_iff. simpl. split; [intros [H|[H|[]]]; auto | intros [H|H]; auto].
Qed.

Lemma record_matches_del : forall ms self del m n,
  In n (fst (record_matches ms self del m)) <-> In n del \/ In n ms.
Proof.
  induction ms as [|x r IH]; intros self del m n; simpl.
  - tauto.
  - rewrite IH. rewrite set_add_In. split; intros [H|H]; auto.
    + destruct H; auto.
    + destruct H; auto.
Qed.

Lemma record_matches_lookup : forall ms self del m n,
  lookup n (snd (record_matches ms self del m)) = if memZ n ms then Some self else lookup n m.
Proof.
  induction ms as [|x r IH]; intros self del m n; simpl.
  - reflexivity.
  - rewrite IH. destruct (Z.eqb n x) eqn:E; simpl.
    + apply Z.eqb_eq in E. subst. destruct (memZ x r); [reflexivity | apply lookup_dict_set_eq].
    + destruct (memZ n r); [reflexivity|].
      apply lookup_dict_set_neq. intro; subst. rewrite Z.eqb_refl in E. discriminate.
Qed.

(* ========================================================================= find_dups_old *)
Lemma filter_res_spec : forall {A} (f : A -> res bool) l r,
  filter_res f l = Ok r -> forall x, In x r <-> In x l /\ f x = Ok true.
Proof.
  intros A f. induction l as [|a l IH]; intros r H x; simpl in H.
  - inversion H. simpl. tauto.
  - destruct (f a) as [b|] eqn:Ha; [|discriminate].
    destruct (filter_res f l) as [r'|] eqn:Hr; [|discriminate].
    inversion H; subst; clear H. specialize (IH r' eq_refl x).
    destruct b; simpl; rewrite ?IH; split.
    + intros [->|[H1 H2]]; auto.
    + intros [[->|H1] H2]; auto.
    + intros [H1 H2]; auto.
    + intros [[->|H1] H2]; [congruence | auto].
Qed.

Lemma find_dups_old_spec : forall tol s all ms,
  find_dups_old tol s all = Ok ms -> forall x, In x ms <-> In x all /\ candidate_old tol s x = Ok true.
Proof. intros tol s all ms H. exact (filter_res_spec _ _ _ H). Qed.

Lemma candidate_old_same_kind : forall tol a b, candidate_old tol a b = Ok true -> same_kind a b = true.
Proof.
  intros tol a b. unfold candidate_old.
  destruct (periodic_old a); [discriminate|].
  destruct (same_kind a b); [reflexivity | simpl; discriminate].
Qed.

Lemma candidate_old_num_neq : forall tol a b, candidate_old tol a b = Ok true -> s_num b <> s_num a.
Proof.
  intros tol a b H. apply candidate_old_same_kind in H. unfold same_kind in H.
  apply andb_true_iff in H. destruct H as [H _]. apply negb_true_iff in H. apply Z.eqb_neq in H. exact H.
Qed.

Lemma candidate_old_type_eq : forall tol a b, candidate_old tol a b = Ok true -> s_type b = s_type a.
Proof.
  intros tol a b H. apply candidate_old_same_kind in H. unfold same_kind in H.
  apply andb_true_iff in H. destruct H as [_ H]. apply String.eqb_eq in H. exact H.
Qed.

(* ========================================================================= invariants of the scan_old *)
Section Scan.
  Variable tol : Q.
  Variable all : list surface.

  (* keys of the map = to_delete; every entry is justified by a positive test of the code *)
  Definition inv_basic_old (del : list Z) (m : list (Z * Z)) : Prop :=
    (forall n, In n del <-> lookup n m <> None) /\
    (forall d s, lookup d m = Some s ->
       exists sd ss, In sd all /\ In ss all /\ s_num sd = d /\ s_num ss = s /\ candidate_old tol ss sd = Ok true).

  Lemma inv_basic_old_step : forall s ms del m,
    In s all -> find_dups_old tol s all = Ok ms -> inv_basic_old del m ->
    inv_basic_old (fst (record_matches (map s_num ms) (s_num s) del m))
              (snd (record_matches (map s_num ms) (s_num s) del m)).
  Proof.
    intros s ms del m Hs Hf [Hk Hj]. split.
    - intro n. rewrite record_matches_del, record_matches_lookup.
      destruct (memZ n (map s_num ms)) eqn:E.
      + apply memZ_In in E. split; [intros _; discriminate | intros _; right; exact E].
      + apply memZ_false in E. rewrite Hk. tauto.
    - intros d v. rewrite record_matches_lookup.
      destruct (memZ d (map s_num ms)) eqn:E.
      + intro H. inversion H; subst v; clear H. apply memZ_In in E. apply in_map_iff in E.
        destruct E as [x [Hx Hin]]. apply (find_dups_old_spec _ _ _ _ Hf) in Hin. destruct Hin as [Hxa Hc].
        exists x, s. auto.
      + apply Hj.
  Qed.

  Lemma scan_loop_old_inv_basic : forall todo del m del' m',
    incl todo all -> inv_basic_old del m -> scan_loop_old tol all todo del m = Ok (del', m') -> inv_basic_old del' m'.
  Proof.
    induction todo as [|s r IH]; intros del m del' m' Hincl Hinv H; simpl in H.
    - inversion H; subst. exact Hinv.
    - assert (Hr : incl r all) by (intros x Hx; apply Hincl; right; exact Hx).
      destruct (memZ (s_num s) del).
      + eapply IH; eauto.
      + destruct (find_dups_old tol s all) as [ms|] eqn:Hf; [|discriminate].
        destruct (record_matches (map s_num ms) (s_num s) del m) as [d1 m1] eqn:Hrm.
        eapply IH; [exact Hr | | exact H].
        pose proof (inv_basic_old_step s ms del m (Hincl s (or_introl eq_refl)) Hf Hinv) as Hstep.
        rewrite Hrm in Hstep. exact Hstep.
  Qed.

  Lemma scan_old_inv_basic : forall del m, scan_old tol all = Ok (del, m) -> inv_basic_old del m.
  Proof.
    intros del m H. unfold scan_old in H.
    eapply scan_loop_old_inv_basic; [apply incl_refl | | exact H].
    split; [intro n; simpl; split; [tauto | intro H0; apply H0; reflexivity] | intros d s H0; discriminate].
  Qed.

  (* --- no survivor is itself removed, provided the test of the code is symmetric *)
  Definition cand_sym_old : Prop :=
    forall a b, In a all -> In b all -> candidate_old tol a b = Ok true -> candidate_old tol b a = Ok true.

  Definition inv_chain_old (del : list Z) (m : list (Z * Z)) : Prop :=
    (forall d s, lookup d m = Some s -> ~ In s del) /\
    (forall d ss, In ss all -> lookup d m = Some (s_num ss) ->
       forall x, In x all -> candidate_old tol ss x = Ok true -> In (s_num x) del).

  Hypothesis Hnodup : NoDup (map s_num all).
  Hypothesis Hsym : cand_sym_old.

  Lemma same_num_same_surface : forall a b, In a all -> In b all -> s_num a = s_num b -> a = b.
  Proof.
    clear Hsym. induction all as [|x l IH]; intros a b Ha Hb E; [destruct Ha|].
    simpl in Hnodup. inversion Hnodup as [|? ? Hnotin Hnd]; subst.
    destruct Ha as [->|Ha], Hb as [->|Hb].
    - reflexivity.
    - exfalso. apply Hnotin. rewrite E. apply in_map. exact Hb.
    - exfalso. apply Hnotin. rewrite <- E. apply in_map. exact Ha.
    - apply IH; assumption.
  Qed.

  Lemma inv_chain_old_step : forall s ms del m,
    In s all -> ~ In (s_num s) del -> find_dups_old tol s all = Ok ms -> inv_chain_old del m ->
    inv_chain_old (fst (record_matches (map s_num ms) (s_num s) del m))
              (snd (record_matches (map s_num ms) (s_num s) del m)).
  Proof.
    intros s ms del m Hs Hnd Hf [Hv Hw].
    assert (Hms : forall x, In x ms <-> In x all /\ candidate_old tol s x = Ok true)
      by (apply find_dups_old_spec; exact Hf).
    split.
    - intros d v. rewrite record_matches_lookup, record_matches_del.
      destruct (memZ d (map s_num ms)) eqn:E.
      + intro H. inversion H; subst v; clear H. intros [H|H]; [exact (Hnd H)|].
        apply in_map_iff in H. destruct H as [x [Hx Hin]]. apply Hms in Hin. destruct Hin as [_ Hc].
        apply candidate_old_num_neq in Hc. congruence.
      + intros Hl [H|H]; [exact (Hv _ _ Hl H)|].
        apply in_map_iff in H. destruct H as [x [Hx Hin]]. apply Hms in Hin. destruct Hin as [Hxa Hc].
        (* x is matched by s now, and x (number v) is the survivor of an earlier entry *)
        apply Hnd. apply (Hw d x Hxa); [rewrite Hx; exact Hl | exact Hs |].
        apply Hsym; assumption.
    - intros d ss Hss. rewrite record_matches_lookup.
      destruct (memZ d (map s_num ms)) eqn:E.
      + intro H. inversion H as [Hn]; clear H.
        assert (ss = s) by (apply same_num_same_surface; auto). subst ss.
        intros x Hx Hc. apply record_matches_del. right. apply in_map. apply Hms. auto.
      + intros Hl x Hx Hc. apply record_matches_del. left. exact (Hw d ss Hss Hl x Hx Hc).
  Qed.

  Lemma scan_loop_old_inv_chain : forall todo del m del' m',
    incl todo all -> inv_chain_old del m -> scan_loop_old tol all todo del m = Ok (del', m') -> inv_chain_old del' m'.
  Proof.
    induction todo as [|s r IH]; intros del m del' m' Hincl Hinv H; simpl in H.
    - inversion H; subst. exact Hinv.
    - assert (Hr : incl r all) by (intros x Hx; apply Hincl; right; exact Hx).
      destruct (memZ (s_num s) del) eqn:Hmem.
      + eapply IH; eauto.
      + destruct (find_dups_old tol s all) as [ms|] eqn:Hf; [|discriminate].
        destruct (record_matches (map s_num ms) (s_num s) del m) as [d1 m1] eqn:Hrm.
        eapply IH; [exact Hr | | exact H].
        apply memZ_false in Hmem.
        pose proof (inv_chain_old_step s ms del m (Hincl s (or_introl eq_refl)) Hmem Hf Hinv) as Hstep.
        rewrite Hrm in Hstep. exact Hstep.
  Qed.

  Lemma scan_old_inv_chain : forall del m, scan_old tol all = Ok (del, m) -> inv_chain_old del m.
  Proof.
    intros del m H. unfold scan_old in H.
    eapply scan_loop_old_inv_chain; [apply incl_refl | | exact H].
    split; [intros d s H0; discriminate | intros d ss _ H0; discriminate].
  Qed.
End Scan.

(* ========================================================================= removal from the collection *)
Lemma filter_all : forall {A} (f : A -> bool) l, (forall x, In x l -> f x = true) -> filter f l = l.
Proof.
  intros A f. induction l as [|a l IH]; intro H; simpl; [reflexivity|].
  rewrite (H a (or_introl eq_refl)). rewrite IH; [reflexivity|]. intros x Hx. apply H. right. exact Hx.
Qed.

Lemma filter_filter : forall {A} (f g : A -> bool) l,
  filter f (filter g l) = filter (fun x => g x && f x) l.
Proof.
  intros A f g. induction l as [|a l IH]; simpl; [reflexivity|].
  destruct (g a); simpl; [destruct (f a); rewrite IH; reflexivity | exact IH].
Qed.

Lemma NoDup_nums_filter : forall (f : surface -> bool) l,
  NoDup (map s_num l) -> NoDup (map s_num (filter f l)).
Proof.
  intros f. induction l as [|a l IH]; simpl; intro H; [constructor|].
  inversion H as [|? ? Hn Hnd]; subst. destruct (f a); simpl; [|apply IH; exact Hnd].
  constructor; [|apply IH; exact Hnd].
  intro Hin. apply Hn. apply in_map_iff in Hin. destruct Hin as [x [Hx Hin]].
  apply filter_In in Hin. destruct Hin as [Hin _]. rewrite <- Hx. apply in_map. exact Hin.
Qed.

Lemma remove_surf_filter : forall n l,
  NoDup (map s_num l) -> remove_surf n l = filter (fun x => negb (Z.eqb (s_num x) n)) l.
Proof.
  intros n. induction l as [|a l IH]; simpl; intro H; [reflexivity|].
  inversion H as [|? ? Hn Hnd]; subst. destruct (Z.eqb (s_num a) n) eqn:E; simpl.
  - apply Z.eqb_eq in E. symmetry. apply filter_all. intros x Hx.
    apply negb_true_iff. apply Z.eqb_neq. intro Hxe. apply Hn. rewrite E, <- Hxe. apply in_map. exact Hx.
  - rewrite IH by exact Hnd. reflexivity.
Qed.

Lemma remove_all_filter : forall del l,
  NoDup (map s_num l) -> remove_all del l = filter (fun x => negb (memZ (s_num x) del)) l.
Proof.
  unfold remove_all. induction del as [|n del IH]; intros l H; simpl.
  - symmetry. apply filter_all. intros; reflexivity.
  - rewrite IH.
    + rewrite remove_surf_filter by exact H. rewrite filter_filter.
      apply filter_ext. intro x. rewrite negb_orb. reflexivity.
    + rewrite remove_surf_filter by exact H. apply NoDup_nums_filter. exact H.
Qed.

(* ========================================================================= Surface.update_pointers *)
Lemma sup_fields : forall all trs s s',
  surface_update_pointers all trs s = Ok s' ->
  s_num s' = s_num s /\ s_class s' = s_class s /\ s_type s' = s_type s /\ s_consts s' = s_consts s /\
  s_refl s' = s_refl s /\ s_white s' = s_white s /\ s_oldper s' = s_oldper s /\ s_oldtr s' = s_oldtr s.
Proof.
  intros all trs s s'. unfold surface_update_pointers.
  destruct (Z.eqb (s_oldper s) 0).
  - destruct (Z.eqb (s_oldtr s) 0).
    + intro H; inversion H; subst; simpl; repeat split.
    + destruct (find_last_tr (s_oldtr s) trs (s_tr s)); intro H; inversion H; subst; simpl; repeat split.
  - destruct (memZ (s_oldper s) (map s_num all)); [|discriminate].
    destruct (Z.eqb (s_oldtr s) 0).
    + intro H; inversion H; subst; simpl; repeat split.
    + destruct (find_last_tr (s_oldtr s) trs (s_tr s)); intro H; inversion H; subst; simpl; repeat split.
Qed.

Lemma sup_perptr : forall all trs s s',
  surface_update_pointers all trs s = Ok s' ->
  s_perptr s' = if Z.eqb (s_oldper s) 0 then s_perptr s else s_oldper s.
Proof.
  intros all trs s s'. unfold surface_update_pointers.
  destruct (Z.eqb (s_oldper s) 0).
  - destruct (Z.eqb (s_oldtr s) 0).
    + intro H; inversion H; subst; reflexivity.
    + destruct (find_last_tr (s_oldtr s) trs (s_tr s)); intro H; inversion H; subst; reflexivity.
  - destruct (memZ (s_oldper s) (map s_num all)); [|discriminate].
    destruct (Z.eqb (s_oldtr s) 0).
    + intro H; inversion H; subst; reflexivity.
    + destruct (find_last_tr (s_oldtr s) trs (s_tr s)); intro H; inversion H; subst; reflexivity.
Qed.

Lemma map_res_Forall2 : forall {A B} (f : A -> res B) l l',
  map_res f l = Ok l' -> Forall2 (fun x y => f x = Ok y) l l'.
Proof.
  intros A B f. induction l as [|a l IH]; intros l' H; simpl in H.
  - inversion H. constructor.
  - destruct (f a) eqn:Ha; [|discriminate]. destruct (map_res f l) eqn:Hl; [|discriminate].
    inversion H; subst. constructor; [exact Ha | apply IH; reflexivity].
Qed.

Lemma map_res_id : forall {A} (f : A -> res A) l, (forall x, In x l -> f x = Ok x) -> map_res f l = Ok l.
Proof.
  intros A f. induction l as [|a l IH]; intro H; simpl; [reflexivity|].
  rewrite (H a (or_introl eq_refl)). rewrite IH; [reflexivity|]. intros x Hx. apply H. right. exact Hx.
Qed.

Lemma map_res_total : forall {A B} (f : A -> res B) l,
  (forall x, In x l -> exists y, f x = Ok y) -> exists l', map_res f l = Ok l'.
Proof.
  intros A B f. induction l as [|a l IH]; intro H; simpl; [eexists; reflexivity|].
  destruct (H a (or_introl eq_refl)) as [y Hy]. rewrite Hy.
  destruct IH as [l' Hl']; [intros x Hx; apply H; right; exact Hx|]. rewrite Hl'. eexists; reflexivity.
Qed.

Lemma sup_nums : forall all trs l l',
  map_res (surface_update_pointers all trs) l = Ok l' -> map s_num l' = map s_num l.
Proof.
  intros all trs l l' H. apply map_res_Forall2 in H. induction H; simpl; [reflexivity|].
  apply sup_fields in H. destruct H as [H _]. rewrite H, IHForall2. reflexivity.
Qed.

(* the old numbers still describe the current pointers (true after a read and after a write) *)
Definition in_sync (all : list surface) (trs : list transform) (s : surface) : Prop :=
  (s_oldper s = 0 \/ (s_perptr s = s_oldper s /\ In (s_oldper s) (map s_num all))) /\
  (s_oldtr s = 0 \/ (s_tr s <> None /\ find_last_tr (s_oldtr s) trs (s_tr s) = s_tr s)).

Lemma in_sync_fix : forall all trs s, in_sync all trs s -> surface_update_pointers all trs s = Ok s.
Proof.
  intros all trs s [Hp Ht]. unfold surface_update_pointers. destruct s as [n cl ty cs op pp rf wh ot tr]; simpl in *.
  assert (Hper : (if Z.eqb op 0 then Ok pp else if memZ op (map s_num all) then Ok op else Err BrokenObjectLinkError)
                 = @Ok Z pp).
  { destruct Hp as [->|[-> Hin]]; [reflexivity|]. destruct (Z.eqb op 0); [reflexivity|].
    apply memZ_In in Hin. rewrite Hin. reflexivity. }
  rewrite Hper. destruct Ht as [->|[Hne Hf]]; [reflexivity|].
  destruct (Z.eqb ot 0); [reflexivity|]. rewrite Hf. destruct tr; [reflexivity | congruence].
Qed.

(* ========================================================================= the whole call, decomposed *)
Lemma dedup_old_inv : forall tol P P',
  dedup_old tol P = Ok P' ->
  exists del m surfs2,
    scan_old tol (p_surfs P) = Ok (del, m) /\
    map_res (surface_update_pointers (p_surfs P) (p_trs P)) (p_surfs P) = Ok surfs2 /\
    P' = mkProb (remove_all del surfs2)
                (map cell_update_pointers (map (cell_dedup_old m) (p_cells P))) (p_trs P).
Proof.
  intros tol P P' H. unfold dedup_old in H.
  destruct (scan_old tol (p_surfs P)) as [[del m]|] eqn:Hs; [|discriminate].
  destruct (map_res (surface_update_pointers (p_surfs P) (p_trs P)) (p_surfs P)) as [s2|] eqn:Hm; [|discriminate].
  inversion H; subst. exists del, m, s2. auto.
Qed.

Lemma Forall2_map_both : forall {A B} (R : A -> B -> Prop) (f : A -> B) l,
  (forall x, In x l -> R x (f x)) -> Forall2 R l (map f l).
Proof.
  intros A B R f. induction l as [|a l IH]; intro H; simpl; constructor.
  - apply H. left. reflexivity.
  - apply IH. intros x Hx. apply H. right. exact Hx.
Qed.

Lemma Forall2_imp : forall {A B} (R R' : A -> B -> Prop) l l',
  (forall x y, R x y -> R' x y) -> Forall2 R l l' -> Forall2 R' l l'.
Proof. intros A B R R' l l' H F. induction F; constructor; auto. Qed.

Definition identifies (m : list (Z * Z)) (es : Z -> bool) : Prop :=
  forall d s, lookup d m = Some s -> es d = es s.

Definition links (P : problem) : Prop :=
  forall c, In c (p_cells P) -> incl (leaf_surfs (c_geom c)) (c_surfs c).

Definition wf (P : problem) : Prop := NoDup (map s_num (p_surfs P)).

(* --- every cell, structurally: a leaf-wise renaming that only touches keys of the map *)
Theorem cells_structure_old : forall tol P P' del m,
  scan_old tol (p_surfs P) = Ok (del, m) -> dedup_old tol P = Ok P' ->
  Forall2 (fun c c' =>
             c_num c' = c_num c /\
             exists f, (forall n, lookup n m = None -> f n = n) /\
                       (forall n, f n = n \/ lookup n m = Some (f n)) /\
                       (forall n, In n (c_surfs c) -> f n = ren m n) /\
                       c_geom c' = map_leaves f (c_geom c))
          (p_cells P) (p_cells P').
Proof.
  intros tol P P' del m Hs Hd. apply dedup_old_inv in Hd. destruct Hd as [del' [m' [s2 [Hs' [_ ->]]]]].
  rewrite Hs in Hs'. inversion Hs'; subst del' m'. simpl. rewrite map_map.
  apply Forall2_map_both. intros c _. split.
  - simpl. apply cell_dedup_old_num.
  - exists (cell_ren m c). repeat split.
    + apply cell_ren_not_key.
    + apply cell_ren_cases.
    + apply cell_ren_linked.
    + simpl. apply cell_dedup_old_geom.
Qed.

(* --- the region of every cell is unchanged once merged surfaces are identified *)
Theorem region_preserved_old : forall tol P P' del m,
  scan_old tol (p_surfs P) = Ok (del, m) -> dedup_old tol P = Ok P' ->
  Forall2 (fun c c' =>
             c_num c' = c_num c /\
             forall es ec, identifies m es -> region es ec (c_geom c') = region es ec (c_geom c))
          (p_cells P) (p_cells P').
Proof.
  intros tol P P' del m Hs Hd. pose proof (cells_structure_old _ _ _ _ _ Hs Hd) as H.
  eapply Forall2_imp; [|exact H]. intros c c' [Hn [f [_ [Hc [_ Hg]]]]]. split; [exact Hn|].
  intros es ec Hid. rewrite Hg, region_map_leaves. apply region_ext. intros n _.
  destruct (Hc n) as [E|E]; [rewrite E; reflexivity | symmetry; apply Hid; exact E].
Qed.

(* --- senses and operators are never changed; a cell without a removed leaf is not changed at all *)
Theorem senses_preserved_old : forall tol P P' del m,
  scan_old tol (p_surfs P) = Ok (del, m) -> dedup_old tol P = Ok P' ->
  Forall2 (fun c c' =>
             shape (c_geom c') = shape (c_geom c) /\
             ((forall n, In n (leaf_surfs (c_geom c)) -> ~ In n del) -> c_geom c' = c_geom c))
          (p_cells P) (p_cells P').
Proof.
  intros tol P P' del m Hs Hd. pose proof (cells_structure_old _ _ _ _ _ Hs Hd) as H.
  pose proof (scan_old_inv_basic _ _ _ _ Hs) as [Hk _].
  eapply Forall2_imp; [|exact H]. intros c c' [Hn [f [Hnk [_ [_ Hg]]]]]. split.
  - rewrite Hg. apply shape_map_leaves.
  - intro Hno. rewrite Hg. apply map_leaves_id. intros n Hin. apply Hnk.
    destruct (lookup n m) eqn:E; [|reflexivity]. exfalso. apply (Hno n Hin). apply Hk. congruence.
Qed.

(* --- removed surfaces are gone from the collection; survivors keep their relative order *)
Theorem removed_are_gone_old : forall tol P P' del m,
  wf P -> scan_old tol (p_surfs P) = Ok (del, m) -> dedup_old tol P = Ok P' ->
  (forall s', In s' (p_surfs P') -> ~ In (s_num s') del) /\
  map s_num (p_surfs P') = filter (fun n => negb (memZ n del)) (map s_num (p_surfs P)).
Proof.
  intros tol P P' del m Hwf Hs Hd. apply dedup_old_inv in Hd. destruct Hd as [del' [m' [s2 [Hs' [Hm ->]]]]].
  rewrite Hs in Hs'. inversion Hs'; subst del' m'. simpl.
  pose proof (sup_nums _ _ _ _ Hm) as Hn.
  assert (Hnd : NoDup (map s_num s2)) by (rewrite Hn; exact Hwf).
  rewrite remove_all_filter by exact Hnd. split.
  - intros s' Hin. apply filter_In in Hin. destruct Hin as [_ Hin].
    apply negb_true_iff in Hin. apply memZ_false in Hin. exact Hin.
  - rewrite <- Hn. clear. induction s2 as [|a l IH]; simpl; [reflexivity|].
    destruct (memZ (s_num a) del); simpl; rewrite IH; reflexivity.
Qed.

(* --- surfaces that are not removed are untouched when the old numbers are in sync *)
Theorem old_survivors_untouched_partial : forall tol P P' del m,
  wf P -> (forall s, In s (p_surfs P) -> in_sync (p_surfs P) (p_trs P) s) ->
  scan_old tol (p_surfs P) = Ok (del, m) -> dedup_old tol P = Ok P' ->
  p_surfs P' = filter (fun s => negb (memZ (s_num s) del)) (p_surfs P).
Proof.
  intros tol P P' del m Hwf Hsync Hs Hd. apply dedup_old_inv in Hd. destruct Hd as [del' [m' [s2 [Hs' [Hm ->]]]]].
  rewrite Hs in Hs'. inversion Hs'; subst del' m'. simpl.
  rewrite map_res_id in Hm by (intros x Hx; apply in_sync_fix; apply Hsync; exact Hx).
  inversion Hm; subst s2. apply remove_all_filter. exact Hwf.
Qed.

(* --- no leaf refers to a removed surface: needs cell.surfaces to cover the leaves and a symmetric test *)
Theorem no_dangling_leaf_old : forall tol P P' del m,
  wf P -> links P -> cand_sym_old tol (p_surfs P) ->
  scan_old tol (p_surfs P) = Ok (del, m) -> dedup_old tol P = Ok P' ->
  forall c', In c' (p_cells P') -> forall n, In n (leaf_surfs (c_geom c')) -> ~ In n del.
Proof.
  intros tol P P' del m Hwf Hl Hsym Hs Hd c' Hc' n Hn.
  pose proof (cells_structure_old _ _ _ _ _ Hs Hd) as H.
  pose proof (scan_old_inv_basic _ _ _ _ Hs) as [Hk _].
  pose proof (scan_old_inv_chain _ _ Hwf Hsym _ _ Hs) as [Hv _].
  assert (Hex : exists c, In c (p_cells P) /\
            exists f, (forall n, In n (c_surfs c) -> f n = ren m n) /\ c_geom c' = map_leaves f (c_geom c)).
  { clear - H Hc'. induction H; [destruct Hc'|]. destruct Hc' as [<-|Hc'].
    - exists x. split; [left; reflexivity|]. destruct H as [_ [f [_ [_ [Hf Hg]]]]]. exists f. auto.
    - destruct (IHForall2 Hc') as [c [Hc R]]. exists c. split; [right; exact Hc | exact R]. }
  destruct Hex as [c [Hc [f [Hf Hg]]]].
  rewrite Hg, leaf_surfs_map_leaves in Hn. apply in_map_iff in Hn. destruct Hn as [n0 [E Hn0]].
  assert (Hin : In n0 (c_surfs c)) by (apply (Hl c Hc); exact Hn0).
  rewrite (Hf n0 Hin) in E. unfold ren in E. destruct (lookup n0 m) eqn:El.
  - subst z. eapply Hv. exact El.
  - subst n0. intro Hd'. apply Hk in Hd'. apply Hd'. exact El.
Qed.

(* ========================================================================= what a true duplicate is *)
Local Open Scope string_scope.
Definition class_of_type (ty : string) : sclass :=
  if String.eqb ty "PX" || String.eqb ty "PY" || String.eqb ty "PZ" then CAxisPlane
  else if String.eqb ty "CX" || String.eqb ty "CY" || String.eqb ty "CZ" then CCylOnAxis
  else if String.eqb ty "C/X" || String.eqb ty "C/Y" || String.eqb ty "C/Z" then CCylParAxis
  else COther.
Local Close Scope string_scope.

Definition arity_ok (c : sclass) (n : nat) : Prop :=
  match c with
  | CAxisPlane | CCylOnAxis => n = 1%nat
  | CCylParAxis => n = 3%nat
  | COther => True
  end.

(* the class of the object is the one surface_builder chooses for the mnemonic, with that class's arity
   (both are enforced by the constructors of the three classes) *)
Definition class_ok (s : surface) : Prop :=
  s_class s = class_of_type (s_type s) /\ arity_ok (s_class s) (List.length (s_consts s)).

Definition within (tol : Q) (xs ys : list Q) : Prop :=
  Forall2 (fun x y => (Qabs (x - y) < tol)%Q) xs ys.

(* no rotation entries = the identity (cosines, or degrees for *TR) *)
Definition ident_rot (deg : bool) : list Q :=
  if deg then [0; 90; 90; 90; 0; 90; 90; 90; 0]%Q else [1; 0; 0; 0; 1; 0; 0; 0; 1]%Q.
Definition rot_full (t : transform) : list Q :=
  match t_rot t with [] => ident_rot (t_deg t) | r => r end.

Definition trdata_same (tol : Q) (a b : option transform) : Prop :=
  match a, b with
  | None, None => True
  | Some t, Some t' =>
      t_deg t = t_deg t' /\ t_m2a t = t_m2a t' /\
      within tol (t_disp t) (t_disp t') /\ within tol (rot_full t) (rot_full t')
  | _, _ => False
  end.

(* the property's criteria for a merged pair *)
Definition true_dup (tol : Q) (a b : surface) : Prop :=
  s_type a = s_type b /\ s_refl a = s_refl b /\ s_white a = s_white b /\
  trdata_same tol (s_tr a) (s_tr b) /\
  s_perptr a = 0 /\ s_perptr b = 0 /\
  within tol (s_consts a) (s_consts b).

(* --- side conditions under which the current code meets them *)
Definition bc_uniform (all : list surface) : Prop :=
  forall a b, In a all -> In b all -> s_type a = s_type b ->
              s_refl a = s_refl b /\ s_white a = s_white b.

(* a periodic surface is of a class that looks at the other surface's periodicity, and was periodic when read *)
Definition periodic_visible (s : surface) : Prop :=
  s_perptr s = 0 \/ s_class s = COther \/ (s_class s = CCylOnAxis /\ s_oldper s <> 0).

Definition tr_shape_eq (t t' : transform) : Prop :=
  List.length (t_disp t) = List.length (t_disp t') /\ List.length (t_rot t) = List.length (t_rot t').

Definition tr_uniform (all : list surface) : Prop :=
  forall a b t t', In a all -> In b all -> s_tr a = Some t -> s_tr b = Some t' -> tr_shape_eq t t'.

Definition planes_old_nonperiodic (all : list surface) : Prop :=
  forall s, In s all -> s_class s = CAxisPlane \/ s_class s = CCylParAxis -> s_oldper s = 0.

(* ========================================================================= comparisons *)
Lemma near_lt : forall tol a b, near tol a b = true <-> (Qabs (a - b) < tol)%Q.
Proof.
  intros tol a b. unfold near, far. rewrite negb_true_iff. split.
  - intro H. apply Qnot_le_lt. intro Hle. apply Qle_bool_iff in Hle. congruence.
  - intro H. destruct (Qle_bool tol (Qabs (a - b))) eqn:E; [|reflexivity].
    apply Qle_bool_iff in E. exfalso. exact (Qlt_not_le _ _ H E).
Qed.

Lemma far_sym : forall tol a b, far tol a b = far tol b a.
Proof. intros. unfold far. rewrite Qabs_Qminus. reflexivity. Qed.

Lemma near_sym : forall tol a b, near tol a b = near tol b a.
Proof. intros. unfold near. rewrite far_sym. reflexivity. Qed.

Lemma near_tol_pos : forall tol a b, near tol a b = true -> (0 < tol)%Q.
Proof.
  intros tol a b H. apply near_lt in H. eapply Qle_lt_trans; [apply Qabs_nonneg | exact H].
Qed.

Lemma within_refl : forall tol l, (0 < tol)%Q -> within tol l l.
Proof.
  intros tol l H. induction l; constructor; [|exact IHl].
  assert (E : (Qabs (a - a) == 0)%Q).
  { assert (E0 : (a - a == 0)%Q) by (unfold Qminus; apply Qplus_opp_r). rewrite E0. reflexivity. }
  rewrite E. exact H.
Qed.

Lemma vec_loop_within : forall tol xs ys,
  vec_loop tol xs ys = Ok true -> List.length xs = List.length ys -> within tol xs ys.
Proof.
  intros tol. induction xs as [|x xs IH]; intros ys H Hl; destruct ys as [|y ys]; simpl in *; try discriminate.
  - constructor.
  - destruct (far tol x y) eqn:E; [discriminate|]. constructor.
    + apply near_lt. unfold near. rewrite E. reflexivity.
    + apply IH; [exact H | lia].
Qed.

Lemma vec_loop_sym : forall tol xs ys,
  vec_loop tol xs ys = Ok true -> List.length xs = List.length ys -> vec_loop tol ys xs = Ok true.
Proof.
  intros tol. induction xs as [|x xs IH]; intros ys H Hl; destruct ys as [|y ys]; simpl in *; try discriminate.
  - reflexivity.
  - rewrite far_sym. destruct (far tol x y); [discriminate|]. apply IH; [exact H | lia].
Qed.

Lemma vec_loop_total : forall tol xs ys,
  List.length xs = List.length ys -> exists b, vec_loop tol xs ys = Ok b.
Proof.
  intros tol. induction xs as [|x xs IH]; intros ys Hl; destruct ys as [|y ys]; simpl in *; try discriminate.
  - eexists; reflexivity.
  - destruct (far tol x y); [eexists; reflexivity|]. apply IH. lia.
Qed.

Lemma length_nil_iff : forall {A} (l l' : list A), List.length l = List.length l' -> (l = [] <-> l' = []).
Proof. intros A l l' H. destruct l, l'; simpl in *; split; intro; try discriminate; reflexivity. Qed.

Lemma tr_equiv_old_same : forall tol t t',
  tr_shape_eq t t' -> (0 < tol)%Q -> tr_equivalent_old tol t t' = Ok true -> trdata_same tol (Some t) (Some t').
Proof.
  intros tol t t' [Hd Hr] Hpos H. unfold tr_equivalent_old in H. simpl.
  destruct (Bool.eqb (t_deg t) (t_deg t')) eqn:Ed; simpl in H; [|discriminate].
  destruct (Bool.eqb (t_m2a t) (t_m2a t')) eqn:Em; simpl in H; [|discriminate].
  apply Bool.eqb_prop in Ed. apply Bool.eqb_prop in Em.
  destruct (vec_loop tol (t_disp t) (t_disp t')) as [[|]|] eqn:Ev; try discriminate.
  split; [exact Ed|]. split; [exact Em|]. split; [apply vec_loop_within; assumption|].
  unfold rot_full. destruct (t_rot t) as [|r0 r] eqn:Er.
  - destruct (t_rot t') as [|r0' r'] eqn:Er'; [|simpl in Hr; discriminate].
    rewrite Ed. apply within_refl. exact Hpos.
  - destruct (t_rot t') as [|r0' r'] eqn:Er'; [discriminate|].
    apply vec_loop_within; assumption.
Qed.

Lemma tr_equiv_old_sym : forall tol t t',
  tr_shape_eq t t' -> tr_equivalent_old tol t t' = Ok true -> tr_equivalent_old tol t' t = Ok true.
Proof.
  intros tol t t' [Hd Hr] H. unfold tr_equivalent_old in *.
  destruct (Bool.eqb (t_deg t) (t_deg t')) eqn:Ed; simpl in H; [|discriminate].
  destruct (Bool.eqb (t_m2a t) (t_m2a t')) eqn:Em; simpl in H; [|discriminate].
  apply Bool.eqb_prop in Ed. apply Bool.eqb_prop in Em. rewrite <- Ed, <- Em, !Bool.eqb_reflx. simpl.
  destruct (vec_loop tol (t_disp t) (t_disp t')) as [[|]|] eqn:Ev; try discriminate.
  rewrite (vec_loop_sym _ _ _ Ev Hd).
  destruct (t_rot t) as [|r0 r] eqn:Er.
  - destruct (t_rot t') as [|r0' r'] eqn:Er'; [reflexivity | simpl in Hr; discriminate].
  - destruct (t_rot t') as [|r0' r'] eqn:Er'; [discriminate|].
    apply vec_loop_sym; assumption.
Qed.

Lemma tr_equiv_old_total : forall tol t t', tr_shape_eq t t' -> exists b, tr_equivalent_old tol t t' = Ok b.
Proof.
  intros tol t t' [Hd Hr]. unfold tr_equivalent_old.
  destruct (negb (Bool.eqb (t_deg t) (t_deg t'))); [eexists; reflexivity|].
  destruct (negb (Bool.eqb (t_m2a t) (t_m2a t'))); [eexists; reflexivity|].
  destruct (vec_loop_total tol _ _ Hd) as [b Hb]. rewrite Hb. destruct b; [|eexists; reflexivity].
  destruct (t_rot t) as [|r0 r] eqn:Er; [eexists; reflexivity|].
  destruct (t_rot t') as [|r0' r'] eqn:Er'; [eexists; reflexivity|].
  apply vec_loop_total. exact Hr.
Qed.

(* ========================================================================= one positive test of the code *)
Lemma periodic_old_false : forall s, periodic_old s = false <-> s_oldper s = 0.
Proof.
  intro s. unfold periodic_old. rewrite negb_false_iff. apply Z.eqb_eq.
Qed.

Lemma same_kind_sym : forall a b, same_kind a b = same_kind b a.
Proof.
  intros a b. unfold same_kind. rewrite (Z.eqb_sym (s_num b)), (String.eqb_sym (s_type b)). reflexivity.
Qed.

Lemma cnst_single : forall s x, s_consts s = [x] -> cnst s 0 = x.
Proof. intros s x H. unfold cnst. rewrite H. reflexivity. Qed.

Lemma length1 : forall {A} (l : list A), List.length l = 1%nat -> exists x, l = [x].
Proof. intros A [|x [|y l]] H; simpl in H; try discriminate. exists x; reflexivity. Qed.

Lemma length3 : forall {A} (l : list A), List.length l = 3%nat -> exists x y z, l = [x; y; z].
Proof. intros A [|x [|y [|z [|w l]]]] H; simpl in H; try discriminate. exists x, y, z; reflexivity. Qed.

Lemma tr_check_old_same : forall tol a b,
  (forall t t', s_tr a = Some t -> s_tr b = Some t' -> tr_shape_eq t t') -> (0 < tol)%Q ->
  tr_check_old tol a b = Ok true -> trdata_same tol (s_tr a) (s_tr b).
Proof.
  intros tol a b Hsh Hpos H. unfold tr_check_old in H.
  destruct (s_tr a) as [t|], (s_tr b) as [t'|]; try discriminate.
  - apply tr_equiv_old_same; auto.
  - exact I.
Qed.

Lemma candidate_old_true_dup : forall tol a b,
  class_ok a -> class_ok b ->
  (s_type a = s_type b -> s_refl a = s_refl b /\ s_white a = s_white b) ->
  periodic_visible a -> periodic_visible b ->
  (forall t t', s_tr a = Some t -> s_tr b = Some t' -> tr_shape_eq t t') ->
  candidate_old tol a b = Ok true -> true_dup tol a b.
Proof.
  intros tol a b [Hca Haa] [Hcb Hab] Hbc Hpa Hpb Hsh H.
  pose proof (candidate_old_type_eq _ _ _ H) as Hty. symmetry in Hty.
  assert (Hcl : s_class b = s_class a) by (rewrite Hca, Hcb, Hty; reflexivity).
  destruct (Hbc Hty) as [Hrf Hwh].
  unfold candidate_old in H.
  destruct (periodic_old a) eqn:Epa; [discriminate|]. apply periodic_old_false in Epa.
  destruct (same_kind a b); simpl in H; [|discriminate].
  rewrite Hcl in Hab.
  destruct (s_class a) eqn:Ecl; simpl in *.
  - (* AxisPlane *)
    destruct (near tol (cnst a 0) (cnst b 0)) eqn:En; [|discriminate].
    pose proof (near_tol_pos _ _ _ En) as Hpos.
    destruct (length1 _ Haa) as [x Hx]. destruct (length1 _ Hab) as [y Hy].
    rewrite (cnst_single _ _ Hx), (cnst_single _ _ Hy) in En.
    repeat split; auto.
    + apply tr_check_old_same; auto.
    + destruct Hpa as [Hp|[Hp|[Hp _]]]; [exact Hp | congruence | congruence].
    + destruct Hpb as [Hp|[Hp|[Hp _]]]; [exact Hp | congruence | congruence].
    + rewrite Hx, Hy. constructor; [apply near_lt; exact En | constructor].
  - (* CylinderOnAxis *)
    destruct (periodic_old b) eqn:Epb; [discriminate|]. apply periodic_old_false in Epb.
    destruct (near tol (cnst a 0) (cnst b 0)) eqn:En; [|discriminate].
    pose proof (near_tol_pos _ _ _ En) as Hpos.
    destruct (length1 _ Haa) as [x Hx]. destruct (length1 _ Hab) as [y Hy].
    rewrite (cnst_single _ _ Hx), (cnst_single _ _ Hy) in En.
    repeat split; auto.
    + apply tr_check_old_same; auto.
    + destruct Hpa as [Hp|[Hp|[_ Hp]]]; [exact Hp | congruence | contradiction].
    + destruct Hpb as [Hp|[Hp|[_ Hp]]]; [exact Hp | congruence | contradiction].
    + rewrite Hx, Hy. constructor; [apply near_lt; exact En | constructor].
  - (* CylinderParAxis *)
    destruct (near tol (cnst a 2) (cnst b 2) && near tol (cnst a 0) (cnst b 0) && near tol (cnst a 1) (cnst b 1))
      eqn:En; [|discriminate].
    apply andb_true_iff in En. destruct En as [En E1]. apply andb_true_iff in En. destruct En as [E2 E0].
    pose proof (near_tol_pos _ _ _ E0) as Hpos.
    destruct (length3 _ Haa) as [x0 [x1 [x2 Hx]]]. destruct (length3 _ Hab) as [y0 [y1 [y2 Hy]]].
    unfold cnst in E0, E1, E2. rewrite Hx, Hy in E0, E1, E2. simpl in E0, E1, E2.
    repeat split; auto.
    + apply tr_check_old_same; auto.
    + destruct Hpa as [Hp|[Hp|[Hp _]]]; [exact Hp | congruence | congruence].
    + destruct Hpb as [Hp|[Hp|[Hp _]]]; [exact Hp | congruence | congruence].
    + rewrite Hx, Hy. repeat constructor; apply near_lt; assumption.
  - discriminate.
Qed.

Lemma tr_check_old_sym : forall tol a b,
  (forall t t', s_tr a = Some t -> s_tr b = Some t' -> tr_shape_eq t t') ->
  tr_check_old tol a b = Ok true -> tr_check_old tol b a = Ok true.
Proof.
  intros tol a b Hsh H. unfold tr_check_old in *.
  destruct (s_tr a) as [t|], (s_tr b) as [t'|]; try discriminate; [|reflexivity].
  apply tr_equiv_old_sym; auto.
Qed.

Lemma cand_sym_old_struct : forall tol all,
  Forall class_ok all -> planes_old_nonperiodic all -> tr_uniform all -> cand_sym_old tol all.
Proof.
  intros tol all Hok Hpl Htr a b Ha Hb H.
  rewrite Forall_forall in Hok. destruct (Hok a Ha) as [Hca _]. destruct (Hok b Hb) as [Hcb _].
  pose proof (candidate_old_type_eq _ _ _ H) as Hty.
  assert (Hcl : s_class b = s_class a) by (rewrite Hca, Hcb, Hty; reflexivity).
  assert (Hsh : forall t t', s_tr a = Some t -> s_tr b = Some t' -> tr_shape_eq t t')
    by (intros t t' H1 H2; exact (Htr a b t t' Ha Hb H1 H2)).
  unfold candidate_old in *.
  destruct (periodic_old a) eqn:Epa; [discriminate|].
  rewrite (same_kind_sym b a). destruct (same_kind a b); simpl in *; [|discriminate].
  rewrite Hcl. destruct (s_class a) eqn:Ecl.
  - assert (Epb : periodic_old b = false) by (apply periodic_old_false; apply Hpl; [exact Hb | left; congruence]).
    rewrite Epb. rewrite (near_sym tol (cnst b 0)).
    destruct (near tol (cnst a 0) (cnst b 0)); [|discriminate]. apply tr_check_old_sym; assumption.
  - destruct (periodic_old b) eqn:Epb; [discriminate|].
    rewrite (near_sym tol (cnst b 0)).
    destruct (near tol (cnst a 0) (cnst b 0)); [|discriminate]. apply tr_check_old_sym; assumption.
  - assert (Epb : periodic_old b = false) by (apply periodic_old_false; apply Hpl; [exact Hb | right; congruence]).
    rewrite Epb. rewrite (near_sym tol (cnst b 2)), (near_sym tol (cnst b 0)), (near_sym tol (cnst b 1)).
    destruct (near tol (cnst a 2) (cnst b 2) && near tol (cnst a 0) (cnst b 0) && near tol (cnst a 1) (cnst b 1));
      [|discriminate].
    apply tr_check_old_sym; assumption.
  - discriminate.
Qed.

(* ========================================================================= only true duplicates are merged *)
Theorem old_only_true_duplicates_partial : forall tol P del m,
  wf P -> Forall class_ok (p_surfs P) ->
  bc_uniform (p_surfs P) -> Forall periodic_visible (p_surfs P) -> tr_uniform (p_surfs P) ->
  scan_old tol (p_surfs P) = Ok (del, m) ->
  forall d s sd ss, lookup d m = Some s ->
    In sd (p_surfs P) -> In ss (p_surfs P) -> s_num sd = d -> s_num ss = s -> true_dup tol ss sd.
Proof.
  intros tol P del m Hwf Hok Hbc Hper Htr Hs d s sd ss Hl Hsd Hss Hd Hn.
  pose proof (scan_old_inv_basic _ _ _ _ Hs) as [_ Hj].
  destruct (Hj d s Hl) as [sd' [ss' [Hsd' [Hss' [Hd' [Hn' Hc]]]]]].
  assert (sd' = sd) by (apply (same_num_same_surface (p_surfs P) Hwf); auto; congruence).
  assert (ss' = ss) by (apply (same_num_same_surface (p_surfs P) Hwf); auto; congruence).
  subst sd' ss'. rewrite Forall_forall in Hok, Hper.
  apply candidate_old_true_dup; auto.
  intros t t' H1 H2. exact (Htr ss sd t t' Hss Hsd H1 H2).
Qed.

(* ========================================================================= the call completes *)
Lemma candidate_old_total : forall tol a b,
  (forall t t', s_tr a = Some t -> s_tr b = Some t' -> tr_shape_eq t t') ->
  exists r, candidate_old tol a b = Ok r.
Proof.
  intros tol a b Hsh. unfold candidate_old.
  assert (Ht : exists r, tr_check_old tol a b = Ok r).
  { unfold tr_check_old. destruct (s_tr a) as [t|], (s_tr b) as [t'|]; try (eexists; reflexivity).
    apply tr_equiv_old_total. apply Hsh; reflexivity. }
  destruct (periodic_old a); [eexists; reflexivity|].
  destruct (negb (same_kind a b)); [eexists; reflexivity|].
  destruct (s_class a).
  - destruct (near tol (cnst a 0) (cnst b 0)); [exact Ht | eexists; reflexivity].
  - destruct (periodic_old b); [eexists; reflexivity|].
    destruct (near tol (cnst a 0) (cnst b 0)); [exact Ht | eexists; reflexivity].
  - destruct (near tol (cnst a 2) (cnst b 2) && near tol (cnst a 0) (cnst b 0) && near tol (cnst a 1) (cnst b 1));
      [exact Ht | eexists; reflexivity].
  - eexists; reflexivity.
Qed.

Lemma filter_res_total : forall {A} (f : A -> res bool) l,
  (forall x, In x l -> exists r, f x = Ok r) -> exists r, filter_res f l = Ok r.
Proof.
  intros A f. induction l as [|a l IH]; intro H; simpl; [eexists; reflexivity|].
  destruct (H a (or_introl eq_refl)) as [b Hb]. rewrite Hb.
  destruct IH as [r Hr]; [intros x Hx; apply H; right; exact Hx|]. rewrite Hr. eexists; reflexivity.
Qed.

Lemma scan_loop_old_total : forall tol all todo del m,
  tr_uniform all -> incl todo all -> exists r, scan_loop_old tol all todo del m = Ok r.
Proof.
  intros tol all. induction todo as [|s r IH]; intros del m Htr Hincl; simpl; [eexists; reflexivity|].
  assert (Hr : incl r all) by (intros x Hx; apply Hincl; right; exact Hx).
  destruct (memZ (s_num s) del); [apply IH; assumption|].
  assert (Hf : exists ms, find_dups_old tol s all = Ok ms).
  { apply filter_res_total. intros x Hx. apply candidate_old_total. intros t t' H1 H2.
    exact (Htr s x t t' (Hincl s (or_introl eq_refl)) Hx H1 H2). }
  destruct Hf as [ms Hms]. rewrite Hms.
  destruct (record_matches (map s_num ms) (s_num s) del m) as [d1 m1]. apply IH; assumption.
Qed.

Theorem dedup_completes_old : forall tol P,
  tr_uniform (p_surfs P) -> (forall s, In s (p_surfs P) -> in_sync (p_surfs P) (p_trs P) s) ->
  exists P', dedup_old tol P = Ok P'.
Proof.
  intros tol P Htr Hsync. unfold dedup_old.
  destruct (scan_loop_old_total tol (p_surfs P) (p_surfs P) [] [] Htr (incl_refl _)) as [[del m] Hs].
  unfold scan_old. rewrite Hs.
  rewrite map_res_id by (intros x Hx; apply in_sync_fix; apply Hsync; exact Hx).
  eexists; reflexivity.
Qed.

(* ========================================================================= periodic pointers *)
Lemma remove_surf_incl : forall n l x, In x (remove_surf n l) -> In x l.
Proof.
  intros n. induction l as [|a l IH]; intros x H; simpl in *; [exact H|].
  destruct (Z.eqb (s_num a) n); [right; exact H|]. destruct H as [->|H]; [left; reflexivity | right; apply IH; exact H].
Qed.

Lemma remove_all_incl : forall del l x, In x (remove_all del l) -> In x l.
Proof.
  unfold remove_all. induction del as [|n del IH]; intros l x H; simpl in *; [exact H|].
  apply (remove_surf_incl n). apply IH. exact H.
Qed.

Lemma sup_all_perptr0 : forall all trs l l',
  (forall s, In s l -> s_oldper s = 0 /\ s_perptr s = 0) ->
  map_res (surface_update_pointers all trs) l = Ok l' -> forall s', In s' l' -> s_perptr s' = 0.
Proof.
  intros all trs l l' Hnp Hm. apply map_res_Forall2 in Hm. induction Hm; intros s' Hin; [destruct Hin|].
  destruct Hin as [<-|Hin].
  - apply sup_perptr in H. destruct (Hnp x (or_introl eq_refl)) as [H1 H2]. rewrite H, H1, H2. reflexivity.
  - apply IHHm; [|exact Hin]. intros s Hs. apply Hnp. right. exact Hs.
Qed.

Theorem old_no_dangling_periodic_partial : forall tol P P',
  (forall s, In s (p_surfs P) -> s_oldper s = 0 /\ s_perptr s = 0) ->
  dedup_old tol P = Ok P' -> forall s', In s' (p_surfs P') -> s_perptr s' = 0.
Proof.
  intros tol P P' Hnp Hd s' Hin. apply dedup_old_inv in Hd. destruct Hd as [del [m [s2 [_ [Hm ->]]]]].
  simpl in Hin. apply remove_all_incl in Hin. eapply sup_all_perptr0; eauto.
Qed.

(* ========================================================================= the map, as the cells receive it *)
Theorem map_justified_old : forall tol P del m,
  scan_old tol (p_surfs P) = Ok (del, m) ->
  (forall n, In n del <-> lookup n m <> None) /\
  (forall d s, lookup d m = Some s ->
     exists sd ss, In sd (p_surfs P) /\ In ss (p_surfs P) /\ s_num sd = d /\ s_num ss = s /\
                   s_num sd <> s_num ss /\ s_type sd = s_type ss /\ candidate_old tol ss sd = Ok true).
Proof.
  intros tol P del m Hs. destruct (scan_old_inv_basic _ _ _ _ Hs) as [Hk Hj]. split; [exact Hk|].
  intros d s Hl. destruct (Hj d s Hl) as [sd [ss [H1 [H2 [H3 [H4 H5]]]]]].
  exists sd, ss. repeat split; auto.
  - exact (candidate_old_num_neq _ _ _ H5).
  - exact (candidate_old_type_eq _ _ _ H5).
Qed.

(* with a symmetric test a survivor is never removed itself: chains a~b~c need no second pass *)
Theorem survivors_survive_old : forall tol P del m,
  wf P -> cand_sym_old tol (p_surfs P) -> scan_old tol (p_surfs P) = Ok (del, m) ->
  forall d s, lookup d m = Some s -> ~ In s del.
Proof.
  intros tol P del m Hwf Hsym Hs. exact (proj1 (scan_old_inv_chain _ _ Hwf Hsym _ _ Hs)).
Qed.

Theorem old_no_dangling_leaf_struct : forall tol P P' del m,
  wf P -> links P -> Forall class_ok (p_surfs P) -> planes_old_nonperiodic (p_surfs P) -> tr_uniform (p_surfs P) ->
  scan_old tol (p_surfs P) = Ok (del, m) -> dedup_old tol P = Ok P' ->
  forall c', In c' (p_cells P') -> forall n, In n (leaf_surfs (c_geom c')) -> ~ In n del.
Proof.
  intros tol P P' del m Hwf Hl Hok Hpl Htr. apply no_dangling_leaf_old; auto. apply cand_sym_old_struct; assumption.
Qed.

(* ========================================================================= witnesses: what the current code gets wrong *)
Local Open Scope string_scope.
Definition tol4 : Q := 1 # 10000.
Definition w_px (n : Z) (x : Q) (refl : bool) (oldper per : Z) (oldtr : Z) (tr : option transform) : surface :=
  mkSurf n CAxisPlane "PX" [x] oldper per refl false oldtr tr.
Definition w_so (n : Z) : surface := mkSurf n COther "SO" [5%Q] 0 0 false false 0 None.
Definition w_tr_plain (n : Z) : transform := mkTr n false true [0%Q; 0%Q; 0%Q] [].
Definition w_tr_rot (n : Z) : transform :=
  mkTr n false true [0%Q; 0%Q; 0%Q] [0%Q; 1%Q; 0%Q; (-1)%Q; 0%Q; 0%Q; 0%Q; 0%Q; 1%Q].
Definition w_cells : list cell :=
  [ mkCell 1 [1; 2] (GAnd (GSurf false 1) (GSurf true 2));
    mkCell 2 [1; 2; 3] (GAnd (GAnd (GSurf true 1) (GSurf false 2)) (GSurf true 3)) ].

(* `1 px 0` / `*2 px 0` *)
Definition w_bc : problem :=
  mkProb [w_px 1 0 false 0 0 0 None; w_px 2 0 true 0 0 0 None; w_so 3] w_cells [].
(* `1 px 0` / `2 -4 px 0` / `4 -2 px 5` *)
Definition w_per : problem :=
  mkProb [w_px 1 0 false 0 0 0 None; w_px 2 0 false 4 4 0 None; w_so 3; w_px 4 5 false 2 2 0 None] w_cells [].
(* `1 1 px 0` / `2 2 px 0` with tr1 0 0 0, tr2 0 0 0 <rotation by 90 degrees> *)
Definition w_rot : problem :=
  mkProb [w_px 1 0 false 0 0 1 (Some (w_tr_plain 1)); w_px 2 0 false 0 0 2 (Some (w_tr_rot 2)); w_so 3] w_cells
         [w_tr_plain 1; w_tr_rot 2].
(* `1 2 px 0` / `2 2 px 9e-5` / `3 1 px -9e-5`: 2 -> 1, then 1 -> 3 *)
Definition w_dangle : problem :=
  mkProb [w_px 1 0 false 0 0 2 (Some (w_tr_rot 2)); w_px 2 (9 # 100000) false 0 0 2 (Some (w_tr_rot 2));
          w_px 3 (- 9 # 100000) false 0 0 1 (Some (w_tr_plain 1))]
         [ mkCell 1 [1; 2] (GAnd (GSurf false 1) (GSurf true 2)) ] [w_tr_plain 1; w_tr_rot 2].
(* `1 1 px 0` read, then `del surfaces[1].transform`: nothing is merged, the transform comes back *)
Definition w_revert : problem :=
  mkProb [w_px 1 0 false 0 0 1 None; w_px 2 1 false 0 0 0 None; w_so 3] w_cells [w_tr_plain 1].
(* tr1 with nine rotation entries, tr2 with three (MCNP accepts 3, 5, 6 or 9) *)
Definition w_index : problem :=
  mkProb [w_px 1 0 false 0 0 1 (Some (w_tr_rot 1));
          w_px 2 0 false 0 0 2 (Some (mkTr 2 false true [0%Q; 0%Q; 0%Q] [0%Q; 1%Q; 0%Q])); w_so 3] w_cells
         [w_tr_rot 1; mkTr 2 false true [0%Q; 0%Q; 0%Q] [0%Q; 1%Q; 0%Q]].
Local Close Scope string_scope.

Ltac in_cases H := simpl in H; repeat (destruct H as [H|H]; [subst|]); try contradiction.

Ltac tr_uniform_tac :=
  let a := fresh in let b := fresh in let t := fresh in let t' := fresh in
  let Ha := fresh in let Hb := fresh in let H1 := fresh in let H2 := fresh in
  intros a b t t' Ha Hb H1 H2; in_cases Ha; in_cases Hb; simpl in H1, H2; try discriminate;
  inversion H1; inversion H2; subst; split; reflexivity.

Lemma w_class_ok : forall P, In P [w_bc; w_per; w_rot; w_dangle; w_revert; w_index] -> Forall class_ok (p_surfs P).
Proof. intros P H. in_cases H; repeat constructor. Qed.

Lemma w_wf : forall P, In P [w_bc; w_per; w_rot; w_dangle; w_revert; w_index] -> wf P.
Proof.
  intros P H. in_cases H; unfold wf; simpl; repeat constructor; simpl; intuition discriminate.
Qed.

Definition merged_pair_old (tol : Q) (P : problem) (sd ss : surface) : Prop :=
  exists del m, scan_old tol (p_surfs P) = Ok (del, m) /\ In sd (p_surfs P) /\ In ss (p_surfs P) /\
                lookup (s_num sd) m = Some (s_num ss).

(* boundary condition is never compared *)
Theorem old_only_true_duplicates_refuted_bc : exists tol P sd ss,
  wf P /\ Forall class_ok (p_surfs P) /\ Forall periodic_visible (p_surfs P) /\ tr_uniform (p_surfs P) /\
  merged_pair_old tol P sd ss /\ s_refl ss <> s_refl sd /\ ~ true_dup tol ss sd.
Proof.
  exists tol4, w_bc, (w_px 2 0 true 0 0 0 None), (w_px 1 0 false 0 0 0 None).
  split; [apply w_wf; simpl; auto|]. split; [apply w_class_ok; simpl; auto|].
  split; [repeat constructor|]. split; [tr_uniform_tac|].
  split; [exists [2], [(2, 1)]; repeat split; simpl; auto|].
  split; [simpl; discriminate|]. intros [_ [H _]]. simpl in H. discriminate.
Qed.

(* AxisPlane (and CylinderParAxis) never look at the other surface's periodicity *)
Theorem old_only_true_duplicates_refuted_periodic : exists tol P sd ss,
  wf P /\ Forall class_ok (p_surfs P) /\ bc_uniform (p_surfs P) /\ tr_uniform (p_surfs P) /\
  (forall s, In s (p_surfs P) -> in_sync (p_surfs P) (p_trs P) s) /\
  merged_pair_old tol P sd ss /\ s_perptr sd <> 0 /\ ~ true_dup tol ss sd.
Proof.
  exists tol4, w_per, (w_px 2 0 false 4 4 0 None), (w_px 1 0 false 0 0 0 None).
  split; [apply w_wf; simpl; auto|]. split; [apply w_class_ok; simpl; auto|].
  split. { intros a b Ha Hb _. in_cases Ha; in_cases Hb; split; reflexivity. }
  split; [tr_uniform_tac|].
  split. { intros s Hs. in_cases Hs; split; simpl; auto; right; split; auto. }
  split; [exists [2], [(2, 1)]; repeat split; simpl; auto|].
  split; [simpl; discriminate|]. intros [_ [_ [_ [_ [_ [H _]]]]]]. simpl in H. discriminate.
Qed.

(* Transform.equivalent ignores the other transform's rotation when self has none *)
Theorem old_only_true_duplicates_refuted_rotation : exists tol P sd ss,
  wf P /\ Forall class_ok (p_surfs P) /\ bc_uniform (p_surfs P) /\ Forall periodic_visible (p_surfs P) /\
  merged_pair_old tol P sd ss /\ ~ trdata_same tol (s_tr ss) (s_tr sd) /\ ~ true_dup tol ss sd.
Proof.
  exists tol4, w_rot, (w_px 2 0 false 0 0 2 (Some (w_tr_rot 2))), (w_px 1 0 false 0 0 1 (Some (w_tr_plain 1))).
  split; [apply w_wf; simpl; auto|]. split; [apply w_class_ok; simpl; auto|].
  split. { intros a b Ha Hb _. in_cases Ha; in_cases Hb; split; reflexivity. }
  split; [repeat constructor|].
  split; [exists [2], [(2, 1)]; repeat split; simpl; auto|].
  assert (Hn : ~ trdata_same tol4 (Some (w_tr_plain 1)) (Some (w_tr_rot 2))).
  { intros [_ [_ [_ H]]]. unfold rot_full in H. simpl in H. inversion H as [|? ? ? ? H1 _]; subst.
    vm_compute in H1. discriminate. }
  split; [exact Hn|]. intros [_ [_ [_ [H _]]]]. exact (Hn H).
Qed.

(* a survivor removed later: a cell is left pointing at a surface that is no longer in the problem *)
Theorem old_no_dangling_leaf_refuted : exists tol P P' del m c' n,
  wf P /\ links P /\ Forall class_ok (p_surfs P) /\ planes_old_nonperiodic (p_surfs P) /\
  scan_old tol (p_surfs P) = Ok (del, m) /\ dedup_old tol P = Ok P' /\
  In c' (p_cells P') /\ In n (leaf_surfs (c_geom c')) /\ In n del /\ ~ In n (map s_num (p_surfs P')).
Proof.
  exists tol4, w_dangle.
  eexists. exists [2; 1], [(2, 1); (1, 3)]. eexists. exists 1.
  split; [apply w_wf; simpl; auto 10|].
  split. { intros c Hc. in_cases Hc. simpl. intros x Hx. exact Hx. }
  split; [apply w_class_ok; simpl; auto 10|].
  split. { intros s Hs _. in_cases Hs; reflexivity. }
  split; [vm_compute; reflexivity|]. split; [vm_compute; reflexivity|].
  split; [left; reflexivity|]. split; [simpl; auto|]. split; [simpl; auto|].
  simpl. intros [H|[]]. discriminate.
Qed.

(* the pointer re-resolution of the call undoes an earlier edit of a surface that is no duplicate *)
Theorem old_survivors_untouched_refuted : exists tol P P' m,
  wf P /\ Forall class_ok (p_surfs P) /\ scan_old tol (p_surfs P) = Ok ([], m) /\ dedup_old tol P = Ok P' /\
  p_surfs P' <> p_surfs P.
Proof.
  exists tol4, w_revert. eexists. exists [].
  split; [apply w_wf; simpl; auto 10|]. split; [apply w_class_ok; simpl; auto 10|].
  split; [vm_compute; reflexivity|]. split; [vm_compute; reflexivity|].
  intro H. inversion H.
Qed.

(* the surface a periodic surface points to is removed *)
Theorem old_no_dangling_periodic_refuted : exists tol P P' s',
  wf P /\ Forall class_ok (p_surfs P) /\ (forall s, In s (p_surfs P) -> in_sync (p_surfs P) (p_trs P) s) /\
  dedup_old tol P = Ok P' /\ In s' (p_surfs P') /\ s_perptr s' <> 0 /\ ~ In (s_perptr s') (map s_num (p_surfs P')).
Proof.
  exists tol4, w_per. eexists. exists (w_px 4 5 false 2 2 0 None).
  split; [apply w_wf; simpl; auto|]. split; [apply w_class_ok; simpl; auto|].
  split. { intros s Hs. in_cases Hs; split; simpl; auto; right; split; auto. }
  split; [vm_compute; reflexivity|]. split; [simpl; auto|]. split; [simpl; discriminate|].
  simpl. intros [H|[H|[H|[]]]]; discriminate.
Qed.

(* a rotation given by 3 (5, 6) entries against one given by 9: IndexError escapes *)
Theorem old_dedup_completes_refuted : exists tol P,
  wf P /\ Forall class_ok (p_surfs P) /\ (forall s, In s (p_surfs P) -> in_sync (p_surfs P) (p_trs P) s) /\
  dedup_old tol P = Err IndexError.
Proof.
  exists tol4, w_index.
  split; [apply w_wf; simpl; auto 10|]. split; [apply w_class_ok; simpl; auto 10|].
  split. { intros s Hs. in_cases Hs; split; simpl; auto; right; split; try discriminate; reflexivity. }
  vm_compute. reflexivity.
Qed.

(* ========================================================================= a non-trivial state for the examples *)
Local Open Scope string_scope.
Definition ex_tr (n : Z) (dx : Q) : transform := mkTr n false true [dx; 0%Q; 0%Q] [].
(* 1 px 0 / 2 px 6e-5 / 3 px 1.2e-4 (a chain: 1~2, 2~3, not 1~3) / 4 cz 1 / 5 cz 1 / 6 so 5 / 7 so 5 (never merged)
   8 1 px 3 / 9 2 px 3 (tr1 = tr2 within tolerance) / 10 c/z 1 2 3 / 11 c/z 1 2 3.00005 / 12 c/z 1 2.5 3 *)
Definition ex_surfs : list surface :=
  [ mkSurf 1 CAxisPlane "PX" [0%Q] 0 0 false false 0 None;
    mkSurf 2 CAxisPlane "PX" [6 # 100000] 0 0 false false 0 None;
    mkSurf 3 CAxisPlane "PX" [12 # 100000] 0 0 false false 0 None;
    mkSurf 4 CCylOnAxis "CZ" [1%Q] 0 0 false false 0 None;
    mkSurf 5 CCylOnAxis "CZ" [1%Q] 0 0 false false 0 None;
    mkSurf 6 COther "SO" [5%Q] 0 0 false false 0 None;
    mkSurf 7 COther "SO" [5%Q] 0 0 false false 0 None;
    mkSurf 8 CAxisPlane "PX" [3%Q] 0 0 false false 1 (Some (ex_tr 1 1));
    mkSurf 9 CAxisPlane "PX" [3%Q] 0 0 false false 2 (Some (ex_tr 2 (100001 # 100000)));
    mkSurf 10 CCylParAxis "C/Z" [1%Q; 2%Q; 3%Q] 0 0 false false 0 None;
    mkSurf 11 CCylParAxis "C/Z" [1%Q; 2%Q; 300005 # 100000] 0 0 false false 0 None;
    mkSurf 12 CCylParAxis "C/Z" [1%Q; 5 # 2; 3%Q] 0 0 false false 0 None ].
Definition ex_cells : list cell :=
  [ mkCell 1 [1; 2; 5] (GAnd (GSurf true 1) (GOr (GSurf false 2) (GNot (GSurf true 5))));
    mkCell 2 [2; 3; 6; 9] (GAnd (GAnd (GSurf true 2) (GSurf false 3)) (GOr (GSurf false 6) (GSurf true 9)));
    mkCell 3 [6; 7; 12] (GOr (GSurf false 6) (GAnd (GSurf true 7) (GSurf false 12)));
    mkCell 4 [11; 10; 5; 4] (GAnd (GNot (GCell 3)) (GAnd (GAnd (GSurf false 11) (GSurf true 10))
                                                          (GOr (GSurf false 5) (GSurf true 4)))) ].
Definition ex_prob : problem := mkProb ex_surfs ex_cells [ex_tr 1 1; ex_tr 2 (100001 # 100000)].
Definition ex_del : list Z := [2; 5; 9; 11].
Definition ex_map : list (Z * Z) := [(2, 3); (5, 4); (9, 8); (11, 10)].
Local Close Scope string_scope.

Lemma ex_scan : scan_old tol4 (p_surfs ex_prob) = Ok (ex_del, ex_map).
Proof. vm_compute. reflexivity. Qed.

Lemma ex_wf : wf ex_prob.
Proof.
  unfold wf. simpl. repeat constructor; simpl; intuition discriminate.
Qed.

Lemma ex_class_ok : Forall class_ok (p_surfs ex_prob).
Proof. repeat constructor. Qed.

Lemma ex_bc : bc_uniform (p_surfs ex_prob).
Proof. intros a b Ha Hb _. in_cases Ha; in_cases Hb; split; reflexivity. Qed.

Lemma ex_periodic_visible : Forall periodic_visible (p_surfs ex_prob).
Proof. repeat constructor. Qed.

Lemma ex_tr_uniform : tr_uniform (p_surfs ex_prob).
Proof. tr_uniform_tac. Qed.

Lemma ex_planes : planes_old_nonperiodic (p_surfs ex_prob).
Proof. intros s Hs _. in_cases Hs; reflexivity. Qed.

Lemma ex_links : links ex_prob.
Proof. intros c Hc. in_cases Hc; simpl; apply incl_refl. Qed.

Lemma ex_in_sync : forall s, In s (p_surfs ex_prob) -> in_sync (p_surfs ex_prob) (p_trs ex_prob) s.
Proof.
  intros s Hs. in_cases Hs; split; simpl; auto; right; split; try discriminate; reflexivity.
Qed.

(* the call on the example: 2 -> 3 (the entry 2 -> 1 was overwritten), 5 -> 4, 9 -> 8, 11 -> 10 *)
Definition ex_after_cells : list cell :=
  [ mkCell 1 [] (GAnd (GSurf true 1) (GOr (GSurf false 3) (GNot (GSurf true 4))));
    mkCell 2 [] (GAnd (GAnd (GSurf true 3) (GSurf false 3)) (GOr (GSurf false 6) (GSurf true 8)));
    mkCell 3 [] (GOr (GSurf false 6) (GAnd (GSurf true 7) (GSurf false 12)));
    mkCell 4 [] (GAnd (GNot (GCell 3)) (GAnd (GAnd (GSurf false 10) (GSurf true 10))
                                                  (GOr (GSurf false 4) (GSurf true 4)))) ].

Definition ex_after : problem := match dedup_old tol4 ex_prob with Ok P' => P' | Err _ => ex_prob end.

Lemma ex_dedup :
  dedup_old tol4 ex_prob = Ok ex_after /\
  map s_num (p_surfs ex_after) = [1; 3; 4; 6; 7; 8; 10; 12] /\ p_cells ex_after = ex_after_cells.
Proof. split; [vm_compute; reflexivity | split; vm_compute; reflexivity]. Qed.

(* an assignment of sides that identifies the merged surfaces and makes the regions non-constant *)
Definition ex_es (n : Z) : bool := memZ n [1; 2; 3; 7; 10; 11].

Lemma identifies_forall : forall m es,
  Forall (fun kv => es (fst kv) = es (snd kv)) m -> identifies m es.
Proof.
  intros m es H d s. induction H as [|[k v] r Hkv _ IH]; simpl; [discriminate|].
  destruct (Z.eqb k d) eqn:E; [|exact IH].
  apply Z.eqb_eq in E. subst. intro H0. inversion H0; subst. exact Hkv.
Qed.

Lemma ex_identifies : identifies ex_map ex_es.
Proof. apply identifies_forall. repeat constructor. Qed.

Lemma ex_regions :
  map (fun c => region ex_es (fun _ => false) (c_geom c)) ex_cells = [true; false; true; false] /\
  map (fun c => region ex_es (fun _ => false) (c_geom c)) ex_after_cells = [true; false; true; false].
Proof. split; vm_compute; reflexivity. Qed.

(* ========================================================================= a second call *)
(* `1 px 0` / `2 px 5e-5` / `3 so 5`: a first call with tolerance 1e-9 merges nothing but empties every
   cell.surfaces (Cell.update_pointers); the second call with 1e-4 removes surface 2 and re-points no cell *)
Definition tol9 : Q := 1 # 1000000000.
Definition w_twice : problem :=
  mkProb [w_px 1 0 false 0 0 0 None; w_px 2 (5 # 100000) false 0 0 0 None; w_so 3] w_cells [].

Theorem old_second_call_refuted : exists P P1 P2 c' n,
  wf P /\ links P /\ Forall class_ok (p_surfs P) /\ planes_old_nonperiodic (p_surfs P) /\ tr_uniform (p_surfs P) /\
  (forall s, In s (p_surfs P) -> in_sync (p_surfs P) (p_trs P) s) /\
  dedup_old tol9 P = Ok P1 /\ p_surfs P1 = p_surfs P /\ ~ links P1 /\
  dedup_old tol4 P1 = Ok P2 /\
  In c' (p_cells P2) /\ In n (leaf_surfs (c_geom c')) /\ ~ In n (map s_num (p_surfs P2)).
Proof.
  exists w_twice. eexists. eexists. eexists. exists 2.
  split. { unfold wf; simpl; repeat constructor; simpl; intuition discriminate. }
  split. { intros c Hc. in_cases Hc; simpl; apply incl_refl. }
  split; [repeat constructor|].
  split. { intros s Hs _. in_cases Hs; reflexivity. }
  split; [tr_uniform_tac|].
  split. { intros s Hs. in_cases Hs; split; simpl; auto. }
  split; [vm_compute; reflexivity|]. split; [reflexivity|].
  split. { intro H. specialize (H _ (or_introl eq_refl) 1). simpl in H. apply H. left. reflexivity. }
  split; [vm_compute; reflexivity|].
  split; [left; reflexivity|]. split; [simpl; auto|].
  simpl. intros [H|[H|[]]]; discriminate.
Qed.

(* ######################################################################### the repaired variant = the code at HEAD *)
(* ========================================================================= the scan_old over any test *)
Section ScanG.
  Variable cand : surface -> surface -> res bool.
  Variable all : list surface.
  Hypothesis cand_neq : forall a b, cand a b = Ok true -> s_num b <> s_num a.

  Definition inv_basic (del : list Z) (m : list (Z * Z)) : Prop :=
    (forall n, In n del <-> lookup n m <> None) /\
    (forall d s, lookup d m = Some s ->
       exists sd ss, In sd all /\ In ss all /\ s_num sd = d /\ s_num ss = s /\ cand ss sd = Ok true).

  Lemma inv_basic_step : forall s ms del m,
    In s all -> filter_res (cand s) all = Ok ms -> inv_basic del m ->
    inv_basic (fst (record_matches (map s_num ms) (s_num s) del m))
                (snd (record_matches (map s_num ms) (s_num s) del m)).
  Proof.
    intros s ms del m Hs Hf [Hk Hj]. split.
    - intro n. rewrite record_matches_del, record_matches_lookup.
      destruct (memZ n (map s_num ms)) eqn:E.
      + apply memZ_In in E. split; [intros _; discriminate | intros _; right; exact E].
      + apply memZ_false in E. rewrite Hk. tauto.
    - intros d v. rewrite record_matches_lookup.
      destruct (memZ d (map s_num ms)) eqn:E.
      + intro H. inversion H; subst v; clear H. apply memZ_In in E. apply in_map_iff in E.
        destruct E as [x [Hx Hin]]. apply (filter_res_spec _ _ _ Hf) in Hin. destruct Hin as [Hxa Hc].
        exists x, s. auto.
      + apply Hj.
  Qed.

  Lemma scan_loop_inv_basic : forall todo del m del' m',
    incl todo all -> inv_basic del m -> scan_loop_g cand all todo del m = Ok (del', m') -> inv_basic del' m'.
  Proof.
    induction todo as [|s r IH]; intros del m del' m' Hincl Hinv H; simpl in H.
    - inversion H; subst. exact Hinv.
    - assert (Hr : incl r all) by (intros x Hx; apply Hincl; right; exact Hx).
      destruct (memZ (s_num s) del).
      + eapply IH; eauto.
      + destruct (filter_res (cand s) all) as [ms|] eqn:Hf; [|discriminate].
        destruct (record_matches (map s_num ms) (s_num s) del m) as [d1 m1] eqn:Hrm.
        eapply IH; [exact Hr | | exact H].
        pose proof (inv_basic_step s ms del m (Hincl s (or_introl eq_refl)) Hf Hinv) as Hstep.
        rewrite Hrm in Hstep. exact Hstep.
  Qed.

  Definition inv_chain (del : list Z) (m : list (Z * Z)) : Prop :=
    (forall d s, lookup d m = Some s -> ~ In s del) /\
    (forall d ss, In ss all -> lookup d m = Some (s_num ss) ->
       forall x, In x all -> cand ss x = Ok true -> In (s_num x) del).

  Hypothesis Hnodup : NoDup (map s_num all).
  Hypothesis Hsym : forall a b, In a all -> In b all -> cand a b = Ok true -> cand b a = Ok true.

  Lemma inv_chain_step : forall s ms del m,
    In s all -> ~ In (s_num s) del -> filter_res (cand s) all = Ok ms -> inv_chain del m ->
    inv_chain (fst (record_matches (map s_num ms) (s_num s) del m))
                (snd (record_matches (map s_num ms) (s_num s) del m)).
  Proof.
    intros s ms del m Hs Hnd Hf [Hv Hw].
    assert (Hms : forall x, In x ms <-> In x all /\ cand s x = Ok true)
      by (apply filter_res_spec; exact Hf).
    split.
    - intros d v. rewrite record_matches_lookup, record_matches_del.
      destruct (memZ d (map s_num ms)) eqn:E.
      + intro H. inversion H; subst v; clear H. intros [H|H]; [exact (Hnd H)|].
        apply in_map_iff in H. destruct H as [x [Hx Hin]]. apply Hms in Hin. destruct Hin as [_ Hc].
        apply cand_neq in Hc. congruence.
      + intros Hl [H|H]; [exact (Hv _ _ Hl H)|].
        apply in_map_iff in H. destruct H as [x [Hx Hin]]. apply Hms in Hin. destruct Hin as [Hxa Hc].
        apply Hnd. apply (Hw d x Hxa); [rewrite Hx; exact Hl | exact Hs |].
        apply Hsym; assumption.
    - intros d ss Hss. rewrite record_matches_lookup.
      destruct (memZ d (map s_num ms)) eqn:E.
      + intro H. inversion H as [Hn]; clear H.
        assert (ss = s) by (apply (same_num_same_surface all Hnodup); auto). subst ss.
        intros x Hx Hc. apply record_matches_del. right. apply in_map. apply Hms. auto.
      + intros Hl x Hx Hc. apply record_matches_del. left. exact (Hw d ss Hss Hl x Hx Hc).
  Qed.

  Lemma scan_loop_inv_chain : forall todo del m del' m',
    incl todo all -> inv_chain del m -> scan_loop_g cand all todo del m = Ok (del', m') -> inv_chain del' m'.
  Proof.
    induction todo as [|s r IH]; intros del m del' m' Hincl Hinv H; simpl in H.
    - inversion H; subst. exact Hinv.
    - assert (Hr : incl r all) by (intros x Hx; apply Hincl; right; exact Hx).
      destruct (memZ (s_num s) del) eqn:Hmem.
      + eapply IH; eauto.
      + destruct (filter_res (cand s) all) as [ms|] eqn:Hf; [|discriminate].
        destruct (record_matches (map s_num ms) (s_num s) del m) as [d1 m1] eqn:Hrm.
        eapply IH; [exact Hr | | exact H].
        apply memZ_false in Hmem.
        pose proof (inv_chain_step s ms del m (Hincl s (or_introl eq_refl)) Hmem Hf Hinv) as Hstep.
        rewrite Hrm in Hstep. exact Hstep.
  Qed.
End ScanG.

(* ========================================================================= the repaired test *)
Definition disp3 (all : list surface) : Prop :=
  forall s t, In s all -> s_tr s = Some t -> List.length (t_disp t) = 3%nat.

Lemma candidate_same_kind : forall tol a b, candidate tol a b = Ok true -> same_kind a b = true.
Proof.
  intros tol a b. unfold candidate.
  destruct (periodic_now a); [discriminate|].
  destruct (same_kind a b); [reflexivity | simpl; discriminate].
Qed.

Lemma candidate_num_neq : forall tol a b, candidate tol a b = Ok true -> s_num b <> s_num a.
Proof.
  intros tol a b H. apply candidate_same_kind in H. unfold same_kind in H.
  apply andb_true_iff in H. destruct H as [H _]. apply negb_true_iff in H. apply Z.eqb_neq in H. exact H.
Qed.

Lemma candidate_type_eq : forall tol a b, candidate tol a b = Ok true -> s_type b = s_type a.
Proof.
  intros tol a b H. apply candidate_same_kind in H. unfold same_kind in H.
  apply andb_true_iff in H. destruct H as [_ H]. apply String.eqb_eq in H. exact H.
Qed.

Lemma may_merge_sym : forall a b, may_merge a b = may_merge b a.
Proof.
  intros a b. unfold may_merge.
  destruct (periodic_now a), (periodic_now b), (s_refl a), (s_refl b), (s_white a), (s_white b); reflexivity.
Qed.

Lemma may_merge_spec : forall a b, may_merge a b = true ->
  s_perptr a = 0 /\ s_perptr b = 0 /\ s_refl a = s_refl b /\ s_white a = s_white b.
Proof.
  intros a b H. unfold may_merge, periodic_now in H.
  repeat (apply andb_true_iff in H; destruct H as [H ?]).
  rewrite negb_involutive in *. 
  repeat split; try (apply Z.eqb_eq; assumption); apply Bool.eqb_prop; assumption.
Qed.

Lemma tr_equiv_sym : forall tol t t',
  List.length (t_disp t) = List.length (t_disp t') ->
  tr_equivalent tol t t' = Ok true -> tr_equivalent tol t' t = Ok true.
Proof.
  intros tol t t' Hd H. unfold tr_equivalent in *.
  destruct (Bool.eqb (t_deg t) (t_deg t')) eqn:Ed; simpl in H; [|discriminate].
  destruct (Bool.eqb (t_m2a t) (t_m2a t')) eqn:Em; simpl in H; [|discriminate].
  apply Bool.eqb_prop in Ed. apply Bool.eqb_prop in Em. rewrite <- Ed, <- Em, !Bool.eqb_reflx. simpl.
  destruct (vec_loop tol (t_disp t) (t_disp t')) as [[|]|] eqn:Ev; try discriminate.
  rewrite (vec_loop_sym _ _ _ Ev Hd).
  destruct (Nat.eqb (List.length (t_rot t)) (List.length (t_rot t'))) eqn:El; simpl in H; [|discriminate].
  apply Nat.eqb_eq in El. rewrite <- El, Nat.eqb_refl. simpl.
  apply vec_loop_sym; assumption.
Qed.

Lemma tr_equiv_same : forall tol t t',
  List.length (t_disp t) = List.length (t_disp t') -> (0 < tol)%Q ->
  tr_equivalent tol t t' = Ok true -> trdata_same tol (Some t) (Some t').
Proof.
  intros tol t t' Hd Hpos H. unfold tr_equivalent in H. simpl.
  destruct (Bool.eqb (t_deg t) (t_deg t')) eqn:Ed; simpl in H; [|discriminate].
  destruct (Bool.eqb (t_m2a t) (t_m2a t')) eqn:Em; simpl in H; [|discriminate].
  apply Bool.eqb_prop in Ed. apply Bool.eqb_prop in Em.
  destruct (vec_loop tol (t_disp t) (t_disp t')) as [[|]|] eqn:Ev; try discriminate.
  destruct (Nat.eqb (List.length (t_rot t)) (List.length (t_rot t'))) eqn:El; simpl in H; [|discriminate].
  apply Nat.eqb_eq in El.
  split; [exact Ed|]. split; [exact Em|]. split; [apply vec_loop_within; assumption|].
  unfold rot_full. destruct (t_rot t) as [|r0 r] eqn:Er.
  - destruct (t_rot t') as [|r0' r'] eqn:Er'; [|simpl in El; discriminate].
    rewrite Ed. apply within_refl. exact Hpos.
  - destruct (t_rot t') as [|r0' r'] eqn:Er'; [simpl in El; discriminate|].
    apply vec_loop_within; assumption.
Qed.

Lemma tr_equiv_total : forall tol t t',
  List.length (t_disp t) = List.length (t_disp t') -> exists b, tr_equivalent tol t t' = Ok b.
Proof.
  intros tol t t' Hd. unfold tr_equivalent.
  destruct (negb (Bool.eqb (t_deg t) (t_deg t'))); [eexists; reflexivity|].
  destruct (negb (Bool.eqb (t_m2a t) (t_m2a t'))); [eexists; reflexivity|].
  destruct (vec_loop_total tol _ _ Hd) as [b Hb]. rewrite Hb. destruct b; [|eexists; reflexivity].
  destruct (Nat.eqb (List.length (t_rot t)) (List.length (t_rot t'))) eqn:El; simpl; [|eexists; reflexivity].
  apply vec_loop_total. apply Nat.eqb_eq. exact El.
Qed.

Section Pair.
  Variable tol : Q.
  Variables a b : surface.
  Hypothesis Hsh : forall t t', s_tr a = Some t -> s_tr b = Some t' -> List.length (t_disp t) = List.length (t_disp t').

  Lemma tr_check_sym : tr_check tol a b = Ok true -> tr_check tol b a = Ok true.
  Proof.
    intro H. unfold tr_check in *.
    destruct (s_tr a) as [t|], (s_tr b) as [t'|]; try discriminate; [|reflexivity].
    apply tr_equiv_sym; auto.
  Qed.

  Lemma tr_check_same : (0 < tol)%Q -> tr_check tol a b = Ok true -> trdata_same tol (s_tr a) (s_tr b).
  Proof.
    intros Hpos H. unfold tr_check in H.
    destruct (s_tr a) as [t|], (s_tr b) as [t'|]; try discriminate.
    - apply tr_equiv_same; auto.
    - exact I.
  Qed.

  Lemma tr_check_total : exists r, tr_check tol a b = Ok r.
  Proof.
    unfold tr_check. destruct (s_tr a) as [t|], (s_tr b) as [t'|]; try (eexists; reflexivity).
    apply tr_equiv_total. apply Hsh; reflexivity.
  Qed.

  Lemma candidate_total : exists r, candidate tol a b = Ok r.
  Proof.
    unfold candidate. destruct tr_check_total as [r Hr].
    destruct (periodic_now a); [eexists; reflexivity|].
    destruct (negb (same_kind a b)); [eexists; reflexivity|].
    destruct (s_class a); try (eexists; reflexivity);
      (destruct (negb (may_merge a b)); [eexists; reflexivity|]).
    - destruct (near tol (cnst a 0) (cnst b 0)); [rewrite Hr|]; eexists; reflexivity.
    - destruct (near tol (cnst a 0) (cnst b 0)); [rewrite Hr|]; eexists; reflexivity.
    - destruct (near tol (cnst a 2) (cnst b 2) && near tol (cnst a 0) (cnst b 0) && near tol (cnst a 1) (cnst b 1));
        [rewrite Hr|]; eexists; reflexivity.
  Qed.

  Lemma candidate_true_dup : class_ok a -> class_ok b -> candidate tol a b = Ok true -> true_dup tol a b.
  Proof.
    intros [Hca Haa] [Hcb Hab] H.
    pose proof (candidate_type_eq _ _ _ H) as Hty. symmetry in Hty.
    assert (Hcl : s_class b = s_class a) by (rewrite Hca, Hcb, Hty; reflexivity).
    unfold candidate in H.
    destruct (periodic_now a) eqn:Epa; [discriminate|].
    destruct (same_kind a b); simpl in H; [|discriminate].
    rewrite Hcl in Hab.
    destruct (s_class a) eqn:Ecl; simpl in *; try discriminate;
      (destruct (may_merge a b) eqn:Emm; simpl in H; [|discriminate]);
      destruct (may_merge_spec _ _ Emm) as [Hp1 [Hp2 [Hrf Hwh]]].
    - destruct (near tol (cnst a 0) (cnst b 0)) eqn:En; [|discriminate].
      pose proof (near_tol_pos _ _ _ En) as Hpos.
      destruct (length1 _ Haa) as [x Hx]. destruct (length1 _ Hab) as [y Hy].
      rewrite (cnst_single _ _ Hx), (cnst_single _ _ Hy) in En.
      repeat split; auto.
      + apply tr_check_same; auto.
      + rewrite Hx, Hy. constructor; [apply near_lt; exact En | constructor].
    - destruct (near tol (cnst a 0) (cnst b 0)) eqn:En; [|discriminate].
      pose proof (near_tol_pos _ _ _ En) as Hpos.
      destruct (length1 _ Haa) as [x Hx]. destruct (length1 _ Hab) as [y Hy].
      rewrite (cnst_single _ _ Hx), (cnst_single _ _ Hy) in En.
      repeat split; auto.
      + apply tr_check_same; auto.
      + rewrite Hx, Hy. constructor; [apply near_lt; exact En | constructor].
    - destruct (near tol (cnst a 2) (cnst b 2) && near tol (cnst a 0) (cnst b 0) && near tol (cnst a 1) (cnst b 1))
        eqn:En; [|discriminate].
      apply andb_true_iff in En. destruct En as [En E1]. apply andb_true_iff in En. destruct En as [E2 E0].
      pose proof (near_tol_pos _ _ _ E0) as Hpos.
      destruct (length3 _ Haa) as [x0 [x1 [x2 Hx]]]. destruct (length3 _ Hab) as [y0 [y1 [y2 Hy]]].
      unfold cnst in E0, E1, E2. rewrite Hx, Hy in E0, E1, E2. simpl in E0, E1, E2.
      repeat split; auto.
      + apply tr_check_same; auto.
      + rewrite Hx, Hy. repeat constructor; apply near_lt; assumption.
  Qed.

  Lemma candidate_sym1 : class_ok a -> class_ok b -> candidate tol a b = Ok true -> candidate tol b a = Ok true.
  Proof.
    intros [Hca _] [Hcb _] H.
    pose proof (candidate_type_eq _ _ _ H) as Hty.
    assert (Hcl : s_class b = s_class a) by (rewrite Hca, Hcb, Hty; reflexivity).
    unfold candidate in *.
    destruct (periodic_now a) eqn:Epa; [discriminate|].
    rewrite (same_kind_sym b a). destruct (same_kind a b); simpl in *; [|discriminate].
    rewrite Hcl. rewrite (may_merge_sym b a).
    destruct (s_class a) eqn:Ecl; try discriminate;
      (destruct (may_merge a b) eqn:Emm; simpl in *; [|discriminate]);
      destruct (may_merge_spec _ _ Emm) as [_ [Hp2 _]];
      assert (Epb : periodic_now b = false) by (unfold periodic_now; rewrite Hp2; reflexivity); rewrite Epb.
    - rewrite (near_sym tol (cnst b 0)).
      destruct (near tol (cnst a 0) (cnst b 0)); [|discriminate]. apply tr_check_sym; assumption.
    - rewrite (near_sym tol (cnst b 0)).
      destruct (near tol (cnst a 0) (cnst b 0)); [|discriminate]. apply tr_check_sym; assumption.
    - rewrite (near_sym tol (cnst b 2)), (near_sym tol (cnst b 0)), (near_sym tol (cnst b 1)).
      destruct (near tol (cnst a 2) (cnst b 2) && near tol (cnst a 0) (cnst b 0) && near tol (cnst a 1) (cnst b 1));
        [|discriminate].
      apply tr_check_sym; assumption.
  Qed.
End Pair.

(* ========================================================================= cell.surfaces keeps covering the leaves *)
Definition sa_step (nd : list (Z * Z)) (acc : list Z) (n : Z) : list Z :=
  match lookup n nd with
  | Some s => if memZ s acc then acc else (acc ++ [s])%list
  | None => acc
  end.

Definition loop_step (acc : list Z) (kv : Z * Z) : list Z :=
  let acc' := remove_first (fst kv) acc in if memZ (snd kv) acc' then acc' else (acc' ++ [snd kv])%list.

Lemma surfs_after_unfold : forall nd g cs,
  surfs_after nd g cs = fold_left loop_step nd (fold_left (sa_step nd) (leaf_surfs g) cs).
Proof. reflexivity. Qed.

Lemma sa_step_incl : forall nd acc n x, In x acc -> In x (sa_step nd acc n).
Proof.
  intros nd acc n x H. unfold sa_step. destruct (lookup n nd); [|exact H].
  destruct (memZ z acc); [exact H | apply in_or_app; left; exact H].
Qed.

Lemma sa_fold_incl : forall nd ls acc x, In x acc -> In x (fold_left (sa_step nd) ls acc).
Proof.
  intros nd. induction ls as [|n ls IH]; intros acc x H; simpl; [exact H|].
  apply IH. apply sa_step_incl. exact H.
Qed.

Lemma sa_fold_origin : forall nd ls acc x,
  In x (fold_left (sa_step nd) ls acc) -> In x acc \/ exists n, lookup n nd = Some x.
Proof.
  intros nd. induction ls as [|n ls IH]; intros acc x H; simpl in H; [left; exact H|].
  apply IH in H. destruct H as [H|H]; [|right; exact H].
  unfold sa_step in H. destruct (lookup n nd) as [s|] eqn:El; [|left; exact H].
  destruct (memZ s acc); [left; exact H|].
  apply in_app_or in H. destruct H as [H|[<-|[]]]; [left; exact H | right; exists n; exact El].
Qed.

Lemma remove_first_other : forall k l x, x <> k -> In x l -> In x (remove_first k l).
Proof.
  intros k. induction l as [|a l IH]; intros x Hne Hin; [destruct Hin|].
  simpl. destruct (Z.eqb a k) eqn:E.
  - apply Z.eqb_eq in E. subst a. destruct Hin as [->|Hin]; [congruence | exact Hin].
  - destruct Hin as [->|Hin]; [left; reflexivity | right; apply IH; assumption].
Qed.

Lemma remove_first_incl : forall k l x, In x (remove_first k l) -> In x l.
Proof.
  intros k. induction l as [|a l IH]; intros x H; simpl in *; [exact H|].
  destruct (Z.eqb a k); [right; exact H|]. destruct H as [->|H]; [left; reflexivity | right; apply IH; exact H].
Qed.

Lemma loop_step_keeps : forall acc (kv : Z * Z) x, fst kv <> x -> In x acc -> In x (loop_step acc kv).
Proof.
  intros acc kv x Hne Hin. unfold loop_step.
  assert (H : In x (remove_first (fst kv) acc)) by (apply remove_first_other; [congruence | exact Hin]).
  destruct (memZ (snd kv) (remove_first (fst kv) acc)); [exact H | apply in_or_app; left; exact H].
Qed.

Lemma loop_step_adds : forall acc (kv : Z * Z), In (snd kv) (loop_step acc kv).
Proof.
  intros acc kv. unfold loop_step. destruct (memZ (snd kv) (remove_first (fst kv) acc)) eqn:E.
  - apply memZ_In. exact E.
  - apply in_or_app. right. left. reflexivity.
Qed.

Lemma loop_keeps : forall (nd : list (Z * Z)) acc x,
  (forall kv : Z * Z, In kv nd -> fst kv <> x) -> In x acc -> In x (fold_left loop_step nd acc).
Proof.
  induction nd as [|kv nd IH]; intros acc x Hk Hin; simpl; [exact Hin|].
  apply IH; [intros kv' H'; apply Hk; right; exact H' | apply loop_step_keeps; [apply Hk; left; reflexivity | exact Hin]].
Qed.

Lemma loop_adds : forall (nd : list (Z * Z)) acc d s,
  In (d, s) nd -> (forall kv : Z * Z, In kv nd -> fst kv <> s) -> In s (fold_left loop_step nd acc).
Proof.
  induction nd as [|kv nd IH]; intros acc d s Hin Hk; [destruct Hin|]. simpl.
  destruct Hin as [->|Hin].
  - apply loop_keeps; [intros kv' H'; apply Hk; right; exact H' | exact (loop_step_adds acc (d, s))].
  - eapply IH; [exact Hin | intros kv' H'; apply Hk; right; exact H'].
Qed.

Lemma loop_origin : forall (nd : list (Z * Z)) acc x,
  In x (fold_left loop_step nd acc) -> In x acc \/ exists d, In (d, x) nd.
Proof.
  induction nd as [|kv nd IH]; intros acc x H; simpl in H; [left; exact H|].
  apply IH in H. destruct H as [H|[d H]]; [|right; exists d; right; exact H].
  unfold loop_step in H. destruct (memZ (snd kv) (remove_first (fst kv) acc)).
  - left. eapply remove_first_incl. exact H.
  - apply in_app_or in H. destruct H as [H|[<-|[]]]; [left; eapply remove_first_incl; exact H|].
    right. exists (fst kv). left. destruct kv; reflexivity.
Qed.

Lemma lookup_None_keys : forall x d, lookup x d = None -> forall kv : Z * Z, In kv d -> fst kv <> x.
Proof.
  intros x. induction d as [|[k v] d IH]; intros H kv Hin; [destruct Hin|].
  simpl in H. destruct (Z.eqb k x) eqn:E; [discriminate|].
  destruct Hin as [<-|Hin]; [simpl; apply Z.eqb_neq; exact E | apply IH; assumption].
Qed.

Lemma lookup_Some_In : forall x v d, lookup x d = Some v -> In (x, v) d.
Proof.
  intros x v. induction d as [|[k w] d IH]; intro H; simpl in H; [discriminate|].
  destruct (Z.eqb k x) eqn:E; [apply Z.eqb_eq in E; inversion H; subst; left; reflexivity | right; apply IH; exact H].
Qed.

Lemma In_lookup_some : forall (d : list (Z * Z)) x v, In (x, v) d -> lookup x d <> None.
Proof.
  induction d as [|[k w] d IH]; intros x v H; [destruct H|]. simpl.
  destruct (Z.eqb k x) eqn:E; [discriminate|].
  destruct H as [H|H]; [inversion H; subst; rewrite Z.eqb_refl in E; discriminate | eapply IH; exact H].
Qed.

Lemma cell_dedup_num : forall m c, c_num (cell_dedup m c) = c_num c.
Proof. intros m c. unfold cell_dedup. destruct (restrict (c_surfs c) m); reflexivity. Qed.

Lemma cell_dedup_geom : forall m c, c_geom (cell_dedup m c) = c_geom (cell_dedup_old m c).
Proof. intros m c. unfold cell_dedup, cell_dedup_old. destruct (restrict (c_surfs c) m); reflexivity. Qed.

Lemma cell_dedup_links : forall m c,
  (forall d s, lookup d m = Some s -> lookup s m = None) ->
  incl (leaf_surfs (c_geom c)) (c_surfs c) ->
  incl (leaf_surfs (c_geom (cell_dedup m c))) (c_surfs (cell_dedup m c)).
Proof.
  intros m c Hsurv Hl. unfold cell_dedup.
  destruct (restrict (c_surfs c) m) as [|kv0 nd0] eqn:Hr; [exact Hl|].
  set (nd := kv0 :: nd0) in *. simpl c_geom. simpl c_surfs.
  rewrite hs_dedup_spec, leaf_surfs_map_leaves, surfs_after_unfold.
  intros x Hx. apply in_map_iff in Hx. destruct Hx as [n [Hx Hn]].
  assert (Hnc : In n (c_surfs c)) by (apply Hl; exact Hn).
  assert (Hnd : forall k, lookup k nd = if memZ k (c_surfs c) then lookup k m else None).
  { intro k. rewrite <- Hr. apply lookup_restrict. }
  unfold ren in Hx. destruct (lookup n nd) as [s|] eqn:El.
  - subst x. apply (loop_adds nd _ n s).
    + apply lookup_Some_In. exact El.
    + apply lookup_None_keys. rewrite Hnd.
      assert (Hm : lookup n m = Some s).
      { rewrite Hnd in El. apply memZ_In in Hnc. rewrite Hnc in El. exact El. }
      rewrite (Hsurv _ _ Hm). destruct (memZ s (c_surfs c)); reflexivity.
  - subst x. apply loop_keeps.
    + apply lookup_None_keys. exact El.
    + apply sa_fold_incl. exact Hnc.
Qed.

(* ========================================================================= the repaired call *)
Definition disp_uniform (all : list surface) : Prop :=
  forall a b t t', In a all -> In b all -> s_tr a = Some t -> s_tr b = Some t' ->
                   List.length (t_disp t) = List.length (t_disp t').

Lemma disp3_uniform : forall all, disp3 all -> disp_uniform all.
Proof. intros all H a b t t' Ha Hb H1 H2. rewrite (H a t Ha H1), (H b t' Hb H2). reflexivity. Qed.

Lemma scan_inv_basic : forall tol all del m,
  scan tol all = Ok (del, m) -> inv_basic (candidate tol) all del m.
Proof.
  intros tol all del m H. unfold scan in H.
  eapply scan_loop_inv_basic; [apply incl_refl | | exact H].
  split; [intro n; simpl; split; [tauto | intro H0; apply H0; reflexivity] | intros d s H0; discriminate].
Qed.

Lemma cand_sym : forall tol all,
  Forall class_ok all -> disp_uniform all ->
  forall a b, In a all -> In b all -> candidate tol a b = Ok true -> candidate tol b a = Ok true.
Proof.
  intros tol all Hok Hd a b Ha Hb H. rewrite Forall_forall in Hok.
  apply candidate_sym1; auto. intros t t' H1 H2. exact (Hd a b t t' Ha Hb H1 H2).
Qed.

Lemma scan_inv_chain : forall tol all del m,
  NoDup (map s_num all) -> Forall class_ok all -> disp_uniform all ->
  scan tol all = Ok (del, m) -> inv_chain (candidate tol) all del m.
Proof.
  intros tol all del m Hnd Hok Hd H. unfold scan in H.
  eapply scan_loop_inv_chain; [exact (candidate_num_neq tol) | exact Hnd | apply cand_sym; assumption
                                | apply incl_refl | | exact H].
  split; [intros d s H0; discriminate | intros d ss _ H0; discriminate].
Qed.

Lemma scan_loop_total : forall cand all todo del m,
  (forall s x, In s all -> In x all -> exists r, cand s x = Ok r) ->
  incl todo all -> exists r, scan_loop_g cand all todo del m = Ok r.
Proof.
  intros cand all. induction todo as [|s r IH]; intros del m Ht Hincl; simpl; [eexists; reflexivity|].
  assert (Hr : incl r all) by (intros x Hx; apply Hincl; right; exact Hx).
  destruct (memZ (s_num s) del); [apply IH; assumption|].
  assert (Hf : exists ms, filter_res (cand s) all = Ok ms).
  { apply filter_res_total. intros x Hx. apply Ht; [apply Hincl; left; reflexivity | exact Hx]. }
  destruct Hf as [ms Hms]. rewrite Hms.
  destruct (record_matches (map s_num ms) (s_num s) del m) as [d1 m1]. apply IH; assumption.
Qed.

Lemma scan_total : forall tol all, disp_uniform all -> exists r, scan tol all = Ok r.
Proof.
  intros tol all Hd. unfold scan. apply scan_loop_total; [|apply incl_refl].
  intros s x Hs Hx. apply candidate_total. intros t t' H1 H2. exact (Hd s x t t' Hs Hx H1 H2).
Qed.

Lemma dedup_inv : forall tol P P',
  dedup tol P = Ok P' ->
  exists del m, scan tol (p_surfs P) = Ok (del, m) /\
    P' = mkProb (remove_all del (map (repoint_periodic m) (p_surfs P))) (map (cell_dedup m) (p_cells P)) (p_trs P).
Proof.
  intros tol P P' H. unfold dedup in H.
  destruct (scan tol (p_surfs P)) as [[del m]|] eqn:Hs; [|discriminate].
  inversion H; subst. exists del, m. auto.
Qed.

Lemma repoint_num : forall m s, s_num (repoint_periodic m s) = s_num s.
Proof.
  intros m s. unfold repoint_periodic.
  destruct (if Z.eqb (s_perptr s) 0 then None else lookup (s_perptr s) m); reflexivity.
Qed.

Lemma repoint_nums : forall m l, map s_num (map (repoint_periodic m) l) = map s_num l.
Proof. intros m l. rewrite map_map. apply map_ext. intro s. apply repoint_num. Qed.

Lemma repoint_perptr : forall m s, s_perptr (repoint_periodic m s) = if Z.eqb (s_perptr s) 0 then 0 else ren m (s_perptr s).
Proof.
  intros m s. unfold repoint_periodic, ren. destruct (Z.eqb (s_perptr s) 0) eqn:E.
  - apply Z.eqb_eq in E. exact E.
  - destruct (lookup (s_perptr s) m); reflexivity.
Qed.

Lemma repoint_id : forall m s, s_perptr s = 0 \/ lookup (s_perptr s) m = None -> repoint_periodic m s = s.
Proof.
  intros m s [H|H]; unfold repoint_periodic.
  - rewrite H. reflexivity.
  - rewrite H. destruct (Z.eqb (s_perptr s) 0); reflexivity.
Qed.

(* --- only true duplicates are merged: no side condition on boundary conditions, periodicity or rotations *)
Theorem only_true_duplicates : forall tol P del m,
  wf P -> Forall class_ok (p_surfs P) -> disp_uniform (p_surfs P) ->
  scan tol (p_surfs P) = Ok (del, m) ->
  forall d s sd ss, lookup d m = Some s ->
    In sd (p_surfs P) -> In ss (p_surfs P) -> s_num sd = d -> s_num ss = s -> true_dup tol ss sd.
Proof.
  intros tol P del m Hwf Hok Hdu Hs d s sd ss Hl Hsd Hss Hd Hn.
  destruct (scan_inv_basic _ _ _ _ Hs) as [_ Hj].
  destruct (Hj d s Hl) as [sd' [ss' [Hsd' [Hss' [Hd' [Hn' Hc]]]]]].
  assert (sd' = sd) by (apply (same_num_same_surface (p_surfs P) Hwf); auto; congruence).
  assert (ss' = ss) by (apply (same_num_same_surface (p_surfs P) Hwf); auto; congruence).
  subst sd' ss'. rewrite Forall_forall in Hok.
  apply candidate_true_dup; auto.
  intros t t' H1 H2. exact (Hdu ss sd t t' Hss Hsd H1 H2).
Qed.

Theorem cells_structure : forall tol P P' del m,
  scan tol (p_surfs P) = Ok (del, m) -> dedup tol P = Ok P' ->
  Forall2 (fun c c' =>
             c_num c' = c_num c /\
             exists f, (forall n, lookup n m = None -> f n = n) /\
                       (forall n, f n = n \/ lookup n m = Some (f n)) /\
                       (forall n, In n (c_surfs c) -> f n = ren m n) /\
                       c_geom c' = map_leaves f (c_geom c))
          (p_cells P) (p_cells P').
Proof.
  intros tol P P' del m Hs Hd. apply dedup_inv in Hd. destruct Hd as [del' [m' [Hs' ->]]].
  rewrite Hs in Hs'. inversion Hs'; subst del' m'. simpl.
  apply Forall2_map_both. intros c _. split.
  - apply cell_dedup_num.
  - exists (cell_ren m c). repeat split.
    + apply cell_ren_not_key.
    + apply cell_ren_cases.
    + apply cell_ren_linked.
    + rewrite cell_dedup_geom. apply cell_dedup_old_geom.
Qed.

Theorem region_preserved : forall tol P P' del m,
  scan tol (p_surfs P) = Ok (del, m) -> dedup tol P = Ok P' ->
  Forall2 (fun c c' =>
             c_num c' = c_num c /\ shape (c_geom c') = shape (c_geom c) /\
             forall es ec, identifies m es -> region es ec (c_geom c') = region es ec (c_geom c))
          (p_cells P) (p_cells P').
Proof.
  intros tol P P' del m Hs Hd. pose proof (cells_structure _ _ _ _ _ Hs Hd) as H.
  eapply Forall2_imp; [|exact H]. intros c c' [Hn [f [_ [Hc [_ Hg]]]]]. split; [exact Hn|]. split.
  - rewrite Hg. apply shape_map_leaves.
  - intros es ec Hid. rewrite Hg, region_map_leaves. apply region_ext. intros n _.
    destruct (Hc n) as [E|E]; [rewrite E; reflexivity | symmetry; apply Hid; exact E].
Qed.

(* survivors are never keys of the map *)
Lemma survivors_not_keys : forall tol P del m,
  wf P -> Forall class_ok (p_surfs P) -> disp_uniform (p_surfs P) ->
  scan tol (p_surfs P) = Ok (del, m) ->
  forall d s, lookup d m = Some s -> lookup s m = None.
Proof.
  intros tol P del m Hwf Hok Hdu Hs d s Hl.
  destruct (scan_inv_basic _ _ _ _ Hs) as [Hk _].
  destruct (scan_inv_chain _ _ _ _ Hwf Hok Hdu Hs) as [Hv _].
  destruct (lookup s m) eqn:E; [|reflexivity].
  exfalso. apply (Hv _ _ Hl). apply Hk. congruence.
Qed.

(* --- the surfaces: removed ones are gone, the others are untouched except a periodic pointer that followed
       its partner to the survivor *)
Theorem surfaces_after_call : forall tol P P' del m,
  wf P -> scan tol (p_surfs P) = Ok (del, m) -> dedup tol P = Ok P' ->
  p_surfs P' = filter (fun s => negb (memZ (s_num s) del)) (map (repoint_periodic m) (p_surfs P)) /\
  (forall s, s_perptr s = 0 \/ lookup (s_perptr s) m = None -> repoint_periodic m s = s) /\
  map s_num (p_surfs P') = filter (fun n => negb (memZ n del)) (map s_num (p_surfs P)).
Proof.
  intros tol P P' del m Hwf Hs Hd. apply dedup_inv in Hd. destruct Hd as [del' [m' [Hs' ->]]].
  rewrite Hs in Hs'. inversion Hs'; subst del' m'. simpl.
  assert (Hnd : NoDup (map s_num (map (repoint_periodic m) (p_surfs P)))) by (rewrite repoint_nums; exact Hwf).
  rewrite remove_all_filter by exact Hnd. split; [reflexivity|]. split; [apply repoint_id|].
  rewrite <- (repoint_nums m (p_surfs P)). generalize (map (repoint_periodic m) (p_surfs P)).
  induction l as [|a l IH]; simpl; [reflexivity|].
  destruct (memZ (s_num a) del); simpl; rewrite IH; reflexivity.
Qed.

(* --- no leaf refers to a removed surface, and cell.surfaces keeps covering the leaves: the call can be repeated *)
Theorem no_dangling_leaf : forall tol P P' del m,
  wf P -> links P -> Forall class_ok (p_surfs P) -> disp_uniform (p_surfs P) ->
  scan tol (p_surfs P) = Ok (del, m) -> dedup tol P = Ok P' ->
  links P' /\
  forall c', In c' (p_cells P') -> forall n, In n (leaf_surfs (c_geom c')) -> ~ In n del.
Proof.
  intros tol P P' del m Hwf Hl Hok Hdu Hs Hd.
  pose proof (survivors_not_keys _ _ _ _ Hwf Hok Hdu Hs) as Hsurv.
  destruct (scan_inv_basic _ _ _ _ Hs) as [Hk _].
  apply dedup_inv in Hd. destruct Hd as [del' [m' [Hs' ->]]].
  rewrite Hs in Hs'. inversion Hs'; subst del' m'. simpl. split.
  - intros c' Hc'. simpl in Hc'. apply in_map_iff in Hc'. destruct Hc' as [c [<- Hc]].
    apply cell_dedup_links; [exact Hsurv | apply Hl; exact Hc].
  - intros c' Hc' n Hn. apply in_map_iff in Hc'. destruct Hc' as [c [<- Hc]].
    rewrite cell_dedup_geom, cell_dedup_old_geom, leaf_surfs_map_leaves in Hn. apply in_map_iff in Hn. destruct Hn as [n0 [E Hn0]].
    assert (Hin : In n0 (c_surfs c)) by (apply (Hl c Hc); exact Hn0).
    rewrite (cell_ren_linked m c n0 Hin) in E. unfold ren in E. destruct (lookup n0 m) eqn:El.
    + subst z. intro Hd'. apply Hk in Hd'. apply Hd'. eapply Hsurv. exact El.
    + subst n0. intro Hd'. apply Hk in Hd'. apply Hd'. exact El.
Qed.

(* --- no periodic pointer to a removed surface *)
Theorem no_dangling_periodic : forall tol P P' del m,
  wf P -> Forall class_ok (p_surfs P) -> disp_uniform (p_surfs P) ->
  (forall s, In s (p_surfs P) -> s_perptr s = 0 \/ In (s_perptr s) (map s_num (p_surfs P))) ->
  scan tol (p_surfs P) = Ok (del, m) -> dedup tol P = Ok P' ->
  forall s', In s' (p_surfs P') -> s_perptr s' = 0 \/ In (s_perptr s') (map s_num (p_surfs P')).
Proof.
  intros tol P P' del m Hwf Hok Hdu Hper Hs Hd s' Hin.
  pose proof (survivors_not_keys _ _ _ _ Hwf Hok Hdu Hs) as Hsurv.
  destruct (scan_inv_basic _ _ _ _ Hs) as [Hk Hj].
  destruct (surfaces_after_call _ _ _ _ _ Hwf Hs Hd) as [Hsf [_ Hnums]].
  rewrite Hnums. rewrite Hsf in Hin. apply filter_In in Hin. destruct Hin as [Hin _].
  apply in_map_iff in Hin. destruct Hin as [s [<- Hs0]].
  rewrite repoint_perptr. destruct (Z.eqb (s_perptr s) 0) eqn:E0; [left; reflexivity|]. right.
  destruct (Hper s Hs0) as [H0|Hmem]; [rewrite H0 in E0; discriminate|].
  apply filter_In. unfold ren. destruct (lookup (s_perptr s) m) as [v|] eqn:El.
  - destruct (Hj _ _ El) as [sd [ss [_ [Hss [_ [Hv _]]]]]]. split.
    + rewrite <- Hv. apply in_map. exact Hss.
    + apply negb_true_iff. apply memZ_false. intro Hd'. apply Hk in Hd'. apply Hd'. eapply Hsurv. exact El.
  - split; [exact Hmem|]. apply negb_true_iff. apply memZ_false. intro Hd'. apply Hk in Hd'. apply Hd'. exact El.
Qed.

(* --- the call returns *)
Theorem dedup_completes : forall tol P, disp_uniform (p_surfs P) -> exists P', dedup tol P = Ok P'.
Proof.
  intros tol P Hd. unfold dedup. destruct (scan_total tol _ Hd) as [[del m] Hs]. rewrite Hs.
  eexists; reflexivity.
Qed.

Lemma repaired_witnesses :
  scan tol4 (p_surfs w_bc) = Ok ([], []) /\ scan tol4 (p_surfs w_per) = Ok ([], []) /\
  scan tol4 (p_surfs w_rot) = Ok ([], []) /\ scan tol4 (p_surfs w_dangle) = Ok ([2], [(2, 1)]) /\
  dedup tol4 w_revert = Ok w_revert /\ scan tol4 (p_surfs w_index) = Ok ([], []) /\
  scan tol4 (p_surfs ex_prob) = Ok (ex_del, ex_map) /\
  disp_uniform (p_surfs ex_prob) /\ disp_uniform (p_surfs w_index).
Proof.
  repeat (split; [vm_compute; reflexivity|]). split.
  - intros a b t t' Ha Hb H1 H2. in_cases Ha; in_cases Hb; simpl in H1, H2; try discriminate;
      inversion H1; inversion H2; subst; reflexivity.
  - intros a b t t' Ha Hb H1 H2. in_cases Ha; in_cases Hb; simpl in H1, H2; try discriminate;
      inversion H1; inversion H2; subst; reflexivity.
Qed.

(* ========================================================================= data-block cell modifier cards *)
Theorem old_cellmod_always_fails : forall tol P r,
  scan_old tol (p_surfs P) = Ok r -> dedup_call_old true tol P = Err MalformedInputError.
Proof. intros tol P r H. unfold dedup_call_old. rewrite H. reflexivity. Qed.

Theorem old_no_cellmod_same : forall tol P, dedup_call_old false tol P = dedup_old tol P.
Proof.
  intros tol P. unfold dedup_call_old, dedup_old. destruct (scan_old tol (p_surfs P)) as [[del m]|]; reflexivity.
Qed.

(* ========================================================================= more about the call at HEAD *)
Theorem map_justified : forall tol P del m,
  scan tol (p_surfs P) = Ok (del, m) ->
  (forall n, In n del <-> lookup n m <> None) /\
  (forall d s, lookup d m = Some s ->
     exists sd ss, In sd (p_surfs P) /\ In ss (p_surfs P) /\ s_num sd = d /\ s_num ss = s /\
                   s_num sd <> s_num ss /\ s_type sd = s_type ss /\ candidate tol ss sd = Ok true).
Proof.
  intros tol P del m Hs. destruct (scan_inv_basic _ _ _ _ Hs) as [Hk Hj]. split; [exact Hk|].
  intros d s Hl. destruct (Hj d s Hl) as [sd [ss [H1 [H2 [H3 [H4 H5]]]]]].
  exists sd, ss. repeat split; auto.
  - exact (candidate_num_neq _ _ _ H5).
  - exact (candidate_type_eq _ _ _ H5).
Qed.

Theorem survivors_survive : forall tol P del m,
  wf P -> Forall class_ok (p_surfs P) -> disp_uniform (p_surfs P) ->
  scan tol (p_surfs P) = Ok (del, m) ->
  forall d s, lookup d m = Some s -> ~ In s del /\ lookup s m = None.
Proof.
  intros tol P del m Hwf Hok Hdu Hs d s Hl.
  pose proof (survivors_not_keys _ _ _ _ Hwf Hok Hdu Hs _ _ Hl) as Hn. split; [|exact Hn].
  destruct (scan_inv_basic _ _ _ _ Hs) as [Hk _]. intro Hd. apply Hk in Hd. exact (Hd Hn).
Qed.

Theorem senses_preserved : forall tol P P' del m,
  scan tol (p_surfs P) = Ok (del, m) -> dedup tol P = Ok P' ->
  Forall2 (fun c c' =>
             shape (c_geom c') = shape (c_geom c) /\
             ((forall n, In n (leaf_surfs (c_geom c)) -> ~ In n del) -> c_geom c' = c_geom c))
          (p_cells P) (p_cells P').
Proof.
  intros tol P P' del m Hs Hd. pose proof (cells_structure _ _ _ _ _ Hs Hd) as H.
  destruct (scan_inv_basic _ _ _ _ Hs) as [Hk _].
  eapply Forall2_imp; [|exact H]. intros c c' [Hn [f [Hnk [_ [_ Hg]]]]]. split.
  - rewrite Hg. apply shape_map_leaves.
  - intro Hno. rewrite Hg. apply map_leaves_id. intros n Hin. apply Hnk.
    destruct (lookup n m) eqn:E; [|reflexivity]. exfalso. apply (Hno n Hin). apply Hk. congruence.
Qed.

Theorem removed_are_gone : forall tol P P' del m,
  wf P -> scan tol (p_surfs P) = Ok (del, m) -> dedup tol P = Ok P' ->
  forall s', In s' (p_surfs P') -> ~ In (s_num s') del.
Proof.
  intros tol P P' del m Hwf Hs Hd s' Hin. destruct (surfaces_after_call _ _ _ _ _ Hwf Hs Hd) as [Hsf _].
  rewrite Hsf in Hin. apply filter_In in Hin. destruct Hin as [_ Hin].
  apply negb_true_iff in Hin. apply memZ_false in Hin. exact Hin.
Qed.

Lemma repoint_fields : forall m s,
  s_class (repoint_periodic m s) = s_class s /\ s_type (repoint_periodic m s) = s_type s /\
  s_consts (repoint_periodic m s) = s_consts s /\ s_tr (repoint_periodic m s) = s_tr s /\
  s_refl (repoint_periodic m s) = s_refl s /\ s_white (repoint_periodic m s) = s_white s.
Proof.
  intros m s. unfold repoint_periodic.
  destruct (if Z.eqb (s_perptr s) 0 then None else lookup (s_perptr s) m); simpl; repeat split.
Qed.

(* the hypotheses of the theorems hold again after the call: it can be repeated *)
Theorem invariants_kept : forall tol P P' del m,
  wf P -> links P -> Forall class_ok (p_surfs P) -> disp_uniform (p_surfs P) ->
  scan tol (p_surfs P) = Ok (del, m) -> dedup tol P = Ok P' ->
  wf P' /\ links P' /\ Forall class_ok (p_surfs P') /\ disp_uniform (p_surfs P').
Proof.
  intros tol P P' del m Hwf Hl Hok Hdu Hs Hd.
  destruct (surfaces_after_call _ _ _ _ _ Hwf Hs Hd) as [Hsf [_ Hnums]].
  destruct (no_dangling_leaf _ _ _ _ _ Hwf Hl Hok Hdu Hs Hd) as [Hl' _].
  assert (Hsrc : forall s', In s' (p_surfs P') -> exists s, In s (p_surfs P) /\ s' = repoint_periodic m s).
  { intros s' Hin. rewrite Hsf in Hin. apply filter_In in Hin. destruct Hin as [Hin _].
    apply in_map_iff in Hin. destruct Hin as [s [<- Hin]]. exists s. auto. }
  split; [|split; [exact Hl'|split]].
  - unfold wf. rewrite Hnums. apply NoDup_filter. exact Hwf.
  - apply Forall_forall. intros s' Hin. destruct (Hsrc s' Hin) as [s [Hs0 ->]].
    rewrite Forall_forall in Hok. destruct (Hok s Hs0) as [H1 H2].
    destruct (repoint_fields m s) as [Ec [Et [Ek _]]]. unfold class_ok. rewrite Ec, Et, Ek. auto.
  - intros a b t t' Ha Hb H1 H2. destruct (Hsrc a Ha) as [a0 [Ha0 ->]]. destruct (Hsrc b Hb) as [b0 [Hb0 ->]].
    destruct (repoint_fields m a0) as [_ [_ [_ [Ea _]]]]. destruct (repoint_fields m b0) as [_ [_ [_ [Eb _]]]].
    rewrite Ea in H1. rewrite Eb in H2. exact (Hdu a0 b0 t t' Ha0 Hb0 H1 H2).
Qed.

(* a non-trivial state satisfying every hypothesis: the example problem *)
Lemma ex_disp_uniform : disp_uniform (p_surfs ex_prob).
Proof. exact (proj1 (proj2 (proj2 (proj2 (proj2 (proj2 (proj2 (proj2 repaired_witnesses)))))))). Qed.

Lemma ex_scan_head : scan tol4 (p_surfs ex_prob) = Ok (ex_del, ex_map).
Proof. vm_compute. reflexivity. Qed.

Definition ex_after_head : problem := match dedup tol4 ex_prob with Ok P' => P' | Err _ => ex_prob end.
Definition ex_after_cells_head : list cell :=
  [ mkCell 1 [1; 3; 4] (GAnd (GSurf true 1) (GOr (GSurf false 3) (GNot (GSurf true 4))));
    mkCell 2 [3; 6; 8] (GAnd (GAnd (GSurf true 3) (GSurf false 3)) (GOr (GSurf false 6) (GSurf true 8)));
    mkCell 3 [6; 7; 12] (GOr (GSurf false 6) (GAnd (GSurf true 7) (GSurf false 12)));
    mkCell 4 [10; 4] (GAnd (GNot (GCell 3)) (GAnd (GAnd (GSurf false 10) (GSurf true 10))
                                                        (GOr (GSurf false 4) (GSurf true 4)))) ].

Lemma ex_dedup_head :
  dedup tol4 ex_prob = Ok ex_after_head /\
  map s_num (p_surfs ex_after_head) = [1; 3; 4; 6; 7; 8; 10; 12] /\ p_cells ex_after_head = ex_after_cells_head /\
  map (fun c => region ex_es (fun _ => false) (c_geom c)) ex_after_cells_head = [true; false; true; false].
Proof. repeat split; vm_compute; reflexivity. Qed.

Lemma ex_perptr : forall s, In s (p_surfs ex_prob) -> s_perptr s = 0 \/ In (s_perptr s) (map s_num (p_surfs ex_prob)).
Proof. intros s Hs. in_cases Hs; left; reflexivity. Qed.
