(* SetterProofs.v — lemmas and proofs about Model/Setter.v (properties C14, C17).
   No axioms, no admits.

   1. soundness of the static analysis [an_stmt] / [checks_first] with respect to the interpreter
      [exec_stmt] / [exec]: whatever the oracle (the adversary chooses which may-raise statement
      raises, which branch is taken, how often a loop runs, which kind an untracked value has), a
      program accepted by [checks_first] that ends in an error has not changed the object state;
   2. the generated-property templates: every instantiation of a well-formed template whose
      validator is check-only is accepted by [checks_first], for every list of accepted types;
   3. worlds: a rejected call that is [checks_first] and does not latch a closure cell can be
      deleted from any sequence of calls without changing any later result or the final world. *)
From Coq Require Import List String Ascii ZArith Bool Lia.
From MPV Require Import Model.Wire Model.Setter.
Import ListNotations.
Open Scope string_scope.

(* ------------------------------------------------------------------------------------------- *)
(* induction over statements (lists of statements are nested inside statements)                 *)
(* ------------------------------------------------------------------------------------------- *)
Lemma stmt_ind' (P : stmt -> Prop) :
  (forall id ts exc, P (SCheckInst id ts exc)) ->
  (forall id exc, P (SCheck id exc)) ->
  (forall id exc, P (SRaise id exc)) ->
  (forall id t g ng, P (SConvert id t g ng)) ->
  (forall id, P (SIter id)) ->
  (forall id, P (SForget id)) ->
  (forall id t, P (SMutate id t)) ->
  (forall id f r m a, P (SCall id f r m a)) ->
  (forall id f a body, Forall P body -> P (SInline id f a body)) ->
  (forall id body, Forall P body -> P (SLoop id body)) ->
  (forall id b1 b2, Forall P b1 -> Forall P b2 -> P (SBranch id b1 b2)) ->
  (forall id, P (SReturn id)) ->
  forall s, P s.
Proof.
  intros H1 H2 H3 H4 H5 H6 H7 H8 H9 H10 H11 H12.
  fix IH 1. intros s. destruct s.
  - apply H1.
  - apply H2.
  - apply H3.
  - apply H4.
  - apply H5.
  - apply H6.
  - apply H7.
  - apply H8.
  - apply H9. induction body as [|x r IHr]; constructor; [apply IH | exact IHr].
  - apply H10. induction body as [|x r IHr]; constructor; [apply IH | exact IHr].
  - apply H11.
    + induction b1 as [|x r IHr]; constructor; [apply IH | exact IHr].
    + induction b2 as [|x r IHr]; constructor; [apply IH | exact IHr].
  - apply H12.
Qed.

(* ------------------------------------------------------------------------------------------- *)
(* membership / isinstance facts                                                                *)
(* ------------------------------------------------------------------------------------------- *)
Lemma mem_s_In x l : mem_s x l = true <-> In x l.
Proof.
  unfold mem_s. rewrite existsb_exists. split.
  - intros [y [Hy E]]. apply String.eqb_eq in E. subst. exact Hy.
  - intros H. exists x. split; [exact H | apply String.eqb_refl].
Qed.

Lemma isinst_kind_of_ty E t : isinst E (kind_of_ty t) t = true.
Proof.
  unfold isinst, kind_of_ty.
  repeat match goal with
  | |- context [if (t =? ?c) then _ else _] =>
      destruct (String.eqb_spec t c) as [->|?]; [vm_compute; reflexivity|]
  end.
  cbn [types_of]. apply mem_s_In. left. reflexivity.
Qed.

(* what the analysis knows about the argument is true of its kind *)
Definition know_ok (E : env) (k : know) (kd : vkind) : Prop :=
  match k with Some ts => isinst_any E kd ts = true | None => True end.

Lemma sub_know_sound E k ts kd :
  know_ok E k kd -> sub_know k ts = true -> isinst_any E kd ts = true.
Proof.
  destruct k as [ks|]; cbn [know_ok sub_know]; [|discriminate].
  unfold isinst_any. rewrite !existsb_exists, forallb_forall.
  intros [x [Hx Hi]] Hall. exists x. split; [apply mem_s_In, Hall, Hx | exact Hi].
Qed.

Lemma conv_skip_sound E k t g ng kd :
  know_ok E k kd -> conv_skip_static k t g ng = true ->
  orb (andb g (isinst E kd t)) (andb ng (isinst E kd "NoneType")) = true.
Proof.
  destruct k as [ks|]; cbn [know_ok conv_skip_static]; [|discriminate].
  unfold isinst_any. rewrite existsb_exists, forallb_forall.
  intros [x [Hx Hi]] Hall. specialize (Hall x Hx).
  apply orb_true_iff in Hall. apply orb_true_iff.
  destruct Hall as [H|H]; apply andb_true_iff in H; destruct H as [Hg He];
    apply String.eqb_eq in He; subst x; rewrite Hg, Hi; [left|right]; reflexivity.
Qed.

Lemma iter_static_sound E k kd :
  know_ok E k kd -> iter_static E k = true -> iterable E kd = true.
Proof.
  destruct k as [ks|]; cbn [know_ok iter_static]; [|discriminate].
  unfold isinst_any, iterable, isinst. rewrite !existsb_exists, forallb_forall.
  intros [x [Hx Hi]] Hall. exists x. split; [apply mem_s_In, Hi | apply Hall, Hx].
Qed.

Lemma know_eqb_eq k1 k2 : know_eqb k1 k2 = true -> k1 = k2.
Proof.
  destruct k1 as [a|], k2 as [b|]; cbn; try discriminate; try reflexivity.
  revert b. induction a as [|x a IH]; destruct b as [|y b]; cbn; try discriminate; try reflexivity.
  intros H. apply andb_true_iff in H. destruct H as [H1 H2]. apply String.eqb_eq in H1.
  specialize (IH b H2). inversion IH. subst. reflexivity.
Qed.

(* ------------------------------------------------------------------------------------------- *)
(* the interpreter only touches the state through [write]                                       *)
(* ------------------------------------------------------------------------------------------- *)
Lemma st_tick c id : c_st (tick c id) = c_st c.
Proof. reflexivity. Qed.
Lemma st_set_kind c k : c_st (set_kind c k) = c_st c.
Proof. reflexivity. Qed.
Lemma kind_tick c id : c_kind (tick c id) = c_kind c.
Proof. reflexivity. Qed.
Lemma kind_set_kind c k : c_kind (set_kind c k) = k.
Proof. reflexivity. Qed.

(* ------------------------------------------------------------------------------------------- *)
(* the analysis never goes from Dirty back to Clean                                             *)
(* ------------------------------------------------------------------------------------------- *)
Lemma an_seq_cons f x r p k :
  an_seq f (x :: r) p k =
  match x with
  | SReturn _ => Some (p, k)
  | _ => match f x p k with Some (p', k') => an_seq f r p' k' | None => None end
  end.
Proof. destruct x; reflexivity. Qed.

Lemma an_seq_mono (f : stmt -> phase -> know -> option (phase * know)) l :
  Forall (fun st => forall p k p' k', f st p k = Some (p', k') -> p' = Clean -> p = Clean) l ->
  forall p k p' k', an_seq f l p k = Some (p', k') -> p' = Clean -> p = Clean.
Proof.
  induction 1 as [|x r Hx Hr IH]; intros p k p' k' H Hc.
  - cbn in H. inversion H. subst. reflexivity.
  - rewrite an_seq_cons in H.
    destruct (f x p k) as [[p1 k1]|] eqn:Ef.
    + destruct x; try (apply (Hx _ _ _ _ Ef); eapply IH; eassumption).
      inversion H. subst. reflexivity.
    + destruct x; try discriminate. inversion H. subst. reflexivity.
Qed.

Lemma an_stmt_mono E st :
  forall p k p' k', an_stmt E st p k = Some (p', k') -> p' = Clean -> p = Clean.
Proof.
  induction st using stmt_ind'; intros p k p' k' Han Hc; cbn [an_stmt] in Han.
  - destruct (sub_know k ts); [inversion Han; subst; reflexivity|].
    destruct p; [reflexivity | discriminate].
  - destruct p; [reflexivity | discriminate].
  - destruct p; [reflexivity | discriminate].
  - destruct (conv_skip_static k t g ng); [inversion Han; subst; reflexivity|].
    destruct p; [reflexivity | discriminate].
  - destruct (iter_static E k); [inversion Han; subst; reflexivity|].
    destruct p; [reflexivity | discriminate].
  - inversion Han. subst. reflexivity.
  - inversion Han. subst. discriminate.
  - destruct (r && (m && negb a))%bool; [discriminate|].
    destruct r.
    + destruct p; [reflexivity | discriminate].
    + destruct m; inversion Han; subst; [discriminate | reflexivity].
  - destruct (an_seq (an_stmt E) body p _) as [[p1 k1]|] eqn:Eb; [|discriminate].
    inversion Han. subst. eapply an_seq_mono; [eassumption | eassumption | reflexivity].
  - destruct (an_seq (an_stmt E) body p k) as [[p1 k1]|] eqn:Eb; [|discriminate].
    destruct p; [reflexivity|].
    inversion Han. subst. eapply an_seq_mono; [eassumption | eassumption | reflexivity].
  - destruct (an_seq (an_stmt E) b1 p k) as [[p1 k1]|] eqn:E1; [|discriminate].
    destruct (an_seq (an_stmt E) b2 p k) as [[p2 k2]|] eqn:E2; [|discriminate].
    inversion Han. subst. destruct p1, p2; try discriminate.
    eapply an_seq_mono; [eassumption | eassumption | reflexivity].
  - inversion Han. subst. reflexivity.
Qed.

Lemma an_list_mono E l p k p' k' :
  an_list E l p k = Some (p', k') -> p' = Clean -> p = Clean.
Proof.
  unfold an_list. apply an_seq_mono. apply Forall_forall. intros st _. apply an_stmt_mono.
Qed.

(* ------------------------------------------------------------------------------------------- *)
(* soundness                                                                                    *)
(* ------------------------------------------------------------------------------------------- *)
(* one step from (p, k, c) to (p', k', c', o) *)
Definition sound_res (E : env) (p : phase) (c : cfg) (p' : phase) (k' : know) (c' : cfg) (o : outcome)
  : Prop :=
  (forall i e, o = ORaise i e -> p = Clean /\ c_st c' = c_st c) /\
  (p' = Clean -> c_st c' = c_st c) /\
  (o = ONormal -> know_ok E k' (c_kind c')).

Definition sound_stmt (E : env) (a : oracle) (st : stmt) : Prop :=
  forall p k p' k' c c' o,
    an_stmt E st p k = Some (p', k') -> know_ok E k (c_kind c) ->
    exec_stmt E a st c = (c', o) -> sound_res E p c p' k' c' o.

Definition sound_list (E : env) (a : oracle) (l : list stmt) : Prop :=
  forall p k p' k' c c' o,
    an_list E l p k = Some (p', k') -> know_ok E k (c_kind c) ->
    exec_list E a l c = (c', o) -> sound_res E p c p' k' c' o.

Lemma exec_seq_cons f x r c :
  exec_seq f (x :: r) c = match f x c with (c', ONormal) => exec_seq f r c' | res => res end.
Proof. reflexivity. Qed.

Lemma sound_list_of E a l : Forall (sound_stmt E a) l -> sound_list E a l.
Proof.
  induction 1 as [|x r Hx Hr IH]; intros p k p' k' c c' o Han Hk Hex.
  - cbn in Han, Hex. inversion Han. inversion Hex. subst.
    split; [intros; discriminate | split; [reflexivity | intros _; exact Hk]].
  - unfold an_list in Han. rewrite an_seq_cons in Han.
    unfold exec_list in Hex. rewrite exec_seq_cons in Hex.
    destruct (exec_stmt E a x c) as [c1 o1] eqn:Ex.
    assert (Hret : forall id, x = SReturn id -> sound_res E p c p' k' c' o).
    { intros id ->. inversion Han. subst. cbn in Ex. inversion Ex. subst.
      inversion Hex. subst.
      split; [intros; discriminate | split; [reflexivity | intros; discriminate]]. }
    destruct (an_stmt E x p k) as [[p1 k1]|] eqn:Ea.
    2:{ destruct x; discriminate. }
    assert (Hgen : (match an_seq (an_stmt E) r p1 k1 with Some q => Some q | None => None end)
                   = Some (p', k') -> sound_res E p c p' k' c' o).
    { intros Han'. destruct (an_seq (an_stmt E) r p1 k1) as [[p2 k2]|] eqn:Er; [|discriminate].
      inversion Han'. subst p2 k2.
      destruct (Hx _ _ _ _ _ _ _ Ea Hk Ex) as [S1 [S2 S3]].
      destruct o1 as [| |ri re].
      - (* ONormal: continue *)
        destruct (IH _ _ _ _ _ _ _ Er (S3 eq_refl) Hex) as [T1 [T2 T3]].
        split; [|split].
        + intros i e Ho. destruct (T1 i e Ho) as [Hp1 Hst].
          assert (p = Clean) by (eapply an_stmt_mono; [exact Ea | exact Hp1]).
          split; [assumption|]. rewrite Hst. apply S2. exact Hp1.
        + intros Hc. assert (p1 = Clean) by (eapply an_list_mono; [exact Er | exact Hc]).
          rewrite (T2 Hc). apply S2. assumption.
        + exact T3.
      - (* OReturn from inside x *)
        inversion Hex. subst.
        split; [intros; discriminate | split; [|intros; discriminate]].
        intros Hc. apply S2. eapply an_list_mono; [exact Er | exact Hc].
      - (* ORaise *)
        inversion Hex. subst.
        split; [|split; [|intros; discriminate]].
        + intros i e Ho. apply (S1 _ _ Ho).
        + intros Hc. apply S2. eapply an_list_mono; [exact Er | exact Hc]. }
    destruct x; try (apply Hgen; destruct (an_seq (an_stmt E) r p1 k1) as [[? ?]|]; exact Han).
    eapply Hret. reflexivity.
Qed.

(* loops: n iterations, each starting with the kind the loop was entered with *)
Lemma iter_n_sound E a body n :
  sound_list E a body ->
  forall p k pb kb c c' o,
    an_list E body p k = Some (pb, kb) ->
    (p = Clean -> pb = Dirty -> exists q, an_list E body Dirty k = Some q) ->
    know_ok E k (c_kind c) ->
    iter_n (exec_list E a body) n c = (c', o) ->
    (forall i e, o = ORaise i e -> p = Clean /\ c_st c' = c_st c) /\
    (pb = Clean -> c_st c' = c_st c) /\
    (o = ONormal -> c_kind c' = c_kind c).
Proof.
  intros Hb. induction n as [|n IH]; intros p k pb kb c c' o Han Hd Hk Hex.
  - cbn in Hex. inversion Hex. subst.
    split; [intros; discriminate | split; reflexivity].
  - cbn [iter_n] in Hex. destruct (exec_list E a body c) as [c1 o1] eqn:E1.
    destruct (Hb _ _ _ _ _ _ _ Han Hk E1) as [S1 [S2 S3]].
    destruct o1 as [| |ri re].
    + (* next iteration starts in phase pb *)
      assert (Hk1 : know_ok E k (c_kind (set_kind c1 (c_kind c)))) by (rewrite kind_set_kind; exact Hk).
      destruct pb.
      * (* the body stays Clean: p = Clean as well *)
        assert (p = Clean) by (eapply an_list_mono; [exact Han | reflexivity]). subst p.
        assert (Hd' : Clean = Clean -> Clean = Dirty -> exists q, an_list E body Dirty k = Some q)
          by (intros _ HH; discriminate HH).
        destruct (IH Clean k Clean kb _ _ _ Han Hd' Hk1 Hex) as [T1 [T2 T3]].
        split; [|split].
        -- intros i e Ho. destruct (T1 i e Ho) as [_ Hst]. split; [reflexivity|].
           rewrite Hst, st_set_kind. apply S2. reflexivity.
        -- intros _. rewrite (T2 eq_refl), st_set_kind. apply S2. reflexivity.
        -- intros Ho. rewrite (T3 Ho). apply kind_set_kind.
      * (* the body dirties: later iterations are analysed from Dirty and cannot raise *)
        assert (Hq : exists q, an_list E body Dirty k = Some q).
        { destruct p; [apply Hd; reflexivity | eexists; exact Han]. }
        destruct Hq as [[pq kq] Hq].
        assert (pq = Dirty).
        { destruct pq; [|reflexivity].
          assert (Dirty = Clean) by (eapply an_list_mono; [exact Hq | reflexivity]). discriminate. }
        subst pq.
        assert (Hd' : Dirty = Clean -> Dirty = Dirty -> exists q, an_list E body Dirty k = Some q)
          by (intros HH; discriminate HH).
        destruct (IH Dirty k Dirty kq _ _ _ Hq Hd' Hk1 Hex) as [T1 [_ T3]].
        split; [|split].
        -- intros i e Ho. destruct (T1 i e Ho) as [Hp _]. discriminate.
        -- intros HH. discriminate.
        -- intros Ho. rewrite (T3 Ho). apply kind_set_kind.
    + inversion Hex. subst.
      split; [intros; discriminate | split; [exact S2 | intros; discriminate]].
    + inversion Hex. subst.
      split; [exact S1 | split; [exact S2 | intros; discriminate]].
Qed.

Lemma an_sound_stmt E a st : sound_stmt E a st.
Proof.
  induction st using stmt_ind'; intros p k p' k' c c' o Han Hk Hex;
    cbn [an_stmt] in Han; cbn [exec_stmt] in Hex.
  - (* SCheckInst *)
    destruct (sub_know k ts) eqn:Es.
    + rewrite (sub_know_sound E k ts _ Hk Es) in Hex. inversion Han. inversion Hex. subst.
      split; [intros; discriminate | split; [reflexivity | intros _; exact Hk]].
    + destruct p; [|discriminate]. inversion Han. subst.
      destruct (isinst_any E (c_kind c) ts) eqn:Ei; inversion Hex; subst.
      * split; [intros; discriminate | split; [reflexivity | intros _; exact Ei]].
      * split; [intros; split; reflexivity | split; [reflexivity | intros; discriminate]].
  - (* SCheck *)
    destruct p; [|discriminate]. inversion Han. subst.
    destruct (o_raise a id (occ c id)); inversion Hex; subst.
    + split; [intros; split; reflexivity | split; [reflexivity | intros; discriminate]].
    + split; [intros; discriminate | split; [reflexivity | intros _; exact Hk]].
  - (* SRaise *)
    destruct p; [|discriminate]. inversion Han. inversion Hex. subst.
    split; [intros; split; reflexivity | split; [reflexivity | intros; discriminate]].
  - (* SConvert *)
    destruct (conv_skip_static k t g ng) eqn:Es.
    + rewrite (conv_skip_sound E k t g ng _ Hk Es) in Hex. inversion Han. inversion Hex. subst.
      split; [intros; discriminate | split; [reflexivity | intros _; exact Hk]].
    + destruct p; [|discriminate]. inversion Han. subst.
      destruct (orb _ _) eqn:Eg.
      * inversion Hex. subst.
        split; [intros; discriminate | split; [reflexivity|]].
        intros _. destruct (negb g && negb ng)%bool eqn:Egn; [|exact I].
        apply andb_true_iff in Egn. destruct Egn as [G1 G2].
        apply negb_true_iff in G1, G2. subst. discriminate.
      * destruct (o_raise a id (occ c id)); inversion Hex; subst.
        -- split; [intros; split; reflexivity | split; [reflexivity | intros; discriminate]].
        -- split; [intros; discriminate | split; [reflexivity|]].
           intros _. destruct (negb g && negb ng)%bool; [|exact I].
           cbn [know_ok isinst_any existsb]. rewrite kind_set_kind, isinst_kind_of_ty. reflexivity.
  - (* SIter *)
    destruct (iter_static E k) eqn:Es.
    + rewrite (iter_static_sound E k _ Hk Es) in Hex. inversion Han. inversion Hex. subst.
      split; [intros; discriminate | split; [reflexivity | intros _; exact Hk]].
    + destruct p; [|discriminate]. inversion Han. subst.
      destruct (iterable E (c_kind c)); inversion Hex; subst.
      * split; [intros; discriminate | split; [reflexivity | intros _; exact Hk]].
      * split; [intros; split; reflexivity | split; [reflexivity | intros; discriminate]].
  - (* SForget *)
    inversion Han. inversion Hex. subst.
    split; [intros; discriminate | split; [reflexivity | intros _; exact I]].
  - (* SMutate *)
    inversion Han. inversion Hex. subst.
    split; [intros; discriminate | split; [intros; discriminate | intros _; exact Hk]].
  - (* SCall *)
    rename a0 into at_.
    destruct (r && (m && negb at_))%bool eqn:Erm; [discriminate|].
    destruct r.
    + destruct p; [|discriminate]. inversion Han. subst.
      destruct (o_raise a id (occ c id)).
      * assert (Hm : (m && negb at_)%bool = false) by exact Erm. rewrite Hm in Hex.
        inversion Hex. subst.
        split; [intros; split; reflexivity | split; [reflexivity | intros; discriminate]].
      * inversion Hex. subst.
        split; [intros; discriminate | split; [|intros _; destruct m; exact Hk]].
        destruct m; [intros; discriminate | reflexivity].
    + inversion Han. inversion Hex. subst.
      split; [intros; discriminate | split; [|intros _; destruct m; exact Hk]].
      destruct m; [intros; discriminate | reflexivity].
  - (* SInline *)
    rename a0 into src.
    destruct (an_seq (an_stmt E) body p _) as [[p1 k1]|] eqn:Eb; [|discriminate].
    inversion Han. subst p1 k'.
    match type of Hex with context [exec_seq _ body ?c0] => set (c0' := c0) in * end.
    destruct (exec_seq (exec_stmt E a) body c0') as [cb ob] eqn:Ex.
    assert (Hk0 : know_ok E (match src with
                             | ASame => k | ASelf c1 => Some [c1] | AConst t => Some [t]
                             | AConv t => Some [t] | AUnknown => None end) (c_kind c0')).
    { subst c0'. rewrite kind_set_kind. destruct src; cbn [know_ok isinst_any existsb].
      - exact Hk.
      - unfold isinst. cbn [types_of]. unfold mem_s. cbn [existsb]. rewrite String.eqb_refl. reflexivity.
      - rewrite isinst_kind_of_ty. reflexivity.
      - rewrite isinst_kind_of_ty. reflexivity.
      - exact I. }
    destruct (sound_list_of E a body H _ _ _ _ _ _ _ Eb Hk0 Ex) as [S1 [S2 S3]].
    assert (Hst0 : c_st c0' = c_st c) by reflexivity.
    destruct ob; inversion Hex; subst c' o.
    + split; [intros; discriminate | split; [|intros _; rewrite kind_set_kind; exact Hk]].
      intros Hc. rewrite st_set_kind, <- Hst0. apply S2. exact Hc.
    + split; [intros; discriminate | split; [|intros _; rewrite kind_set_kind; exact Hk]].
      intros Hc. rewrite st_set_kind, <- Hst0. apply S2. exact Hc.
    + split; [|split; [|intros; discriminate]].
      * intros i e0 Ho. destruct (S1 _ _ eq_refl) as [Hp Hs]. split; [exact Hp|].
        rewrite st_set_kind, <- Hst0. exact Hs.
      * intros Hc. rewrite st_set_kind, <- Hst0. apply S2. exact Hc.
  - (* SLoop *)
    destruct (an_seq (an_stmt E) body p k) as [[p1 k1]|] eqn:Eb; [|discriminate].
    assert (Hd : p = Clean -> p1 = Dirty -> exists q, an_list E body Dirty k = Some q).
    { intros -> ->. destruct (an_seq (an_stmt E) body Dirty k) as [q|] eqn:Eq; [|discriminate].
      exists q. exact Eq. }
    assert (Hp' : p' = p1 /\ k' = k).
    { destruct p, p1; try (inversion Han; subst; split; reflexivity).
      destruct (an_seq (an_stmt E) body Dirty k); [|discriminate]. inversion Han. split; reflexivity. }
    destruct Hp' as [-> ->].
    assert (Hk0 : know_ok E k (c_kind (tick c id))) by (rewrite kind_tick; exact Hk).
    destruct (iter_n_sound E a body _ (sound_list_of E a body H) _ _ _ _ _ _ _ Eb Hd Hk0 Hex)
      as [T1 [T2 T3]].
    split; [|split].
    + intros i e Ho. destruct (T1 i e Ho) as [Hp Hs]. split; [exact Hp | rewrite Hs; reflexivity].
    + intros Hc. rewrite (T2 Hc). reflexivity.
    + intros Ho. rewrite (T3 Ho), kind_tick. exact Hk.
  - (* SBranch *)
    destruct (an_seq (an_stmt E) b1 p k) as [[p1 k1]|] eqn:E1; [|discriminate].
    destruct (an_seq (an_stmt E) b2 p k) as [[p2 k2]|] eqn:E2; [|discriminate].
    inversion Han. subst p' k'.
    assert (Hk0 : know_ok E k (c_kind (tick c id))) by (rewrite kind_tick; exact Hk).
    destruct (o_branch a id (occ c id)).
    + destruct (sound_list_of E a b1 H _ _ _ _ _ _ _ E1 Hk0 Hex) as [S1 [S2 S3]].
      split; [|split].
      * intros i e Ho. destruct (S1 i e Ho) as [Hp Hs]. split; [exact Hp | rewrite Hs; reflexivity].
      * intros Hc. destruct p1, p2; try discriminate. rewrite (S2 eq_refl). reflexivity.
      * intros Ho. destruct (know_eqb k1 k2) eqn:Ek; [|exact I]. apply S3. exact Ho.
    + destruct (sound_list_of E a b2 H0 _ _ _ _ _ _ _ E2 Hk0 Hex) as [S1 [S2 S3]].
      split; [|split].
      * intros i e Ho. destruct (S1 i e Ho) as [Hp Hs]. split; [exact Hp | rewrite Hs; reflexivity].
      * intros Hc. destruct p1, p2; try discriminate. rewrite (S2 eq_refl). reflexivity.
      * intros Ho. destruct (know_eqb k1 k2) eqn:Ek; [|exact I].
        apply know_eqb_eq in Ek. subst k2. apply S3. exact Ho.
  - (* SReturn *)
    inversion Han. inversion Hex. subst.
    split; [intros; discriminate | split; [reflexivity | intros; discriminate]].
Qed.

Lemma an_sound_list E a l : sound_list E a l.
Proof. apply sound_list_of. apply Forall_forall. intros st _. apply an_sound_stmt. Qed.

(* the headline: a checks-first program that ends in an error has not changed the state *)
Theorem checks_first_sound :
  forall E prog s a,
    checks_first E prog = true ->
    is_err (snd (exec E prog s a)) = true ->
    fst (exec E prog s a) = s.
Proof.
  intros E prog s a Hcf Herr. unfold checks_first in Hcf. unfold exec in *.
  destruct (an_list E prog Clean None) as [[p' k']|] eqn:Ea; [|discriminate].
  destruct (exec_list E a prog (mk_cfg s (o_kind a) [])) as [c o] eqn:Ex.
  destruct (an_sound_list E a prog _ _ _ _ _ _ _ Ea I Ex) as [S1 _].
  cbn [fst snd] in *. destruct o; cbn in Herr; try discriminate.
  destruct (S1 _ _ eq_refl) as [_ Hs]. exact Hs.
Qed.

(* in the words of DESIGN.md: snd = Err _ _ *)
Corollary checks_first_sound' :
  forall E prog s a id e,
    checks_first E prog = true -> snd (exec E prog s a) = Err id e -> fst (exec E prog s a) = s.
Proof. intros E prog s a id e Hcf H. apply checks_first_sound; [exact Hcf | rewrite H; reflexivity]. Qed.

(* once something has been written, a checks-first program cannot fail any more *)
Theorem checks_first_all_or_nothing :
  forall E prog s a,
    checks_first E prog = true ->
    fst (exec E prog s a) <> s -> snd (exec E prog s a) = Ok.
Proof.
  intros E prog s a Hcf Hne. destruct (snd (exec E prog s a)) eqn:Er; [reflexivity|].
  exfalso. apply Hne. apply checks_first_sound; [exact Hcf | rewrite Er; reflexivity].
Qed.

(* ------------------------------------------------------------------------------------------- *)
(* check-only bodies and the generated-property templates                                       *)
(* ------------------------------------------------------------------------------------------- *)
Lemma all_seq_Forall (f : stmt -> bool) l : all_seq f l = true <-> Forall (fun s => f s = true) l.
Proof.
  induction l as [|x r IH]; cbn.
  - split; [constructor | reflexivity].
  - rewrite andb_true_iff, IH. split.
    + intros [H1 H2]. constructor; assumption.
    + intros H. inversion H. subst. split; assumption.
Qed.

(* a body without mutation is analysed successfully from Clean and stays Clean *)
Definition stays_clean (E : env) (st : stmt) : Prop :=
  no_mutation st = true -> forall k, exists k', an_stmt E st Clean k = Some (Clean, k').

Lemma stays_clean_seq E l :
  Forall (stays_clean E) l -> all_seq no_mutation l = true ->
  forall k, exists k', an_seq (an_stmt E) l Clean k = Some (Clean, k').
Proof.
  induction 1 as [|x r Hx Hr IH]; intros Hall k.
  - exists k. reflexivity.
  - cbn [all_seq] in Hall. apply andb_true_iff in Hall. destruct Hall as [H1 H2].
    rewrite an_seq_cons. destruct (Hx H1 k) as [k1 Ek]. rewrite Ek.
    destruct (IH H2 k1) as [k2 Ek2].
    destruct x; try (exists k2; exact Ek2). exists k. reflexivity.
Qed.

Lemma no_mutation_stays_clean E st : stays_clean E st.
Proof.
  induction st using stmt_ind'; intros Hn k; cbn [an_stmt no_mutation] in *.
  - destruct (sub_know k ts); eexists; reflexivity.
  - eexists; reflexivity.
  - eexists; reflexivity.
  - destruct (conv_skip_static k t g ng); eexists; reflexivity.
  - destruct (iter_static E k); eexists; reflexivity.
  - eexists; reflexivity.
  - discriminate.
  - apply negb_true_iff in Hn. subst m. rewrite andb_false_l, andb_false_r.
    destruct r; eexists; reflexivity.
  - destruct (stays_clean_seq E body H Hn
               (match a with ASame => k | ASelf c => Some [c] | AConst t => Some [t]
                           | AConv t => Some [t] | AUnknown => None end)) as [k1 Ek].
    rewrite Ek. eexists; reflexivity.
  - destruct (stays_clean_seq E body H Hn k) as [k1 Ek]. rewrite Ek. eexists; reflexivity.
  - apply andb_true_iff in Hn. destruct Hn as [N1 N2].
    destruct (stays_clean_seq E b1 H N1 k) as [k1 Ek1].
    destruct (stays_clean_seq E b2 H0 N2 k) as [k2 Ek2].
    rewrite Ek1, Ek2. eexists; reflexivity.
  - eexists; reflexivity.
Qed.

Lemma check_only_clean E l k :
  check_only l = true -> exists k', an_list E l Clean k = Some (Clean, k').
Proof.
  intros H. apply stays_clean_seq; [|exact H].
  apply Forall_forall. intros st _. apply no_mutation_stays_clean.
Qed.

(* renumbering changes neither the analysis nor the absence of mutation *)
Lemma renum_seq_no_mutation l :
  Forall (fun st => forall n, no_mutation (fst (renum n st)) = no_mutation st) l ->
  forall n, all_seq no_mutation (fst (renum_seq renum n l)) = all_seq no_mutation l.
Proof.
  induction 1 as [|x r Hx Hr IH]; intros n; [reflexivity|].
  cbn [renum_seq]. specialize (Hx n). destruct (renum n x) as [x' n1].
  specialize (IH n1). destruct (renum_seq renum n1 r) as [r' n2].
  cbn [fst all_seq] in *. rewrite Hx, IH. reflexivity.
Qed.

Lemma renum_no_mutation st : forall n, no_mutation (fst (renum n st)) = no_mutation st.
Proof.
  induction st using stmt_ind'; intros n; cbn [renum]; try reflexivity.
  - pose proof (renum_seq_no_mutation body H (S n)) as R.
    destruct (renum_seq renum (S n) body) as [b n1]. exact R.
  - pose proof (renum_seq_no_mutation body H (S n)) as R.
    destruct (renum_seq renum (S n) body) as [b n1]. exact R.
  - pose proof (renum_seq_no_mutation b1 H (S n)) as R1.
    destruct (renum_seq renum (S n) b1) as [x n1].
    pose proof (renum_seq_no_mutation b2 H0 n1) as R2.
    destruct (renum_seq renum n1 b2) as [y n2].
    cbn [fst no_mutation] in *. rewrite R1, R2. reflexivity.
Qed.

Lemma renumber_check_only n l : check_only (fst (renumber n l)) = check_only l.
Proof.
  unfold check_only, renumber. apply renum_seq_no_mutation.
  apply Forall_forall. intros st _. apply renum_no_mutation.
Qed.

(* the template: type check, conversion, validator, then the single assignment.  Whatever the list
   of accepted types (declared, latched, or defaulted to the class of the instance), the instance is
   accepted by the analysis as soon as the validator only checks. *)
Lemma inst_aux_clean E tm d ts vb :
  template_wf tm = true -> check_only vb = true ->
  forall next k, exists k', an_list E (inst_aux tm d ts vb next) Clean k = Some (Dirty, k').
Proof.
  intros Hwf Hco. induction tm as [|t r IH]; [discriminate|].
  intros next k. cbn [template_wf] in Hwf.
  destruct r as [|t2 r2].
  - (* the last statement: the assignment *)
    destruct t; try discriminate; cbn [inst_aux]; try destruct (p_node_opt d); eexists; reflexivity.
  - apply andb_true_iff in Hwf. destruct Hwf as [Hna Hwf]. specialize (IH Hwf).
    remember (t2 :: r2) as r eqn:Hr. clear Hr Hwf.
    destruct t; try discriminate; cbn [inst_aux].
    + apply IH.
    + apply IH.
    + unfold an_list. rewrite an_seq_cons. cbn [an_stmt].
      destruct (sub_know k ts); cbn [clean_only]; apply IH.
    + destruct (p_base d) as [b|]; [|apply IH].
      unfold an_list. rewrite an_seq_cons. cbn [an_stmt].
      destruct (conv_skip_static k b true none_guard); cbn [clean_only]; apply IH.
    + destruct (p_validator d) as [v|]; [|apply IH].
      destruct (renumber (S next) vb) as [vb' nx] eqn:Er.
      unfold an_list. rewrite an_seq_cons. cbn [an_stmt].
      assert (Hco' : check_only vb' = true).
      { pose proof (renumber_check_only (S next) vb) as R. rewrite Er in R. cbn [fst] in R.
        rewrite R. exact Hco. }
      destruct (check_only_clean E vb' k Hco') as [k1 Ek]. unfold an_list in Ek. rewrite Ek.
      apply IH.
Qed.

Theorem template_checks_first :
  forall E tm d ts vb next,
    template_wf tm = true -> check_only vb = true ->
    checks_first E (inst_aux tm d ts vb next) = true.
Proof.
  intros E tm d ts vb next Hwf Hco. unfold checks_first.
  destruct (inst_aux_clean E tm d ts vb Hwf Hco next None) as [k' Ek]. rewrite Ek. reflexivity.
Qed.

(* a generated setter that raises has changed nothing — for every class of the instance, every
   state of the closure cell, every argument and every choice of the adversary *)
Corollary generated_setter_atomic :
  forall E tm d ts vb s a,
    template_wf tm = true -> check_only vb = true ->
    is_err (snd (exec E (inst_aux tm d ts vb 0) s a)) = true ->
    fst (exec E (inst_aux tm d ts vb 0) s a) = s.
Proof.
  intros. apply checks_first_sound; [apply template_checks_first; assumption | assumption].
Qed.

(* ------------------------------------------------------------------------------------------- *)
(* sequences of calls: a rejected call is as if it had not happened                             *)
(* ------------------------------------------------------------------------------------------- *)
(* two worlds are indistinguishable: same closure cells, same state of every problem *)
Definition weq (w1 w2 : world) : Prop :=
  w_latch w1 = w_latch w2 /\ forall pid, w_get w1 pid = w_get w2 pid.

Lemma weq_refl w : weq w w.
Proof. split; reflexivity. Qed.
Lemma weq_sym w1 w2 : weq w1 w2 -> weq w2 w1.
Proof. intros [H1 H2]. split; [symmetry; exact H1 | intros pid; symmetry; apply H2]. Qed.
Lemma weq_trans w1 w2 w3 : weq w1 w2 -> weq w2 w3 -> weq w1 w3.
Proof.
  intros [H1 H2] [H3 H4]. split; [congruence | intros pid; rewrite H2; apply H4].
Qed.

Lemma w_get_cons l pid s probs q :
  w_get (mk_world l ((pid, s) :: probs)) q = if Nat.eqb q pid then s else w_get (mk_world l probs) q.
Proof. unfold w_get. cbn [w_probs assoc_nat]. destruct (Nat.eqb q pid); reflexivity. Qed.

Lemma w_get_latch_irrelevant l1 l2 probs q : w_get (mk_world l1 probs) q = w_get (mk_world l2 probs) q.
Proof. reflexivity. Qed.

(* a step sees the world only through its latch and the state of its own problem *)
Lemma wstep_weq T w1 w2 c :
  weq w1 w2 ->
  snd (wstep T w1 c) = snd (wstep T w2 c) /\ weq (fst (wstep T w1 c)) (fst (wstep T w2 c)).
Proof.
  intros [Hl Hg]. destruct c as [pid d self a | pid ir a]; cbn [wstep].
  - rewrite Hl, (Hg pid).
    destruct (exec (t_env T) _ (w_get w2 pid) a) as [s' r]. cbn [fst snd].
    split; [reflexivity|]. split; [reflexivity|].
    intros q. destruct w1 as [l1 p1], w2 as [l2 p2]. cbn [w_latch w_probs] in *.
    rewrite !w_get_cons. destruct (Nat.eqb q pid); [reflexivity|].
    rewrite (w_get_latch_irrelevant _ l1), (w_get_latch_irrelevant (latch_step _ l2 d self) l2). apply Hg.
  - rewrite (Hg pid).
    destruct (exec (t_env T) ir (w_get w2 pid) a) as [s' r]. cbn [fst snd].
    split; [reflexivity|]. split; [exact Hl|].
    intros q. destruct w1 as [l1 p1], w2 as [l2 p2]. cbn [w_latch w_probs] in *.
    rewrite !w_get_cons. destruct (Nat.eqb q pid); [reflexivity | apply Hg].
Qed.

Lemma wrun_weq T cs : forall w1 w2,
  weq w1 w2 ->
  snd (wrun T cs w1) = snd (wrun T cs w2) /\ weq (fst (wrun T cs w1)) (fst (wrun T cs w2)).
Proof.
  induction cs as [|c r IH]; intros w1 w2 H.
  - cbn. split; [reflexivity | exact H].
  - cbn [wrun]. destruct (wstep_weq T w1 w2 c H) as [Hr Hw].
    destruct (wstep T w1 c) as [w1' r1]. destruct (wstep T w2 c) as [w2' r2]. cbn [fst snd] in *.
    destruct (IH w1' w2' Hw) as [Hrs Hws].
    destruct (wrun T r w1') as [w1'' rs1]. destruct (wrun T r w2') as [w2'' rs2]. cbn [fst snd] in *.
    subst. split; [reflexivity | exact Hws].
Qed.

Lemma wrun_app T cs1 : forall cs2 w,
  fst (wrun T (cs1 ++ cs2) w) = fst (wrun T cs2 (fst (wrun T cs1 w))) /\
  snd (wrun T (cs1 ++ cs2) w) = (snd (wrun T cs1 w) ++ snd (wrun T cs2 (fst (wrun T cs1 w))))%list.
Proof.
  induction cs1 as [|c r IH]; intros cs2 w.
  - cbn. split; reflexivity.
  - cbn [app wrun]. destruct (wstep T w c) as [w1 res]. destruct (IH cs2 w1) as [H1 H2].
    destruct (wrun T (r ++ cs2) w1) as [wa rsa]. destruct (wrun T r w1) as [wb rsb].
    cbn [fst snd] in *. subst. split; reflexivity.
Qed.

(* the call is checks-first whatever the closure cell holds *)
Definition wcall_cf (T : tables) (c : wcall) : Prop :=
  match c with
  | WSet _ ir _ => checks_first (t_env T) ir = true
  | WGen _ d _ _ =>
      forall ts, checks_first (t_env T)
                   (inst_aux (template_of (t_val T) (t_ptr T) d) d ts (validator_body (t_validators T) d) 0) = true
  end.

Lemma wstep_rejected T w c :
  wcall_cf T c -> wcall_latching T c = false ->
  is_err (snd (wstep T w c)) = true -> weq (fst (wstep T w c)) w.
Proof.
  intros Hcf Hl Herr. destruct c as [pid d self a | pid ir a]; cbn [wstep wcall_cf wcall_latching] in *.
  - set (tm := template_of (t_val T) (t_ptr T) d) in *.
    set (ir := inst_aux tm d (types_now tm (w_latch w) d self) (validator_body (t_validators T) d) 0) in *.
    pose proof (checks_first_sound (t_env T) ir (w_get w pid) a (Hcf _)) as Hs.
    destruct (exec (t_env T) ir (w_get w pid) a) as [s' r]. cbn [fst snd] in *.
    specialize (Hs Herr). subst s'.
    unfold latch_step. rewrite Hl. destruct w as [l p]. cbn [w_latch w_probs].
    split; [reflexivity|]. intros q. rewrite w_get_cons.
    destruct (Nat.eqb_spec q pid) as [->|]; reflexivity.
  - pose proof (checks_first_sound (t_env T) ir (w_get w pid) a Hcf) as Hs.
    destruct (exec (t_env T) ir (w_get w pid) a) as [s' r]. cbn [fst snd] in *.
    specialize (Hs Herr). subst s'. destruct w as [l p]. cbn [w_latch w_probs].
    split; [reflexivity|]. intros q. rewrite w_get_cons.
    destruct (Nat.eqb_spec q pid) as [->|]; reflexivity.
Qed.

Fixpoint remove_at {A} (n : nat) (l : list A) : list A :=
  match n, l with
  | _, [] => []
  | O, _ :: r => r
  | S m, x :: r => x :: remove_at m r
  end.

Lemma remove_at_app {A} (l1 : list A) x l2 : remove_at (List.length l1) (l1 ++ x :: l2) = (l1 ++ l2)%list.
Proof. induction l1 as [|y r IH]; cbn; [reflexivity | rewrite IH; reflexivity]. Qed.

Lemma wrun_length T cs : forall w, List.length (snd (wrun T cs w)) = List.length cs.
Proof.
  induction cs as [|c r IH]; intros w; [reflexivity|].
  cbn [wrun]. destruct (wstep T w c) as [w1 res]. specialize (IH w1).
  destruct (wrun T r w1) as [w2 rs]. cbn [snd List.length] in *. rewrite IH. reflexivity.
Qed.

Theorem later_edits :
  forall T cs bad cs' w,
    wcall_cf T bad -> wcall_latching T bad = false ->
    is_err (snd (wstep T (fst (wrun T cs w)) bad)) = true ->
    snd (wrun T (cs ++ cs') w) = remove_at (List.length cs) (snd (wrun T (cs ++ bad :: cs') w)) /\
    weq (fst (wrun T (cs ++ bad :: cs') w)) (fst (wrun T (cs ++ cs') w)).
Proof.
  intros T cs bad cs' w Hcf Hl Herr.
  destruct (wrun_app T cs (bad :: cs') w) as [A1 A2].
  destruct (wrun_app T cs cs' w) as [B1 B2].
  set (w1 := fst (wrun T cs w)) in *.
  pose proof (wstep_rejected T w1 bad Hcf Hl Herr) as Hw.
  cbn [wrun] in A1, A2. destruct (wstep T w1 bad) as [w2 res]. cbn [fst snd] in *.
  destruct (wrun_weq T cs' w2 w1 Hw) as [Hrs Hws].
  destruct (wrun T cs' w2) as [w3 rs]. cbn [fst snd] in *.
  rewrite A1, A2, B1, B2. split.
  - rewrite <- (wrun_length T cs w), remove_at_app, Hrs. reflexivity.
  - exact Hws.
Qed.

(* ------------------------------------------------------------------------------------------- *)
(* counter-executions: a finite family of adversaries, searched by computation                  *)
(* ------------------------------------------------------------------------------------------- *)
Fixpoint ids_of (st : stmt) : list nat :=
  let go := fix go (l : list stmt) : list nat :=
              match l with [] => [] | x :: r => (ids_of x ++ go r)%list end in
  match st with
  | SCheckInst id _ _ | SCheck id _ | SRaise id _ | SConvert id _ _ _ | SIter id | SForget id
  | SMutate id _ | SCall id _ _ _ _ | SReturn id => [id]
  | SInline id _ _ body => id :: go body
  | SLoop id body => id :: go body
  | SBranch id b1 b2 => id :: (go b1 ++ go b2)%list
  end.
Definition ids_of_list (l : list stmt) : list nat := flat_map ids_of l.

Fixpoint tys_of (st : stmt) : list string :=
  let go := fix go (l : list stmt) : list string :=
              match l with [] => [] | x :: r => (tys_of x ++ go r)%list end in
  match st with
  | SCheckInst _ ts _ => ts
  | SConvert _ t _ _ => [t]
  | SInline _ _ _ body => go body
  | SLoop _ body => go body
  | SBranch _ b1 b2 => (go b1 ++ go b2)%list
  | _ => []
  end.
Definition tys_of_list (l : list stmt) : list string := flat_map tys_of l.

Inductive bpolicy := BAllTrue | BAllFalse | BTrueExcept (n : nat) | BFalseExcept (n : nat).
Definition bpol (b : bpolicy) (id occ : nat) : bool :=
  match b with
  | BAllTrue => true
  | BAllFalse => false
  | BTrueExcept n => negb (Nat.eqb id n)
  | BFalseExcept n => Nat.eqb id n
  end.

(* the adversary: the argument has kind k, statement rid raises at its occurrence rocc, branches
   follow policy b, every loop runs twice *)
Definition adversary (k : vkind) (rid rocc : nat) (b : bpolicy) : oracle :=
  mk_oracle k
    (fun i o => if andb (Nat.eqb i rid) (Nat.eqb o rocc) then Some "" else None)
    (bpol b) (fun _ _ => 2) (fun _ _ => 1%Z) (fun _ _ => k).

Definition family (ir : list stmt) : list oracle :=
  let ids := ids_of_list ir in
  let kinds := ([KInt; KFloat; KStr; KList; KNone] ++ map kind_of_ty (tys_of_list ir))%list in
  let pols := (BAllTrue :: BAllFalse :: map BTrueExcept ids ++ map BFalseExcept ids)%list in
  flat_map (fun b => flat_map (fun k => flat_map (fun rid => map (fun rocc => adversary k rid rocc b) [1; 0; 2]) ids) kinds) pols.

Definition is_nil {A} (l : list A) : bool := match l with [] => true | _ => false end.

(* this adversary makes the program fail after it has written *)
Definition refutes (E : env) (ir : list stmt) (a : oracle) : bool :=
  andb (is_err (snd (exec E ir [] a))) (negb (is_nil (fst (exec E ir [] a)))).

(* existsb that stops at the first hit under call-by-value evaluation *)
Fixpoint find_first {A} (f : A -> bool) (l : list A) : bool :=
  match l with [] => false | x :: r => if f x then true else find_first f r end.
Lemma find_first_exists {A} (f : A -> bool) l : find_first f l = true -> exists x, In x l /\ f x = true.
Proof.
  induction l as [|x r IH]; cbn; [discriminate|].
  destruct (f x) eqn:Ef.
  - intros _. exists x. split; [left; reflexivity | exact Ef].
  - intros H. destruct (IH H) as [y [Hy Hf]]. exists y. split; [right; exact Hy | exact Hf].
Qed.

Definition refutable (E : env) (ir : list stmt) : bool := find_first (refutes E ir) (family ir).

Lemma refutable_sound E ir :
  refutable E ir = true ->
  exists a, is_err (snd (exec E ir [] a)) = true /\ fst (exec E ir [] a) <> [].
Proof.
  unfold refutable. intros Hf. destruct (find_first_exists _ _ Hf) as [a [_ H]]. exists a.
  unfold refutes in H. apply andb_true_iff in H. destruct H as [H1 H2]. split; [exact H1|].
  destruct (fst (exec E ir [] a)); [discriminate | discriminate].
Qed.

(* a refutable program is not checks-first: the analysis and the search never both say yes *)
Lemma refutable_not_checks_first E ir : refutable E ir = true -> checks_first E ir = false.
Proof.
  intros H. destruct (refutable_sound E ir H) as [a [H1 H2]].
  destruct (checks_first E ir) eqn:Ec; [|reflexivity].
  exfalso. apply H2. apply checks_first_sound; assumption.
Qed.

(* every entry of a table is decided: proved atomic, or refuted by a counter-execution *)
Definition decided (E : env) (tbl : list (string * list stmt)) : bool :=
  forallb (fun p => if checks_first E (snd p) then true else refutable E (snd p)) tbl.

Definition failing (E : env) (tbl : list (string * list stmt)) : list string :=
  map fst (filter (fun p => negb (checks_first E (snd p))) tbl).

Lemma partial_of_failing E tbl excl :
  failing E tbl = excl ->
  forall name ir, In (name, ir) tbl -> ~ In name excl -> checks_first E ir = true.
Proof.
  intros <- name ir Hin Hex. destruct (checks_first E ir) eqn:Ec; [reflexivity|].
  exfalso. apply Hex. unfold failing. apply in_map_iff. exists (name, ir). split; [reflexivity|].
  apply filter_In. split; [exact Hin|]. cbn [snd]. rewrite Ec. reflexivity.
Qed.

Lemma refuted_of_decided E tbl excl :
  decided E tbl = true -> failing E tbl = excl ->
  forall name, In name excl ->
    exists ir a, In (name, ir) tbl /\ is_err (snd (exec E ir [] a)) = true /\ fst (exec E ir [] a) <> [].
Proof.
  intros Hd <- name Hin. unfold failing in Hin. apply in_map_iff in Hin.
  destruct Hin as [[n ir] [Hn Hf]]. cbn [fst] in Hn. subst n.
  apply filter_In in Hf. destruct Hf as [Hin Hc]. cbn [snd] in Hc. apply negb_true_iff in Hc.
  unfold decided in Hd. rewrite forallb_forall in Hd. specialize (Hd _ Hin). cbn [snd] in Hd.
  rewrite Hc in Hd.
  destruct (refutable_sound E ir Hd) as [a [H1 H2]]. exists ir, a. auto.
Qed.

(* every program of a table outside the excluded names that raises leaves the state unchanged *)
Theorem table_atomic E tbl excl :
  failing E tbl = excl ->
  forall name ir s a,
    In (name, ir) tbl -> ~ In name excl ->
    is_err (snd (exec E ir s a)) = true -> fst (exec E ir s a) = s.
Proof.
  intros Hf name ir s a Hin Hex Herr. apply checks_first_sound; [|exact Herr].
  eapply partial_of_failing; eassumption.
Qed.

Lemma assoc_In {A} k (l : list (string * A)) v : assoc k l = Some v -> In (k, v) l.
Proof.
  induction l as [|[k' v'] r IH]; cbn; [discriminate|].
  destruct (String.eqb_spec k k') as [->|].
  - intros H. inversion H. left. reflexivity.
  - intros H. right. apply IH. exact H.
Qed.

(* the same with a list of names that covers the failing ones (it may name more: a setter that has
   been repaired since is then simply not spoken about) *)
Definition covers (excl failing_names : list string) : bool := forallb (fun n => mem_s n excl) failing_names.

Theorem table_atomic_cover E tbl excl :
  covers excl (failing E tbl) = true ->
  forall name ir s a,
    In (name, ir) tbl -> ~ In name excl ->
    is_err (snd (exec E ir s a)) = true -> fst (exec E ir s a) = s.
Proof.
  intros Hc name ir s a Hin Hex Herr.
  apply (table_atomic E tbl (failing E tbl) eq_refl name ir s a Hin); [|exact Herr].
  intros Hf. apply Hex. unfold covers in Hc. rewrite forallb_forall in Hc.
  apply mem_s_In. apply Hc. exact Hf.
Qed.
