(* PlaceProofs.v — lemmas and proofs about Model/Place.v (property C09).

   Vocabulary of the statements (defined here, used by Properties/C09.v):
     cell_side / data_side      what the written cell card of cell i / the data block says for class k, cell i
     imp_cell_side / imp_data_side   the same for the importance of particle q
     mods_of                    the data-block cards of class k
     api_value                  the value the API reports when the cell "has information" of class k
     wf                         invariant of every state reached from a read file
     denote                     the meaning of a file by MCNP's rule (cell parameter, else i-th entry of the vector)
*)
From Coq Require Import List String Ascii ZArith Bool Lia Arith Permutation.
From MPV Require Import Model.Wire Model.Place.
Import ListNotations.
Open Scope list_scope.

(* ================================================================== generic *)
Lemma cls_eqb_eq : forall a b, cls_eqb a b = true <-> a = b.
Proof. destruct a, b; simpl; split; intro H; try reflexivity; try discriminate. Qed.

Lemma cls_eqb_refl : forall a, cls_eqb a a = true.
Proof. destruct a; reflexivity. Qed.

Lemma cls_eqb_neq : forall a b, cls_eqb a b = false <-> a <> b.
Proof.
  intros a b. split.
  - intros H E. subst. rewrite cls_eqb_refl in H. discriminate.
  - intro N. destruct (cls_eqb a b) eqn:E; auto. apply cls_eqb_eq in E. contradiction.
Qed.

Lemma mem_In : forall q l, mem q l = true <-> In q l.
Proof.
  intros q l. unfold mem. rewrite existsb_exists. split.
  - intros [x [Hx E]]. apply Nat.eqb_eq in E. subst. exact Hx.
  - intro H. exists q. split; auto. apply Nat.eqb_refl.
Qed.

Lemma mem_false : forall q l, mem q l = false <-> ~ In q l.
Proof.
  intros q l. split.
  - intros H I. apply mem_In in I. congruence.
  - intro N. destruct (mem q l) eqn:E; auto. apply mem_In in E. contradiction.
Qed.

Lemma mem_app : forall q a b, mem q (a ++ b) = orb (mem q a) (mem q b).
Proof. intros. unfold mem. apply existsb_app. Qed.

Lemma subset_In : forall a b, subset a b = true <-> (forall x, In x a -> In x b).
Proof.
  intros a b. unfold subset. rewrite forallb_forall. split.
  - intros H x Hx. apply mem_In. auto.
  - intros H x Hx. apply mem_In. auto.
Qed.

Lemma nodup_p_NoDup : forall l, nodup_p l = true <-> NoDup l.
Proof.
  induction l as [|x r IH]; simpl.
  - split; auto. constructor.
  - rewrite andb_true_iff, negb_true_iff, IH, mem_false. split.
    + intros [A B]. constructor; auto.
    + intro H. inversion H; subst. auto.
Qed.

(* ------------------------------------------------------------------ map_res *)
Lemma map_res_ok_inv : forall {A B} (f : A -> res B) l ys,
  map_res f l = Ok ys -> Forall2 (fun x y => f x = Ok y) l ys.
Proof.
  induction l as [|x r IH]; simpl; intros ys H.
  - inversion H. constructor.
  - destruct (f x) eqn:E; try discriminate.
    destruct (map_res f r) eqn:E2; try discriminate.
    inversion H; subst. constructor; auto.
Qed.

Lemma map_res_ok_intro : forall {A B} (f : A -> res B) l ys,
  Forall2 (fun x y => f x = Ok y) l ys -> map_res f l = Ok ys.
Proof.
  induction 1; simpl; auto. rewrite H, IHForall2. reflexivity.
Qed.

Lemma map_res_total : forall {A B} (f : A -> res B) (g : A -> B) l,
  (forall x, In x l -> f x = Ok (g x)) -> map_res f l = Ok (map g l).
Proof.
  induction l as [|x r IH]; simpl; intros H; auto.
  rewrite (H x) by auto. rewrite IH by auto. reflexivity.
Qed.

Lemma map_res_length : forall {A B} (f : A -> res B) l ys, map_res f l = Ok ys -> List.length ys = List.length l.
Proof.
  intros. apply map_res_ok_inv in H. induction H; simpl; auto.
Qed.

Lemma map_res_nth : forall {A B} (f : A -> res B) l ys i x,
  map_res f l = Ok ys -> nth_error l i = Some x -> exists y, nth_error ys i = Some y /\ f x = Ok y.
Proof.
  intros A B f l ys i x H. apply map_res_ok_inv in H. revert i.
  induction H; intros i Hi.
  - destruct i; discriminate.
  - destruct i; simpl in *.
    + inversion Hi; subst. eauto.
    + auto.
Qed.

Lemma map_res_app : forall {A B} (f : A -> res B) l1 l2 y1 y2,
  map_res f l1 = Ok y1 -> map_res f l2 = Ok y2 -> map_res f (l1 ++ l2) = Ok (y1 ++ y2).
Proof.
  intros. apply map_res_ok_intro. apply Forall2_app; apply map_res_ok_inv; auto.
Qed.

(* ================================================================== the data block: one item per class *)
Definition mods_of (k : cls) (d : list ditem) : list (list dcard) :=
  flat_map (fun it => match it with
                      | DMod k' c => if cls_eqb k k' then [c] else []
                      | DOther => []
                      end) d.

Lemma mods_of_app : forall k a b, mods_of k (a ++ b) = mods_of k a ++ mods_of k b.
Proof. intros. unfold mods_of. apply flat_map_app. Qed.

Definition slot_classes (d : list dslot) : list cls :=
  flat_map (fun x => match x with SMod k => [k] | SOther => [] end) d.

(* invariant of every state made by [read] and kept by every operation *)
Definition wf (s : state) : Prop := NoDup (slot_classes (s_data s)) /\ NoDup (s_mode s).

Definition mod_cards (s : state) (k : cls) : list (list dcard) :=
  match mod_item s k with Ok l => mods_of k l | Err _ => [] end.

Lemma mod_item_shape : forall s k l, mod_item s k = Ok l ->
  l = [] \/ exists cards, l = [DMod k cards].
Proof.
  intros s k l H. unfold mod_item in H.
  destruct (andb _ _); [|inversion H; auto].
  destruct (collect _ _ _); inversion H. right. eauto.
Qed.

Lemma mods_of_mod_item_other : forall s k k' l, mod_item s k' = Ok l -> k <> k' -> mods_of k l = [].
Proof.
  intros s k k' l H N. apply mod_item_shape in H. destruct H as [->|[c ->]]; simpl; auto.
  apply cls_eqb_neq in N. rewrite N. reflexivity.
Qed.

Lemma in_data_In : forall sl k, in_data sl k = true <-> In k (slot_classes sl).
Proof.
  induction sl as [|x r IH]; simpl; intro k.
  - split; [discriminate|tauto].
  - destruct x as [|k']; simpl.
    + apply IH.
    + rewrite orb_true_iff, IH, cls_eqb_eq. split; intros [A|A]; auto.
Qed.

Lemma in_data_false : forall sl k, in_data sl k = false <-> ~ In k (slot_classes sl).
Proof.
  intros. split.
  - intros H I. apply in_data_In in I. congruence.
  - intro N. destruct (in_data sl k) eqn:E; auto. apply in_data_In in E. contradiction.
Qed.

Lemma slots_mods : forall s k sl ys,
  map_res (fun x => match x with SOther => Ok [DOther] | SMod k => mod_item s k end) sl = Ok ys ->
  NoDup (slot_classes sl) ->
  mods_of k (List.concat ys) = if in_data sl k then mod_cards s k else [].
Proof.
  intros s k. induction sl as [|x r IH]; simpl; intros ys H ND.
  - inversion H. reflexivity.
  - destruct x as [|k'].
    + simpl in H. destruct (map_res _ r) eqn:E; try discriminate. inversion H; subst.
      simpl. apply IH; auto.
    + destruct (mod_item s k') as [l|] eqn:Em; try discriminate.
      destruct (map_res _ r) eqn:E; try discriminate. inversion H; subst.
      simpl in ND. inversion ND; subst.
      simpl. rewrite mods_of_app. rewrite (IH _ eq_refl H3).
      destruct (cls_eqb k k') eqn:Ek.
      * apply cls_eqb_eq in Ek. subst k'. simpl.
        apply in_data_false in H2. rewrite H2. unfold mod_cards. rewrite Em. apply app_nil_r.
      * simpl. rewrite (mods_of_mod_item_other s k k' l Em) by (apply cls_eqb_neq; exact Ek). reflexivity.
Qed.

Lemma children_mods : forall s k sl ks ys,
  map_res (fun k => if in_data sl k then Ok [] else mod_item s k) ks = Ok ys ->
  NoDup ks ->
  mods_of k (List.concat ys) =
    if andb (existsb (cls_eqb k) ks) (negb (in_data sl k)) then mod_cards s k else [].
Proof.
  intros s k sl. induction ks as [|k' r IH]; simpl; intros ys H ND.
  - inversion H. reflexivity.
  - destruct (if in_data sl k' then Ok [] else mod_item s k') as [l|] eqn:Em; try discriminate.
    destruct (map_res _ r) eqn:E; try discriminate. inversion H; subst.
    inversion ND; subst. simpl. rewrite mods_of_app. rewrite (IH _ eq_refl H3).
    destruct (cls_eqb k k') eqn:Ek.
    + apply cls_eqb_eq in Ek. subst k'. simpl.
      assert (X : existsb (cls_eqb k) r = false).
      { destruct (existsb (cls_eqb k) r) eqn:EE; auto. apply existsb_exists in EE.
        destruct EE as [x [Hx Hy]]. apply cls_eqb_eq in Hy. subst. contradiction. }
      rewrite X. simpl. destruct (in_data sl k); simpl.
      * inversion Em. reflexivity.
      * unfold mod_cards. rewrite Em. apply app_nil_r.
    + simpl. destruct (in_data sl k').
      * inversion Em. reflexivity.
      * rewrite (mods_of_mod_item_other s k k' l Em) by (apply cls_eqb_neq; exact Ek). reflexivity.
Qed.

Lemma all_cls_NoDup : NoDup all_cls.
Proof. unfold all_cls. repeat constructor; simpl; intuition discriminate. Qed.

Lemma all_cls_complete : forall k, existsb (cls_eqb k) all_cls = true.
Proof. destruct k; reflexivity. Qed.

Lemma concat_res_ok : forall {A} (r : res (list (list A))) l, concat_res r = Ok l -> exists ys, r = Ok ys /\ l = List.concat ys.
Proof. intros A [ys|e] l H; simpl in H; inversion H. eauto. Qed.

Theorem write_mods : forall s w k, wf s -> write s = Ok w -> mods_of k (w_data w) = mod_cards s k.
Proof.
  intros s w k [ND _] H. unfold write in H.
  destruct (map_res _ (s_cells s)) as [cs|] eqn:Ec; try discriminate.
  destruct (data_objects s) as [d1|] eqn:E1; try discriminate.
  destruct (data_children s) as [d2|] eqn:E2; try discriminate.
  inversion H; subst. simpl.
  unfold data_objects in E1. apply concat_res_ok in E1. destruct E1 as [y1 [E1 ->]].
  unfold data_children in E2. apply concat_res_ok in E2. destruct E2 as [y2 [E2 ->]].
  rewrite mods_of_app.
  rewrite (slots_mods s k _ _ E1 ND).
  rewrite (children_mods s k _ _ _ E2 all_cls_NoDup).
  rewrite all_cls_complete. simpl.
  destruct (in_data (s_data s) k); simpl; auto. apply app_nil_r.
Qed.

(* ================================================================== VOL U LAT FILL: exactly once, right block, API value *)
Definition olist {A} (o : option A) : list A := match o with Some x => [x] | None => [] end.

(* the value the API reports when the cell has information of class k (None: the default) *)
Definition api_value (k : cls) (c : cell) : option Z :=
  match k with
  | CImp => None
  | CVol => match c_vol c with VSet z => Some z | _ => None end
  | CU => match c_u c with Some u => if Z.eqb u 0 then None else Some u | None => None end
  | CLat => c_lat c
  | CFill => c_fill c
  end.

(* what a written cell card says for class k *)
Definition cell_side (k : cls) (es : list entry) : list wval :=
  flat_map (fun e => match e with
                     | EOne k' v => if cls_eqb k k' then [v] else []
                     | EImp _ _ => []
                     end) es.

(* what the data block says for class k (not IMP) and the i-th cell *)
Definition data_side (k : cls) (i : nat) (d : list ditem) : list Z :=
  flat_map (fun cards => flat_map (fun c : dcard =>
              match fst c, nth_error (snd c) i with
              | None, Some (Some z) => [z]
              | _, _ => []
              end) cards) (mods_of k d).

Lemma cell_side_app : forall k a b, cell_side k (a ++ b) = cell_side k a ++ cell_side k b.
Proof. intros. unfold cell_side. apply flat_map_app. Qed.

Lemma cell_side_imps : forall k (l : list (list particle * Z)),
  cell_side k (map (fun e => EImp (fst e) (snd e)) l) = [].
Proof. induction l; simpl; auto. Qed.

Lemma has_information_api : forall c k, k <> CImp ->
  has_information c k = match api_value k c with Some _ => true | None => false end.
Proof.
  intros c k N. destruct k; try contradiction; simpl.
  - destruct (c_vol c); reflexivity.
  - destruct (c_u c) as [u|]; auto. destruct (Z.eqb u 0); reflexivity.
  - destruct (c_lat c); reflexivity.
  - destruct (c_fill c); reflexivity.
Qed.

Lemma cell_side_one_entry_other : forall c k k', k <> k' -> cell_side k (one_entry c k') = [].
Proof.
  intros c k k' N. apply cls_eqb_neq in N.
  destruct k'; simpl; auto.
  - destruct (c_vol c); simpl; auto. rewrite N. reflexivity.
  - destruct (c_u c) as [u|]; simpl; auto. destruct (Z.eqb u 0); simpl; auto. rewrite N. reflexivity.
  - destruct (c_lat c); simpl; auto. rewrite N. reflexivity.
  - destruct (c_fill c); simpl; auto. rewrite N. reflexivity.
Qed.

Lemma cell_side_one_entry_same : forall c k, k <> CImp ->
  cell_side k (one_entry c k) = map WV (olist (api_value k c)).
Proof.
  intros c k N. destruct k; try contradiction; simpl.
  - destruct (c_vol c); reflexivity.
  - destruct (c_u c) as [u|]; auto. destruct (Z.eqb u 0); reflexivity.
  - destruct (c_lat c); reflexivity.
  - destruct (c_fill c); reflexivity.
Qed.

Lemma cell_side_cond : forall c k k' (b : bool),
  cell_side k (if b then one_entry c k' else [])
  = if cls_eqb k k' then (if b then cell_side k (one_entry c k') else []) else [].
Proof.
  intros c k k' b. destruct (cls_eqb k k') eqn:E.
  - destruct b; reflexivity.
  - destruct b; auto. apply cell_side_one_entry_other. apply cls_eqb_neq. exact E.
Qed.

Lemma cell_side_four : forall k (g : cls -> list entry),
  cell_side k (flat_map g [CVol; CU; CLat; CFill])
  = cell_side k (g CVol) ++ cell_side k (g CU) ++ cell_side k (g CLat) ++ cell_side k (g CFill).
Proof. intros. simpl. rewrite !cell_side_app. simpl. rewrite app_nil_r. reflexivity. Qed.

Lemma card_cell_side : forall mode f c n es k,
  card mode f c = Ok (n, es) -> k <> CImp ->
  n = c_num c /\
  cell_side k es = if andb (prints_cell f k) (has_information c k) then cell_side k (one_entry c k) else [].
Proof.
  intros mode f c n es k H N. unfold card in H.
  destruct (if prints_cell f CImp then _ else _) as [imps|]; try discriminate.
  match type of H with Ok (?a, ?b) = _ =>
    assert (Hn : n = a) by congruence; assert (Hes : es = b) by congruence end.
  clear H. subst n es. split; auto.
  rewrite cell_side_app, cell_side_imps, cell_side_four.
  rewrite !cell_side_cond.
  destruct k; try contradiction; cbn [cls_eqb app]; rewrite ?app_nil_r; reflexivity.
Qed.

Lemma prints_cell_flag : forall f k, prints_cell f k = negb (flag f k).
Proof. intros. unfold prints_cell. destruct (flag f k); reflexivity. Qed.
Lemma prints_data_flag : forall f k, prints_data f k = flag f k.
Proof. intros. unfold prints_data. destruct (flag f k); reflexivity. Qed.

(* the side conditions, per class *)
Lemma clean_parts : forall s, clean s = true ->
  imp_cell_ok s = true /\ imp_data_ok s = true /\ fill_ok s = true.
Proof.
  intros s H. unfold clean in H. repeat (apply andb_true_iff in H; destruct H as [? H]). auto 10.
Qed.

Lemma worth_In : forall cells k, worth cells k = true <-> exists c, In c cells /\ has_information c k = true.
Proof. intros. unfold worth. apply existsb_exists. Qed.

Lemma tree_value_clean : forall s k c, clean s = true -> k <> CImp ->
  flag (s_flags s) k = true -> worth (s_cells s) k = true -> In c (s_cells s) ->
  tree_value k c = Ok (api_value k c).
Proof.
  intros s k c Hc N Hf Hw Hin. apply clean_parts in Hc. destruct Hc as [_ [_ Hfl]].
  destruct k; try contradiction; simpl in *.
  - destruct (c_vol c); reflexivity.
  - destruct (c_u c); reflexivity.
  - reflexivity.
  - unfold fill_ok in Hfl. rewrite Hf, Hw in Hfl. simpl in Hfl. rewrite forallb_forall in Hfl.
    specialize (Hfl c Hin). apply negb_true_iff in Hfl. rewrite Hfl. reflexivity.
Qed.

Lemma collect_other : forall mode cells k, k <> CImp ->
  (forall c, In c cells -> tree_value k c = Ok (api_value k c)) ->
  collect mode cells k = Ok [(None, map (api_value k) cells)].
Proof.
  intros mode cells k N H. unfold collect.
  rewrite (map_res_total (tree_value k) (api_value k) cells H).
  destruct k; try contradiction; reflexivity.
Qed.

(* the data block's card(s) of a class other than IMP *)
Theorem mod_cards_other : forall s k, clean s = true -> k <> CImp ->
  mod_cards s k = if andb (flag (s_flags s) k) (worth (s_cells s) k)
                  then [[(None, map (api_value k) (s_cells s))]] else [].
Proof.
  intros s k Hc N. unfold mod_cards, mod_item. rewrite prints_data_flag.
  destruct (flag (s_flags s) k) eqn:Hf; simpl; auto.
  destruct (worth (s_cells s) k) eqn:Hw; simpl; auto.
  rewrite (collect_other (s_mode s) (s_cells s) k N).
  - simpl. rewrite cls_eqb_refl. reflexivity.
  - intros c Hin. eapply tree_value_clean; eauto.
Qed.

Lemma no_worth_no_info : forall cells k c, worth cells k = false -> In c cells -> has_information c k = false.
Proof.
  intros cells k c H Hin. destruct (has_information c k) eqn:E; auto.
  assert (worth cells k = true) by (apply worth_In; eauto). congruence.
Qed.

Lemma write_cards : forall s w, write s = Ok w ->
  map_res (card (s_mode s) (s_flags s)) (s_cells s) = Ok (w_cards w).
Proof.
  intros s w H. unfold write in H.
  destruct (map_res _ (s_cells s)) as [cs|] eqn:Ec; try discriminate.
  destruct (data_objects s); try discriminate. destruct (data_children s); try discriminate.
  inversion H. reflexivity.
Qed.

Theorem exactly_once_other : forall s w i c,
  wf s -> clean s = true -> write s = Ok w -> nth_error (s_cells s) i = Some c ->
  exists es, nth_error (w_cards w) i = Some (c_num c, es) /\
    forall k, k <> CImp ->
      cell_side k es = (if flag (s_flags s) k then [] else map WV (olist (api_value k c))) /\
      data_side k i (w_data w) = (if flag (s_flags s) k then olist (api_value k c) else []).
Proof.
  intros s w i c Hwf Hc Hw Hi.
  pose proof (write_cards s w Hw) as Hcards.
  destruct (map_res_nth _ _ _ _ _ Hcards Hi) as [[n es] [Hn Hcard]].
  assert (Hin : In c (s_cells s)) by (eapply nth_error_In; eauto).
  exists es. split.
  - destruct (card_cell_side _ _ _ _ _ CVol Hcard) as [-> _]; [discriminate|]. exact Hn.
  - intros k N. split.
    + destruct (card_cell_side _ _ _ _ _ k Hcard N) as [_ ->].
      rewrite prints_cell_flag. destruct (flag (s_flags s) k) eqn:Hf; simpl; auto.
      rewrite (has_information_api c k N).
      destruct (api_value k c) eqn:Ea; auto.
      rewrite cell_side_one_entry_same; auto.
      rewrite Ea. reflexivity.
    + unfold data_side. rewrite (write_mods s w k Hwf Hw). rewrite (mod_cards_other s k Hc N).
      destruct (flag (s_flags s) k) eqn:Hf; simpl; auto.
      destruct (worth (s_cells s) k) eqn:Hwo; simpl.
      * rewrite nth_error_map, Hi. simpl. destruct (api_value k c); reflexivity.
      * pose proof (no_worth_no_info _ _ _ Hwo Hin) as X. rewrite (has_information_api c k N) in X.
        destruct (api_value k c); [discriminate|reflexivity].
Qed.

(* ================================================================== IMP on the cell card: _format_tree *)
(* [fmt_loop] without its in-place edits and without its errors, over the unchanged dict *)
Fixpoint fmt_spec (mode : list particle) (g : list igroup) (keys printed : list particle) : list (list particle * Z) :=
  match keys with
  | [] => []
  | q :: ks =>
      if mem q printed then fmt_spec mode g ks printed
      else if negb (mem q mode) then fmt_spec mode g ks printed
      else match ifind q g with
           | None => fmt_spec mode g ks printed
           | Some t =>
               let others := remove_p q (t_parts t) in
               let close := filter (fun o => Z.eqb (ival o g) (t_val t)) others in
               let far := filter (fun o => negb (Z.eqb (ival o g) (t_val t))) others in
               (minus (t_parts t) far, t_val t) :: fmt_spec mode g ks (q :: close ++ printed)
           end
  end.

Definition imp_occ (p : particle) (out : list (list particle * Z)) : list Z :=
  flat_map (fun e => if mem p (fst e) then [snd e] else []) out.

(* the partition condition, as facts *)
Record PC (g : list igroup) : Prop := mkPC {
  pc_self : forall x t, ifind x g = Some t -> In x (t_parts t);
  pc_order : forall x t, ifind x g = Some t -> forall y, In y (t_parts t) -> In y (t_order t);
  pc_key : forall x t, ifind x g = Some t -> forall o, In o (t_parts t) -> mem o (ikeys g) = true;
  pc_same : forall x t, ifind x g = Some t -> forall o, In o (t_parts t) ->
            forall y, In y (parts_of o g) <-> In y (t_parts t)
}.

Lemma ifind_In : forall q g t, ifind q g = Some t -> exists ks, In (ks, t) g /\ mem q ks = true.
Proof.
  induction g as [|[ks t0] r IH]; simpl; intros t H; try discriminate.
  destruct (mem q ks) eqn:E.
  - inversion H; subst. eauto.
  - destruct (IH t H) as [ks' [A B]]. eauto.
Qed.

Lemma ifind_key : forall q g, mem q (ikeys g) = true <-> exists t, ifind q g = Some t.
Proof.
  induction g as [|[ks t0] r IH]; simpl.
  - split; [discriminate|intros [t H]; discriminate].
  - unfold ikeys in *. simpl. rewrite mem_app. destruct (mem q ks); simpl.
    + split; eauto.
    + exact IH.
Qed.

Lemma ifind_none_key : forall q g, ifind q g = None -> mem q (ikeys g) = false.
Proof.
  intros q g H. destruct (mem q (ikeys g)) eqn:E; auto.
  apply ifind_key in E. destruct E as [t E]. congruence.
Qed.

Lemma imp_parts_ok_PC : forall g, imp_parts_ok g = true -> PC g.
Proof.
  intros g H. unfold imp_parts_ok in H. apply andb_true_iff in H. destruct H as [_ H].
  rewrite forallb_forall in H.
  assert (G : forall x t, ifind x g = Some t ->
     (forall y, In y (t_parts t) -> In y (t_order t)) /\ In x (t_parts t) /\
     (forall o, In o (t_parts t) -> mem o (ikeys g) = true /\ (forall y, In y (parts_of o g) <-> In y (t_parts t)))).
  { intros x t Hx. destruct (ifind_In _ _ _ Hx) as [ks [Hin Hm]].
    specialize (H _ Hin). unfold group_ok in H. simpl in H.
    apply andb_true_iff in H. destruct H as [H H3]. apply andb_true_iff in H. destruct H as [H1 H2].
    rewrite subset_In in H1, H2. rewrite forallb_forall in H3.
    split; [exact H2|]. split; [apply H1; apply mem_In; exact Hm|].
    intros o Ho. specialize (H3 o Ho). apply andb_true_iff in H3. destruct H3 as [A B].
    split; auto. unfold seteq in B. apply andb_true_iff in B. destruct B as [B1 B2].
    rewrite subset_In in B1, B2. intro y. split; auto. }
  constructor; intros x t Hx.
  - apply (G x t Hx).
  - apply (G x t Hx).
  - intros o Ho. apply (G x t Hx). exact Ho.
  - intros o Ho. apply (G x t Hx). exact Ho.
Qed.

(* --- iupd keeps values, keys, and the trees of the other groups *)
Lemma ifind_iupd_val : forall q f g x,
  (forall t, t_val (f t) = t_val t) ->
  option_map t_val (ifind x (iupd q f g)) = option_map t_val (ifind x g).
Proof.
  intros q f g x Hf. induction g as [|[ks t] r IH]; simpl; auto.
  destruct (mem q ks) eqn:E; simpl.
  - destruct (mem x ks); simpl; auto. rewrite Hf. reflexivity.
  - destruct (mem x ks); simpl; auto.
Qed.

Lemma ival_iupd : forall q f g x, (forall t, t_val (f t) = t_val t) -> ival x (iupd q f g) = ival x g.
Proof.
  intros. unfold ival. pose proof (ifind_iupd_val q f g x H) as E.
  destruct (ifind x (iupd q f g)), (ifind x g); simpl in E; congruence.
Qed.

Fixpoint same_first_group (x q : particle) (g : list igroup) : bool :=
  match g with
  | [] => false
  | (ks, _) :: r => if mem q ks then mem x ks else if mem x ks then false else same_first_group x q r
  end.

Lemma ifind_iupd_other : forall q f g x, same_first_group x q g = false -> ifind x (iupd q f g) = ifind x g.
Proof.
  intros q f g x. induction g as [|[ks t] r IH]; simpl; auto.
  destruct (mem q ks) eqn:E; simpl.
  - intros ->. reflexivity.
  - destruct (mem x ks); auto.
Qed.

Lemma same_first_group_ifind : forall x q g, same_first_group x q g = true ->
  exists t, ifind x g = Some t /\ ifind q g = Some t.
Proof.
  intros x q g. induction g as [|[ks t] r IH]; simpl; try discriminate.
  destruct (mem q ks) eqn:E.
  - intros ->. eauto.
  - destruct (mem x ks); try discriminate. auto.
Qed.

Lemma In_remove_p : forall x q l, In x (remove_p q l) <-> In x l /\ x <> q.
Proof.
  intros. unfold remove_p. rewrite filter_In, negb_true_iff, Nat.eqb_neq. tauto.
Qed.

Lemma In_minus : forall x l far, In x (minus l far) <-> In x l /\ ~ In x far.
Proof.
  intros. unfold minus. rewrite filter_In, negb_true_iff, mem_false. tauto.
Qed.

Lemma ival_ifind : forall x g t, ifind x g = Some t -> ival x g = t_val t.
Proof. intros. unfold ival. rewrite H. reflexivity. Qed.

(* --- fmt_loop computes fmt_spec when the partition condition holds and every key is a MODE particle *)
Lemma imp_keys_ok_parts : forall mode g q t, imp_keys_ok mode g = true -> ifind q g = Some t ->
  mem q mode = true -> forall o, In o (t_parts t) -> In o mode.
Proof.
  intros mode g q t H Hq Hm o Ho. unfold imp_keys_ok in H. rewrite forallb_forall in H.
  destruct (ifind_In _ _ _ Hq) as [ks [Hin Hk]]. specialize (H _ Hin). simpl in H.
  apply orb_true_iff in H. destruct H as [H|H].
  - apply negb_true_iff in H. assert (existsb (fun q0 => mem q0 mode) ks = true).
    { apply existsb_exists. exists q. split; auto. apply mem_In. exact Hk. }
    congruence.
  - rewrite subset_In in H. auto.
Qed.

Lemma fmt_loop_spec : forall mode g0, PC g0 -> imp_keys_ok mode g0 = true ->
  forall ks g printed,
    (forall x, ival x g = ival x g0) ->
    (forall x, mem x printed = false -> ifind x g = ifind x g0) ->
    fmt_loop mode ks g printed = Ok (fmt_spec mode g0 ks printed).
Proof.
  intros mode g0 HPC Hmode.
  induction ks as [|q ks IH]; intros g printed Hval Hfind; simpl; auto.
  destruct (mem q printed) eqn:Eq; auto.
  destruct (mem q mode) eqn:Eqm; simpl; auto.
  rewrite (Hfind q Eq). destruct (ifind q g0) as [t|] eqn:Et; auto.
  assert (Hkeymode : forall o, In o (t_parts t) -> In o mode).
  { intros o Ho. eapply imp_keys_ok_parts; eauto. }
  assert (Hq : In q mode) by (apply mem_In; exact Eqm).
  (* the MODE check *)
  assert (C1 : andb (negb (match remove_p q (t_parts t) with [] => true | _ => false end))
                    (existsb (fun o => negb (mem o mode)) (remove_p q (t_parts t))) = false).
  { apply andb_false_iff. right.
    destruct (existsb _ _) eqn:EE; auto. apply existsb_exists in EE. destruct EE as [o [Ho Hn]].
    apply negb_true_iff in Hn. apply In_remove_p in Ho. destruct Ho as [Ho _].
    apply Hkeymode in Ho. apply mem_In in Ho. congruence. }
  rewrite C1.
  (* same close / far *)
  assert (EF : forall o, Z.eqb (ival o g) (t_val t) = Z.eqb (ival o g0) (t_val t)) by (intro o; rewrite Hval; reflexivity).
  rewrite (filter_ext _ _ EF).
  assert (EF2 : forall o, negb (Z.eqb (ival o g) (t_val t)) = negb (Z.eqb (ival o g0) (t_val t))) by (intro o; rewrite Hval; reflexivity).
  rewrite (filter_ext _ _ EF2).
  set (close := filter (fun o => Z.eqb (ival o g0) (t_val t)) (remove_p q (t_parts t))).
  set (far := filter (fun o => negb (Z.eqb (ival o g0) (t_val t))) (remove_p q (t_parts t))).
  (* no ValueError *)
  assert (C2 : existsb (fun o => negb (mem o (t_order t))) far = false).
  { destruct (existsb _ far) eqn:EE; auto. apply existsb_exists in EE. destruct EE as [o [Ho Hn]].
    apply negb_true_iff in Hn. unfold far in Ho. apply filter_In in Ho. destruct Ho as [Ho _].
    apply In_remove_p in Ho. destruct Ho as [Ho _].
    assert (In o (t_order t)) by (eapply pc_order; eauto). apply mem_In in H. congruence. }
  rewrite C2.
  rewrite IH; auto.
  - intro x. rewrite ival_iupd; auto.
  - intros x Hx. simpl in Hx. apply orb_false_iff in Hx. destruct Hx as [Hxq Hx].
    rewrite mem_app in Hx. apply orb_false_iff in Hx. destruct Hx as [Hxc Hxp].
    rewrite <- (Hfind x Hxp).
    apply ifind_iupd_other.
    destruct (same_first_group x q g) eqn:Es; auto. exfalso.
    apply same_first_group_ifind in Es. destruct Es as [t' [Hx1 Hq1]].
    rewrite (Hfind q Eq) in Hq1. rewrite Et in Hq1. inversion Hq1; subst t'.
    rewrite (Hfind x Hxp) in Hx1.
    apply Nat.eqb_neq in Hxq.
    assert (In x close).
    { unfold close. apply filter_In. split.
      - apply In_remove_p. split; [eapply pc_self; eauto|auto].
      - rewrite (ival_ifind _ _ _ Hx1). apply Z.eqb_refl. }
    apply mem_In in H. congruence.
Qed.

(* --- fmt_spec prints every key once, with its value *)
Lemma bool_eq_iff : forall a b : bool, (a = true <-> b = true) -> a = b.
Proof. intros [] [] [H1 H2]; auto; try (symmetry; auto); auto. Qed.

Lemma existsb_ext_in : forall {A} (f h : A -> bool) l, (forall x, In x l -> f x = h x) -> existsb f l = existsb h l.
Proof.
  induction l as [|x r IH]; simpl; intros H; auto. rewrite (H x) by auto. rewrite IH; auto.
Qed.

Lemma existsb_all_false : forall {A} (f : A -> bool) l, (forall x, In x l -> f x = false) -> existsb f l = false.
Proof.
  induction l as [|x r IH]; simpl; intros H; auto. rewrite (H x) by auto. rewrite IH; auto.
Qed.

Lemma parts_of_ifind : forall x g t, ifind x g = Some t -> parts_of x g = t_parts t.
Proof. intros. unfold parts_of. rewrite H. reflexivity. Qed.

Lemma parts_of_In_key : forall x g p, In p (parts_of x g) -> exists t, ifind x g = Some t /\ In p (t_parts t).
Proof. intros x g p H. unfold parts_of in H. destruct (ifind x g) as [t|]; [eauto|contradiction]. Qed.

Definition occ_term (mode : list particle) (g : list igroup) (printed : list particle) (p q : particle) : bool :=
  andb (andb (andb (negb (mem q printed)) (mem q mode)) (mem p (parts_of q g))) (Z.eqb (ival p g) (ival q g)).

Definition closed (g : list igroup) (printed : list particle) : Prop :=
  forall x t, ifind x g = Some t -> mem x printed = false ->
  forall o, In o (t_parts t) -> ival o g = t_val t -> mem o printed = false.

Section FmtSpec.
Variable mode : list particle.
Variable g : list igroup.
Hypothesis HPC : PC g.

(* two trees that name a common particle have the same classifier *)
Lemma pc_meet : forall x t x' t' p, ifind x g = Some t -> ifind x' g = Some t' ->
  In p (t_parts t) -> In p (t_parts t') -> forall y, In y (t_parts t) <-> In y (t_parts t').
Proof.
  intros x t x' t' p Hx Hx' Hp Hp' y.
  rewrite <- (pc_same g HPC x t Hx p Hp y). apply (pc_same g HPC x' t' Hx' p Hp' y).
Qed.

Lemma step_printed : forall q t printed x,
  ifind q g = Some t ->
  (mem x (q :: filter (fun o => Z.eqb (ival o g) (t_val t)) (remove_p q (t_parts t)) ++ printed) = true
   <-> (mem x printed = true \/ (In x (t_parts t) /\ ival x g = t_val t))).
Proof.
  intros q t printed x Hq. simpl. rewrite orb_true_iff, mem_app, orb_true_iff, Nat.eqb_eq, mem_In, filter_In, In_remove_p, Z.eqb_eq.
  split.
  - intros [E|[[[A B] C]|D]]; auto.
    subst x. right. split; [eapply pc_self; eauto|apply ival_ifind; auto].
  - intros [D|[A C]]; auto.
    destruct (Nat.eq_dec x q) as [->|N]; auto.
Qed.

Lemma fmt_spec_occ : forall ks printed, closed g printed ->
  forall p, imp_occ p (fmt_spec mode g ks printed) = if existsb (occ_term mode g printed p) ks then [ival p g] else [].
Proof.
  induction ks as [|q ks IH]; intros printed Hcl p; simpl; auto.
  destruct (mem q printed) eqn:Eq.
  - assert (X : occ_term mode g printed p q = false) by (unfold occ_term; rewrite Eq; reflexivity).
    rewrite X. simpl. apply IH; auto.
  - destruct (mem q mode) eqn:Eqm; simpl.
    2:{ assert (X : occ_term mode g printed p q = false) by (unfold occ_term; rewrite Eq, Eqm; reflexivity).
        rewrite X. simpl. apply IH; auto. }
    destruct (ifind q g) as [t|] eqn:Et.
    2:{ assert (X : occ_term mode g printed p q = false).
        { unfold occ_term, parts_of. rewrite Et. simpl. rewrite andb_false_r. reflexivity. }
        rewrite X. simpl. apply IH; auto. }
    set (close := filter (fun o => Z.eqb (ival o g) (t_val t)) (remove_p q (t_parts t))).
    set (far := filter (fun o => negb (Z.eqb (ival o g) (t_val t))) (remove_p q (t_parts t))).
    set (printed' := q :: close ++ printed).
    assert (Hpr : forall x, mem x printed' = true <-> (mem x printed = true \/ (In x (t_parts t) /\ ival x g = t_val t))).
    { intro x. apply step_printed. exact Et. }
    assert (Hvq : ival q g = t_val t) by (apply ival_ifind; auto).
    (* the classifier that is printed *)
    assert (Hhead : mem p (minus (t_parts t) far) = andb (mem p (t_parts t)) (Z.eqb (ival p g) (t_val t))).
    { apply bool_eq_iff. rewrite andb_true_iff, !mem_In, In_minus, Z.eqb_eq. unfold far.
      rewrite filter_In, In_remove_p, negb_true_iff, Z.eqb_neq. split.
      - intros [A B]. split; auto. destruct (Z.eq_dec (ival p g) (t_val t)); auto.
        exfalso. apply B. repeat split; auto. intros ->. congruence.
      - intros [A B]. split; auto. intros [_ C]. contradiction. }
    (* closedness is kept *)
    assert (Hcl' : closed g printed').
    { intros x tx Hx Hxp o Ho Hov.
      destruct (mem o printed') eqn:Eo; auto. exfalso.
      assert (Hxp0 : mem x printed = false).
      { destruct (mem x printed) eqn:E; auto. assert (mem x printed' = true) by (apply Hpr; auto). congruence. }
      apply Hpr in Eo. destruct Eo as [Eo|[Eo1 Eo2]].
      - rewrite (Hcl x tx Hx Hxp0 o Ho Hov) in Eo. discriminate.
      - assert (In x (t_parts t)).
        { apply (pc_meet x tx q t o Hx Et Ho Eo1). eapply pc_self; eauto. }
        assert (mem x printed' = true).
        { apply Hpr. right. split; auto. rewrite (ival_ifind _ _ _ Hx). congruence. }
        congruence. }
    unfold imp_occ at 1. simpl. fold (imp_occ p (fmt_spec mode g ks printed')).
    rewrite IH by exact Hcl'.
    rewrite Hhead.
    assert (X0 : occ_term mode g printed p q = andb (mem p (t_parts t)) (Z.eqb (ival p g) (t_val t))).
    { unfold occ_term. rewrite Eq, Eqm. simpl. rewrite (parts_of_ifind _ _ _ Et), Hvq. reflexivity. }
    rewrite X0.
    (* the key fact *)
    assert (Key : forall q', mem q' printed = false -> mem p (parts_of q' g) = true -> ival p g = ival q' g ->
                  (mem q' printed' = true <-> (In p (t_parts t) /\ ival p g = t_val t))).
    { intros q' Hq' Hp Hv. apply mem_In in Hp. destruct (parts_of_In_key _ _ _ Hp) as [t' [Ht' Hp']].
      rewrite Hpr. split.
      - intros [A|[A B]]; [congruence|].
        split; [|congruence].
        apply (pc_meet q' t' q t q' Ht' Et); auto. eapply pc_self; eauto.
      - intros [A B]. right. split; [|congruence].
        apply (pc_meet q t q' t' p Et Ht' A Hp'). eapply pc_self; eauto. }
    destruct (andb (mem p (t_parts t)) (Z.eqb (ival p g) (t_val t))) eqn:EA.
    + apply andb_true_iff in EA. destruct EA as [EA1 EA2]. apply mem_In in EA1. apply Z.eqb_eq in EA2.
      simpl. rewrite existsb_all_false; [rewrite EA2; reflexivity|].
      intros q' _. unfold occ_term.
      destruct (mem q' printed') eqn:E1; simpl; auto.
      destruct (mem q' mode); simpl; auto.
      destruct (mem p (parts_of q' g)) eqn:E2; simpl; auto.
      destruct (Z.eqb (ival p g) (ival q' g)) eqn:E3; auto. apply Z.eqb_eq in E3.
      assert (Hq'p : mem q' printed = false).
      { destruct (mem q' printed) eqn:E; auto. assert (mem q' printed' = true) by (apply Hpr; auto). congruence. }
      assert (mem q' printed' = true) by (apply (Key q' Hq'p E2 E3); auto). congruence.
    + simpl. f_equal.
      assert (X : existsb (occ_term mode g printed' p) ks = existsb (occ_term mode g printed p) ks).
      { apply existsb_ext_in. intros q' _. unfold occ_term.
        destruct (mem p (parts_of q' g)) eqn:E2; [|rewrite !andb_false_r; reflexivity].
        destruct (Z.eqb (ival p g) (ival q' g)) eqn:E3; [|rewrite !andb_false_r; reflexivity].
        apply Z.eqb_eq in E3. rewrite !andb_true_r. f_equal. f_equal.
        destruct (mem q' printed) eqn:E1.
        - apply Hpr. auto.
        - destruct (mem q' printed') eqn:E4; auto.
          apply (Key q' E1 E2 E3) in E4. destruct E4 as [A B].
          apply mem_In in A. apply Z.eqb_eq in B. rewrite A, B in EA. discriminate. }
      rewrite X. reflexivity.
Qed.

Hypothesis Hmode : imp_keys_ok mode g = true.

Theorem fmt_spec_all : forall p,
  imp_occ p (fmt_spec mode g (ikeys g) []) = if andb (mem p (ikeys g)) (mem p mode) then [ival p g] else [].
Proof.
  intro p. rewrite fmt_spec_occ.
  2:{ intros x t _ _ o _ _. reflexivity. }
  destruct (mem p (ikeys g)) eqn:Ek; simpl.
  - destruct (mem p mode) eqn:Em.
    + assert (existsb (occ_term mode g [] p) (ikeys g) = true).
      { apply existsb_exists. exists p. split; [apply mem_In; exact Ek|].
        unfold occ_term. simpl. rewrite Em. simpl. apply ifind_key in Ek. destruct Ek as [t Et].
        rewrite (parts_of_ifind _ _ _ Et). rewrite Z.eqb_refl, andb_true_r. apply mem_In. eapply pc_self; eauto. }
      rewrite H. reflexivity.
    + rewrite existsb_all_false; auto.
      intros q _. unfold occ_term. simpl.
      destruct (mem q mode) eqn:Eqm; simpl; auto.
      destruct (mem p (parts_of q g)) eqn:E; auto. exfalso.
      apply mem_In in E. destruct (parts_of_In_key _ _ _ E) as [t [Et Hp]].
      pose proof (imp_keys_ok_parts mode g q t Hmode Et Eqm p Hp) as X. apply mem_In in X. congruence.
  - rewrite existsb_all_false; auto.
    intros q _. unfold occ_term. simpl.
    destruct (mem p (parts_of q g)) eqn:E; [|rewrite andb_false_r; reflexivity]. exfalso.
    apply mem_In in E. destruct (parts_of_In_key _ _ _ E) as [t [Et Hp]].
    rewrite (pc_key g HPC q t Et p Hp) in Ek. discriminate.
Qed.
End FmtSpec.

Definition imp_cell_side (q : particle) (es : list entry) : list Z :=
  flat_map (fun e => match e with
                     | EImp ps v => if mem q ps then [v] else []
                     | EOne _ _ => []
                     end) es.

Lemma imp_cell_side_app : forall q a b, imp_cell_side q (a ++ b) = imp_cell_side q a ++ imp_cell_side q b.
Proof. intros. unfold imp_cell_side. apply flat_map_app. Qed.

Lemma imp_cell_side_imps : forall q l, imp_cell_side q (map (fun e => EImp (fst e) (snd e)) l) = imp_occ q l.
Proof. induction l as [|[ps v] r IH]; simpl; auto. f_equal. exact IH. Qed.

Lemma imp_cell_side_others : forall q (g : cls -> list entry) l,
  (forall k e, In e (g k) -> match e with EOne _ _ => True | EImp _ _ => False end) ->
  imp_cell_side q (flat_map g l) = [].
Proof.
  intros q g l H. induction l as [|k r IH]; simpl; auto.
  rewrite imp_cell_side_app, IH, app_nil_r.
  specialize (H k). induction (g k) as [|e es IHe]; simpl; auto.
  pose proof (H e (or_introl eq_refl)) as He. destruct e; try contradiction. simpl.
  apply IHe. intros e' He'. apply H. right. exact He'.
Qed.

Lemma one_entry_EOne : forall c k e, In e (one_entry c k) -> match e with EOne _ _ => True | EImp _ _ => False end.
Proof.
  intros c k e H. destruct k; simpl in H.
  - contradiction.
  - destruct (c_vol c); simpl in H; try contradiction. destruct H as [<-|[]]. exact I.
  - destruct (c_u c) as [u|]; try contradiction. destruct (Z.eqb u 0); simpl in H; try contradiction.
    destruct H as [<-|[]]. exact I.
  - destruct (c_lat c); simpl in H; try contradiction. destruct H as [<-|[]]. exact I.
  - destruct (c_fill c); simpl in H; try contradiction. destruct H as [<-|[]]. exact I.
Qed.

(* the importance parameters of one written cell card *)
Theorem card_imp : forall mode f c,
  (flag f CImp = false -> imp_parts_ok (c_imp c) = true /\ imp_keys_ok mode (c_imp c) = true) ->
  exists es, card mode f c = Ok (c_num c, es) /\
    forall q, imp_cell_side q es =
      if flag f CImp then [] else if andb (mem q (ikeys (c_imp c))) (mem q mode) then [ival q (c_imp c)] else [].
Proof.
  intros mode f c H. unfold card. rewrite prints_cell_flag.
  destruct (flag f CImp) eqn:Ef; cbn [negb].
  - eexists. split; [reflexivity|]. intro q. cbn [map app].
    apply imp_cell_side_others. intros k e. destruct (andb _ _); [apply one_entry_EOne|intros []].
  - destruct (H eq_refl) as [H1 H2]. unfold fmt_imp_cell.
    pose proof (imp_parts_ok_PC _ H1) as HPC.
    rewrite (fmt_loop_spec mode (c_imp c) HPC H2); auto.
    eexists. split; [reflexivity|]. intro q.
    rewrite imp_cell_side_app, imp_cell_side_imps.
    rewrite imp_cell_side_others, app_nil_r.
    + apply fmt_spec_all; auto.
    + intros k e. destruct (andb _ _); [apply one_entry_EOne|intros []].
Qed.

(* ================================================================== IMP in the data block *)
Definition imp_data_side (q : particle) (i : nat) (d : list ditem) : list Z :=
  flat_map (fun cards => flat_map (fun c : dcard =>
              match fst c, nth_error (snd c) i with
              | Some q', Some (Some z) => if Nat.eqb q q' then [z] else []
              | _, _ => []
              end) cards) (mods_of CImp d).

Definition imp_vector (q : particle) (cells : list cell) : list (option Z) :=
  map (fun c => Some (ival q (c_imp c))) cells.

Lemma worth_imp : forall cells, worth cells CImp = match cells with [] => false | _ => true end.
Proof. destruct cells; reflexivity. Qed.

Lemma imp_value_key : forall q c, mem q (ikeys (c_imp c)) = true -> imp_value q c = Ok (Some (ival q (c_imp c))).
Proof.
  intros q c H. apply ifind_key in H. destruct H as [t Ht]. unfold imp_value, ival. rewrite Ht. reflexivity.
Qed.

Lemma collect_imp : forall s, clean s = true -> flag (s_flags s) CImp = true ->
  collect (s_mode s) (s_cells s) CImp = Ok (map (fun q => (Some q, imp_vector q (s_cells s))) (s_mode s)).
Proof.
  intros s Hc Hf. apply clean_parts in Hc. destruct Hc as [_ [Hd _]]. unfold imp_data_ok in Hd.
  simpl in Hf. rewrite Hf in Hd. simpl in Hd. rewrite forallb_forall in Hd.
  unfold collect.
  apply (map_res_total _ (fun q => (Some q, imp_vector q (s_cells s))) (s_mode s)).
  intros q Hq.
  rewrite (map_res_total (imp_value q) (fun c => Some (ival q (c_imp c))) (s_cells s)).
  - reflexivity.
  - intros c Hin. apply imp_value_key. specialize (Hd c Hin). rewrite subset_In in Hd.
    apply mem_In. apply Hd. exact Hq.
Qed.

Theorem mod_cards_imp : forall s, clean s = true ->
  mod_cards s CImp = if andb (flag (s_flags s) CImp) (match s_cells s with [] => false | _ => true end)
                     then [map (fun q => (Some q, imp_vector q (s_cells s))) (s_mode s)] else [].
Proof.
  intros s Hc. unfold mod_cards, mod_item. rewrite prints_data_flag, worth_imp.
  destruct (flag (s_flags s) CImp) eqn:Hf; cbn [andb]; auto.
  destruct (match s_cells s with [] => false | _ => true end); auto.
  rewrite (collect_imp s Hc Hf). simpl. reflexivity.
Qed.

Lemma pick_vector : forall q i (vec : particle -> list (option Z)) l, NoDup l ->
  flat_map (fun c : dcard =>
              match fst c, nth_error (snd c) i with
              | Some q', Some (Some z) => if Nat.eqb q q' then [z] else []
              | _, _ => []
              end) (map (fun q' => (Some q', vec q')) l)
  = if mem q l then match nth_error (vec q) i with Some (Some z) => [z] | _ => [] end else [].
Proof.
  intros q i vec. induction l as [|x r IH]; intros ND; simpl; auto.
  inversion ND; subst. rewrite (IH H2).
  destruct (Nat.eqb q x) eqn:E.
  - apply Nat.eqb_eq in E. subst x. apply mem_false in H1. rewrite H1. simpl.
    destruct (nth_error (vec q) i) as [[z|]|]; simpl; auto.
  - simpl. destruct (nth_error (vec x) i) as [[z|]|]; reflexivity.
Qed.

(* ================================================================== writing succeeds on clean states *)
Lemma map_res_all_ok : forall {A B} (f : A -> res B) l,
  (forall x, In x l -> exists y, f x = Ok y) -> exists ys, map_res f l = Ok ys.
Proof.
  induction l as [|x r IH]; simpl; intros H; eauto.
  destruct (H x (or_introl eq_refl)) as [y Hy]. rewrite Hy.
  destruct IH as [ys Hys]; [intros; apply H; auto|]. rewrite Hys. eauto.
Qed.

Lemma mod_item_ok : forall s k, clean s = true -> exists l, mod_item s k = Ok l.
Proof.
  intros s k Hc. destruct k.
  - unfold mod_item. rewrite prints_data_flag.
    destruct (flag (s_flags s) CImp) eqn:Hf; cbn [andb]; eauto.
    destruct (worth (s_cells s) CImp); eauto.
    rewrite (collect_imp s Hc Hf). eauto.
  - unfold mod_item. rewrite prints_data_flag.
    destruct (flag (s_flags s) CVol) eqn:Hf; cbn [andb]; eauto.
    destruct (worth (s_cells s) CVol) eqn:Hw; eauto.
    rewrite (collect_other (s_mode s) (s_cells s) CVol); [eauto|discriminate|].
    intros c Hin. eapply tree_value_clean; eauto. discriminate.
  - unfold mod_item. rewrite prints_data_flag.
    destruct (flag (s_flags s) CU) eqn:Hf; cbn [andb]; eauto.
    destruct (worth (s_cells s) CU) eqn:Hw; eauto.
    rewrite (collect_other (s_mode s) (s_cells s) CU); [eauto|discriminate|].
    intros c Hin. eapply tree_value_clean; eauto. discriminate.
  - unfold mod_item. rewrite prints_data_flag.
    destruct (flag (s_flags s) CLat) eqn:Hf; cbn [andb]; eauto.
    destruct (worth (s_cells s) CLat) eqn:Hw; eauto.
    rewrite (collect_other (s_mode s) (s_cells s) CLat); [eauto|discriminate|].
    intros c Hin. eapply tree_value_clean; eauto. discriminate.
  - unfold mod_item. rewrite prints_data_flag.
    destruct (flag (s_flags s) CFill) eqn:Hf; cbn [andb]; eauto.
    destruct (worth (s_cells s) CFill) eqn:Hw; eauto.
    rewrite (collect_other (s_mode s) (s_cells s) CFill); [eauto|discriminate|].
    intros c Hin. eapply tree_value_clean; eauto. discriminate.
Qed.

Lemma clean_cell_imp : forall s c, clean s = true -> In c (s_cells s) -> flag (s_flags s) CImp = false ->
  imp_parts_ok (c_imp c) = true /\ imp_keys_ok (s_mode s) (c_imp c) = true.
Proof.
  intros s c Hc Hin Hf. apply clean_parts in Hc. destruct Hc as [Hi _]. unfold imp_cell_ok in Hi.
  simpl in Hf. rewrite Hf in Hi. simpl in Hi. rewrite forallb_forall in Hi.
  specialize (Hi c Hin). apply andb_true_iff in Hi. exact Hi.
Qed.

Theorem write_ok : forall s, clean s = true -> exists w, write s = Ok w.
Proof.
  intros s Hc. unfold write.
  destruct (map_res_all_ok (card (s_mode s) (s_flags s)) (s_cells s)) as [cs Hcs].
  { intros c Hin. destruct (card_imp (s_mode s) (s_flags s) c) as [es [He _]]; eauto.
    intro Hf. eapply clean_cell_imp; eauto. }
  rewrite Hcs.
  destruct (map_res_all_ok (fun x => match x with SOther => Ok [DOther] | SMod k => mod_item s k end) (s_data s)) as [d1 Hd1].
  { intros [|k] _; eauto. apply mod_item_ok. exact Hc. }
  unfold data_objects. rewrite Hd1. simpl.
  destruct (map_res_all_ok (fun k => if in_data (s_data s) k then Ok [] else mod_item s k) all_cls) as [d2 Hd2].
  { intros k _. destruct (in_data (s_data s) k); eauto. apply mod_item_ok. exact Hc. }
  unfold data_children. rewrite Hd2. simpl. eauto.
Qed.

(* ================================================================== exactly once: importance *)
Theorem exactly_once_imp : forall s w i c,
  wf s -> clean s = true -> write s = Ok w -> nth_error (s_cells s) i = Some c ->
  exists es, nth_error (w_cards w) i = Some (c_num c, es) /\
    forall q,
      imp_cell_side q es =
        (if flag (s_flags s) CImp then []
         else if andb (mem q (ikeys (c_imp c))) (mem q (s_mode s)) then [ival q (c_imp c)] else []) /\
      imp_data_side q i (w_data w) =
        (if andb (flag (s_flags s) CImp) (mem q (s_mode s)) then [ival q (c_imp c)] else []) /\
      (mem q (ikeys (c_imp c)) = false -> ival q (c_imp c) = 0%Z) /\
      (flag (s_flags s) CImp = true -> mem q (s_mode s) = true -> mem q (ikeys (c_imp c)) = true).
Proof.
  intros s w i c Hwf Hc Hw Hi.
  pose proof (write_cards s w Hw) as Hcards.
  destruct (map_res_nth _ _ _ _ _ Hcards Hi) as [[n es] [Hn Hcard]].
  assert (Hin : In c (s_cells s)) by (eapply nth_error_In; eauto).
  destruct (card_imp (s_mode s) (s_flags s) c) as [es' [He' Hes']].
  { intro Hf. eapply clean_cell_imp; eauto. }
  rewrite He' in Hcard. inversion Hcard; subst n es'. clear Hcard.
  exists es. split; [exact Hn|]. intro q. split; [apply Hes'|]. split; [|split].
  - unfold imp_data_side. rewrite (write_mods s w CImp Hwf Hw), (mod_cards_imp s Hc).
    destruct (flag (s_flags s) CImp) eqn:Hf; simpl; auto.
    destruct (s_cells s) as [|c0 cs] eqn:Ecs; [destruct i; discriminate|].
    cbn [flat_map]. rewrite app_nil_r. rewrite pick_vector by (apply Hwf).
    destruct (mem q (s_mode s)); auto.
    unfold imp_vector. rewrite nth_error_map, Hi. reflexivity.
  - intro Hk. unfold ival. destruct (ifind q (c_imp c)) eqn:E; auto.
    assert (mem q (ikeys (c_imp c)) = true) by (apply ifind_key; eauto). congruence.
  - intros Hf Hm. apply clean_parts in Hc. destruct Hc as [_ [Hd _]]. unfold imp_data_ok in Hd.
    simpl in Hf. rewrite Hf in Hd. simpl in Hd. rewrite forallb_forall in Hd.
    specialize (Hd c Hin). rewrite subset_In in Hd. apply mem_In. apply Hd. apply mem_In. exact Hm.
Qed.

(* ================================================================== alignment of the data-block vectors *)
Theorem aligned : forall s w, wf s -> clean s = true -> write s = Ok w ->
  (forall k, k <> CImp ->
     mods_of k (w_data w) =
       if andb (flag (s_flags s) k) (worth (s_cells s) k)
       then [[(None, map (api_value k) (s_cells s))]] else []) /\
  mods_of CImp (w_data w) =
    (if andb (flag (s_flags s) CImp) (match s_cells s with [] => false | _ => true end)
     then [map (fun q => (Some q, imp_vector q (s_cells s))) (s_mode s)] else []).
Proof.
  intros s w Hwf Hc Hw. split.
  - intros k N. rewrite (write_mods s w k Hwf Hw). apply mod_cards_other; auto.
  - rewrite (write_mods s w CImp Hwf Hw). apply mod_cards_imp; auto.
Qed.

(* ================================================================== inside the data block *)
Definition layout (w : wout) : list event :=
  map (fun c => EvCell (fst c) (snd c)) (w_cards w) ++ [EvBlank] ++ [EvSurfaces] ++ [EvBlank]
  ++ map EvData (w_data w) ++ [EvBlank] ++ [EvBlank].

Theorem write_events_layout : forall s,
  write_events s = match write s with Ok w => Ok (layout w) | Err e => Err e end.
Proof.
  intro s. unfold write_events, write_events_with, write_steps, write, layout.
  cbn [map_res run_step].
  destruct (map_res (card (s_mode s) (s_flags s)) (s_cells s)) as [cs|e]; [|reflexivity].
  destruct (data_objects s) as [d1|e]; [|reflexivity].
  destruct (data_children s) as [d2|e]; [|reflexivity].
  cbn [concat_res List.concat w_cards w_data]. rewrite map_app, app_nil_r, <- !app_assoc. reflexivity.
Qed.

(* the blocks of a written file: split at the blank lines *)
Fixpoint blocks (l : list event) : list (list event) :=
  match l with
  | [] => [[]]
  | EvBlank :: r => [] :: blocks r
  | e :: r => match blocks r with b :: bs => (e :: b) :: bs | [] => [[e]] end
  end.

Definition not_blank (e : event) : bool := match e with EvBlank => false | _ => true end.

Lemma blocks_app_blank : forall l1 r, forallb not_blank l1 = true ->
  blocks (l1 ++ EvBlank :: r) = l1 :: blocks r.
Proof.
  induction l1 as [|e l1 IH]; intros r H; simpl in *; auto.
  apply andb_true_iff in H. destruct H as [He H]. rewrite (IH r H).
  destruct e; try reflexivity. discriminate.
Qed.

Lemma not_blank_cells : forall cs : list (Z * list entry), forallb not_blank (map (fun c => EvCell (fst c) (snd c)) cs) = true.
Proof. induction cs; simpl; auto. Qed.
Lemma not_blank_data : forall d, forallb not_blank (map EvData d) = true.
Proof. induction d; simpl; auto. Qed.

Theorem blocks_layout : forall w,
  blocks (layout w) = [map (fun c => EvCell (fst c) (snd c)) (w_cards w); [EvSurfaces]; map EvData (w_data w); []; []].
Proof.
  intro w. unfold layout. cbn [app].
  rewrite blocks_app_blank by apply not_blank_cells. f_equal.
  change (EvSurfaces :: EvBlank :: map EvData (w_data w) ++ [EvBlank; EvBlank])
    with ([EvSurfaces] ++ EvBlank :: (map EvData (w_data w) ++ EvBlank :: [EvBlank])).
  rewrite blocks_app_blank by reflexivity. f_equal.
  rewrite blocks_app_blank by apply not_blank_data. reflexivity.
Qed.

(* every card of the data block, those made from the cells included, is in the third block, which a blank line
   ends; nothing but blank lines follows *)
Theorem inside_data_block : forall s ev, write_events s = Ok ev ->
  exists w, write s = Ok w /\
    blocks ev = [map (fun c => EvCell (fst c) (snd c)) (w_cards w); [EvSurfaces]; map EvData (w_data w); []; []].
Proof.
  intros s ev H. rewrite write_events_layout in H. destruct (write s) as [w|e]; try discriminate.
  inversion H; subst. exists w. split; auto. apply blocks_layout.
Qed.

(* ================================================================== histories: the invariant *)
Lemma apply_edit_frame : forall s t e s', apply_edit s t e = Ok s' ->
  s_data s' = s_data s /\ s_mode s' = s_mode s /\ s_flags s' = s_flags s.
Proof.
  intros s t e s' H. unfold apply_edit in H. destruct t.
  - destruct (s_scratch s) as [[c l]|]; try discriminate. destruct (e l (s_mode s) c); inversion H; auto.
  - destruct (find_cell n (s_cells s)); try discriminate. destruct (e true (s_mode s) c); inversion H; auto.
Qed.

Lemma step_op_frame : forall s o s', step_op s o = Ok s' -> s_data s' = s_data s /\ s_mode s' = s_mode s.
Proof.
  intros s o s' H. destruct o; simpl in H;
    try (apply apply_edit_frame in H; tauto).
  - inversion H; auto.
  - inversion H; auto.
  - destruct (find_cell src (s_cells s)); try discriminate.
    destruct (zmem n (numbers (s_cells s))); inversion H; auto.
  - destruct (s_scratch s) as [[c l]|]; try discriminate.
    destruct (zmem (c_num c) (numbers (s_cells s))); inversion H; auto.
  - destruct (find_cell n (s_cells s)); inversion H; auto.
  - destruct (pick_cells ns (s_cells s)); try discriminate.
    destruct (nodupb ns); inversion H; auto.
Qed.

Lemma do_op_wf : forall s o, wf s -> wf (do_op s o).
Proof.
  intros s o H. unfold do_op. destruct (step_op s o) eqn:E; auto.
  apply step_op_frame in E. destruct E as [E1 E2]. unfold wf. rewrite E1, E2. exact H.
Qed.

Theorem run_ops_wf : forall ops s, wf s -> wf (run_ops s ops).
Proof.
  unfold run_ops. induction ops as [|o r IH]; simpl; intros s H; auto.
  apply IH. apply do_op_wf. exact H.
Qed.

(* [read] makes well-formed states *)
Lemma load_slots_NoDup : forall d seen imps sl, load_slots d seen imps = Ok sl ->
  NoDup (slot_classes sl) /\ forall k, In k (slot_classes sl) -> existsb (cls_eqb k) seen = false.
Proof.
  induction d as [|x r IH]; simpl; intros seen imps sl H.
  - inversion H. simpl. split; [constructor|intros k []].
  - destruct x as [|ps vec|k vec].
    + destruct (load_slots r seen imps) eqn:E; try discriminate. inversion H; subst.
      simpl. eapply IH; eauto.
    + destruct (existsb (cls_eqb CImp) seen) eqn:Es.
      * destruct (disjointb ps imps); try discriminate. eapply IH; eauto.
      * destruct (load_slots r (CImp :: seen) (imps ++ ps)) eqn:E; try discriminate. inversion H; subst.
        destruct (IH _ _ _ E) as [A B]. simpl. split.
        -- constructor; auto. intro I. specialize (B _ I). simpl in B. discriminate.
        -- intros k [<-|I]; auto. specialize (B _ I). simpl in B. apply orb_false_iff in B. tauto.
    + destruct (existsb (cls_eqb k) seen) eqn:Es; try discriminate.
      destruct (load_slots r (k :: seen) imps) eqn:E; try discriminate. inversion H; subst.
      destruct (IH _ _ _ E) as [A B]. simpl. split.
      * constructor; auto. intro I. specialize (B _ I). simpl in B. rewrite cls_eqb_refl in B. discriminate.
      * intros k' [<-|I]; auto. specialize (B _ I). simpl in B. apply orb_false_iff in B. tauto.
Qed.

Theorem read_wf : forall f s, NoDup (f_mode f) -> read f = Ok s -> wf s.
Proof.
  intros f s Hm H. unfold read in H.
  destruct (map_res parse_cell (f_cells f)) as [cells0|]; try discriminate.
  destruct (load_slots (f_data f) [] []) eqn:E; try discriminate.
  destruct (push_all (f_mode f) (f_data f) all_cls cells0); try discriminate.
  inversion H; subst. split; simpl; auto. eapply load_slots_NoDup; eauto.
Qed.

(* ================================================================== histories of placement changes keep clean *)
Definition cell_ok (mode : list particle) (c : cell) : bool :=
  andb (imp_parts_ok (c_imp c))
  (andb (imp_keys_ok mode (c_imp c))
  (andb (subset mode (ikeys (c_imp c)))
        (negb (c_fill_tr c)))).

(* every cell is in a state that every one of the 32 placements can write *)
Definition sclean (s : state) : bool := forallb (cell_ok (s_mode s)) (s_cells s).

Lemma sclean_clean : forall s, sclean s = true -> clean s = true.
Proof.
  intros s H. unfold sclean in H. rewrite forallb_forall in H.
  assert (G : forall c, In c (s_cells s) -> cell_ok (s_mode s) c = true) by exact H.
  unfold clean, imp_cell_ok, imp_data_ok, fill_ok.
  repeat (apply andb_true_iff; split); apply orb_true_iff; right; apply forallb_forall; intros c Hc;
    specialize (G c Hc); unfold cell_ok in G;
    repeat (apply andb_true_iff in G; let X := fresh in destruct G as [X G]); auto.
  - apply andb_true_iff. auto.
Qed.

Definition placement_op (o : op) : bool :=
  match o with OFlip _ _ | ORemove _ | OReorder _ => true | _ => false end.

Lemma find_cell_In : forall n l c, find_cell n l = Some c -> In c l.
Proof.
  induction l as [|x r IH]; simpl; intros c H; try discriminate.
  destruct (Z.eqb (c_num x) n); [inversion H; auto|auto].
Qed.

Lemma pick_cells_In : forall ns l cs, pick_cells ns l = Some cs -> forall c, In c cs -> In c l.
Proof.
  induction ns as [|n r IH]; simpl; intros l cs H c Hc.
  - inversion H; subst. contradiction.
  - destruct (find_cell n l) eqn:E; try discriminate. destruct (pick_cells r l) eqn:E2; try discriminate.
    inversion H; subst. destruct Hc as [<-|Hc]; [eapply find_cell_In; eauto|eapply IH; eauto].
Qed.

Lemma placement_sclean : forall s o, placement_op o = true -> sclean s = true -> sclean (do_op s o) = true.
Proof.
  intros s o Hp H. unfold do_op. destruct o; try discriminate; simpl.
  - exact H.
  - destruct (find_cell n (s_cells s)); auto. unfold sclean in *. simpl.
    rewrite forallb_forall in *. intros c' Hc. apply filter_In in Hc. apply H. tauto.
  - destruct (pick_cells ns (s_cells s)) eqn:E; auto. destruct (nodupb ns); auto.
    unfold sclean in *. simpl. rewrite forallb_forall in *. intros c' Hc. apply H. eapply pick_cells_In; eauto.
Qed.

Theorem placement_history_clean : forall ops s,
  forallb placement_op ops = true -> sclean s = true -> sclean (run_ops s ops) = true.
Proof.
  unfold run_ops. induction ops as [|o r IH]; simpl; intros s Hp H; auto.
  apply andb_true_iff in Hp. destruct Hp as [Ho Hr]. apply IH; auto. apply placement_sclean; auto.
Qed.

(* ================================================================== alignment needs no side condition *)
Lemma tree_value_api : forall k c x, k <> CImp -> tree_value k c = Ok x -> x = api_value k c.
Proof.
  intros k c x N H. destruct k; try contradiction; simpl in *.
  - destruct (c_vol c); inversion H; reflexivity.
  - destruct (c_u c); inversion H; reflexivity.
  - inversion H; reflexivity.
  - destruct (c_fill_tr c); inversion H; reflexivity.
Qed.

Lemma map_res_fun : forall {A B} (f : A -> res B) (g : A -> B) l ys,
  (forall x y, f x = Ok y -> y = g x) -> map_res f l = Ok ys -> ys = map g l.
Proof.
  intros A B f g l ys H M. apply map_res_ok_inv in M. induction M; simpl; auto.
  rewrite (H _ _ H0). f_equal. exact IHM.
Qed.

Lemma imp_value_ival : forall q c x, imp_value q c = Ok x -> x = Some (ival q (c_imp c)).
Proof.
  intros q c x H. unfold imp_value in H. destruct (ifind q (c_imp c)) eqn:E; inversion H.
  unfold ival. rewrite E. reflexivity.
Qed.

Lemma collect_shape : forall mode cells k cards, collect mode cells k = Ok cards ->
  cards = match k with
          | CImp => map (fun q => (Some q, imp_vector q cells)) mode
          | _ => [(None, map (api_value k) cells)]
          end.
Proof.
  intros mode cells k cards H.
  assert (O : forall k', k' <> CImp ->
     match map_res (tree_value k') cells with Err e => Err e | Ok v => Ok [(None : option particle, v)] end = Ok cards ->
     cards = [(None, map (api_value k') cells)]).
  { intros k' N H'. destruct (map_res (tree_value k') cells) as [v|] eqn:E; inversion H'.
    rewrite (map_res_fun _ (api_value k') _ _ (fun c x => tree_value_api k' c x N) E). reflexivity. }
  destruct k; simpl in H; try (apply O; [discriminate|exact H]).
  apply (map_res_fun _ (fun q => (Some q, imp_vector q cells))) in H; auto.
  intros q y Hy. destruct (map_res (imp_value q) cells) as [v|] eqn:E; inversion Hy.
  rewrite (map_res_fun _ (fun c => Some (ival q (c_imp c))) _ _ (imp_value_ival q) E). reflexivity.
Qed.

Lemma map_res_ok_In : forall {A B} (f : A -> res B) l ys x,
  map_res f l = Ok ys -> In x l -> exists y, f x = Ok y.
Proof.
  intros A B f l ys x H. apply map_res_ok_inv in H. induction H; intros [].
  - subst. eauto.
  - auto.
Qed.

Lemma slot_classes_In : forall sl k, In k (slot_classes sl) -> In (SMod k) sl.
Proof.
  induction sl as [|x r IH]; simpl; intros k H; auto.
  destruct x; simpl in H; auto. destruct H as [->|H]; auto.
Qed.

Lemma write_mod_item_ok : forall s w k, write s = Ok w -> exists l, mod_item s k = Ok l.
Proof.
  intros s w k H. unfold write in H.
  destruct (map_res _ (s_cells s)); try discriminate.
  destruct (data_objects s) as [d1|] eqn:E1; try discriminate.
  destruct (data_children s) as [d2|] eqn:E2; try discriminate.
  unfold data_objects in E1. apply concat_res_ok in E1. destruct E1 as [y1 [E1 _]].
  unfold data_children in E2. apply concat_res_ok in E2. destruct E2 as [y2 [E2 _]].
  destruct (in_data (s_data s) k) eqn:Ei.
  - apply in_data_In in Ei. apply slot_classes_In in Ei.
    destruct (map_res_ok_In _ _ _ _ E1 Ei) as [y Hy]. eauto.
  - assert (Hk : In k all_cls) by (destruct k; simpl; auto 10).
    destruct (map_res_ok_In _ _ _ _ E2 Hk) as [y Hy]. rewrite Ei in Hy. eauto.
Qed.

Theorem aligned_strong : forall s w k, wf s -> write s = Ok w ->
  mods_of k (w_data w) =
    if andb (flag (s_flags s) k) (worth (s_cells s) k)
    then [match k with
          | CImp => map (fun q => (Some q, imp_vector q (s_cells s))) (s_mode s)
          | _ => [(None, map (api_value k) (s_cells s))]
          end]
    else [].
Proof.
  intros s w k Hwf Hw. rewrite (write_mods s w k Hwf Hw).
  destruct (write_mod_item_ok s w k Hw) as [l Hl]. unfold mod_cards. rewrite Hl.
  unfold mod_item in Hl. rewrite prints_data_flag in Hl.
  destruct (andb (flag (s_flags s) k) (worth (s_cells s) k)).
  - destruct (collect (s_mode s) (s_cells s) k) as [cards|] eqn:Ec; inversion Hl.
    simpl. rewrite cls_eqb_refl. rewrite (collect_shape _ _ _ _ Ec). reflexivity.
  - inversion Hl. reflexivity.
Qed.

(* ================================================================== the property, as predicates on a state *)
Definition once_other (s : state) (w : wout) (i : nat) (c : cell) (es : list entry) (k : cls) : Prop :=
  cell_side k es = (if flag (s_flags s) k then [] else map WV (olist (api_value k c))) /\
  data_side k i (w_data w) = (if flag (s_flags s) k then olist (api_value k c) else []).

Definition once_imp (s : state) (w : wout) (i : nat) (c : cell) (es : list entry) (q : particle) : Prop :=
  if mem q (s_mode s) then
    if flag (s_flags s) CImp
    then imp_cell_side q es = [] /\ imp_data_side q i (w_data w) = [ival q (c_imp c)]
    else imp_data_side q i (w_data w) = [] /\
         (imp_cell_side q es = [ival q (c_imp c)] \/ (imp_cell_side q es = [] /\ ival q (c_imp c) = 0%Z))
  else imp_cell_side q es = [] /\ imp_data_side q i (w_data w) = [].

(* the problem is written, and every datum of every cell is written exactly once, in the block its flag says,
   with the value the API reports; defaults (no volume, universe 0, no lattice, no fill, importance 0 of a
   particle the cell holds nothing for) are not written at all *)
Definition exactly_once (s : state) : Prop :=
  exists w, write s = Ok w /\
    forall i c, nth_error (s_cells s) i = Some c ->
      exists es, nth_error (w_cards w) i = Some (c_num c, es) /\
        (forall k, k <> CImp -> once_other s w i c es k) /\ (forall q, once_imp s w i c es q).

Theorem exactly_once_clean : forall s, wf s -> clean s = true -> exactly_once s.
Proof.
  intros s Hwf Hc. destruct (write_ok s Hc) as [w Hw]. exists w. split; auto.
  intros i c Hi.
  destruct (exactly_once_other s w i c Hwf Hc Hw Hi) as [es [He Ho]].
  destruct (exactly_once_imp s w i c Hwf Hc Hw Hi) as [es' [He' Him]].
  assert (es' = es) by congruence. subst es'.
  exists es. split; auto. split.
  - intros k N. apply Ho. exact N.
  - intro q. destruct (Him q) as [A [B [C E]]]. unfold once_imp.
    destruct (mem q (s_mode s)) eqn:Em.
    + destruct (flag (s_flags s) CImp) eqn:Ef; simpl in B.
      * split; auto.
      * split; auto. rewrite andb_true_r in A. destruct (mem q (ikeys (c_imp c))) eqn:Ek; auto.
    + rewrite andb_false_r in B. split; auto. rewrite A.
      destruct (flag (s_flags s) CImp) eqn:Ef; auto.
      rewrite andb_false_r. reflexivity.
Qed.

(* ================================================================== every placement; histories *)
Lemma sclean_with_flags : forall s f, sclean (with_flags s f) = sclean s.
Proof. reflexivity. Qed.

Lemma wf_with_flags : forall s f, wf s -> wf (with_flags s f).
Proof. intros s f H. exact H. Qed.

Theorem every_placement : forall s f, wf s -> sclean s = true -> exactly_once (with_flags s f).
Proof.
  intros s f Hwf Hs. apply exactly_once_clean.
  - apply wf_with_flags. exact Hwf.
  - apply sclean_clean. rewrite sclean_with_flags. exact Hs.
Qed.

Theorem placement_history : forall s ops, wf s -> sclean s = true -> forallb placement_op ops = true ->
  exactly_once (run_ops s ops).
Proof.
  intros s ops Hwf Hs Hp. apply exactly_once_clean.
  - apply run_ops_wf. exact Hwf.
  - apply sclean_clean. apply placement_history_clean; auto.
Qed.

Theorem any_history : forall s ops, wf s -> clean (run_ops s ops) = true -> exactly_once (run_ops s ops).
Proof. intros s ops Hwf Hc. apply exactly_once_clean; auto. apply run_ops_wf. exact Hwf. Qed.

(* ================================================================== the writer's step order, from the source *)
Require MPV.Model.Write.

Definition step_of_writer (s : Write.step) : list step :=
  match s with
  | Write.Loop Write.SCells _ => [StCells]
  | Write.Loop Write.SSurfaces _ => [StSurfaces]
  | Write.Loop Write.SData _ => [StData]
  | Write.Loop _ _ => []                 (* message and title: before the cell block *)
  | Write.Children _ => [StChildren]
  | Write.Blank => [StTerminate]
  | _ => []
  end.
Definition steps_of_writer (w : Write.writer) : list step := flat_map step_of_writer (Write.w_body w).

(* ================================================================== either block means the same: read *)
(* the meaning of a file by MCNP's rule: the cell parameter, else the i-th entry of the data-block vector (not a
   jump), else the default.  A particle cannot be on two IMP cards and a class cannot be given twice (read refuses
   both), so which card wins is immaterial; the definitions below take the last. *)
Fixpoint first_imp (q : particle) (ps : list (list particle * Z)) : option Z :=
  match ps with
  | [] => None
  | (qs, v) :: r => if mem q qs then Some v else first_imp q r
  end.

Fixpoint data_imp (q : particle) (i : nat) (d : list fditem) : option Z :=
  match d with
  | [] => None
  | FImp ps vec :: r =>
      match data_imp q i r with
      | Some v => Some v
      | None => if mem q ps then nth_error vec i else None
      end
  | _ :: r => data_imp q i r
  end.

Definition data_val (k : cls) (i : nat) (d : list fditem) : option Z :=
  match find_vec d k with
  | Some vec => match nth_error vec i with Some (Some z) => Some z | _ => None end
  | None => None
  end.

Definition orelse {A} (a b : option A) : option A := match a with Some _ => a | None => b end.

Definition denote_cell (mode : list particle) (d : list fditem) (i : nat) (fc : fcell) : apicell :=
  mkA (fc_num fc)
      (map (fun q => (q, match first_imp q (fc_imp fc) with
                         | Some v => v
                         | None => match data_imp q i d with Some v => v | None => 0%Z end
                         end)) mode)
      (orelse (fc_vol fc) (data_val CVol i d))
      (Some (match orelse (fc_u fc) (data_val CU i d) with Some u => u | None => 0%Z end))
      (orelse (fc_lat fc) (data_val CLat i d))
      (orelse (fc_fill fc) (data_val CFill i d)).

Fixpoint denote_from (mode : list particle) (d : list fditem) (i : nat) (l : list fcell) : list apicell :=
  match l with
  | [] => []
  | fc :: r => denote_cell mode d i fc :: denote_from mode d (S i) r
  end.
Definition denote (f : file) : list apicell := denote_from (f_mode f) (f_data f) 0 (f_cells f).

Lemma denote_from_nth : forall mode d l off i fc, nth_error l i = Some fc ->
  nth_error (denote_from mode d off l) i = Some (denote_cell mode d (off + i) fc).
Proof.
  induction l as [|x r IH]; intros off i fc H; destruct i; simpl in *; try discriminate.
  - inversion H; subst. rewrite Nat.add_0_r. reflexivity.
  - rewrite (IH (S off) i fc H). f_equal. f_equal. lia.
Qed.

Lemma denote_from_length : forall mode d l off, List.length (denote_from mode d off l) = List.length l.
Proof. induction l; intros; simpl; auto. Qed.

Lemma nth_error_ext_eq : forall {A} (l1 l2 : list A), (forall i, nth_error l1 i = nth_error l2 i) -> l1 = l2.
Proof.
  induction l1 as [|x r IH]; intros [|y s] H; auto.
  - specialize (H 0%nat). discriminate.
  - specialize (H 0%nat). discriminate.
  - pose proof (H 0%nat) as H0. simpl in H0. inversion H0; subst. f_equal. apply IH. intro i. apply (H (S i)).
Qed.

(* --- pointwise relations between cell lists *)
Definition rel (F : nat -> cell -> cell -> Prop) (a b : list cell) : Prop :=
  List.length b = List.length a /\
  forall i c, nth_error a i = Some c -> exists c', nth_error b i = Some c' /\ F i c c'.

Lemma rel_refl : forall (F : nat -> cell -> cell -> Prop) a, (forall i c, F i c c) -> rel F a a.
Proof. intros F a H. split; auto. intros i c Hc. eauto. Qed.

Lemma rel_trans : forall (F G H : nat -> cell -> cell -> Prop) a b c,
  rel F a b -> rel G b c -> (forall i x y z, F i x y -> G i y z -> H i x z) -> rel H a c.
Proof.
  intros F G H a b c [L1 R1] [L2 R2] T. split; [congruence|].
  intros i x Hx. destruct (R1 i x Hx) as [y [Hy Fy]]. destruct (R2 i y Hy) as [z [Hz Gz]]. eauto.
Qed.

Lemma rel_weaken : forall (F G : nat -> cell -> cell -> Prop) a b,
  rel F a b -> (forall i x y, F i x y -> G i x y) -> rel G a b.
Proof. intros F G a b [L R] W. split; auto. intros i x Hx. destruct (R i x Hx) as [y [Hy Fy]]. eauto. Qed.

Lemma rel_map : forall (F : nat -> cell -> cell -> Prop) (f : cell -> cell) a,
  (forall i c, F i c (f c)) -> rel F a (map f a).
Proof.
  intros F f a H. split; [apply map_length|]. intros i c Hc. exists (f c). split; auto.
  rewrite nth_error_map, Hc. reflexivity.
Qed.

(* the fields a push of class k leaves alone *)
Definition frame (k : cls) (c c' : cell) : Prop :=
  c_num c' = c_num c /\
  (k <> CImp -> c_imp c' = c_imp c) /\ (k <> CVol -> c_vol c' = c_vol c) /\ (k <> CU -> c_u c' = c_u c) /\
  (k <> CLat -> c_lat c' = c_lat c) /\ (k <> CFill -> c_fill c' = c_fill c) /\
  (forall k', set_of c' k' = set_of c k').

Lemma frame_refl : forall k c, frame k c c.
Proof. intros. unfold frame. auto 10. Qed.

(* --- importance dicts whose trees are not shared *)
Definition singles (g : list igroup) : bool :=
  forallb (fun gr : igroup => match fst gr with [_] => true | _ => false end) g.

Lemma remove_p_self : forall q, remove_p q [q] = [].
Proof. intro q. unfold remove_p. simpl. rewrite Nat.eqb_refl. reflexivity. Qed.

Lemma mem_single : forall x k, mem x [k] = Nat.eqb x k.
Proof. intros. unfold mem. simpl. apply orb_false_r. Qed.

Lemma iset_existing_single : forall q v g, singles g = true ->
  singles (iset_existing q v g) = true /\
  forall x, ival x (iset_existing q v g) =
            if andb (Nat.eqb x q) (mem q (ikeys g)) then v else ival x g.
Proof.
  intros q v. induction g as [|[ks t] r IH]; intros S.
  - split; auto. intro x. simpl. rewrite andb_false_r. reflexivity.
  - simpl in S. apply andb_true_iff in S. destruct S as [Sk Sr].
    destruct ks as [|k [|k2 ks]]; try discriminate.
    change (ikeys (([k], t) :: r)) with ([k] ++ ikeys r). rewrite mem_app, mem_single.
    cbn [iset_existing]. rewrite mem_single.
    destruct (Nat.eqb q k) eqn:E.
    + apply Nat.eqb_eq in E. subst k. rewrite remove_p_self. split.
      * simpl. exact Sr.
      * intro x. unfold ival. cbn [ifind]. rewrite !mem_single.
        destruct (Nat.eqb x q); reflexivity.
    + destruct (IH Sr) as [S' V]. split; [simpl; exact S'|].
      intro x. unfold ival in *. cbn [ifind]. rewrite mem_single.
      destruct (Nat.eqb x k) eqn:Ex.
      * apply Nat.eqb_eq in Ex. subst x. rewrite Nat.eqb_sym, E. reflexivity.
      * rewrite V. reflexivity.
Qed.

Lemma ifind_app : forall x g h, ifind x (g ++ h) = match ifind x g with Some t => Some t | None => ifind x h end.
Proof.
  induction g as [|[ks t] r IH]; simpl; intros; auto. destruct (mem x ks); auto.
Qed.

Lemma iset_single : forall l m q v g, singles g = true ->
  singles (iset l m q v g) = true /\
  forall x, ival x (iset l m q v g) = if Nat.eqb x q then v else ival x g.
Proof.
  intros l m q v g S. unfold iset. destruct (mem q (ikeys g)) eqn:Ek.
  - destruct (iset_existing_single q v g S) as [S' V]. split; auto.
    intro x. rewrite V, Ek, andb_true_r. reflexivity.
  - split.
    + unfold singles in *. rewrite forallb_app, S. reflexivity.
    + intro x. unfold ival. rewrite ifind_app. cbn [ifind]. rewrite mem_single.
      destruct (Nat.eqb x q) eqn:Ex.
      * apply Nat.eqb_eq in Ex. subst x.
        destruct (ifind q g) eqn:Ef; auto.
        assert (mem q (ikeys g) = true) by (apply ifind_key; eauto). congruence.
      * destruct (ifind x g); reflexivity.
Qed.

Lemma singles_iupd : forall q f g, singles (iupd q f g) = singles g.
Proof.
  intros q f. induction g as [|[ks t] r IH]; simpl; auto.
  destruct (mem q ks); simpl; [reflexivity|]. rewrite IH. reflexivity.
Qed.

Definition imp_step (ps : list particle) (q : particle) (v : Z) (c : cell) : cell :=
  set_imp c (iupd q (fun t => mkT (t_val t) ps ps) (iset true [] q v (c_imp c))).

Lemma imp_step_spec : forall ps q v c, singles (c_imp c) = true ->
  frame CImp c (imp_step ps q v c) /\ singles (c_imp (imp_step ps q v c)) = true /\
  forall x, ival x (c_imp (imp_step ps q v c)) = if Nat.eqb x q then v else ival x (c_imp c).
Proof.
  intros ps q v c S. destruct (iset_single true [] q v (c_imp c) S) as [S' V].
  split; [|split].
  - unfold frame, imp_step, set_imp. simpl. repeat split; auto; intros; try contradiction.
  - unfold imp_step, set_imp. simpl. rewrite singles_iupd. exact S'.
  - intro x. unfold imp_step, set_imp. simpl. rewrite ival_iupd; auto.
Qed.

(* what the importance of a cell is after a push, for a cell whose trees are not shared *)
Definition imp_after (P : particle -> option Z) (c c' : cell) : Prop :=
  frame CImp c c' /\
  (singles (c_imp c) = true ->
   singles (c_imp c') = true /\
   forall x, ival x (c_imp c') = match P x with Some v => v | None => ival x (c_imp c) end).

Lemma push_imp_vec_rel : forall ps q vec cells cells',
  push_imp_vec ps q vec cells = Ok cells' ->
  rel (fun i c c' => exists v, nth_error vec i = Some v /\ c' = imp_step ps q v c) cells cells'.
Proof.
  intros ps q. induction vec as [|v vr IH]; intros cells cells' H.
  - destruct cells; simpl in H; try discriminate. inversion H. split; auto. intros i c Hc. destruct i; discriminate.
  - destruct cells as [|c r]; simpl in H.
    + inversion H. split; auto. intros i c Hc. destruct i; discriminate.
    + destruct (push_imp_vec ps q vr r) as [r'|] eqn:E; try discriminate. inversion H; subst.
      destruct (IH _ _ E) as [L R]. split; [simpl; congruence|].
      intros [|i] c0 Hc; simpl in *.
      * inversion Hc; subst. eauto.
      * apply R. exact Hc.
Qed.

Lemma frame_trans : forall k a b c, frame k a b -> frame k b c -> frame k a c.
Proof.
  intros k a b c [A1 [A2 [A3 [A4 [A5 [A6 A7]]]]]] [B1 [B2 [B3 [B4 [B5 [B6 B7]]]]]].
  unfold frame. repeat split; intros; try congruence;
    try (rewrite B2, A2; auto); try (rewrite B3, A3; auto); try (rewrite B4, A4; auto);
    try (rewrite B5, A5; auto); try (rewrite B6, A6; auto); try (rewrite B7, A7; auto).
Qed.

Lemma imp_step_frame : forall ps q v c, frame CImp c (imp_step ps q v c).
Proof.
  intros. unfold frame, imp_step, set_imp. simpl. repeat split; auto; intros; try contradiction.
Qed.

Lemma mem_cons : forall x q r, mem x (q :: r) = orb (Nat.eqb x q) (mem x r).
Proof. reflexivity. Qed.

Lemma push_imp_card_rel : forall mode ps qs vec cells cells',
  push_imp_card mode ps qs vec cells = Ok cells' ->
  rel (fun i c c' => imp_after (fun x => if mem x qs then nth_error vec i else None) c c') cells cells'.
Proof.
  intros mode ps. induction qs as [|q r IH]; intros vec cells cells' H.
  - simpl in H. inversion H; subst. apply rel_refl. intros i c. split; [apply frame_refl|]. intro S. split; auto.
  - simpl in H. destruct cells as [|c0 cs].
    + specialize (IH _ _ _ H). destruct IH as [L _]. destruct cells'; try discriminate.
      split; auto. intros i c Hc. destruct i; discriminate.
    + destruct vec as [|v0 vr]; try discriminate.
      destruct (negb (mem q mode)); try discriminate.
      destruct (push_imp_vec ps q (v0 :: vr) (c0 :: cs)) as [c1|] eqn:E1; try discriminate.
      pose proof (push_imp_vec_rel _ _ _ _ _ E1) as R1. specialize (IH _ _ _ H).
      eapply rel_trans; [exact R1|exact IH|].
      intros i x y z [v [Hv ->]] [Fz Sz]. split.
      * eapply frame_trans; [apply imp_step_frame|exact Fz].
      * intro S. destruct (imp_step_spec ps q v x S) as [_ [S1 V1]].
        destruct (Sz S1) as [S2 V2]. split; auto.
        intro p. rewrite V2, mem_cons. destruct (mem p r) eqn:Er.
        -- rewrite orb_true_r. rewrite Hv. reflexivity.
        -- rewrite orb_false_r. rewrite V1. destruct (Nat.eqb p q); [rewrite Hv|]; reflexivity.
Qed.

Lemma push_imp_rel : forall mode d cells cells', push_imp mode d cells = Ok cells' ->
  rel (fun i c c' => imp_after (fun x => data_imp x i d) c c') cells cells'.
Proof.
  intros mode. induction d as [|x r IH]; intros cells cells' H.
  - simpl in H. inversion H; subst. apply rel_refl. intros i c. split; [apply frame_refl|]. intro S. split; auto.
  - destruct x as [|ps vec|k vec]; simpl in H.
    + eapply rel_weaken; [apply IH; exact H|]. intros i a b Hab. exact Hab.
    + destruct (push_imp_card mode ps ps vec cells) as [c1|] eqn:E1; try discriminate.
      pose proof (push_imp_card_rel _ _ _ _ _ _ E1) as R1. specialize (IH _ _ H).
      eapply rel_trans; [exact R1|exact IH|].
      intros i a b c [F1 S1] [F2 S2]. split; [eapply frame_trans; eauto|].
      intro S. destruct (S1 S) as [Sb Vb]. destruct (S2 Sb) as [Sc Vc]. split; auto.
      intro p. rewrite Vc. simpl. destruct (data_imp p i r); auto.
    + eapply rel_weaken; [apply IH; exact H|]. intros i a b Hab. exact Hab.
Qed.

Lemma data_imp_no_card : forall d x i, has_card d CImp = false -> data_imp x i d = None.
Proof.
  induction d as [|y r IH]; intros x i H; simpl in *; auto.
  destruct y as [|ps vec|k vec]; simpl in H.
  - apply IH. exact H.
  - discriminate.
  - apply orb_false_iff in H. destruct H as [_ H]. apply IH. exact H.
Qed.

Lemma redundant_false : forall cells k c, redundant cells k = false -> In c cells -> set_of c k = false.
Proof.
  intros cells k c H Hin. unfold redundant in H.
  destruct (set_of c k) eqn:E; auto.
  assert (existsb (fun c0 => set_of c0 k) cells = true) by (apply existsb_exists; eauto). congruence.
Qed.

Lemma push_cls_imp : forall mode d cells cells', push_cls mode d CImp cells = Ok cells' ->
  (has_card d CImp = false /\ cells' = cells) \/
  (has_card d CImp = true /\ redundant cells CImp = false /\
   rel (fun i c c' => imp_after (fun x => data_imp x i d) c c') cells cells').
Proof.
  intros mode d cells cells' H. simpl in H. destruct (has_card d CImp) eqn:Eh.
  - destruct (redundant cells CImp) eqn:Er; try discriminate. right. split; auto. split; auto.
    apply (push_imp_rel _ _ _ _ H).
  - inversion H. left. auto.
Qed.

(* --- the vector classes *)
Lemma push_vec_nil : forall setter vec, push_vec setter vec [] = [].
Proof. intros. destruct vec; reflexivity. Qed.

Lemma push_vec_rel : forall setter vec cells,
  rel (fun i c c' => c' = match nth_error vec i with Some v => setter c v | None => c end)
      cells (push_vec setter vec cells).
Proof.
  intros setter vec cells. revert vec. induction cells as [|c r IH]; intros vec; unfold rel.
  - rewrite push_vec_nil. split; auto. intros i c Hc. destruct i; discriminate.
  - destruct vec as [|v vr].
    + simpl. split; auto. intros i c0 Hc. exists c0. split; auto. destruct i; reflexivity.
    + simpl. destruct (IH vr) as [L R]. split; [simpl; congruence|].
      intros [|i] c0 Hc; simpl in *.
      * inversion Hc; subst. eauto.
      * apply R. exact Hc.
Qed.

Definition vol_of_entry (v : option Z) : vvol := match v with Some z => VSet z | None => VNone end.

Definition Fimp (d : list fditem) (i : nat) (c c' : cell) : Prop :=
  (has_card d CImp = false /\ c' = c) \/
  (has_card d CImp = true /\ c_imp_set c = false /\ imp_after (fun x => data_imp x i d) c c').

Definition Fvec (d : list fditem) (k : cls) (setter : cell -> option Z -> cell) (check : bool) (i : nat) (c c' : cell) : Prop :=
  match find_vec d k with
  | Some (x :: r) => (check = true -> set_of c k = false) /\
                     c' = match nth_error (x :: r) i with Some v => setter c v | None => c end
  | _ => c' = c
  end.

Lemma rel_In : forall (F G : nat -> cell -> cell -> Prop) a b,
  rel F a b -> (forall i x y, In x a -> F i x y -> G i x y) -> rel G a b.
Proof.
  intros F G a b [L R] W. split; auto. intros i x Hx. destruct (R i x Hx) as [y [Hy Fy]].
  exists y. split; auto. apply W; auto. eapply nth_error_In; eauto.
Qed.

Lemma push_cls_imp_rel : forall mode d cells cells', push_cls mode d CImp cells = Ok cells' ->
  rel (Fimp d) cells cells'.
Proof.
  intros mode d cells cells' H. destruct (push_cls_imp _ _ _ _ H) as [[A ->]|[A [B R]]].
  - apply rel_refl. intros i c. left. auto.
  - eapply rel_In; [exact R|]. intros i x y Hin Hxy. right. split; auto. split; auto.
    apply (redundant_false _ _ _ B Hin).
Qed.

Lemma push_cls_vol_rel : forall mode d cells cells', push_cls mode d CVol cells = Ok cells' ->
  rel (Fvec d CVol (fun c v => set_vol c (vol_of_entry v)) true) cells cells'.
Proof.
  intros mode d cells cells' H. simpl in H. unfold Fvec.
  destruct (find_vec d CVol) as [[|x r]|].
  - inversion H. apply rel_refl. auto.
  - destruct (redundant cells CVol) eqn:Er; try discriminate. match type of H with Ok ?t = Ok _ => assert (E : cells' = t) by congruence end; subst cells'; clear H.
    eapply rel_In; [apply push_vec_rel|]. intros i a b Hin Hab. split; auto.
    intros _. apply (redundant_false _ _ _ Er Hin).
  - inversion H. apply rel_refl. auto.
Qed.

Lemma push_cls_lat_rel : forall mode d cells cells', push_cls mode d CLat cells = Ok cells' ->
  rel (Fvec d CLat set_lat true) cells cells'.
Proof.
  intros mode d cells cells' H. simpl in H. unfold Fvec.
  destruct (find_vec d CLat) as [[|x r]|].
  - inversion H. apply rel_refl. auto.
  - destruct (redundant cells CLat) eqn:Er; try discriminate.
    destruct (Nat.ltb _ _); try discriminate. match type of H with Ok ?t = Ok _ => assert (E : cells' = t) by congruence end; subst cells'; clear H.
    eapply rel_In; [apply push_vec_rel|]. intros i a b Hin Hab. split; auto.
    intros _. apply (redundant_false _ _ _ Er Hin).
  - inversion H. apply rel_refl. auto.
Qed.

Lemma push_cls_fill_rel : forall mode d cells cells', push_cls mode d CFill cells = Ok cells' ->
  rel (Fvec d CFill set_fill false) cells cells'.
Proof.
  intros mode d cells cells' H. simpl in H. unfold Fvec.
  destruct (find_vec d CFill) as [[|x r]|].
  - inversion H. apply rel_refl. auto.
  - match type of H with Ok ?t = Ok _ => assert (E : cells' = t) by congruence end; subst cells'; clear H.
    eapply rel_In; [apply push_vec_rel|]. intros i a b Hin Hab. split; auto. discriminate.
  - inversion H. apply rel_refl. auto.
Qed.

Definition u_default (c : cell) : cell := set_u c (Some (match c_u c with Some u => u | None => 0%Z end)).

Lemma push_cls_u_rel : forall mode d cells cells', push_cls mode d CU cells = Ok cells' ->
  rel (fun i c c' => exists cm, Fvec d CU set_u true i c cm /\ c' = u_default cm) cells cells'.
Proof.
  intros mode d cells cells' H. simpl in H.
  assert (G : forall mid, rel (Fvec d CU set_u true) cells mid ->
              rel (fun i c c' => exists cm, Fvec d CU set_u true i c cm /\ c' = u_default cm) cells
                  (map (fun c => set_u c (Some (match c_u c with Some u => u | None => 0%Z end))) mid)).
  { intros mid R. eapply rel_trans; [exact R|apply (rel_map (fun _ a b => b = u_default a))|].
    - intros i c. reflexivity.
    - intros i x y z Hxy Hyz. exists y. auto. }
  unfold Fvec in *.
  destruct (find_vec d CU) as [[|x r]|].
  - inversion H. apply G. apply rel_refl. auto.
  - destruct (redundant cells CU) eqn:Er; try discriminate.
    destruct (Nat.ltb _ _); try discriminate.
    match type of H with Ok (map _ ?t) = Ok _ => assert (E : cells' = map (fun c => set_u c (Some (match c_u c with Some u => u | None => 0%Z end))) t) by congruence end; subst cells'; clear H. apply G.
    eapply rel_In; [apply push_vec_rel|]. intros i a b Hin Hab. split; auto.
    intros _. apply (redundant_false _ _ _ Er Hin).
  - inversion H. apply G. apply rel_refl. auto.
Qed.

(* --- parsing a cell card *)
Lemma ikeys_app : forall a b, ikeys (a ++ b) = ikeys a ++ ikeys b.
Proof. intros. unfold ikeys. apply flat_map_app. Qed.

Lemma ival_not_key : forall x g, mem x (ikeys g) = false -> ival x g = 0%Z.
Proof.
  intros x g H. unfold ival. destruct (ifind x g) eqn:E; auto.
  assert (mem x (ikeys g) = true) by (apply ifind_key; eauto). congruence.
Qed.

Lemma ikeys_single : forall qs t, ikeys [(qs, t)] = qs.
Proof. intros. unfold ikeys. simpl. apply app_nil_r. Qed.

Lemma parse_imp_ival : forall ps acc g, parse_imp ps acc = Ok g ->
  forall x, ival x g = if mem x (ikeys acc) then ival x acc
                       else match first_imp x ps with Some v => v | None => 0%Z end.
Proof.
  induction ps as [|[qs v] r IH]; intros acc g H x.
  - simpl in H. inversion H; subst. cbn [first_imp]. destruct (mem x (ikeys g)) eqn:E; auto. apply ival_not_key. exact E.
  - cbn [parse_imp] in H. destruct (disjointb qs (ikeys acc)); try discriminate.
    rewrite (IH _ _ H x). rewrite ikeys_app, ikeys_single, mem_app. cbn [first_imp].
    destruct (mem x (ikeys acc)) eqn:Ea; cbn [orb].
    + unfold ival. rewrite ifind_app.
      apply ifind_key in Ea. destruct Ea as [t Et]. rewrite Et. reflexivity.
    + destruct (mem x qs) eqn:Eq; auto.
      unfold ival. rewrite ifind_app.
      destruct (ifind x acc) eqn:Ef.
      * assert (mem x (ikeys acc) = true) by (apply ifind_key; eauto). congruence.
      * cbn [ifind]. rewrite Eq. reflexivity.
Qed.

Definition is_some {A} (o : option A) : bool := match o with Some _ => true | None => false end.

Lemma parse_cell_fields : forall fc c, parse_cell fc = Ok c ->
  c_num c = fc_num fc /\
  c_imp_set c = (match fc_imp fc with [] => false | _ => true end) /\
  (fc_imp fc = [] -> c_imp c = blank_imp) /\
  (forall x, fc_imp fc <> [] -> ival x (c_imp c) = match first_imp x (fc_imp fc) with Some v => v | None => 0%Z end) /\
  c_vol c = vol_of_entry (fc_vol fc) /\ c_vol_set c = is_some (fc_vol fc) /\
  c_u c = fc_u fc /\ c_u_set c = is_some (fc_u fc) /\
  c_lat c = fc_lat fc /\ c_lat_set c = is_some (fc_lat fc) /\
  c_fill c = fc_fill fc.
Proof.
  intros fc c H. unfold parse_cell in H.
  destruct (fc_imp fc) as [|p ps] eqn:Ei.
  - inversion H; subst; clear H.
    cbn [c_num c_imp c_imp_set c_vol c_vol_set c_u c_u_set c_lat c_lat_set c_fill].
    split; [reflexivity|]. split; [reflexivity|]. split; [reflexivity|]. split; [intros x N; contradiction|].
    repeat split; try (destruct (fc_vol fc); reflexivity); try (destruct (fc_u fc); reflexivity);
      try (destruct (fc_lat fc); reflexivity).
  - destruct (parse_imp (p :: ps) []) as [g|] eqn:Eg; try discriminate.
    inversion H; subst; clear H.
    cbn [c_num c_imp c_imp_set c_vol c_vol_set c_u c_u_set c_lat c_lat_set c_fill].
    split; [reflexivity|]. split; [reflexivity|]. split; [discriminate|]. split.
    { intros x N. rewrite (parse_imp_ival _ _ _ Eg x). reflexivity. }
    repeat split; try (destruct (fc_vol fc); reflexivity); try (destruct (fc_u fc); reflexivity);
      try (destruct (fc_lat fc); reflexivity).
Qed.

(* --- frames of the setters *)
Lemma frame_set_vol : forall c v, frame CVol c (set_vol c v).
Proof. intros. unfold frame, set_vol. simpl. repeat split; auto; intros; try contradiction. Qed.
Lemma frame_set_u : forall c v, frame CU c (set_u c v).
Proof. intros. unfold frame, set_u. simpl. repeat split; auto; intros; try contradiction. Qed.
Lemma frame_set_lat : forall c v, frame CLat c (set_lat c v).
Proof. intros. unfold frame, set_lat. simpl. repeat split; auto; intros; try contradiction. Qed.
Lemma frame_set_fill : forall c v, frame CFill c (set_fill c v).
Proof. intros. unfold frame, set_fill. simpl. repeat split; auto; intros; try contradiction. Qed.

Lemma Fvec_frame : forall d k setter chk i c c',
  (forall c v, frame k c (setter c v)) -> Fvec d k setter chk i c c' -> frame k c c'.
Proof.
  intros d k setter chk i c c' Hs H. unfold Fvec in H.
  destruct (find_vec d k) as [[|x r]|]; try (subst; apply frame_refl).
  destruct H as [_ ->]. destruct (nth_error (x :: r) i); [apply Hs|apply frame_refl].
Qed.

Lemma Fimp_frame : forall d i c c', Fimp d i c c' -> frame CImp c c'.
Proof. intros d i c c' [[_ ->]|[_ [_ [F _]]]]; [apply frame_refl|exact F]. Qed.

Definition fill_one_block (f : file) : bool :=
  match find_vec (f_data f) CFill with
  | Some (_ :: _) => forallb (fun fc => negb (is_some (fc_fill fc))) (f_cells f)
  | _ => true
  end.

Lemma blank_imp_singles : singles blank_imp = true.
Proof. reflexivity. Qed.
Lemma ival_blank : forall x, ival x blank_imp = 0%Z.
Proof. intro x. unfold ival, blank_imp. simpl. destruct (Nat.eqb x neutron); reflexivity. Qed.

Lemma cell_denote : forall mode d i fc c0 c1 c2 c3 c4 c5,
  parse_cell fc = Ok c0 ->
  Fimp d i c0 c1 ->
  Fvec d CVol (fun c v => set_vol c (vol_of_entry v)) true i c1 c2 ->
  (exists cm, Fvec d CU set_u true i c2 cm /\ c3 = u_default cm) ->
  Fvec d CLat set_lat true i c3 c4 ->
  Fvec d CFill set_fill false i c4 c5 ->
  (forall x r, find_vec d CFill = Some (x :: r) -> fc_fill fc = None) ->
  api_cell mode c5 = denote_cell mode d i fc.
Proof.
  intros mode d i fc c0 c1 c2 c3 c4 c5 Hp H1 H2 [cm [H3 E3]] H4 H5 Hfill.
  destruct (parse_cell_fields _ _ Hp) as [Pn [Pis [Pblank [Pimp [Pv [Pvs [Pu [Pus [Pl [Pls Pf]]]]]]]]]].
  pose proof (Fimp_frame _ _ _ _ H1) as F1.
  pose proof (Fvec_frame _ _ _ _ _ _ _ (fun c v => frame_set_vol c (vol_of_entry v)) H2) as F2.
  pose proof (Fvec_frame _ _ _ _ _ _ _ frame_set_u H3) as F3m.
  assert (F3 : frame CU c2 c3).
  { eapply frame_trans; [exact F3m|]. subst c3. apply frame_set_u. }
  pose proof (Fvec_frame _ _ _ _ _ _ _ frame_set_lat H4) as F4.
  pose proof (Fvec_frame _ _ _ _ _ _ _ frame_set_fill H5) as F5.
  destruct F1 as [A1 [_ [A3 [A4 [A5 [A6 A7]]]]]].
  destruct F2 as [B1 [B2 [_ [B4 [B5 [B6 B7]]]]]].
  destruct F3 as [C1 [C2 [C3 [_ [C5 [C6 C7]]]]]].
  destruct F4 as [D1 [D2 [D3 [D4 [_ [D6 D7]]]]]].
  destruct F5 as [G1 [G2 [G3 [G4 [G5 [_ G7]]]]]].
  unfold api_cell, denote_cell. f_equal.
  - (* number *) congruence.
  - (* importance *)
    rewrite G2, D2, C2, B2 by discriminate.
    apply map_ext. intro q. f_equal.
    destruct H1 as [[Hno ->]|[Hyes [Hset [_ Himp]]]].
    + rewrite (data_imp_no_card _ q i Hno).
      destruct (fc_imp fc) as [|p ps] eqn:Ei.
      * rewrite (Pblank eq_refl). simpl. apply ival_blank.
      * rewrite Pimp by discriminate. destruct (first_imp q (p :: ps)); reflexivity.
    + rewrite Pis in Hset. destruct (fc_imp fc) as [|p ps] eqn:Ei; try discriminate.
      assert (S0 : singles (c_imp c0) = true) by (rewrite (Pblank eq_refl); reflexivity).
      destruct (Himp S0) as [_ V]. rewrite V. simpl.
      destruct (data_imp q i d); auto. rewrite (Pblank eq_refl). apply ival_blank.
  - (* volume *)
    rewrite G3, D3, C3 by discriminate.
    unfold Fvec in H2. unfold data_val.
    destruct (find_vec d CVol) as [[|x r]|].
    + subst c2. rewrite A3, Pv by discriminate. destruct (fc_vol fc); destruct i; reflexivity.
    + destruct H2 as [Hs ->]. specialize (Hs eq_refl). simpl in Hs.
      assert (Hv0 : fc_vol fc = None).
      { pose proof (A7 CVol) as X. simpl in X. rewrite X, Pvs in Hs. destruct (fc_vol fc); [discriminate|reflexivity]. }
      rewrite Hv0. simpl.
      destruct (nth_error (x :: r) i) as [[z|]|]; simpl; auto.
      rewrite A3, Pv, Hv0 by discriminate. reflexivity.
    + subst c2. rewrite A3, Pv by discriminate. destruct (fc_vol fc); reflexivity.
  - (* universe *)
    rewrite G4, D4 by discriminate. subst c3. unfold u_default, set_u. simpl. f_equal.
    unfold Fvec in H3. unfold data_val.
    destruct (find_vec d CU) as [[|x r]|].
    + subst cm. rewrite B4, A4, Pu by discriminate. destruct (fc_u fc); destruct i; reflexivity.
    + destruct H3 as [Hs ->]. specialize (Hs eq_refl). simpl in Hs.
      assert (Hu0 : fc_u fc = None).
      { pose proof (A7 CU) as X. pose proof (B7 CU) as Y. simpl in X, Y. rewrite Y, X, Pus in Hs.
        destruct (fc_u fc); [discriminate|reflexivity]. }
      rewrite Hu0. simpl.
      destruct (nth_error (x :: r) i) as [[z|]|]; simpl; auto.
      rewrite B4, A4, Pu, Hu0 by discriminate. reflexivity.
    + subst cm. rewrite B4, A4, Pu by discriminate. destruct (fc_u fc); reflexivity.
  - (* lattice *)
    rewrite G5 by discriminate.
    unfold Fvec in H4. unfold data_val.
    destruct (find_vec d CLat) as [[|x r]|].
    + subst c4. rewrite C5, B5, A5, Pl by discriminate. destruct (fc_lat fc); destruct i; reflexivity.
    + destruct H4 as [Hs ->]. specialize (Hs eq_refl). simpl in Hs.
      assert (Hl0 : fc_lat fc = None).
      { pose proof (A7 CLat) as X. pose proof (B7 CLat) as Y. pose proof (C7 CLat) as Z0. simpl in X, Y, Z0.
        rewrite Z0, Y, X, Pls in Hs. destruct (fc_lat fc); [discriminate|reflexivity]. }
      rewrite Hl0. simpl.
      destruct (nth_error (x :: r) i) as [[z|]|]; simpl; auto.
      rewrite C5, B5, A5, Pl, Hl0 by discriminate. reflexivity.
    + subst c4. rewrite C5, B5, A5, Pl by discriminate. destruct (fc_lat fc); reflexivity.
  - (* fill *)
    unfold Fvec in H5. unfold data_val.
    destruct (find_vec d CFill) as [[|x r]|] eqn:Ef.
    + subst c5. rewrite D6, C6, B6, A6, Pf by discriminate. destruct (fc_fill fc); destruct i; reflexivity.
    + destruct H5 as [_ ->]. rewrite (Hfill x r eq_refl). simpl.
      destruct (nth_error (x :: r) i) as [[z|]|]; simpl; auto.
      rewrite D6, C6, B6, A6, Pf, (Hfill x r eq_refl) by discriminate. reflexivity.
    + subst c5. rewrite D6, C6, B6, A6, Pf by discriminate. destruct (fc_fill fc); reflexivity.
Qed.

Lemma find_cell_fill_none : forall f, fill_one_block f = true ->
  forall fc x r, In fc (f_cells f) -> find_vec (f_data f) CFill = Some (x :: r) -> fc_fill fc = None.
Proof.
  intros f H fc x r Hin Hf. unfold fill_one_block in H. rewrite Hf in H.
  rewrite forallb_forall in H. specialize (H fc Hin). destruct (fc_fill fc); [discriminate|reflexivity].
Qed.

(* MontePy's reading of a file gives every cell the values the file means, whichever block states them *)
Theorem read_denote : forall f s, read f = Ok s -> fill_one_block f = true -> per_cell s = denote f.
Proof.
  intros f s H Hfill. unfold read in H.
  destruct (map_res parse_cell (f_cells f)) as [cells0|] eqn:E0; try discriminate.
  destruct (load_slots (f_data f) [] []) as [slots|]; try discriminate.
  destruct (push_all (f_mode f) (f_data f) all_cls cells0) as [c5|] eqn:EP; try discriminate.
  inversion H; subst s; clear H. unfold per_cell, denote. cbn [s_mode s_cells].
  unfold all_cls in EP. cbn [push_all] in EP.
  destruct (push_cls (f_mode f) (f_data f) CImp cells0) as [c1|] eqn:P1; try discriminate.
  destruct (push_cls (f_mode f) (f_data f) CVol c1) as [c2|] eqn:P2; try discriminate.
  destruct (push_cls (f_mode f) (f_data f) CU c2) as [c3|] eqn:P3; try discriminate.
  destruct (push_cls (f_mode f) (f_data f) CLat c3) as [c4|] eqn:P4; try discriminate.
  destruct (push_cls (f_mode f) (f_data f) CFill c4) as [c5'|] eqn:P5; try discriminate.
  assert (c5' = c5) by congruence. subst c5'. clear EP.
  destruct (push_cls_imp_rel _ _ _ _ P1) as [L1 R1].
  destruct (push_cls_vol_rel _ _ _ _ P2) as [L2 R2].
  destruct (push_cls_u_rel _ _ _ _ P3) as [L3 R3].
  destruct (push_cls_lat_rel _ _ _ _ P4) as [L4 R4].
  destruct (push_cls_fill_rel _ _ _ _ P5) as [L5 R5].
  pose proof (map_res_length _ _ _ E0) as L0.
  apply nth_error_ext_eq. intro i. rewrite nth_error_map.
  destruct (nth_error (f_cells f) i) as [fc|] eqn:Ei.
  - destruct (map_res_nth _ _ _ _ _ E0 Ei) as [x0 [H0 Hp]].
    destruct (R1 i x0 H0) as [x1 [H1 F1]].
    destruct (R2 i x1 H1) as [x2 [H2 F2]].
    destruct (R3 i x2 H2) as [x3 [H3 F3]].
    destruct (R4 i x3 H3) as [x4 [H4 F4]].
    destruct (R5 i x4 H4) as [x5 [H5 F5]].
    rewrite H5. rewrite (denote_from_nth _ _ _ 0%nat i fc Ei). simpl. f_equal.
    eapply cell_denote; eauto.
    intros x r Hf. eapply find_cell_fill_none; eauto. eapply nth_error_In; eauto.
  - assert (N5 : nth_error c5 i = None).
    { apply nth_error_None. apply nth_error_None in Ei. lia. }
    rewrite N5. simpl. symmetry. apply nth_error_None. rewrite denote_from_length. apply nth_error_None. exact Ei.
Qed.

Theorem either_block : forall f f' s s',
  read f = Ok s -> read f' = Ok s' -> fill_one_block f = true -> fill_one_block f' = true ->
  denote f = denote f' -> per_cell s = per_cell s'.
Proof.
  intros f f' s s' H H' Hf Hf' E. rewrite (read_denote f s H Hf), (read_denote f' s' H' Hf'). exact E.
Qed.

(* ================================================================== histories with edits: what keeps [clean] *)
(* an importance dict in which every particle has its own tree, labelled with that particle only: every cell made
   by Cell(), every cell whose importances came from data-block cards of one particle each *)
Definition plain_group (gr : igroup) : bool :=
  match fst gr, t_parts (snd gr), t_order (snd gr) with
  | [k], [a], [b] => andb (Nat.eqb a k) (Nat.eqb b k)
  | _, _, _ => false
  end.
Definition plainok (g : list igroup) : bool := andb (forallb plain_group g) (nodup_p (ikeys g)).

Lemma plain_group_inv : forall gr, plain_group gr = true ->
  exists k v, gr = ([k], mkT v [k] [k]).
Proof.
  intros [ks [v ps os]] H. unfold plain_group in H. simpl in H.
  destruct ks as [|k [|k2 r]]; try discriminate.
  destruct ps as [|a [|a2 r2]]; try discriminate.
  destruct os as [|b [|b2 r3]]; try discriminate.
  apply andb_true_iff in H. destruct H as [A B]. apply Nat.eqb_eq in A. apply Nat.eqb_eq in B. subst. eauto.
Qed.

Lemma plain_ifind : forall g x t, forallb plain_group g = true -> ifind x g = Some t ->
  In ([x], t) g /\ t_parts t = [x] /\ t_order t = [x].
Proof.
  induction g as [|gr r IH]; simpl; intros x t H F; try discriminate.
  apply andb_true_iff in H. destruct H as [Hg Hr].
  destruct (plain_group_inv _ Hg) as [k [v ->]]. cbn [ifind] in F. rewrite mem_single in F.
  destruct (Nat.eqb x k) eqn:E.
  - apply Nat.eqb_eq in E. subst k. inversion F; subst. simpl. auto.
  - destruct (IH x t Hr F) as [A B]. split; auto.
Qed.

Lemma plainok_struct : forall mode g, plainok g = true ->
  imp_parts_ok g = true /\ imp_keys_ok mode g = true.
Proof.
  intros mode g H. unfold plainok in H. apply andb_true_iff in H. destruct H as [Hp Hn]. split.
  - unfold imp_parts_ok. rewrite Hn. simpl. apply forallb_forall. intros gr Hin.
    pose proof Hp as Hp'. rewrite forallb_forall in Hp'.
    destruct (plain_group_inv _ (Hp' gr Hin)) as [k [v ->]].
    unfold group_ok. simpl. rewrite Nat.eqb_refl. simpl. rewrite andb_true_r.
    assert (Hk : mem k (ikeys g) = true).
    { apply mem_In. unfold ikeys. apply in_flat_map. exists ([k], mkT v [k] [k]). split; simpl; auto. }
    rewrite Hk. simpl.
    apply ifind_key in Hk. destruct Hk as [t Ht].
    destruct (plain_ifind g k t Hp Ht) as [_ [P _]].
    unfold parts_of. rewrite Ht, P. unfold seteq, subset. simpl. rewrite Nat.eqb_refl. reflexivity.
  - unfold imp_keys_ok. apply forallb_forall. intros gr Hin.
    rewrite forallb_forall in Hp. destruct (plain_group_inv _ (Hp gr Hin)) as [k [v ->]]. simpl.
    rewrite orb_false_r. unfold subset. simpl. destruct (mem k mode); reflexivity.
Qed.

Lemma ikeys_cons : forall ks t r, ikeys ((ks, t) :: r) = ks ++ ikeys r.
Proof. reflexivity. Qed.

Lemma iupd_plain : forall q v g, forallb plain_group g = true ->
  forallb plain_group (iupd q (fun t => mkT v (t_parts t) (t_order t)) g) = true /\
  ikeys (iupd q (fun t => mkT v (t_parts t) (t_order t)) g) = ikeys g.
Proof.
  intros q v. induction g as [|[ks t] r IH]; simpl; intros H; auto.
  apply andb_true_iff in H. destruct H as [Hg Hr].
  destruct (mem q ks).
  - simpl. split; [|reflexivity]. rewrite Hr, andb_true_r. exact Hg.
  - destruct (IH Hr) as [A B]. simpl. rewrite Hg, A. split; auto.
    unfold ikeys in *. simpl. rewrite B. reflexivity.
Qed.

Lemma iset_existing_plain : forall q v g, forallb plain_group g = true ->
  forallb plain_group (iset_existing q v g) = true /\ ikeys (iset_existing q v g) = ikeys g.
Proof.
  intros q v. induction g as [|gr r IH]; intros H; [simpl; auto|].
  cbn [forallb] in H. apply andb_true_iff in H. destruct H as [Hg Hr].
  destruct (plain_group_inv _ Hg) as [k [v0 ->]].
  cbn [iset_existing]. rewrite mem_single. destruct (Nat.eqb q k) eqn:E.
  - apply Nat.eqb_eq in E. subst k. rewrite remove_p_self. cbn [t_parts t_order]. split.
    + cbn [forallb]. rewrite Hr, andb_true_r. unfold plain_group. simpl. rewrite Nat.eqb_refl. reflexivity.
    + reflexivity.
  - destruct (IH Hr) as [A B]. split.
    + cbn [forallb]. rewrite A, andb_true_r. exact Hg.
    + rewrite !ikeys_cons, B. reflexivity.
Qed.

Lemma nodup_p_snoc : forall l q, nodup_p l = true -> mem q l = false -> nodup_p (l ++ [q]) = true.
Proof.
  induction l as [|x r IH]; simpl; intros q H M; auto.
  apply andb_true_iff in H. destruct H as [Hx Hr].
  apply orb_false_iff in M. destruct M as [Mq Mr].
  rewrite (IH q Hr Mr), andb_true_r. rewrite mem_app. apply negb_true_iff in Hx. rewrite Hx. simpl.
  rewrite orb_false_r. apply negb_true_iff. rewrite Nat.eqb_sym. exact Mq.
Qed.

Lemma iset_plainok : forall l m q v g, plainok g = true -> plainok (iset l m q v g) = true.
Proof.
  intros l m q v g H. unfold plainok in *. apply andb_true_iff in H. destruct H as [Hp Hn].
  unfold iset. destruct (mem q (ikeys g)) eqn:Ek.
  - destruct (iset_existing_plain q v g Hp) as [A B]. rewrite A, B, Hn. reflexivity.
  - rewrite forallb_app, Hp. cbn [forallb]. unfold plain_group at 1. simpl. rewrite Nat.eqb_refl. simpl.
    rewrite ikeys_app, ikeys_single. apply nodup_p_snoc; auto.
Qed.

Lemma iset_all_plainok : forall mode v g, plainok g = true -> plainok (iset_all mode v g) = true.
Proof.
  intros mode v. unfold iset_all. induction mode as [|q r IH]; simpl; intros g H; auto.
  apply IH. unfold plainok in *. apply andb_true_iff in H. destruct H as [Hp Hn].
  destruct (mem q (ikeys g)) eqn:Ek.
  - destruct (iupd_plain q v g Hp) as [A B]. rewrite A, B, Hn. reflexivity.
  - rewrite forallb_app, Hp. cbn [forallb]. unfold plain_group at 1. simpl. rewrite Nat.eqb_refl. simpl.
    rewrite ikeys_app, ikeys_single. apply nodup_p_snoc; auto.
Qed.

Lemma idel_plain : forall q g, forallb plain_group g = true ->
  forallb plain_group (idel q g) = true /\ (forall x, mem x (ikeys (idel q g)) = true -> mem x (ikeys g) = true) /\
  (nodup_p (ikeys g) = true -> nodup_p (ikeys (idel q g)) = true).
Proof.
  intros q. induction g as [|gr r IH]; intros H; [simpl; auto|].
  cbn [forallb] in H. apply andb_true_iff in H. destruct H as [Hg Hr].
  destruct (plain_group_inv _ Hg) as [k [v0 ->]].
  cbn [idel]. rewrite mem_single. destruct (Nat.eqb q k) eqn:E.
  - apply Nat.eqb_eq in E. subst k. rewrite remove_p_self. split; [exact Hr|]. split.
    + intros x Hx. rewrite ikeys_cons, mem_app, Hx. apply orb_true_r.
    + rewrite ikeys_cons. simpl. intro N. apply andb_true_iff in N. apply N.
  - destruct (IH Hr) as [A [B C]]. split; [|split].
    + cbn [forallb]. rewrite A, andb_true_r. exact Hg.
    + intros x. rewrite !ikeys_cons, !mem_app. intro Hx. apply orb_true_iff in Hx. destruct Hx as [Hx|Hx].
      * rewrite Hx. reflexivity.
      * rewrite (B x Hx). apply orb_true_r.
    + rewrite !ikeys_cons. simpl. intro N. apply andb_true_iff in N. destruct N as [N1 N2].
      rewrite (C N2), andb_true_r. apply negb_true_iff. apply negb_true_iff in N1.
      destruct (mem k (ikeys (idel q r))) eqn:Em; auto. rewrite (B k Em) in N1. discriminate.
Qed.

Lemma idel_plainok : forall q g, plainok g = true -> plainok (idel q g) = true.
Proof.
  intros q g H. unfold plainok in *. apply andb_true_iff in H. destruct H as [Hp Hn].
  destruct (idel_plain q g Hp) as [A [_ C]]. rewrite A, (C Hn). reflexivity.
Qed.

(* --- imp_parts_ok / imp_keys_ok only look at the keys, classifiers and classifier orders of the groups *)
Definition shape (gr : igroup) : list particle * list particle * list particle :=
  (fst gr, t_parts (snd gr), t_order (snd gr)).

Lemma shape_ikeys : forall g g', map shape g = map shape g' -> ikeys g = ikeys g'.
Proof.
  induction g as [|[ks t] r IH]; intros [|[ks' t'] r'] H; simpl in H; try discriminate; auto.
  inversion H. rewrite !ikeys_cons. subst. f_equal. apply IH. assumption.
Qed.

Lemma shape_parts_of : forall g g' o, map shape g = map shape g' -> parts_of o g = parts_of o g'.
Proof.
  induction g as [|[ks t] r IH]; intros [|[ks' t'] r'] o H; simpl in H; try discriminate; auto.
  inversion H. subst. unfold parts_of in *. simpl. destruct (mem o ks'); auto.
Qed.

Lemma forallb_ext_all : forall {A} (f h : A -> bool) l, (forall x, f x = h x) -> forallb f l = forallb h l.
Proof. induction l as [|x r IH]; simpl; intros H; auto. rewrite (H x), IH; auto. Qed.

Lemma shape_group_ok : forall g g' gr gr', map shape g = map shape g' -> shape gr = shape gr' ->
  group_ok g gr = group_ok g' gr'.
Proof.
  intros g g' [ks t] [ks' t'] H Hs. unfold shape in Hs. simpl in Hs. inversion Hs. subst.
  unfold group_ok. simpl. rewrite H2, H3. rewrite (shape_ikeys _ _ H).
  f_equal. apply forallb_ext_all. intro o. rewrite (shape_parts_of _ _ o H). reflexivity.
Qed.

Lemma shape_forallb_group_ok : forall g g', map shape g = map shape g' ->
  forall l l', map shape l = map shape l' -> forallb (group_ok g) l = forallb (group_ok g') l'.
Proof.
  intros g g' H. induction l as [|x r IH]; intros [|y s] Hl; simpl in Hl; try discriminate; auto.
  assert (Hxy : shape x = shape y) by congruence.
  assert (Hrs : map shape r = map shape s) by congruence.
  simpl. rewrite (shape_group_ok g g' x y H Hxy). f_equal. apply IH. exact Hrs.
Qed.

Lemma shape_imp_parts_ok : forall g g', map shape g = map shape g' -> imp_parts_ok g = imp_parts_ok g'.
Proof.
  intros g g' H. unfold imp_parts_ok. rewrite (shape_ikeys _ _ H). f_equal.
  apply shape_forallb_group_ok; auto.
Qed.

Lemma shape_imp_keys_ok : forall mode g g', map shape g = map shape g' -> imp_keys_ok mode g = imp_keys_ok mode g'.
Proof.
  intros mode. unfold imp_keys_ok.
  induction g as [|[ks t] r IH]; intros [|[ks' t'] r'] H; simpl in H; try discriminate; auto.
  inversion H. subst. simpl. rewrite H2. f_equal. apply IH. assumption.
Qed.

Lemma shape_singles : forall g g', map shape g = map shape g' -> singles g = singles g'.
Proof.
  unfold singles.
  induction g as [|[ks t] r IH]; intros [|[ks' t'] r'] H; simpl in H; try discriminate; auto.
  inversion H. subst. simpl. f_equal. apply IH. assumption.
Qed.

Lemma iupd_shape : forall q v g, map shape (iupd q (fun t => mkT v (t_parts t) (t_order t)) g) = map shape g.
Proof.
  intros q v. induction g as [|[ks t] r IH]; simpl; auto.
  destruct (mem q ks); simpl; [reflexivity|]. rewrite IH. reflexivity.
Qed.

Lemma iset_existing_shape : forall q v g, singles g = true -> map shape (iset_existing q v g) = map shape g.
Proof.
  intros q v. induction g as [|[ks t] r IH]; intros S; [reflexivity|].
  simpl in S. apply andb_true_iff in S. destruct S as [Sk Sr].
  destruct ks as [|k [|k2 ks]]; try discriminate.
  cbn [iset_existing]. rewrite mem_single. destruct (Nat.eqb q k) eqn:E.
  - apply Nat.eqb_eq in E. subst k. rewrite remove_p_self. reflexivity.
  - cbn [map]. rewrite (IH Sr). reflexivity.
Qed.

(* appending a tree for a particle the cell holds nothing for *)
Lemma mem_ikeys_app_l : forall o g h, mem o (ikeys g) = true -> mem o (ikeys (g ++ h)) = true.
Proof. intros. rewrite ikeys_app, mem_app, H. reflexivity. Qed.

Lemma parts_of_app_key : forall o g h, mem o (ikeys g) = true -> parts_of o (g ++ h) = parts_of o g.
Proof.
  intros o g h H. unfold parts_of. rewrite ifind_app. apply ifind_key in H. destruct H as [t Ht]. rewrite Ht. reflexivity.
Qed.

Lemma append_fresh_parts_ok : forall g q v, imp_parts_ok g = true -> mem q (ikeys g) = false ->
  imp_parts_ok (g ++ [([q], mkT v [q] [q])]) = true.
Proof.
  intros g q v H Hq. unfold imp_parts_ok in *. apply andb_true_iff in H. destruct H as [Hn Hg].
  rewrite ikeys_app, ikeys_single. rewrite (nodup_p_snoc _ _ Hn Hq). simpl.
  rewrite forallb_app. apply andb_true_iff. split.
  - rewrite forallb_forall in *. intros gr Hin. specialize (Hg gr Hin).
    unfold group_ok in *. apply andb_true_iff in Hg. destruct Hg as [H1 H2]. rewrite H1. simpl.
    rewrite forallb_forall in *. intros o Ho. specialize (H2 o Ho).
    apply andb_true_iff in H2. destruct H2 as [A B].
    rewrite (mem_ikeys_app_l o g _ A). simpl. rewrite (parts_of_app_key o g _ A). exact B.
  - cbn [forallb]. rewrite andb_true_r. unfold group_ok. simpl. rewrite Nat.eqb_refl. simpl.
    rewrite andb_true_r.
    assert (K : mem q (ikeys (g ++ [([q], mkT v [q] [q])])) = true).
    { rewrite ikeys_app, ikeys_single, mem_app, mem_single, Nat.eqb_refl. apply orb_true_r. }
    rewrite K. simpl.
    unfold parts_of. rewrite ifind_app.
    destruct (ifind q g) eqn:Ef.
    + assert (mem q (ikeys g) = true) by (apply ifind_key; eauto). congruence.
    + cbn [ifind]. rewrite mem_single, Nat.eqb_refl. unfold seteq, subset. simpl. rewrite Nat.eqb_refl. reflexivity.
Qed.

Lemma append_fresh_keys_ok : forall mode g q v, imp_keys_ok mode g = true ->
  imp_keys_ok mode (g ++ [([q], mkT v [q] [q])]) = true.
Proof.
  intros mode g q v H. unfold imp_keys_ok in *. rewrite forallb_app, H. simpl.
  rewrite orb_false_r, andb_true_r. unfold subset. simpl. destruct (mem q mode); reflexivity.
Qed.

Lemma iset_singles_struct : forall l m mode q v g, singles g = true ->
  imp_parts_ok g = true -> imp_keys_ok mode g = true ->
  singles (iset l m q v g) = true /\ imp_parts_ok (iset l m q v g) = true /\ imp_keys_ok mode (iset l m q v g) = true.
Proof.
  intros l m mode q v g S P K. unfold iset. destruct (mem q (ikeys g)) eqn:Ek.
  - pose proof (iset_existing_shape q v g S) as Sh.
    rewrite (shape_singles _ _ Sh), (shape_imp_parts_ok _ _ Sh), (shape_imp_keys_ok mode _ _ Sh). auto.
  - split; [|split].
    + unfold singles in *. rewrite forallb_app, S. reflexivity.
    + apply append_fresh_parts_ok; auto.
    + apply append_fresh_keys_ok; auto.
Qed.

Lemma iset_all_singles_struct : forall mode' mode v g, singles g = true ->
  imp_parts_ok g = true -> imp_keys_ok mode g = true ->
  singles (iset_all mode' v g) = true /\ imp_parts_ok (iset_all mode' v g) = true /\ imp_keys_ok mode (iset_all mode' v g) = true.
Proof.
  intros mode' mode v. unfold iset_all. induction mode' as [|q r IH]; simpl; intros g S P K; auto.
  destruct (mem q (ikeys g)) eqn:Ek.
  - pose proof (iupd_shape q v g) as Sh. apply IH.
    + rewrite (shape_singles _ _ Sh). exact S.
    + rewrite (shape_imp_parts_ok _ _ Sh). exact P.
    + rewrite (shape_imp_keys_ok mode _ _ Sh). exact K.
  - apply IH.
    + unfold singles in *. rewrite forallb_app, S. reflexivity.
    + apply append_fresh_parts_ok; auto.
    + apply append_fresh_keys_ok; auto.
Qed.

(* --- _unshare_tree keeps the partition condition *)

Lemma mem_remove_p : forall o q l, mem o (remove_p q l) = andb (mem o l) (negb (Nat.eqb o q)).
Proof.
  intros o q. induction l as [|x r IH]; simpl; auto.
  destruct (Nat.eqb x q) eqn:E; simpl.
  - rewrite IH. apply Nat.eqb_eq in E. subst x. destruct (Nat.eqb o q) eqn:E2; simpl.
    + rewrite andb_false_r. reflexivity.
    + reflexivity.
  - rewrite IH. destruct (Nat.eqb o x) eqn:E2; simpl; auto.
    apply Nat.eqb_eq in E2. subst x. rewrite E. reflexivity.
Qed.

Definition unshared (q : particle) (v : Z) (ks : list particle) (t : itree) : list igroup :=
  match remove_p q ks with
  | [] => [(ks, mkT v (t_parts t) (t_order t))]
  | ks' => [([q], mkT v [q] [q]); (ks', mkT (t_val t) (remove_p q (t_parts t)) (remove_p q (t_order t)))]
  end.

Lemma iset_existing_decomp : forall q v g, mem q (ikeys g) = true ->
  exists pre ks t post, g = pre ++ (ks, t) :: post /\ mem q ks = true /\ mem q (ikeys pre) = false /\
    iset_existing q v g = pre ++ unshared q v ks t ++ post.
Proof.
  intros q v. induction g as [|[ks t] r IH]; intros H; [discriminate|].
  rewrite ikeys_cons, mem_app in H. cbn [iset_existing].
  destruct (mem q ks) eqn:E.
  - exists [], ks, t, r. repeat split; auto. unfold unshared. simpl. destruct (remove_p q ks); reflexivity.
  - simpl in H. destruct (IH H) as [pre [ks0 [t0 [post [A [B [C D]]]]]]].
    exists ((ks, t) :: pre), ks0, t0, post. repeat split; auto.
    + rewrite A. reflexivity.
    + rewrite ikeys_cons, mem_app, E, C. reflexivity.
    + rewrite D. reflexivity.
Qed.

Lemma remove_p_notin : forall q l, ~ In q l -> remove_p q l = l.
Proof.
  intros q. induction l as [|x r IH]; simpl; intros N; auto.
  destruct (Nat.eqb x q) eqn:E.
  - apply Nat.eqb_eq in E. subst x. exfalso. apply N. auto.
  - simpl. rewrite IH; auto.
Qed.

Lemma perm_remove_p : forall q l, NoDup l -> In q l -> Permutation l (q :: remove_p q l).
Proof.
  intros q. induction l as [|x r IH]; intros ND Hin; [contradiction|].
  inversion ND; subst. simpl. destruct (Nat.eqb x q) eqn:E.
  - apply Nat.eqb_eq in E. subst x. simpl. rewrite remove_p_notin; auto.
  - simpl. destruct Hin as [->|Hin]; [rewrite Nat.eqb_refl in E; discriminate|].
    eapply perm_trans; [apply perm_skip; apply IH; auto|]. apply perm_swap.
Qed.

Lemma NoDup_app_parts : forall {A} (a b : list A), NoDup (a ++ b) -> NoDup a /\ NoDup b.
Proof.
  induction a as [|x r IH]; simpl; intros b H.
  - split; [constructor|exact H].
  - inversion H; subst. destruct (IH b H3) as [A1 B1]. split; auto.
    constructor; auto. intro I. apply H2. apply in_or_app. auto.
Qed.

Lemma nodup_split : forall a ks b q, nodup_p (a ++ ks ++ b) = true -> mem q ks = true ->
  nodup_p (a ++ (q :: remove_p q ks) ++ b) = true.
Proof.
  intros a ks b q H Hq. apply nodup_p_NoDup. apply nodup_p_NoDup in H. apply mem_In in Hq.
  assert (NDks : NoDup ks).
  { destruct (NoDup_app_parts _ _ H) as [_ X]. destruct (NoDup_app_parts _ _ X) as [Y _]. exact Y. }
  eapply Permutation_NoDup; [|exact H].
  apply Permutation_app_head. apply Permutation_app_tail. apply perm_remove_p; auto.
Qed.

Lemma nodup_app_disjoint : forall a b x, nodup_p (a ++ b) = true -> In x a -> In x b -> False.
Proof.
  intros a b x H Ha Hb. apply nodup_p_NoDup in H. revert H Ha. induction a as [|y r IH]; simpl; intros H Ha; [contradiction|].
  inversion H; subst. destruct Ha as [->|Ha].
  - apply H2. apply in_or_app. auto.
  - apply IH; auto.
Qed.

Lemma parts_of_app : forall o a b,
  parts_of o (a ++ b) = if mem o (ikeys a) then parts_of o a else parts_of o b.
Proof.
  intros o a b. unfold parts_of. rewrite ifind_app. destruct (mem o (ikeys a)) eqn:E.
  - apply ifind_key in E. destruct E as [t Ht]. rewrite Ht. reflexivity.
  - destruct (ifind o a) eqn:F; auto. assert (mem o (ikeys a) = true) by (apply ifind_key; eauto). congruence.
Qed.

Lemma In_group_keys : forall (gr : igroup) l k, In gr l -> In k (fst gr) -> In k (ikeys l).
Proof. intros gr l k H Hk. unfold ikeys. apply in_flat_map. exists gr. auto. Qed.

Lemma kind_ok_many : forall ks t q, group_kind_ok (ks, t) = true -> mem q ks = true -> remove_p q ks <> [] ->
  subset (t_parts t) ks = true.
Proof.
  intros ks t q K Hq Hne. unfold group_kind_ok in K. simpl in K. destruct ks as [|a [|b r]].
  - discriminate.
  - exfalso. apply Hne. rewrite mem_single in Hq. apply Nat.eqb_eq in Hq. subst a. apply remove_p_self.
  - exact K.
Qed.

Lemma kind_ok_intro : forall l t, l <> [] -> (forall o, In o (t_parts t) -> In o l) -> group_kind_ok (l, t) = true.
Proof.
  intros l t N H. unfold group_kind_ok. simpl.
  destruct l as [|a [|b r]]; [exfalso; apply N; reflexivity|reflexivity|apply subset_In; exact H].
Qed.

Section Unshare.
Variables (q : particle) (v : Z) (pre post : list igroup) (ks : list particle) (t : itree).
Let g := pre ++ (ks, t) :: post.
Let ks' := remove_p q ks.
Let A : igroup := ([q], mkT v [q] [q]).
Let B : igroup := (ks', mkT (t_val t) (remove_p q (t_parts t)) (remove_p q (t_order t))).
Let g' := pre ++ A :: B :: post.
Hypothesis Hq : mem q ks = true.
Hypothesis Hpre : mem q (ikeys pre) = false.
Hypothesis Hne : ks' <> [].
Hypothesis HP : imp_parts_ok g = true.
Hypothesis HK : forallb group_kind_ok g = true.

Lemma u_keys_g : ikeys g = ikeys pre ++ ks ++ ikeys post.
Proof. unfold g. rewrite ikeys_app, ikeys_cons. reflexivity. Qed.

Lemma u_keys_g' : ikeys g' = ikeys pre ++ (q :: ks') ++ ikeys post.
Proof. unfold g', A, B. rewrite ikeys_app, !ikeys_cons. simpl. reflexivity. Qed.

Lemma u_mem_ks' : forall o, mem o ks' = andb (mem o ks) (negb (Nat.eqb o q)).
Proof. intro o. unfold ks'. apply mem_remove_p. Qed.

Lemma u_mem_keys : forall o, mem o (ikeys g') = mem o (ikeys g).
Proof.
  intro o. rewrite u_keys_g', u_keys_g, !mem_app. simpl. rewrite u_mem_ks'.
  f_equal. f_equal. destruct (Nat.eqb o q) eqn:E; simpl.
  - apply Nat.eqb_eq in E. subst o. rewrite Hq. reflexivity.
  - rewrite andb_true_r. reflexivity.
Qed.

Lemma u_nodup_g : nodup_p (ikeys pre ++ ks ++ ikeys post) = true.
Proof. rewrite <- u_keys_g. unfold imp_parts_ok in HP. apply andb_true_iff in HP. apply HP. Qed.

Lemma u_nodup_g' : nodup_p (ikeys g') = true.
Proof. rewrite u_keys_g'. apply nodup_split; [apply u_nodup_g|exact Hq]. Qed.

Lemma u_gok : forall gr, In gr g -> group_ok g gr = true.
Proof.
  intros gr Hin. unfold imp_parts_ok in HP. apply andb_true_iff in HP. destruct HP as [_ H].
  rewrite forallb_forall in H. auto.
Qed.

Lemma u_in_g : In (ks, t) g.
Proof. unfold g. apply in_or_app. right. left. reflexivity. Qed.

Lemma u_pre_disjoint : forall o, In o (ikeys pre) -> In o ks -> False.
Proof.
  intros o H1 H2. pose proof u_nodup_g as N. eapply (nodup_app_disjoint (ikeys pre) (ks ++ ikeys post) o N H1).
  apply in_or_app. auto.
Qed.

Lemma u_post_disjoint : forall o, In o (ikeys post) -> In o ks -> False.
Proof.
  intros o H1 H2. pose proof u_nodup_g as N. apply nodup_p_NoDup in N.
  destruct (NoDup_app_parts _ _ N) as [_ N2]. apply nodup_p_NoDup in N2.
  eapply (nodup_app_disjoint ks (ikeys post) o N2); eauto.
Qed.

Lemma u_t : (forall o, In o ks -> In o (t_parts t)) /\ (forall o, In o (t_parts t) -> In o (t_order t)) /\
            (forall o, In o (t_parts t) -> In o ks).
Proof.
  pose proof (u_gok _ u_in_g) as G. unfold group_ok in G. simpl in G.
  apply andb_true_iff in G. destruct G as [G _]. apply andb_true_iff in G. destruct G as [G1 G2].
  rewrite subset_In in G1, G2. split; [exact G1|]. split; [exact G2|].
  pose proof HK as HK'. rewrite forallb_forall in HK'. pose proof (HK' _ u_in_g) as K.
  pose proof (kind_ok_many ks t q K Hq Hne) as S. rewrite subset_In in S. exact S.
Qed.

Lemma u_parts_of_g : forall o, parts_of o g =
  if mem o (ikeys pre) then parts_of o pre else if mem o ks then t_parts t else parts_of o post.
Proof.
  intro o. unfold g. rewrite parts_of_app. destruct (mem o (ikeys pre)); auto.
  change ((ks, t) :: post) with ([(ks, t)] ++ post). rewrite parts_of_app, ikeys_single.
  destruct (mem o ks) eqn:E; auto. unfold parts_of. simpl. rewrite E. reflexivity.
Qed.

Lemma u_parts_of_g' : forall o, parts_of o g' =
  if mem o (ikeys pre) then parts_of o pre
  else if Nat.eqb o q then [q]
  else if mem o ks then remove_p q (t_parts t) else parts_of o post.
Proof.
  intro o. unfold g'. rewrite parts_of_app. destruct (mem o (ikeys pre)); auto.
  change (A :: B :: post) with ([A] ++ [B] ++ post). rewrite parts_of_app. unfold A at 1. rewrite ikeys_single, mem_single.
  destruct (Nat.eqb o q) eqn:E.
  - unfold parts_of, A. simpl. rewrite E. reflexivity.
  - rewrite parts_of_app. unfold B at 1. rewrite ikeys_single, u_mem_ks', E, andb_true_r.
    destruct (mem o ks) eqn:E2; auto. unfold parts_of, B. simpl. rewrite u_mem_ks', E, E2. reflexivity.
Qed.

(* a group other than the one that is split names no particle of the split group *)
Lemma u_other : forall gr, In gr pre \/ In gr post -> forall o, In o (t_parts (snd gr)) -> mem o ks = false.
Proof.
  intros gr Hgr o Ho. destruct (mem o ks) eqn:E; auto. exfalso. apply mem_In in E.
  assert (Hin : In gr g). { unfold g. apply in_or_app. destruct Hgr; [left|right; right]; auto. }
  pose proof (u_gok gr Hin) as G. unfold group_ok in G.
  apply andb_true_iff in G. destruct G as [G G3]. apply andb_true_iff in G. destruct G as [G1 _].
  rewrite subset_In in G1. rewrite forallb_forall in G3. specialize (G3 o Ho).
  apply andb_true_iff in G3. destruct G3 as [_ G3]. unfold seteq in G3. apply andb_true_iff in G3. destruct G3 as [S1 S2].
  rewrite subset_In in S1, S2.
  destruct (mem o (ikeys pre)) eqn:Ep.
  - apply mem_In in Ep. eapply u_pre_disjoint; eauto.
  - (* parts_of o g = t_parts t *)
    rewrite u_parts_of_g, Ep in S1, S2. assert (Em : mem o ks = true) by (apply mem_In; exact E). rewrite Em in S1, S2.
    (* a key of gr is a key of the split group too *)
    pose proof HK as HK'. rewrite forallb_forall in HK'. pose proof (HK' gr Hin) as K. unfold group_kind_ok in K.
    destruct (fst gr) as [|k r] eqn:Ek; [discriminate|].
    assert (Hk : In k (fst gr)) by (rewrite Ek; left; reflexivity).
    assert (Hkt : In k ks). { apply u_t. apply S2. apply G1. left. reflexivity. }
    destruct Hgr as [Hg|Hg].
    + eapply u_pre_disjoint; [eapply In_group_keys; eauto|exact Hkt].
    + eapply u_post_disjoint; [eapply In_group_keys; eauto|exact Hkt].
Qed.

Lemma u_gok_other : forall gr, In gr pre \/ In gr post -> group_ok g' gr = true.
Proof.
  intros gr Hgr.
  assert (Hin : In gr g). { unfold g. apply in_or_app. destruct Hgr; [left|right; right]; auto. }
  pose proof (u_gok gr Hin) as G. unfold group_ok in *.
  apply andb_true_iff in G. destruct G as [G G3]. rewrite G. simpl.
  apply forallb_forall. intros o Ho. rewrite forallb_forall in G3. specialize (G3 o Ho). rewrite u_mem_keys.
  apply andb_true_iff in G3. destruct G3 as [G31 G32]. rewrite G31. simpl.
  pose proof (u_other gr Hgr o Ho) as N.
  assert (Nq : Nat.eqb o q = false).
  { destruct (Nat.eqb o q) eqn:E; auto. apply Nat.eqb_eq in E. subst o. congruence. }
  rewrite u_parts_of_g', Nq, N. rewrite u_parts_of_g, N in G32. exact G32.
Qed.

Lemma u_gok_A : group_ok g' A = true.
Proof.
  unfold group_ok, A. simpl. rewrite Nat.eqb_refl. simpl. rewrite andb_true_r.
  assert (K : mem q (ikeys g') = true).
  { rewrite u_keys_g', !mem_app. simpl. rewrite Nat.eqb_refl. simpl. apply orb_true_r. }
  rewrite K. simpl. rewrite u_parts_of_g', Hpre, Nat.eqb_refl. unfold seteq, subset. simpl. rewrite Nat.eqb_refl. reflexivity.
Qed.

Lemma u_gok_B : group_ok g' B = true.
Proof.
  destruct u_t as [T1 [T2 T3]].
  unfold group_ok, B. simpl. apply andb_true_iff. split; [apply andb_true_iff; split|].
  - apply subset_In. intros o Ho. unfold ks' in Ho. apply In_remove_p in Ho. apply In_remove_p. split; [apply T1|]; tauto.
  - apply subset_In. intros o Ho. apply In_remove_p in Ho. apply In_remove_p. split; [apply T2|]; tauto.
  - apply forallb_forall. intros o Ho. apply In_remove_p in Ho. destruct Ho as [Ho No].
    assert (Hk : In o ks) by (apply T3; exact Ho).
    assert (Ek : mem o ks = true) by (apply mem_In; exact Hk).
    assert (Eq : Nat.eqb o q = false) by (apply Nat.eqb_neq; exact No).
    assert (Ep : mem o (ikeys pre) = false).
    { destruct (mem o (ikeys pre)) eqn:E; auto. apply mem_In in E. exfalso. eapply u_pre_disjoint; eauto. }
    rewrite u_mem_keys, u_keys_g, !mem_app, Ek, orb_true_r. simpl.
    rewrite u_parts_of_g', Ep, Eq, Ek. unfold seteq. rewrite andb_diag. apply subset_In. auto.
Qed.

Theorem unshare_parts_ok : imp_parts_ok g' = true.
Proof.
  unfold imp_parts_ok. rewrite u_nodup_g'. simpl.
  unfold g'. rewrite forallb_app. cbn [forallb].
  change (pre ++ A :: B :: post) with g'. rewrite u_gok_A, u_gok_B. simpl.
  apply andb_true_iff. split; apply forallb_forall; intros gr Hin; apply u_gok_other; auto.
Qed.

Theorem unshare_kind_ok : forallb group_kind_ok g' = true.
Proof.
  destruct u_t as [T1 [T2 T3]].
  pose proof HK as HK'. unfold g in HK'. rewrite forallb_app in HK'. cbn [forallb] in HK'.
  apply andb_true_iff in HK'. destruct HK' as [K1 K2]. apply andb_true_iff in K2. destruct K2 as [_ K3].
  unfold g'. rewrite forallb_app. cbn [forallb]. rewrite K1, K3. simpl. rewrite andb_true_r.
  unfold A, B.
  apply kind_ok_intro; [exact Hne|]. simpl. intros o Ho. apply In_remove_p in Ho. destruct Ho as [Ho No].
  unfold ks'. apply In_remove_p. split; auto.
Qed.

Theorem unshare_keys_ok : forall mode, imp_keys_ok mode g = true -> imp_keys_ok mode g' = true.
Proof.
  intros mode H. unfold imp_keys_ok in *. unfold g in H. rewrite forallb_app in H. cbn [forallb] in H.
  apply andb_true_iff in H. destruct H as [H1 H2]. apply andb_true_iff in H2. destruct H2 as [Ht H3].
  unfold g'. rewrite forallb_app. cbn [forallb]. rewrite H1, H3. simpl. rewrite andb_true_r.
  apply andb_true_iff. split.
  - unfold A. simpl. rewrite orb_false_r. unfold subset. simpl. destruct (mem q mode); reflexivity.
  - unfold B. simpl. rewrite andb_true_r. simpl in Ht. apply orb_true_iff in Ht. apply orb_true_iff.
    destruct (existsb (fun q0 => mem q0 mode) ks') eqn:E; [right|left; reflexivity].
    destruct Ht as [Ht|Ht].
    + apply negb_true_iff in Ht. apply existsb_exists in E. destruct E as [x [Hx Hm]].
      assert (existsb (fun q0 => mem q0 mode) ks = true).
      { apply existsb_exists. exists x. split; auto. unfold ks' in Hx. apply In_remove_p in Hx. tauto. }
      congruence.
    + rewrite subset_In in Ht. apply subset_In. intros o Ho. apply In_remove_p in Ho. apply Ht. tauto.
Qed.
End Unshare.

Lemma shape_kind_ok : forall g g', map shape g = map shape g' -> forallb group_kind_ok g = forallb group_kind_ok g'.
Proof.
  induction g as [|[ks t] r IH]; intros [|[ks' t'] r'] H; simpl in H; try discriminate; auto.
  inversion H. subst. simpl. unfold group_kind_ok at 1 3. simpl. rewrite H2. f_equal. apply IH. assumption.
Qed.

Lemma map_shape_app : forall a b, map shape (a ++ b) = map shape a ++ map shape b.
Proof. intros. apply map_app. Qed.

(* importance.<particle> = v on a particle that has a tree keeps the structure, shared tree or not *)
Lemma iset_existing_struct : forall mode q v g,
  imp_parts_ok g = true -> forallb group_kind_ok g = true -> imp_keys_ok mode g = true ->
  mem q (ikeys g) = true ->
  imp_parts_ok (iset_existing q v g) = true /\ forallb group_kind_ok (iset_existing q v g) = true /\
  imp_keys_ok mode (iset_existing q v g) = true.
Proof.
  intros mode q v g HP HK HM Hq.
  destruct (iset_existing_decomp q v g Hq) as [pre [ks [t [post [Eg [Hk [Hpre Er]]]]]]].
  destruct (remove_p q ks) as [|k1 kr] eqn:Ek.
  - assert (Sh : map shape (iset_existing q v g) = map shape g).
    { rewrite Er. unfold unshared. rewrite Ek, Eg, !map_shape_app. reflexivity. }
    rewrite (shape_imp_parts_ok _ _ Sh), (shape_kind_ok _ _ Sh), (shape_imp_keys_ok mode _ _ Sh). auto.
  - assert (Hne : remove_p q ks <> []) by (rewrite Ek; discriminate).
    assert (Eu : iset_existing q v g =
                 pre ++ ([q], mkT v [q] [q])
                        :: (remove_p q ks, mkT (t_val t) (remove_p q (t_parts t)) (remove_p q (t_order t))) :: post).
    { rewrite Er. unfold unshared. rewrite Ek. reflexivity. }
    rewrite Eu. subst g.
    split; [|split].
    + apply unshare_parts_ok; auto.
    + apply unshare_kind_ok; auto.
    + apply unshare_keys_ok; auto.
Qed.

Lemma append_fresh_kind_ok : forall g q v, forallb group_kind_ok g = true ->
  forallb group_kind_ok (g ++ [([q], mkT v [q] [q])]) = true.
Proof. intros. rewrite forallb_app, H. reflexivity. Qed.

Lemma iset_struct : forall l m mode q v g,
  imp_parts_ok g = true -> forallb group_kind_ok g = true -> imp_keys_ok mode g = true ->
  imp_parts_ok (iset l m q v g) = true /\ forallb group_kind_ok (iset l m q v g) = true /\
  imp_keys_ok mode (iset l m q v g) = true.
Proof.
  intros l m mode q v g HP HK HM. unfold iset. destruct (mem q (ikeys g)) eqn:Ek.
  - apply iset_existing_struct; auto.
  - split; [|split].
    + apply append_fresh_parts_ok; auto.
    + apply append_fresh_kind_ok; auto.
    + apply append_fresh_keys_ok; auto.
Qed.

Lemma iset_all_struct : forall mode' mode v g,
  imp_parts_ok g = true -> forallb group_kind_ok g = true -> imp_keys_ok mode g = true ->
  imp_parts_ok (iset_all mode' v g) = true /\ forallb group_kind_ok (iset_all mode' v g) = true /\
  imp_keys_ok mode (iset_all mode' v g) = true.
Proof.
  intros mode' mode v. unfold iset_all. induction mode' as [|q r IH]; simpl; intros g HP HK HM; auto.
  destruct (mem q (ikeys g)) eqn:Ek.
  - pose proof (iupd_shape q v g) as Sh. apply IH.
    + rewrite (shape_imp_parts_ok _ _ Sh). exact HP.
    + rewrite (shape_kind_ok _ _ Sh). exact HK.
    + rewrite (shape_imp_keys_ok mode _ _ Sh). exact HM.
  - apply IH.
    + apply append_fresh_parts_ok; auto.
    + apply append_fresh_kind_ok; auto.
    + apply append_fresh_keys_ok; auto.
Qed.

Lemma plain_kind_ok : forall g, forallb plain_group g = true -> forallb group_kind_ok g = true.
Proof.
  intros g H. apply forallb_forall. intros gr Hin. rewrite forallb_forall in H.
  destruct (plain_group_inv _ (H gr Hin)) as [k [v ->]]. reflexivity.
Qed.


Definition target_cond (P : list igroup -> bool) (s : state) (t : target) : bool :=
  match t with
  | TScratch => match s_scratch s with Some (c, _) => P (c_imp c) | None => true end
  | TCell n => match find_cell n (s_cells s) with Some c => P (c_imp c) | None => true end
  end.

(* the one restriction: an importance is deleted (del cell.importance.<particle>) only on a cell whose trees are
   plain, i.e. each labelled with its own particle only (a cell made by Cell(), a cell fed by one-particle data
   cards); deleting a particle that shares a tree or whose tree names other particles leaves a stale classifier
   entry, which the proof does not follow.  Every other statement is unrestricted, importance.<particle> = v
   (with _unshare_tree) and importance.all = v included. *)
Definition safe_op (s : state) (o : op) : bool :=
  match o with
  | ODelImp t _ => target_cond plainok s t
  | _ => true
  end.
Fixpoint all_safe (s : state) (ops : list op) : bool :=
  match ops with
  | [] => true
  | o :: r => andb (safe_op s o) (all_safe (do_op s o) r)
  end.

Lemma plainok_struct_ok : forall mode c, plainok (c_imp c) = true -> struct_ok mode c = true.
Proof.
  intros mode c H. unfold struct_ok. destruct (plainok_struct mode _ H) as [A B]. rewrite A, B.
  unfold plainok in H. apply andb_true_iff in H. destruct H as [H _]. rewrite (plain_kind_ok _ H). reflexivity.
Qed.

Lemma struct_ok_same_imp : forall mode c c', c_imp c' = c_imp c -> struct_ok mode c' = struct_ok mode c.
Proof. intros mode c c' H. unfold struct_ok. rewrite H. reflexivity. Qed.

Lemma upd_cell_forallb : forall (P : cell -> bool) n c' l,
  forallb P l = true -> P c' = true -> forallb P (upd_cell n (fun _ => c') l) = true.
Proof.
  intros P n c'. induction l as [|x r IH]; simpl; intros H Hc; auto.
  apply andb_true_iff in H. destruct H as [Hx Hr].
  destruct (Z.eqb (c_num x) n); simpl.
  - rewrite Hc, Hr. reflexivity.
  - rewrite Hx, IH; auto.
Qed.

Lemma forallb_In : forall {A} (P : A -> bool) l x, forallb P l = true -> In x l -> P x = true.
Proof. intros A P l x H Hin. rewrite forallb_forall in H. auto. Qed.

(* an edit keeps struct_ok, given that the cell is plain when the edit touches the importance *)
Definition edit_keeps (e : edit) (P : list igroup -> bool) : Prop :=
  forall l mode c c', e l mode c = Ok c' -> struct_ok mode c = true -> P (c_imp c) = true -> struct_ok mode c' = true.

Lemma apply_edit_sstruct : forall s t e s' P, edit_keeps e P ->
  target_cond P s t = true ->
  apply_edit s t e = Ok s' -> sstruct s = true -> sstruct s' = true.
Proof.
  intros s t e s' P He Hp H S. unfold sstruct in *. apply andb_true_iff in S. destruct S as [Sc Ss].
  unfold apply_edit in H. destruct t as [|n].
  - destruct (s_scratch s) as [[c l]|] eqn:Es; try discriminate.
    destruct (e l (s_mode s) c) as [c'|] eqn:Ee; try discriminate. inversion H; subst; clear H. simpl.
    rewrite Sc. simpl. eapply He; eauto. simpl in Hp. rewrite Es in Hp. exact Hp.
  - destruct (find_cell n (s_cells s)) as [c|] eqn:Ef; try discriminate.
    destruct (e true (s_mode s) c) as [c'|] eqn:Ee; try discriminate. inversion H; subst; clear H. simpl.
    rewrite Ss, andb_true_r. apply upd_cell_forallb; auto.
    eapply He; eauto.
    + eapply forallb_In; eauto. eapply find_cell_In; eauto.
    + simpl in Hp. rewrite Ef in Hp. exact Hp.
Qed.

Lemma keeps_set_imp : forall q v, edit_keeps (e_set_imp q v) (fun _ => true).
Proof.
  intros q v l mode c c' H S _. unfold e_set_imp in H. destruct (andb l (negb (mem q mode))); inversion H.
  unfold struct_ok in *. apply andb_true_iff in S. destruct S as [S1 S2]. apply andb_true_iff in S2. destruct S2 as [S2 S3].
  simpl. destruct (iset_struct l mode mode q v (c_imp c) S1 S2 S3) as [A [B C]]. rewrite A, B, C. reflexivity.
Qed.
Lemma keeps_del_imp : forall q, edit_keeps (e_del_imp q) plainok.
Proof.
  intros q l mode c c' H _ Hp. unfold e_del_imp in H. destruct (mem q (ikeys (c_imp c))); inversion H.
  apply plainok_struct_ok. simpl. apply idel_plainok. auto.
Qed.
Lemma keeps_set_all : forall v, edit_keeps (e_set_all v) (fun _ => true).
Proof.
  intros v l mode c c' H S _. unfold e_set_all in H. destruct l; inversion H; subst; auto.
  unfold struct_ok in *. apply andb_true_iff in S. destruct S as [S1 S2]. apply andb_true_iff in S2. destruct S2 as [S2 S3].
  simpl. destruct (iset_all_struct mode mode v (c_imp c) S1 S2 S3) as [A [B C]]. rewrite A, B, C. reflexivity.
Qed.
Lemma keeps_other : forall (e : edit),
  (forall l mode c c', e l mode c = Ok c' -> c_imp c' = c_imp c) -> edit_keeps e (fun _ => true).
Proof.
  intros e H l mode c c' He S _. rewrite (struct_ok_same_imp mode c c'); auto. eapply H; eauto.
Qed.

Lemma do_op_sstruct : forall s o, sstruct s = true -> safe_op s o = true -> sstruct (do_op s o) = true.
Proof.
  intros s o S Hs. unfold do_op. destruct (step_op s o) as [s'|] eqn:E; auto.
  destruct o; simpl in E; simpl in Hs.
  - (* flip *) inversion E; subst. exact S.
  - (* new *) inversion E; subst. unfold sstruct in *. simpl. apply andb_true_iff in S. destruct S as [Sc _].
    rewrite Sc. simpl. apply plainok_struct_ok. reflexivity.
  - (* copy *) destruct (find_cell src (s_cells s)) as [c|] eqn:Ef; try discriminate.
    destruct (zmem n (numbers (s_cells s))); inversion E; subst. unfold sstruct in *. simpl.
    apply andb_true_iff in S. destruct S as [Sc _]. rewrite Sc. simpl.
    rewrite (struct_ok_same_imp (s_mode s) c (set_num c n)) by reflexivity.
    eapply forallb_In; eauto. eapply find_cell_In; eauto.
  - (* append *) destruct (s_scratch s) as [[c l]|] eqn:Es; try discriminate.
    destruct (zmem (c_num c) (numbers (s_cells s))); inversion E; subst. unfold sstruct in *. simpl.
    rewrite Es in S. apply andb_true_iff in S. destruct S as [Sc Ss].
    rewrite forallb_app, Sc. simpl. rewrite Ss. reflexivity.
  - (* remove *) destruct (find_cell n (s_cells s)); inversion E; subst. unfold sstruct in *. simpl.
    apply andb_true_iff in S. destruct S as [Sc Ss]. rewrite Ss, andb_true_r.
    apply forallb_forall. intros x Hx. apply filter_In in Hx. eapply forallb_In; eauto. tauto.
  - (* reorder *) destruct (pick_cells ns (s_cells s)) as [cs|] eqn:Ep; try discriminate.
    destruct (nodupb ns); inversion E; subst. unfold sstruct in *. simpl.
    apply andb_true_iff in S. destruct S as [Sc Ss]. rewrite Ss, andb_true_r.
    apply forallb_forall. intros x Hx. eapply forallb_In; eauto. eapply pick_cells_In; eauto.
  - eapply (apply_edit_sstruct s t _ s' (fun _ => true) (keeps_set_imp q v)); eauto.
    destruct t; simpl; [destruct (s_scratch s) as [[? ?]|]|destruct (find_cell n (s_cells s))]; reflexivity.
  - eapply (apply_edit_sstruct s t _ s' plainok (keeps_del_imp q)); eauto.
  - eapply (apply_edit_sstruct s t _ s' (fun _ => true) (keeps_set_all v)); eauto.
    destruct t; simpl; [destruct (s_scratch s) as [[? ?]|]|destruct (find_cell n (s_cells s))]; reflexivity.
  - eapply (apply_edit_sstruct s t _ s' (fun _ => true)); eauto; [apply keeps_other|destruct t; simpl; [destruct (s_scratch s) as [[? ?]|]|destruct (find_cell n (s_cells s))]; reflexivity].
    intros l mode c c' H. unfold e_set_vol in H. inversion H. reflexivity.
  - eapply (apply_edit_sstruct s t _ s' (fun _ => true)); eauto; [apply keeps_other|destruct t; simpl; [destruct (s_scratch s) as [[? ?]|]|destruct (find_cell n (s_cells s))]; reflexivity].
    intros l mode c c' H. unfold e_del_vol in H. inversion H. reflexivity.
  - eapply (apply_edit_sstruct s t _ s' (fun _ => true)); eauto; [apply keeps_other|destruct t; simpl; [destruct (s_scratch s) as [[? ?]|]|destruct (find_cell n (s_cells s))]; reflexivity].
    intros l mode c c' H. unfold e_set_u in H. inversion H. reflexivity.
  - eapply (apply_edit_sstruct s t _ s' (fun _ => true)); eauto; [apply keeps_other|destruct t; simpl; [destruct (s_scratch s) as [[? ?]|]|destruct (find_cell n (s_cells s))]; reflexivity].
    intros l mode c c' H. unfold e_set_lat in H. inversion H. reflexivity.
  - eapply (apply_edit_sstruct s t _ s' (fun _ => true)); eauto; [apply keeps_other|destruct t; simpl; [destruct (s_scratch s) as [[? ?]|]|destruct (find_cell n (s_cells s))]; reflexivity].
    intros l mode c c' H. unfold e_set_fill in H. inversion H. reflexivity.
Qed.

Theorem run_ops_sstruct : forall ops s, sstruct s = true -> all_safe s ops = true -> sstruct (run_ops s ops) = true.
Proof.
  unfold run_ops. induction ops as [|o r IH]; simpl; intros s S A; auto.
  apply andb_true_iff in A. destruct A as [A1 A2]. apply IH; auto. apply do_op_sstruct; auto.
Qed.

Lemma sstruct_clean : forall s, sstruct s = true -> imp_data_ok s = true -> fill_ok s = true -> clean s = true.
Proof.
  intros s S D F. unfold clean. rewrite D, F, !andb_true_r.
  unfold imp_cell_ok. apply orb_true_iff. right. unfold sstruct in S. apply andb_true_iff in S. destruct S as [Sc _].
  apply forallb_forall. intros c Hin. pose proof (forallb_In _ _ _ Sc Hin) as X. unfold struct_ok in X.
  apply andb_true_iff in X. destruct X as [X1 X2]. apply andb_true_iff in X2. destruct X2 as [_ X3].
  rewrite X1, X3. reflexivity.
Qed.

(* histories with every kind of statement: unless an importance is deleted on a cell with shared or jointly
   labelled trees, the final state is written exactly once whenever MontePy does not refuse it *)
Theorem safe_history : forall s ops, wf s -> sstruct s = true -> all_safe s ops = true ->
  imp_data_ok (run_ops s ops) = true -> fill_ok (run_ops s ops) = true -> exactly_once (run_ops s ops).
Proof.
  intros s ops Hwf S A D F. apply exactly_once_clean.
  - apply run_ops_wf. exact Hwf.
  - apply sstruct_clean; auto. apply run_ops_sstruct; auto.
Qed.
