(* IsoProofs.v — proofs about Model/Iso.v (C17). *)
From Coq Require Import List String Ascii ZArith Bool Lia.
From MPV Require Import Model.Wire Model.Iso.
Import ListNotations.
Open Scope string_scope.
Open Scope list_scope.

(* ------------------------------------------------------------------------------------------ *)
(* global store: an entry whose rows are not dirty reads nothing                               *)
(* ------------------------------------------------------------------------------------------ *)
Fixpoint completes (rows : list row) (cut : option nat) : bool :=
  match rows with
  | [] => true
  | _ :: r => match cut with Some O => false | _ => completes r (option_map Nat.pred cut) end
  end.

Lemma exec_rows_clean : forall rows tok cut g acc,
  existsb row_dirty rows = false ->
  exists g', exec_rows rows tok cut g acc = (g', acc, completes rows cut).
Proof.
  induction rows as [|[[s f] w] r IH]; intros tok cut g acc H.
  - simpl. eauto.
  - simpl in H. apply orb_false_iff in H. destruct H as [H1 H2].
    unfold row_dirty in H1. simpl in H1.
    simpl. destruct cut as [[|k]|].
    + eauto.
    + destruct f; simpl in H1; try discriminate; apply IH; assumption.
    + destruct f; simpl in H1; try discriminate; apply IH; assumption.
Qed.

(* whatever earlier calls left in the store, an entry that kills before it reads reports the same *)
Lemma exec_rows_store_independent : forall rows tok cut g1 g2 acc,
  existsb row_dirty rows = false ->
  snd (fst (exec_rows rows tok cut g1 acc)) = snd (fst (exec_rows rows tok cut g2 acc))
  /\ snd (exec_rows rows tok cut g1 acc) = snd (exec_rows rows tok cut g2 acc).
Proof.
  intros. destruct (exec_rows_clean rows tok cut g1 acc H) as [a Ea].
  destruct (exec_rows_clean rows tok cut g2 acc H) as [b Eb].
  rewrite Ea, Eb. simpl. split; reflexivity.
Qed.

(* a dirty row does expose the residue (the condition of the theorem is necessary) *)
Lemma exec_rows_dirty_reads : forall s w tok g,
  snd (fst (exec_rows [(s, FDirty, w)] tok None g [])) = [sget g s].
Proof. intros. simpl. destruct w; reflexivity. Qed.

(* ------------------------------------------------------------------------------------------ *)
(* heap                                                                                        *)
(* ------------------------------------------------------------------------------------------ *)
Definition agree (A : pid -> bool) (h1 h2 : heap) : Prop := forall p, A p = true -> hget h1 p = hget h2 p.
Definition heap_closed (h : heap) : Prop := forall p pr, hget h p = Some pr -> problem_closed p pr = true.

Lemma hget_hset : forall h p v q, hget (hset h p v) q = if Nat.eqb p q then v else hget h q.
Proof. reflexivity. Qed.

Lemma agree_hset_both : forall A h1 h2 p v, agree A h1 h2 -> agree A (hset h1 p v) (hset h2 p v).
Proof.
  intros A h1 h2 p v H q Hq. rewrite !hget_hset. destruct (Nat.eqb p q); auto.
Qed.

Lemma agree_hset_left : forall A h1 h2 p v, A p = false -> agree A h1 h2 -> agree A (hset h1 p v) h2.
Proof.
  intros A h1 h2 p v Hp H q Hq. rewrite hget_hset. destruct (Nat.eqb p q) eqn:E.
  - apply Nat.eqb_eq in E. subst. congruence.
  - auto.
Qed.

Lemma closed_hset : forall h p v,
  heap_closed h -> (forall pr, v = Some pr -> problem_closed p pr = true) -> heap_closed (hset h p v).
Proof.
  intros h p v H Hv q pr. rewrite hget_hset. destruct (Nat.eqb p q) eqn:E.
  - apply Nat.eqb_eq in E. subst. intro. auto.
  - apply H.
Qed.

Lemma problem_closed_set_nth : forall p pr i f,
  problem_closed p pr = true ->
  (forall o, obj_closed p o = true -> obj_closed p (f o) = true) ->
  problem_closed p (set_nth pr i f) = true.
Proof.
  unfold problem_closed. induction pr as [|x r IH]; intros i f H Hf.
  - destruct i; reflexivity.
  - simpl in H. apply andb_true_iff in H. destruct H as [Hx Hr]. destruct i; simpl.
    + rewrite Hf; auto.
    + rewrite Hx. simpl. apply IH; auto.
Qed.

Lemma nth_error_closed : forall p pr i o,
  problem_closed p pr = true -> nth_error pr i = Some o -> obj_closed p o = true.
Proof.
  unfold problem_closed. intros p pr i o H E. rewrite forallb_forall in H. apply H.
  eapply nth_error_In; eauto.
Qed.

Lemma ptr_closed : forall p o k r, obj_closed p o = true -> nth_error (o_ptrs o) k = Some r -> fst r = p.
Proof.
  unfold obj_closed. intros p o k r H E. rewrite forallb_forall in H.
  apply Nat.eqb_eq. apply H. eapply nth_error_In; eauto.
Qed.

Lemma load_closed : forall p objs, problem_closed p (load_problem p objs) = true.
Proof.
  unfold problem_closed, load_problem. intros. rewrite forallb_forall. intros o Ho.
  apply in_map_iff in Ho. destruct Ho as [x [Hx _]]. subst o. unfold obj_closed. simpl.
  rewrite forallb_forall. intros r Hr. apply in_map_iff in Hr. destruct Hr as [j [Hj _]]. subst r. simpl.
  apply Nat.eqb_refl.
Qed.

Lemma copy_closed : forall src dst pr,
  problem_closed src pr = true -> problem_closed dst (copy_problem true src dst pr) = true.
Proof.
  unfold problem_closed, copy_problem. intros src dst pr H. rewrite forallb_forall in *. intros o Ho.
  apply in_map_iff in Ho. destruct Ho as [x [Hx Hin]]. subst o. unfold obj_closed. simpl.
  rewrite forallb_forall. intros r Hr. apply in_map_iff in Hr. destruct Hr as [r0 [Hr0 Hin0]]. subst r.
  specialize (H x Hin). unfold obj_closed in H. rewrite forallb_forall in H. specialize (H r0 Hin0).
  unfold remap. unfold ref, pid in *. rewrite H. simpl. apply Nat.eqb_refl.
Qed.

Lemma view_agree : forall h1 h2 g,
  hget h1 g = hget h2 g ->
  (forall pr, hget h1 g = Some pr -> problem_closed g pr = true) ->
  view h1 g = view h2 g.
Proof.
  intros h1 h2 g E C. unfold view. rewrite <- E. destruct (hget h1 g) as [pr|] eqn:G; [|reflexivity].
  simpl. f_equal. apply map_ext_in. intros o Ho. unfold view_obj. f_equal.
  apply map_ext_in. intros r Hr. unfold deref.
  assert (fst r = g) as F.
  { specialize (C pr eq_refl). unfold problem_closed in C. rewrite forallb_forall in C.
    specialize (C o Ho). unfold obj_closed in C. rewrite forallb_forall in C.
    apply Nat.eqb_eq. apply C. assumption. }
  rewrite F. rewrite <- E. rewrite G. reflexivity.
Qed.

(* ------------------------------------------------------------------------------------------ *)
(* generated setters                                                                           *)
(* ------------------------------------------------------------------------------------------ *)
Lemma accepts_nonlatching : forall T l1 l2 p sc vc g,
  find_prop T p = Some g -> g_latching g = false ->
  accepts T l1 p sc vc = accepts T l2 p sc vc.
Proof.
  intros. unfold accepts. rewrite H. unfold types_now. rewrite H0. reflexivity.
Qed.

Lemma accepts_unknown : forall T l1 l2 p sc vc,
  find_prop T p = None -> accepts T l1 p sc vc = accepts T l2 p sc vc.
Proof. intros. unfold accepts. rewrite H. reflexivity. Qed.

(* acceptance of a setter call does not depend on earlier calls — for declarations that do not latch *)
Theorem setter_history_free : forall T h1 h2 l p sc vc,
  (forall g, find_prop T p = Some g -> g_latching g = false) ->
  accepts T (after T l h1) p sc vc = accepts T (after T l h2) p sc vc.
Proof.
  intros. destruct (find_prop T p) as [g|] eqn:E.
  - eapply accepts_nonlatching; eauto.
  - apply accepts_unknown; assumption.
Qed.

(* a latching declaration refutes it, whatever the class table is: two classes foreign to each other *)
Definition fresh_name (C : list (string * list string)) (base : string) : string :=
  fold_right (fun x acc => (acc ++ "_" ++ fst x)%string) base C.

Lemma find_prop_name : forall T p g, find_prop T p = Some g -> g_name g = p.
Proof.
  intros T p g H. unfold find_prop in H. apply find_some in H. destruct H as [_ H].
  apply String.eqb_eq in H. assumption.
Qed.

Lemma assoc_anc_nil : forall C c, (forall x, In x C -> fst x <> c) -> assoc_anc C c = [].
Proof.
  induction C as [|[n a] r IH]; intros c H; simpl.
  - reflexivity.
  - destruct (String.eqb n c) eqn:E.
    + apply String.eqb_eq in E. exfalso. apply (H (n, a)). left; reflexivity. assumption.
    + apply IH. intros x Hx. apply H. right. assumption.
Qed.

Theorem latch_refutes : forall T g,
  find_prop T (g_name g) = Some g -> g_latching g = true ->
  assoc_anc (t_classes T) "C17_B" = [] ->
  accepts T (after T [] []) (g_name g) "C17_B" "C17_B" = true /\
  accepts T (after T [] [(g_name g, "C17_A", "C17_A")]) (g_name g) "C17_B" "C17_B" = false.
Proof.
  intros T g F L NB. split.
  - simpl. unfold accepts. rewrite F. unfold types_now. rewrite L. simpl.
    unfold isinstance, subclass. simpl. reflexivity.
  - simpl. unfold latch_after. rewrite F. unfold latch_step. rewrite L. simpl.
    unfold accepts. rewrite F. unfold types_now. rewrite L. simpl. rewrite String.eqb_refl.
    unfold isinstance, subclass. simpl. rewrite NB. simpl. reflexivity.
Qed.

(* ------------------------------------------------------------------------------------------ *)
(* one step, for an operation of the observed group and for an operation of another group      *)
(* ------------------------------------------------------------------------------------------ *)
Definition group_ok (A : pid -> bool) (o : op) : bool :=
  match op_act o with
  | HCopyTo dst => implb (A dst) (A (op_pid o))
  | _ => true
  end.

Ltac inv_pair := repeat match goal with
  | H : (_, _) = (_, _) |- _ => inversion H; clear H; subst
  end.

Lemma act_same_group : forall T A h1 h2 l1 l2 o,
  deep_copy T = true -> act_local o = true -> act_setter_ok T o = true -> group_ok A o = true ->
  A (op_group o) = true -> agree A h1 h2 -> heap_closed h1 -> heap_closed h2 ->
  agree A (fst (fst (apply_act T h1 l1 (op_pid o) (op_act o)))) (fst (fst (apply_act T h2 l2 (op_pid o) (op_act o))))
  /\ heap_closed (fst (fst (apply_act T h1 l1 (op_pid o) (op_act o))))
  /\ heap_closed (fst (fst (apply_act T h2 l2 (op_pid o) (op_act o))))
  /\ snd (apply_act T h1 l1 (op_pid o) (op_act o)) = snd (apply_act T h2 l2 (op_pid o) (op_act o)).
Proof.
  intros T A h1 h2 l1 l2 [p e tok cut a] D Loc Sok Grp GA Ag C1 C2.
  unfold op_group, act_local, act_setter_ok, group_ok in *. simpl in *.
  destruct a as [ | objs | i v | i k v | i r | dst | | prop sc vc i v]; simpl in *.
  - (* HNone *) auto.
  - (* HLoad *)
    repeat split; auto using agree_hset_both.
    + apply closed_hset; auto. intros pr E. inversion E. apply load_closed.
    + apply closed_hset; auto. intros pr E. inversion E. apply load_closed.
  - (* HSet *)
    rewrite <- (Ag p GA). destruct (hget h1 p) as [pr|] eqn:G; simpl; auto.
    assert (hget h2 p = Some pr) as G2 by (rewrite <- (Ag p GA); assumption).
    repeat split; auto using agree_hset_both.
    + apply closed_hset; auto. intros pr' E. inversion E. apply problem_closed_set_nth; eauto.
    + apply closed_hset; auto. intros pr' E. inversion E. apply problem_closed_set_nth; eauto.
  - (* HSetVia *)
    rewrite <- (Ag p GA). destruct (hget h1 p) as [pr|] eqn:G; simpl; auto.
    assert (hget h2 p = Some pr) as G2 by (rewrite <- (Ag p GA); assumption).
    destruct (nth_error pr i) as [o|] eqn:N; simpl; auto.
    destruct (nth_error (o_ptrs o) k) as [[q j]|] eqn:N2; simpl; auto.
    assert (q = p) as Q.
    { pose proof (ptr_closed p o k (q, j) (nth_error_closed p pr i o (C1 p pr G) N) N2) as X. exact X. }
    subst q. rewrite G, G2. simpl.
    repeat split; auto using agree_hset_both.
    + apply closed_hset; auto. intros pr' E. inversion E. apply problem_closed_set_nth; eauto.
    + apply closed_hset; auto. intros pr' E. inversion E. apply problem_closed_set_nth; eauto.
  - (* HLink *)
    rewrite <- (Ag p GA). destruct (hget h1 p) as [pr|] eqn:G; simpl; auto.
    assert (hget h2 p = Some pr) as G2 by (rewrite <- (Ag p GA); assumption).
    assert (forall o0, obj_closed p o0 = true -> obj_closed p (mk_obj (o_val o0) (r :: o_ptrs o0)) = true) as K.
    { intros o0 H0. unfold obj_closed in *. simpl. unfold ref, pid in *. rewrite Loc. simpl. assumption. }
    repeat split; auto using agree_hset_both.
    + apply closed_hset; auto. intros pr' E. inversion E. apply problem_closed_set_nth; eauto.
    + apply closed_hset; auto. intros pr' E. inversion E. apply problem_closed_set_nth; eauto.
  - (* HCopyTo : the group is dst; its source is in the group too *)
    rewrite GA in Grp. simpl in Grp.
    rewrite <- (Ag p Grp). rewrite <- (Ag dst GA).
    destruct (hget h1 p) as [pr|] eqn:G; simpl; auto.
    destruct (hget h1 dst) as [x|] eqn:G'; simpl; auto.
    unfold deep_copy in *. rewrite D.
    repeat split; auto using agree_hset_both.
    + apply closed_hset; auto. intros pr' E. inversion E. apply copy_closed. eauto.
    + apply closed_hset; auto. intros pr' E. inversion E. apply copy_closed. apply (C2 p).
      rewrite <- (Ag p Grp). assumption.
  - (* HDrop *)
    repeat split; auto using agree_hset_both.
    + apply closed_hset; auto. intros pr E. discriminate.
    + apply closed_hset; auto. intros pr E. discriminate.
  - (* HGenSet *)
    assert (accepts T l1 prop sc vc = accepts T l2 prop sc vc) as AC.
    { destruct (find_prop T prop) as [g|] eqn:F.
      - eapply accepts_nonlatching; eauto. apply negb_true_iff. assumption.
      - apply accepts_unknown. assumption. }
    rewrite <- AC. destruct (accepts T l1 prop sc vc); simpl; auto.
    rewrite <- (Ag p GA). destruct (hget h1 p) as [pr|] eqn:G; simpl; auto.
    repeat split; auto using agree_hset_both.
    + apply closed_hset; auto. intros pr' E. inversion E. apply problem_closed_set_nth; eauto.
    + apply closed_hset; auto. intros pr' E. inversion E. apply problem_closed_set_nth; eauto.
Qed.

Lemma act_other_group : forall T A h1 h2 l1 o,
  deep_copy T = true -> act_local o = true ->
  A (op_group o) = false -> agree A h1 h2 -> heap_closed h1 ->
  agree A (fst (fst (apply_act T h1 l1 (op_pid o) (op_act o)))) h2
  /\ heap_closed (fst (fst (apply_act T h1 l1 (op_pid o) (op_act o)))).
Proof.
  intros T A h1 h2 l1 [p e tok cut a] D Loc GA Ag C1.
  unfold op_group, act_local in *. simpl in *.
  destruct a as [ | objs | i v | i k v | i r | dst | | prop sc vc i v]; simpl in *.
  - auto.
  - split; auto using agree_hset_left.
    apply closed_hset; auto. intros pr E. inversion E. apply load_closed.
  - destruct (hget h1 p) as [pr|] eqn:G; simpl; auto.
    split; auto using agree_hset_left.
    apply closed_hset; auto. intros pr' E. inversion E. apply problem_closed_set_nth; eauto.
  - destruct (hget h1 p) as [pr|] eqn:G; simpl; auto.
    destruct (nth_error pr i) as [o|] eqn:N; simpl; auto.
    destruct (nth_error (o_ptrs o) k) as [[q j]|] eqn:N2; simpl; auto.
    assert (q = p) as Q.
    { pose proof (ptr_closed p o k (q, j) (nth_error_closed p pr i o (C1 p pr G) N) N2) as X. exact X. }
    subst q. rewrite G. simpl.
    split; auto using agree_hset_left.
    apply closed_hset; auto. intros pr' E. inversion E. apply problem_closed_set_nth; eauto.
  - destruct (hget h1 p) as [pr|] eqn:G; simpl; auto.
    assert (forall o0, obj_closed p o0 = true -> obj_closed p (mk_obj (o_val o0) (r :: o_ptrs o0)) = true) as K.
    { intros o0 H0. unfold obj_closed in *. simpl. unfold ref, pid in *. rewrite Loc. simpl. assumption. }
    split; auto using agree_hset_left.
    apply closed_hset; auto. intros pr' E. inversion E. apply problem_closed_set_nth; eauto.
  - destruct (hget h1 p) as [pr|] eqn:G; simpl; auto.
    destruct (hget h1 dst) as [x|] eqn:G'; simpl; auto.
    unfold deep_copy in *. rewrite D.
    split; auto using agree_hset_left.
    apply closed_hset; auto. intros pr' E. inversion E. apply copy_closed. eauto.
  - split; auto using agree_hset_left.
    apply closed_hset; auto. intros pr E. discriminate.
  - destruct (accepts T l1 prop sc vc); simpl; auto.
    destruct (hget h1 p) as [pr|] eqn:G; simpl; auto.
    split; auto using agree_hset_left.
    apply closed_hset; auto. intros pr' E. inversion E. apply problem_closed_set_nth; eauto.
Qed.

Definition op_ok_for (T : table) (A : pid -> bool) (o : op) : bool := op_ok T o && group_ok A o.

Lemma step_same_group : forall T A st1 st2 o,
  deep_copy T = true -> op_ok_for T A o = true -> A (op_group o) = true ->
  agree A (st_heap st1) (st_heap st2) -> heap_closed (st_heap st1) -> heap_closed (st_heap st2) ->
  snd (step T st1 o) = snd (step T st2 o)
  /\ agree A (st_heap (fst (step T st1 o))) (st_heap (fst (step T st2 o)))
  /\ heap_closed (st_heap (fst (step T st1 o))) /\ heap_closed (st_heap (fst (step T st2 o))).
Proof.
  intros T A st1 st2 o D OK GA Ag C1 C2.
  unfold op_ok_for, op_ok in OK. repeat (apply andb_true_iff in OK; destruct OK as [OK ?]).
  apply negb_true_iff in OK.
  unfold step.
  destruct (exec_rows_clean (entry_rows T (op_entry o)) (op_tok o) (op_cut o) (st_store st1) [] OK) as [g1 E1].
  destruct (exec_rows_clean (entry_rows T (op_entry o)) (op_tok o) (op_cut o) (st_store st2) [] OK) as [g2 E2].
  rewrite E1, E2.
  destruct (completes (entry_rows T (op_entry o)) (op_cut o)).
  - pose proof (act_same_group T A (st_heap st1) (st_heap st2) (st_latch st1) (st_latch st2) o D H1 H0 H GA Ag C1 C2)
      as [P1 [P2 [P3 P4]]].
    destruct (apply_act T (st_heap st1) (st_latch st1) (op_pid o) (op_act o)) as [[h1' l1'] ok1].
    destruct (apply_act T (st_heap st2) (st_latch st2) (op_pid o) (op_act o)) as [[h2' l2'] ok2].
    simpl in *. subst ok2. repeat split; auto.
    destruct ok1; [|reflexivity].
    f_equal. apply view_agree.
    + apply P1. assumption.
    + intros pr E. apply (P2 _ _ E).
  - simpl. repeat split; auto.
Qed.

Lemma step_other_group : forall T A st1 st2 o,
  deep_copy T = true -> op_ok_for T A o = true -> A (op_group o) = false ->
  agree A (st_heap st1) (st_heap st2) -> heap_closed (st_heap st1) ->
  agree A (st_heap (fst (step T st1 o))) (st_heap st2) /\ heap_closed (st_heap (fst (step T st1 o))).
Proof.
  intros T A st1 st2 o D OK GA Ag C1.
  unfold op_ok_for, op_ok in OK. repeat (apply andb_true_iff in OK; destruct OK as [OK ?]).
  apply negb_true_iff in OK.
  unfold step.
  destruct (exec_rows_clean (entry_rows T (op_entry o)) (op_tok o) (op_cut o) (st_store st1) [] OK) as [g1 E1].
  rewrite E1.
  destruct (completes (entry_rows T (op_entry o)) (op_cut o)).
  - pose proof (act_other_group T A (st_heap st1) (st_heap st2) (st_latch st1) o D H1 GA Ag C1) as [P1 P2].
    destruct (apply_act T (st_heap st1) (st_latch st1) (op_pid o) (op_act o)) as [[h1' l1'] ok1].
    simpl in *. auto.
  - simpl. auto.
Qed.

(* ------------------------------------------------------------------------------------------ *)
(* all interleavings                                                                           *)
(* ------------------------------------------------------------------------------------------ *)
Theorem run_isolated : forall T A ops st1 st2,
  deep_copy T = true ->
  forallb (op_ok_for T A) ops = true ->
  agree A (st_heap st1) (st_heap st2) -> heap_closed (st_heap st1) -> heap_closed (st_heap st2) ->
  outputs_of A (snd (run T st1 ops)) = outputs_of A (snd (run T st2 (ops_of A ops))).
Proof.
  intros T A ops. induction ops as [|o r IH]; intros st1 st2 D OK Ag C1 C2.
  - reflexivity.
  - simpl in OK. apply andb_true_iff in OK. destruct OK as [OKo OKr].
    unfold ops_of. simpl. destruct (A (op_group o)) eqn:GA.
    + destruct (step_same_group T A st1 st2 o D OKo GA Ag C1 C2) as [S1 [S2 [S3 S4]]].
      simpl.
      destruct (step T st1 o) as [st1' x1] eqn:E1. destruct (step T st2 o) as [st2' x2] eqn:E2.
      simpl in *. subst x2.
      specialize (IH st1' st2' D OKr S2 S3 S4). unfold ops_of in IH.
      destruct (run T st1' r) as [sa xa]. destruct (run T st2' (filter (fun o0 => A (op_group o0)) r)) as [sb xb].
      simpl in *. unfold outputs_of in *. simpl. rewrite GA. f_equal. assumption.
    + destruct (step_other_group T A st1 st2 o D OKo GA Ag C1) as [S1 S2].
      simpl.
      destruct (step T st1 o) as [st1' x1] eqn:E1. simpl in *.
      specialize (IH st1' st2 D OKr S1 S2 C2). unfold ops_of in IH.
      destruct (run T st1' r) as [sa xa]. simpl in *. unfold outputs_of in *. simpl. rewrite GA. assumption.
Qed.

(* the table-level condition implies the per-operation one *)
Lemma entry_rows_clean_of_table : forall T e,
  forallb entry_clean (t_entries T) = true -> existsb row_dirty (entry_rows T e) = false.
Proof.
  intros T e H. unfold entry_rows. destruct (nth_error (t_entries T) e) as [x|] eqn:E.
  - rewrite forallb_forall in H. specialize (H x (nth_error_In _ _ E)). unfold entry_clean in H.
    apply negb_true_iff in H. assumption.
  - reflexivity.
Qed.

Lemma history_free_parts : forall T, history_free T = true ->
  forallb entry_clean (t_entries T) = true /\ deep_copy T = true
  /\ (forall g, In g (t_props T) -> g_latching g = false).
Proof.
  intros T H. unfold history_free in H. apply andb_true_iff in H. destruct H as [H H4].
  apply andb_true_iff in H. destruct H as [H H3].
  apply andb_true_iff in H. destruct H as [H1 H2]. repeat split; try assumption.
  intros g Hg. rewrite forallb_forall in H4. specialize (H4 g Hg). apply negb_true_iff in H4. assumption.
Qed.

Lemma no_latching_of_clean : forall T,
  (forall g, In g (t_props T) -> g_latching g = false) ->
  forall o, act_setter_ok T o = true.
Proof.
  intros T H o. unfold act_setter_ok. destruct (op_act o); auto.
  destruct (find_prop T prop) as [g|] eqn:F; auto.
  unfold find_prop in F. apply find_some in F. destruct F as [F _]. rewrite (H g F). reflexivity.
Qed.

(* under the table-level condition every operation qualifies, whatever entry it uses *)
Definition op_side (A : pid -> bool) (o : op) : bool := act_local o && group_ok A o.

Theorem run_isolated_history_free : forall T A ops st1 st2,
  history_free T = true ->
  forallb (op_side A) ops = true ->
  agree A (st_heap st1) (st_heap st2) -> heap_closed (st_heap st1) -> heap_closed (st_heap st2) ->
  outputs_of A (snd (run T st1 ops)) = outputs_of A (snd (run T st2 (ops_of A ops))).
Proof.
  intros T A ops st1 st2 HF OK Ag C1 C2.
  destruct (history_free_parts T HF) as [HE [HD HL]].
  apply run_isolated; auto.
  rewrite forallb_forall in OK. rewrite forallb_forall. intros o Ho. specialize (OK o Ho).
  unfold op_side in OK. apply andb_true_iff in OK. destruct OK as [O1 O2].
  unfold op_ok_for, op_ok. rewrite O1, O2.
  rewrite (entry_rows_clean_of_table T (op_entry o) HE).
  rewrite (no_latching_of_clean T HL o). reflexivity.
Qed.

Theorem setter_history_free_table : forall T h1 h2 l p sc vc,
  history_free T = true ->
  accepts T (after T l h1) p sc vc = accepts T (after T l h2) p sc vc.
Proof.
  intros T h1 h2 l p sc vc HF. destruct (history_free_parts T HF) as [_ [_ HL]].
  apply setter_history_free. intros g F. apply HL.
  unfold find_prop in F. apply find_some in F. destruct F as [F _]. assumption.
Qed.

(* ------------------------------------------------------------------------------------------ *)
(* deepcopy                                                                                    *)
(* ------------------------------------------------------------------------------------------ *)
Definition refs_of (pr : problem) : list ref := flat_map o_ptrs pr.

Theorem copy_fresh_iso : forall src dst pr,
  problem_closed src pr = true ->
  let c := copy_problem true src dst pr in
  (forall r, In r (refs_of c) -> fst r = dst)
  /\ map o_val c = map o_val pr
  /\ map (fun o => map snd (o_ptrs o)) c = map (fun o => map snd (o_ptrs o)) pr
  /\ List.length c = List.length pr
  /\ problem_closed dst c = true.
Proof.
  intros src dst pr H c. pose proof (copy_closed src dst pr H) as CC. fold c in CC.
  repeat split.
  - intros r Hr. unfold refs_of in Hr. apply in_flat_map in Hr. destruct Hr as [o [Ho Hin]].
    unfold problem_closed in CC. rewrite forallb_forall in CC. specialize (CC o Ho).
    unfold obj_closed in CC. rewrite forallb_forall in CC. apply Nat.eqb_eq. apply CC. assumption.
  - unfold c, copy_problem. rewrite map_map. simpl. reflexivity.
  - unfold c, copy_problem. rewrite map_map. simpl. apply map_ext_in. intros o Ho.
    rewrite map_map. apply map_ext_in. intros r Hr. unfold remap. destruct (true && Nat.eqb (fst r) src); reflexivity.
  - unfold c, copy_problem. apply map_length.
  - assumption.
Qed.

(* a fresh destination: no identity of the copy exists in the heap before the copy *)
Lemma copy_ids_fresh : forall (h : heap) src dst pr,
  hget h dst = None -> problem_closed src pr = true ->
  forall r, In r (refs_of (copy_problem true src dst pr)) -> deref h r = None.
Proof.
  intros h src dst pr Hn Hc r Hr.
  destruct (copy_fresh_iso src dst pr Hc) as [F _]. specialize (F r Hr).
  unfold deref. rewrite F. rewrite Hn. reflexivity.
Qed.

(* ------------------------------------------------------------------------------------------ *)
(* read_input: the queue and the log                                                           *)
(* ------------------------------------------------------------------------------------------ *)
Lemma parse_card_log_independent : forall fl log1 log2 c,
  rf_restart_clears fl = true -> parse_card fl log1 c = parse_card fl log2 c.
Proof. intros. unfold parse_card. rewrite H. reflexivity. Qed.

Lemma scan_cards_log_independent : forall fl cs q log1 log2 acc,
  rf_restart_clears fl = true -> cs <> [] ->
  scan_cards fl cs q log1 acc = scan_cards fl cs q log2 acc.
Proof.
  intros fl cs. induction cs as [|c r IH]; intros q log1 log2 acc H NE.
  - contradiction.
  - simpl. rewrite (parse_card_log_independent fl log1 log2 c H).
    destruct (parse_card fl log2 c) as [log' res]. destruct res; reflexivity.
Qed.

(* with the two resets in place, the outcome of a read and the queue it leaves do not depend on what
   an earlier (possibly failed) read left behind; the log it leaves does not either unless no card was
   parsed at all (an empty read leaves the log as it found it) *)
Theorem read_resets_globals : forall fl fs fuel g main,
  rf_reset_queue fl = true -> rf_restart_clears fl = true -> main <> [] ->
  read_file fl fs fuel g main = read_file fl fs fuel (mk_globals [] []) main.
Proof.
  intros fl fs fuel g main Hq Hl NE. unfold read_file. rewrite Hq. simpl.
  rewrite (scan_cards_log_independent fl main [] (g_log g) [] [] Hl NE). reflexivity.
Qed.

Theorem read_result_resets : forall fl fs fuel g main,
  rf_reset_queue fl = true -> rf_restart_clears fl = true ->
  snd (read_file fl fs fuel g main) = snd (read_file fl fs fuel (mk_globals [] []) main)
  /\ g_queue (fst (read_file fl fs fuel g main)) = g_queue (fst (read_file fl fs fuel (mk_globals [] []) main)).
Proof.
  intros fl fs fuel g main Hq Hl. destruct main as [|c r].
  - unfold read_file. rewrite Hq. simpl. destruct fuel; simpl; split; reflexivity.
  - rewrite (read_resets_globals fl fs fuel g (c :: r) Hq Hl); [split; reflexivity | discriminate].
Qed.

(* after ANY read — failed or not, whatever it left — the next read behaves as in a fresh process *)
Theorem failed_read_no_residue : forall fl fs fuel g bad main,
  rf_reset_queue fl = true -> rf_restart_clears fl = true ->
  let g' := fst (read_file fl fs fuel g bad) in
  snd (read_file fl fs fuel g' main) = snd (read_file fl fs fuel (mk_globals [] []) main).
Proof.
  intros. apply read_result_resets; assumption.
Qed.

(* one object parse after any residue in the log *)
Theorem parse_no_residue : forall fl log c,
  rf_restart_clears fl = true -> snd (parse_card fl log c) = snd (parse_card fl [] c).
Proof. intros. rewrite (parse_card_log_independent fl log [] c H). reflexivity. Qed.

(* both resets are needed *)
Example no_queue_reset_leaks :
  snd (read_file (mk_rflags false true) (fun _ => None) 5 (mk_globals [7] []) [CGood 1])
  <> snd (read_file (mk_rflags false true) (fun _ => None) 5 (mk_globals [] []) [CGood 1]).
Proof. vm_compute. discriminate. Qed.

Example no_restart_clear_leaks :
  snd (read_file (mk_rflags true false) (fun _ => None) 5 (mk_globals [] [1%Z]) [CGood 1])
  <> snd (read_file (mk_rflags true false) (fun _ => None) 5 (mk_globals [] []) [CGood 1]).
Proof. vm_compute. discriminate. Qed.

(* a failing read does leave residue (so the resets matter) *)
Example failing_read_leaves_queue :
  g_queue (fst (read_file (mk_rflags true true) (fun _ => None) 5 (mk_globals [] []) [CReadCard 3; CSyntaxErr])) = [3].
Proof. vm_compute. reflexivity. Qed.
Example failing_read_leaves_log :
  g_log (fst (read_file (mk_rflags true true) (fun _ => None) 5 (mk_globals [] []) [CErrThenRaise])) = [1%Z].
Proof. vm_compute. reflexivity. Qed.

(* shallow copy hooks break isolation: an edit through the copy reaches the original *)
Definition shallow_T : table := mk_table [] [] [] [] ["x.py:C.__deepcopy__"] [].
Definition st_demo : state := mk_state [] [(0, Some [mk_obj 1 [(0, 1)]; mk_obj 2 []])] [].
Example shallow_copy_leaks :
  let ops := [mk_op 0 0 0 None (HCopyTo 1); mk_op 1 0 0 None (HSetVia 0 0 99); mk_op 0 0 0 None HNone] in
  outputs_of (Nat.eqb 0) (snd (run shallow_T st_demo ops))
  <> outputs_of (Nat.eqb 0) (snd (run shallow_T st_demo (ops_of (Nat.eqb 0) ops))).
Proof. vm_compute. discriminate. Qed.
