(* SpecProofs.v — MontePy's modelled line reader (Model/Lines.v: read_front_matters, read_data) cuts every
   well-formed file into the cards that MCNP's rules (Spec/Cards.v) prescribe.

   Contents
     A  the small functions of Spec/Cards.v against their counterparts in Model/Lines.v and Model/Wire.v
     B  raw lines: lines_of / split_lines; a well-formed raw line and its physical line; its class for the reader
     C  the class of a physical line against Cards.classify
     D  the data part: the reader's transducer against Cards.blocks (induction over the lines, no bound)
     E  message block and title; the theorem on whole files
     F  witnesses: what each clause of the well-formedness predicate excludes
     G  numbers (S9) and tokens (S8): sanity facts

   Names of Spec/Cards.v and Model/SpecWire.v are written qualified (Cards.x, SpecWire.x); unqualified names are
   those of Model/Lines.v, Model/Wire.v and Proofs/LinesProofs.v. *)
From Coq Require Import List String Ascii Arith Bool Lia ZArith QArith.
From MPV Require Import Model.Wire Model.Lines Gen.LexerFlags Proofs.LinesProofs.
From MPV Require Spec.Cards Model.SpecWire.
Import ListNotations.
Close Scope Q_scope.
Open Scope string_scope.

(* ================================================================== A  small functions *)
Lemma A_is_blank : forall a, Cards.is_blank a = is_blank a.
Proof. reflexivity. Qed.

Lemma A_all_blank : forall s, Cards.all_blank s = all_blank s.
Proof. induction s; simpl; [reflexivity | rewrite IHs; reflexivity]. Qed.

Lemma A_strip_right : forall s, Cards.strip_right s = rstrip_blanks s.
Proof.
  induction s; [reflexivity|]. cbn [Cards.strip_right rstrip_blanks].
  rewrite A_all_blank, IHs. reflexivity.
Qed.

Lemma A_first_columns : forall n s, Cards.first_columns n s = takeS n s.
Proof. induction n; destruct s; simpl; try reflexivity; try (rewrite IHn; reflexivity). Qed.

Lemma A_spaces : forall n s, (Cards.spaces n ++ s) = blanks n s.
Proof. induction n; intros; simpl; [reflexivity|]. rewrite IHn. reflexivity. Qed.

Lemma A_expand_tabs : forall s col, Cards.expand_tabs col s = spec_expand_from col s.
Proof.
  induction s; intros col; [reflexivity|]. cbn [Cards.expand_tabs spec_expand_from].
  change Cards.TAB with tab. destruct (Ascii.eqb a tab).
  - rewrite A_spaces, Nat.add_1_r, IHs. reflexivity.
  - rewrite IHs. reflexivity.
Qed.

Lemma A_upcase : forall a, Cards.upcase a = up a.
Proof. reflexivity. Qed.

Lemma A_upper : forall s, Cards.string_map Cards.upcase s = upper s.
Proof. induction s; simpl; [reflexivity | rewrite IHs; reflexivity]. Qed.

Lemma A_high_to_blank : forall a, Cards.high_to_blank a = clean_byte a.
Proof. intros [[] [] [] [] [] [] [] []]; reflexivity. Qed.

Lemma A_clean : forall s, Cards.string_map Cards.high_to_blank s = smap clean_byte s.
Proof. induction s; simpl; [reflexivity|]. rewrite IHs, A_high_to_blank. reflexivity. Qed.

Lemma A_is_c : forall a, Cards.is_c a = isC a.
Proof. reflexivity. Qed.

Lemma A_c_within : forall k s, Cards.c_within (S k) s = spec_comment_from k s.
Proof.
  induction k; intros s; destruct s as [|a r]; auto.
  - cbn [Cards.c_within spec_comment_from]. fold (isC a). rewrite A_is_c.
    destruct (isC a).
    + destruct r; reflexivity.
    + destruct r; simpl; rewrite andb_false_r; reflexivity.
  - cbn [Cards.c_within spec_comment_from]. fold (isC a). rewrite A_is_c.
    destruct (isC a).
    + destruct r; reflexivity.
    + rewrite <- IHk. reflexivity.
Qed.

Lemma A_comment : forall x, Cards.is_comment_line x = spec_comment x.
Proof. intros. apply (A_c_within 4). Qed.

Lemma A_split_dollar_fst : forall x, fst (Cards.split_dollar x) = spec_data x.
Proof.
  induction x; auto. cbn [Cards.split_dollar spec_data].
  destruct (Ascii.eqb a "$"); auto.
  destruct (Cards.split_dollar x). cbn [fst] in *. rewrite IHx. reflexivity.
Qed.

Lemma A_split_dollar_snd : forall x, SpecWire.is_some (snd (Cards.split_dollar x)) = contains "$"%char x.
Proof.
  induction x; auto. cbn [Cards.split_dollar contains].
  destruct (Ascii.eqb a "$"); auto.
  destruct (Cards.split_dollar x). cbn [snd] in *. rewrite IHx. reflexivity.
Qed.

Lemma A_has_char : forall c s, SpecWire.has_char c s = contains c s.
Proof. induction s; simpl; [reflexivity | rewrite IHs; reflexivity]. Qed.

(* words *)
Lemma A_words_from : forall s cur,
  Cards.words_from cur s = filter (fun w => negb (String.eqb w "")) (split_on_aux " "%char s cur).
Proof.
  induction s; intros cur.
  - cbn. destruct cur; reflexivity.
  - cbn [Cards.words_from split_on_aux]. change (Cards.is_blank a) with (Ascii.eqb a " ").
    destruct (Ascii.eqb a " ").
    + cbn [filter]. rewrite IHs. destruct cur; reflexivity.
    + apply IHs.
Qed.

Lemma A_words : forall s, Cards.words s = words s.
Proof. intros. apply A_words_from. Qed.

(* the continuation mark *)
Lemma A_mark_ends : forall d,
  ends_with amp2 d = SpecWire.is_some (Cards.continuation_mark d).
Proof.
  induction d; [reflexivity|].
  cbn [ends_with Cards.continuation_mark]. rewrite IHd. unfold amp2. cbn [String.eqb].
  change (Cards.is_blank a) with (Ascii.eqb a sp).
  destruct (Ascii.eqb a sp); destruct (String.eqb d "&"); destruct (Cards.continuation_mark d); reflexivity.
Qed.

Lemma A_mark_shape : forall d d', Cards.continuation_mark d = Some d' -> d = d' ++ amp2.
Proof.
  induction d; intros d' H; [discriminate|].
  cbn [Cards.continuation_mark] in H. change (Cards.is_blank a) with (Ascii.eqb a " ") in H.
  destruct (andb (Ascii.eqb a " ") (String.eqb d "&")) eqn:E.
  - inversion H; subst. apply andb_true_iff in E. destruct E as [E1 E2].
    apply Ascii.eqb_eq in E1. apply String.eqb_eq in E2. subst. reflexivity.
  - destruct (Cards.continuation_mark d); [|discriminate]. inversion H; subst.
    cbn. rewrite (IHd s eq_refl) at 1. reflexivity.
Qed.

(* ================================================================== B  raw lines *)
Definition add_lf (x : string) : string := x ++ lf.

Lemma lines_of_nil : forall s, Cards.lines_of s = [] -> s = "".
Proof.
  destruct s; [reflexivity|]. cbn [Cards.lines_of].
  destruct (Ascii.eqb a Cards.LF); [discriminate|]. destruct (Cards.lines_of s); discriminate.
Qed.

(* a file that ends in LF: MontePy's iteration over the binary file gives MCNP's lines, each followed by its LF *)
Lemma B_split_lines : forall s, SpecWire.ends_with_lf s = true ->
  split_lines s = map add_lf (Cards.lines_of s).
Proof.
  induction s; intros H; [discriminate|].
  cbn [split_lines Cards.lines_of]. change Cards.LF with nl.
  destruct s as [|b r].
  - cbn in H. change Cards.LF with nl in H. rewrite H. apply Ascii.eqb_eq in H. subst. reflexivity.
  - assert (SpecWire.ends_with_lf (String b r) = true) as H' by exact H.
    specialize (IHs H'). rewrite IHs.
    destruct (Ascii.eqb a nl) eqn:E.
    + apply Ascii.eqb_eq in E. subst. reflexivity.
    + destruct (Cards.lines_of (String b r)) eqn:El.
      * apply lines_of_nil in El. discriminate.
      * reflexivity.
Qed.

Lemma drop_last_cr_cases : forall raw,
  raw = SpecWire.drop_last_cr raw \/ raw = SpecWire.drop_last_cr raw ++ String cr "".
Proof.
  induction raw; [left; reflexivity|].
  cbn [SpecWire.drop_last_cr]. change Cards.CR with cr.
  destruct (andb (Ascii.eqb a cr) (String.eqb raw "")) eqn:E.
  - apply andb_true_iff in E. destruct E as [E1 E2].
    apply Ascii.eqb_eq in E1. apply String.eqb_eq in E2. subst. right. reflexivity.
  - destruct IHraw as [H|H]; [left|right]; cbn; rewrite <- H; reflexivity.
Qed.

Lemma ok_char_facts : forall a, SpecWire.ok_char a = true ->
  Ascii.eqb a cr = false /\ Ascii.eqb a nl = false /\ printable (clean_byte a) = true.
Proof.
  intros [[] [] [] [] [] [] [] []]; vm_compute; intro H; try discriminate H; repeat split; reflexivity.
Qed.

Lemma ok_no_tab_facts : forall a, SpecWire.ok_char_no_tab a = true ->
  SpecWire.ok_char a = true /\ plain (clean_byte a) = true.
Proof.
  intros [[] [] [] [] [] [] [] []]; vm_compute; intro H; try discriminate H; repeat split; reflexivity.
Qed.

Lemma printable_not_tab_plain : forall a, printable a = true -> Ascii.eqb a tab = false -> plain a = true.
Proof.
  intros [[] [] [] [] [] [] [] []]; vm_compute; intros H H2; try discriminate H; try discriminate H2; reflexivity.
Qed.

Lemma ok_body : forall body, SpecWire.string_forall SpecWire.ok_char body = true ->
  Cards.drop_cr body = body /\ no_eol body = true /\ all_printable (smap clean_byte body) = true.
Proof.
  induction body; intros H; [repeat split; reflexivity|].
  cbn [SpecWire.string_forall] in H. apply andb_true_iff in H. destruct H as [Ha Hb].
  destruct (ok_char_facts _ Ha) as (E1 & E2 & E3). destruct (IHbody Hb) as (I1 & I2 & I3).
  unfold Cards.drop_cr in *. cbn [Cards.string_filter no_eol smap all_printable].
  pose proof E1 as E1'. change cr with Cards.CR in E1'.
  rewrite E1, E1', E2, E3, I1, I2, I3. repeat split; reflexivity.
Qed.

Lemma ok_no_tab_body : forall body, SpecWire.string_forall SpecWire.ok_char_no_tab body = true ->
  SpecWire.string_forall SpecWire.ok_char body = true /\ all_plain (smap clean_byte body) = true.
Proof.
  induction body; intros H; [split; reflexivity|].
  cbn [SpecWire.string_forall] in H. apply andb_true_iff in H. destruct H as [Ha Hb].
  destruct (ok_no_tab_facts _ Ha) as (E1 & E2). destruct (IHbody Hb) as (I1 & I2).
  cbn [SpecWire.string_forall smap all_plain]. rewrite E1, E2, I1, I2. split; reflexivity.
Qed.

Lemma string_filter_app : forall p a b,
  Cards.string_filter p (a ++ b) = Cards.string_filter p a ++ Cards.string_filter p b.
Proof.
  induction a; intros b; [reflexivity|]. cbn [append Cards.string_filter].
  destruct (p a); rewrite IHa; reflexivity.
Qed.

Lemma drop_cr_raw : forall raw, SpecWire.string_forall SpecWire.ok_char (SpecWire.drop_last_cr raw) = true ->
  Cards.drop_cr raw = SpecWire.drop_last_cr raw.
Proof.
  intros raw H. destruct (ok_body _ H) as (E & _ & _).
  destruct (drop_last_cr_cases raw) as [C|C]; rewrite C at 1; [exact E|].
  unfold Cards.drop_cr in *. rewrite string_filter_app, E. cbn. apply sapp_nil_r.
Qed.

Lemma raw_eol : forall raw, exists e, eol e /\ add_lf raw = SpecWire.drop_last_cr raw ++ e.
Proof.
  intros raw. unfold add_lf. destruct (drop_last_cr_cases raw) as [C|C].
  - exists lf. split; [constructor|]. rewrite <- C. reflexivity.
  - exists crlf. split; [constructor|]. rewrite C at 1. rewrite sapp_assoc. reflexivity.
Qed.

Lemma expand_printable_plain : forall y col, all_printable y = true -> all_plain (spec_expand_from col y) = true.
Proof.
  induction y; intros col H; [reflexivity|].
  cbn [all_printable] in H. apply andb_true_iff in H. destruct H as [Ha Hy].
  cbn [spec_expand_from]. destruct (Ascii.eqb a tab) eqn:E.
  - rewrite all_plain_blanks. apply IHy; auto.
  - cbn [all_plain]. rewrite (printable_not_tab_plain _ Ha E). apply IHy; auto.
Qed.

(* the physical line of a raw line, as Model/Lines.v's functions compute it *)
Definition phys (raw : string) : string := spec_expand_from 0 (smap clean_byte (SpecWire.drop_last_cr raw)).

Lemma uncut_phys : forall raw, SpecWire.string_forall SpecWire.ok_char (SpecWire.drop_last_cr raw) = true ->
  SpecWire.uncut_line raw = phys raw.
Proof.
  intros raw H. unfold SpecWire.uncut_line, phys. rewrite drop_cr_raw by auto.
  rewrite A_clean, A_expand_tabs. reflexivity.
Qed.

Lemma late_c_cols : forall z, late_c z = true -> all_blank (takeS 5 z) = true.
Proof.
  intros z H. destruct (plain_shape z) as [[n E]|[n [a [r [E Ha]]]]]; subst z.
  - unfold late_c in H. rewrite late_c_from_blank in H. discriminate.
  - unfold late_c in H. rewrite late_c_from_shape in H by auto. cbn [Nat.add] in H.
    apply andb_true_iff in H. destruct H as [_ H]. apply andb_true_iff in H. destruct H as [H _].
    apply Nat.leb_le in H. rewrite takeS_blanks_ge by auto. reflexivity.
Qed.

(* the class of a line for the reader, written with the physical line z; [lcx]: is_comment takes the line for a
   comment although rule S5 does not (a c beyond column 5) *)
Definition kz (z : string) (lcx : bool) : lk :=
  let c := orb (spec_comment z) lcx in
  mkLk (all_blank z) c (negb (all_blank (takeS 5 z)))
       (andb (contains "#"%char (takeS 5 z)) (negb c))
       (andb (negb (contains "$"%char z)) (ends_with amp2 (rstrip_blanks z)))
       (if spec_comment z then [] else filter not_amp (words (spec_data z))).

Lemma takeS_app_ge : forall w x s, w <= String.length x -> takeS w (x ++ s) = takeS w x.
Proof.
  induction w; intros x s H; [reflexivity|]. destruct x; cbn [String.length] in H; [lia|].
  cbn [append takeS]. rewrite IHw by lia. reflexivity.
Qed.

Lemma takeS_takeS : forall n m s, n <= m -> takeS n (takeS m s) = takeS n s.
Proof.
  induction n; intros m s H; [reflexivity|]. destruct m; [lia|]. destruct s; [reflexivity|].
  cbn [takeS]. rewrite IHn by lia. reflexivity.
Qed.

Lemma all_blank_takeS : forall n s, all_blank s = true -> all_blank (takeS n s) = true.
Proof.
  induction n; intros s H; [reflexivity|]. destruct s; [reflexivity|].
  cbn [all_blank] in H. apply andb_true_iff in H. destruct H as [Ha Hs].
  cbn [takeS all_blank]. rewrite Ha, IHn; auto.
Qed.

Lemma spec_comment_from_takeS : forall s k w, k + 2 <= w ->
  spec_comment_from k (takeS w s) = spec_comment_from k s.
Proof.
  induction s; intros k w H; [rewrite takeS_nil; reflexivity|].
  destruct w as [|w']; [lia|]. cbn [takeS].
  destruct k as [|k'].
  - simpl. destruct w' as [|w'']; [lia|]. destruct s; reflexivity.
  - simpl. rewrite IHs by lia. destruct w' as [|w'']; [lia|]. destruct s; reflexivity.
Qed.

Lemma lc_raw : forall w raw, SpecWire.string_forall SpecWire.ok_char (SpecWire.drop_last_cr raw) = true ->
  all_plain (phys raw) = true /\ lc w (add_lf raw) = lc w (phys raw ++ lf).
Proof.
  intros w raw Hok. destruct (ok_body _ Hok) as (_ & Hne & Hpr).
  assert (all_plain (phys raw) = true) as Hpl by (apply expand_printable_plain; auto).
  split; auto.
  destruct (raw_eol raw) as (e & He & Ee). rewrite Ee.
  apply lc_same. rewrite clean_line_eol by auto.
  rewrite (clean_line_plain (phys raw) lf Hpl eol_lf).
  rewrite (expandtabs_plain _ Hpl).
  unfold lf. rewrite expandtabs_is_S1; [reflexivity|].
  rewrite no_eol_clean. exact Hne.
Qed.

(* a line with text beyond the limit *)
Lemma lc_long : forall w x, all_plain x = true -> w <= String.length x -> 6 <= w ->
  orb (all_blank x) (negb (all_blank (takeS w x))) = true ->
  lc w (x ++ lf) = kz (takeS w x) (late_c x).
Proof.
  intros w x Hx Hw H6 Hcl. unfold lc. rewrite clean_line_plain by (auto; constructor).
  unfold line_class. rewrite expandtabs_plain by auto.
  assert (all_plain (takeS w x) = true) as Hz by (apply all_plain_takeS; auto).
  change BLANK_SPACE_CONTINUE with 5.
  unfold lf. rewrite (takeS_app_ge w x) by auto.
  unfold kz. cbv zeta. rewrite (takeS_takeS 5 w) by lia.
  assert (spec_comment (takeS w x) = spec_comment x) as Ec by (apply spec_comment_from_takeS; lia).
  rewrite Ec. f_equal.
  - rewrite all_space_app. change (all_space (String nl "")) with true. rewrite andb_true_r.
    rewrite (all_space_plain _ Hx).
    destruct (all_blank x) eqn:Eb.
    + rewrite all_blank_takeS; auto.
    + cbn [orb] in Hcl. apply negb_true_iff in Hcl. auto.
  - apply is_comment_S5; auto.
  - rewrite all_space_takeS_nl by auto. reflexivity.
  - fold lf. rewrite (is_comment_S5 x Hx). unfold lf. rewrite contains_takeS_app by reflexivity. reflexivity.
  - unfold amp_data. fold amp2. rewrite rstrip_plain by auto. reflexivity.
  - rewrite rstrip_plain by auto. unfold line_words, spec_comment.
    rewrite spec_comment_from_rstrip, words_spec_data_rstrip. fold (spec_comment (takeS w x)). rewrite Ec. reflexivity.
Qed.

Lemma B_line : forall w raw, SpecWire.line_ok w raw = true ->
  exists lcx, lc w (add_lf raw) = kz (Cards.physical_line w raw) lcx /\
              (lcx = true -> all_blank (takeS 5 (Cards.physical_line w raw)) = true).
Proof.
  intros w raw H. unfold SpecWire.line_ok in H. cbv zeta in H. apply andb_true_iff in H. destruct H as [Hok Hcl].
  rewrite uncut_phys in Hcl by auto. rewrite ?A_all_blank, ?A_first_columns in Hcl.
  destruct (lc_raw w raw Hok) as [Hpl Elc]. rewrite Elc.
  assert (Cards.physical_line w raw = takeS w (phys raw)) as Ep.
  { unfold Cards.physical_line. fold (SpecWire.uncut_line raw). rewrite uncut_phys by auto. apply A_first_columns. }
  rewrite Ep. exists (late_c (phys raw)).
  destruct (Nat.leb (String.length (phys raw)) w) eqn:El.
  - apply Nat.leb_le in El. rewrite (takeS_all _ _ El). split.
    + apply (lc_plain w (phys raw) lf Hpl eol_lf El).
    + apply late_c_cols.
  - apply Nat.leb_gt in El. cbn [orb] in Hcl. apply andb_true_iff in Hcl. destruct Hcl as [H6 Hcl].
    apply Nat.leb_le in H6. split.
    + apply lc_long; auto. lia.
    + intros Hl. rewrite (takeS_takeS 5 w) by lia. apply late_c_cols. exact Hl.
Qed.

Lemma B_front_line : forall w raw, SpecWire.front_line_ok w raw = true ->
  let y := smap clean_byte (SpecWire.drop_last_cr raw) in
  all_plain y = true /\ String.length y <= w /\ Cards.physical_line w raw = y /\ clean_line (add_lf raw) = y ++ lf.
Proof.
  intros w raw H y. unfold SpecWire.front_line_ok in H. apply andb_true_iff in H. destruct H as [Hnt Hlen].
  destruct (ok_no_tab_body _ Hnt) as [Hok Hpl]. fold y in Hpl.
  assert (phys raw = y) as Ep by (unfold phys; fold y; apply spec_expand_plain; auto).
  rewrite uncut_phys in Hlen by auto. rewrite Ep in Hlen. apply Nat.leb_le in Hlen.
  destruct (ok_body _ Hok) as (_ & Hne & _).
  repeat split; auto.
  - unfold Cards.physical_line. fold (SpecWire.uncut_line raw). rewrite uncut_phys by auto.
    rewrite Ep, A_first_columns. apply takeS_all; auto.
  - destruct (raw_eol raw) as (e & He & Ee). rewrite Ee. apply clean_line_eol; auto.
Qed.

(* ================================================================== C  one physical line: Cards.classify *)
Lemma C_classify : forall z,
  match Cards.classify z with
  | Cards.Blank => all_blank z = true
  | Cards.Comment _ => all_blank z = false /\ spec_comment z = true
  | Cards.Data st ws am dc =>
      all_blank z = false /\ spec_comment z = false /\
      st = negb (all_blank (takeS 5 z)) /\
      am = ends_with amp2 (rstrip_blanks (spec_data z)) /\
      SpecWire.is_some dc = contains "$"%char z /\
      words (spec_data z) = (if am then (ws ++ ["&"])%list else ws)
  end.
Proof.
  intros z. unfold Cards.classify. rewrite A_all_blank, A_comment.
  destruct (all_blank z) eqn:Eb; [reflexivity|].
  destruct (spec_comment z) eqn:Ec; [split; reflexivity|].
  pose proof (A_split_dollar_fst z) as Ef. pose proof (A_split_dollar_snd z) as Es.
  destruct (Cards.split_dollar z) as [d c]. cbn [fst snd] in Ef, Es. subst d.
  rewrite A_strip_right, A_first_columns.
  pose proof (A_mark_ends (rstrip_blanks (spec_data z))) as Em.
  destruct (Cards.continuation_mark (rstrip_blanks (spec_data z))) as [d'|] eqn:Ek; cbn [SpecWire.is_some] in Em.
  - repeat split; auto.
    + destruct c; exact Es.
    + rewrite <- (words_rstrip_blanks (spec_data z)). rewrite (A_mark_shape _ _ Ek).
      unfold amp2. rewrite words_app_sp, A_words. reflexivity.
  - repeat split; auto.
    + destruct c; exact Es.
    + rewrite A_words. symmetry. apply words_rstrip_blanks.
Qed.

Lemma filter_all : forall (A : Type) (p : A -> bool) l, forallb p l = true -> filter p l = l.
Proof.
  induction l; intros H; [reflexivity|]. cbn [forallb] in H. apply andb_true_iff in H. destruct H as [Ha Hl].
  cbn [filter]. rewrite Ha, IHl; auto.
Qed.

(* the class of a data line that meets the clauses D1, D2, D4 *)
Lemma C_data : forall z st ws am dc,
  Cards.classify z = Cards.Data st ws am dc ->
  negb (SpecWire.has_char "#"%char (Cards.first_columns 5 z)) = true ->
  negb (andb am (SpecWire.is_some dc)) = true ->
  forallb SpecWire.not_amp_word ws = true ->
  forall lcx, kz z lcx = mkLk false lcx st false am ws.
Proof.
  intros z st ws am dc Ecl D1 D2 D4 lcx. pose proof (C_classify z) as HC. rewrite Ecl in HC.
  destruct HC as (Hb & Hc & Hst & Ham & Hdc & Hw).
  rewrite A_has_char, A_first_columns in D1. apply negb_true_iff in D1.
  unfold kz. cbv zeta. rewrite Hb, Hc, D1, <- Hst. cbn [orb andb]. f_equal.
  - (* the continuation flag *)
    destruct (contains "$" z) eqn:Ed; cbn [negb andb].
    + rewrite Hdc in D2. destruct am; [discriminate|reflexivity].
    + rewrite (spec_data_no_dollar z Ed) in Ham. symmetry. exact Ham.
  - (* the words *)
    rewrite Hw. change not_amp with SpecWire.not_amp_word. destruct am.
    + rewrite filter_app, (filter_all _ _ _ D4). cbn. apply app_nil_r.
    + apply filter_all. exact D4.
Qed.

(* ================================================================== D  the data part *)
Definition view_block (nb : nat) (b : list Cards.card) : list (nat * list string) :=
  map (fun c => (nb, Cards.card_words c)) b.

(* the cards of the blocks, each with the number of its block *)
Fixpoint number_blocks (nb : nat) (bs : list (list Cards.card)) : list (nat * list string) :=
  match bs with
  | [] => []
  | b :: r => (view_block nb b ++ number_blocks (S nb) r)%list
  end.

(* Cards.blocks, started in the middle of a block *)
Definition bf (n : nat) (cur : option Cards.card) (pend : list string) (amp : bool) (ls : list Cards.line)
  : list (list Cards.card) :=
  match n with
  | O => []
  | S k => let (b, t) := Cards.cut_block ls in
           Cards.group cur pend amp b :: match t with Some r => Cards.blocks k r | None => [] end
  end.

Definition V n nb cur pend amp ls := number_blocks nb (bf n cur pend amp ls).

Definition closing (nb : nat) (cur : option Cards.card) : list (nat * list string) :=
  match cur with Some c => [(nb, Cards.card_words c)] | None => [] end.

Lemma blocks_bf : forall n ls, Cards.blocks n ls = bf n None [] false ls.
Proof. destruct n; reflexivity. Qed.

Lemma V_nil : forall k nb cur pend amp, V (S k) nb cur pend amp [] = closing nb cur.
Proof. intros. destruct cur; reflexivity. Qed.

Lemma V_blank : forall k nb cur pend amp r,
  V (S k) nb cur pend amp (Cards.Blank :: r) = (closing nb cur ++ number_blocks (S nb) (Cards.blocks k r))%list.
Proof. intros. destruct cur; reflexivity. Qed.

Lemma V_comment : forall k nb cur pend amp t r,
  V (S k) nb cur pend amp (Cards.Comment t :: r) = V (S k) nb cur (pend ++ [t])%list amp r.
Proof.
  intros. unfold V, bf. cbn [Cards.cut_block]. destruct (Cards.cut_block r) as [b t']. reflexivity.
Qed.

Definition fresh (pend : list string) ws dc := Cards.mkCard ws (pend ++ Cards.opt_list dc)%list.
Definition extend (c : Cards.card) (pend : list string) ws dc :=
  Cards.mkCard (Cards.card_words c ++ ws)%list (Cards.card_comments c ++ pend ++ Cards.opt_list dc)%list.

Lemma V_data_none : forall k nb pend amp st ws am dc r,
  V (S k) nb None pend amp (Cards.Data st ws am dc :: r) = V (S k) nb (Some (fresh pend ws dc)) [] am r.
Proof.
  intros. unfold V, bf. cbn [Cards.cut_block]. destruct (Cards.cut_block r) as [b t']. reflexivity.
Qed.

Lemma V_data_new : forall k nb c pend amp st ws am dc r, andb st (negb amp) = true ->
  V (S k) nb (Some c) pend amp (Cards.Data st ws am dc :: r)
  = (nb, Cards.card_words c) :: V (S k) nb (Some (fresh pend ws dc)) [] am r.
Proof.
  intros. unfold V, bf. cbn [Cards.cut_block]. destruct (Cards.cut_block r) as [b t'].
  cbn [Cards.group]. rewrite H. reflexivity.
Qed.

Lemma V_data_cont : forall k nb c pend amp st ws am dc r, andb st (negb amp) = false ->
  V (S k) nb (Some c) pend amp (Cards.Data st ws am dc :: r)
  = V (S k) nb (Some (extend c pend ws dc)) [] am r.
Proof.
  intros. unfold V, bf. cbn [Cards.cut_block]. destruct (Cards.cut_block r) as [b t'].
  cbn [Cards.group]. rewrite H. reflexivity.
Qed.

(* the reader's state against the state of the specification: [nb] blank lines read, [cur] the card being read,
   [amp] its last data line ended in the continuation mark, [cmt] a comment line has been read in this block *)
Definition link (s : ast) (nb : nat) (cur : option Cards.card) (amp cmt : bool) : Prop :=
  a_done s = false /\ a_top s = true /\ a_bc s = nb /\ a_bt s = nb /\
  match cur with
  | Some c => a_ne s = true /\ a_hnc s = true /\ a_acc s = Cards.card_words c /\ a_cont s = amp
  | None => a_ne s = cmt /\ a_hnc s = false /\ a_acc s = []
  end.

Lemma flush_closing : forall s nb cur amp cmt, link s nb cur amp cmt ->
  orb (SpecWire.is_some cur) (negb cmt) = true ->
  aflush (a_bt s) (a_ne s) (a_acc s) = closing nb cur.
Proof.
  intros s nb cur amp cmt (Hd & Ht & Hbc & Hbt & Hc) Hw. destruct cur as [c|].
  - destruct Hc as (Hne & Hh & Ha & Hco). rewrite Hne, Hbt, Ha. reflexivity.
  - destruct Hc as (Hne & Hh & Ha). cbn in Hw. destruct cmt; [discriminate|]. rewrite Hne. reflexivity.
Qed.

Lemma D_sim : forall w raws k nb cur pend amp cmt s,
  k + nb = 2 ->
  SpecWire.wf_data w nb (SpecWire.is_some cur) cmt raws = true ->
  link s nb cur amp cmt ->
  arun (map (lc w) (map add_lf raws)) s
  = (V (S k) nb cur pend amp (map Cards.classify (map (Cards.physical_line w) raws)), None).
Proof.
  induction raws as [|l r IH]; intros k nb cur pend amp cmt s Hk Hwf Hl.
  - cbn [map arun]. rewrite V_nil. cbn [SpecWire.wf_data] in Hwf.
    rewrite (flush_closing s nb cur amp cmt Hl Hwf). reflexivity.
  - cbn [SpecWire.wf_data] in Hwf. apply andb_true_iff in Hwf. destruct Hwf as [Hok Hwf].
    destruct (B_line w l Hok) as (lcx & Elc & Hlcx).
    cbv zeta in Hwf. cbn [map arun]. rewrite Elc.
    set (z := Cards.physical_line w l) in *.
    pose proof (C_classify z) as HC.
    destruct (Cards.classify z) as [|t|st ws am dc] eqn:Ecl.
    + (* a blank line: the block ends *)
      apply andb_true_iff in Hwf. destruct Hwf as [Hcl Hwf].
      rewrite V_blank. rewrite <- (flush_closing s nb cur amp cmt Hl Hcl).
      destruct Hl as (Hd & Ht & Hbc & Hbt & _).
      destruct s as [bc bt cont hnc ne acc top dn].
      cbn [a_done a_top a_bc a_bt a_ne a_hnc a_acc a_cont] in *. subst dn top bc bt.
      unfold astep. cbn [a_done a_top a_bc a_bt a_ne a_hnc a_acc a_cont]. unfold kz. cbn [k_blank]. rewrite HC.
      destruct k as [|k'].
      * assert (nb = 2) by lia. subst nb. cbn [Nat.ltb Nat.leb andb].
        rewrite arun_done by reflexivity. cbn [a_bt a_ne a_acc aflush Cards.blocks number_blocks]. reflexivity.
      * assert (Nat.ltb (S nb) 3 = true) as Elt by (apply Nat.ltb_lt; lia).
        assert (Nat.leb 3 (S nb) = false) as Ele by (apply Nat.leb_gt; lia).
        rewrite Elt in Hwf. rewrite Elt, Ele. cbn [andb].
        rewrite (IH k' (S nb) None [] false false); [|lia|exact Hwf|repeat split; reflexivity].
        rewrite blocks_bf. reflexivity.
    + (* a comment line *)
      destruct HC as [Hb Hc]. rewrite V_comment.
      destruct Hl as (Hd & Ht & Hbc & Hbt & Hcur).
      unfold astep. rewrite Hd. unfold kz. cbn [k_blank k_com k_start k_hash k_ampf k_words].
      rewrite Hb, Hc, (spec_comment_start z Hc). cbn [orb negb andb].
      rewrite !andb_false_r. cbn [andb].
      rewrite (IH k nb cur (pend ++ [t])%list amp true); [reflexivity|exact Hk|exact Hwf|].
      cbn [a_done a_top a_bc a_bt a_ne a_hnc a_acc a_cont]. repeat split; auto.
      destruct cur as [c|].
      * destruct Hcur as (Hne & Hh & Ha & Hco). rewrite Hh, Ha, Hco, app_nil_r. repeat split; reflexivity.
      * destruct Hcur as (Hne & Hh & Ha). rewrite Hh, Ha. repeat split; reflexivity.
    + (* a data line *)
      apply andb_true_iff in Hwf. destruct Hwf as [D1 Hwf].
      apply andb_true_iff in Hwf. destruct Hwf as [D2 Hwf].
      apply andb_true_iff in Hwf. destruct Hwf as [D3 Hwf].
      apply andb_true_iff in Hwf. destruct Hwf as [D4 Hwf].
      rewrite (C_data z st ws am dc Ecl D1 D2 D4 lcx).
      destruct HC as (Hb & Hc & Hst & _).
      destruct Hl as (Hd & Ht & Hbc & Hbt & Hcur).
      unfold astep. rewrite Hd. cbn [k_blank k_com k_start k_hash k_ampf k_words].
      destruct cur as [c|].
      * destruct Hcur as (Hne & Hh & Ha & Hco). rewrite Hne, Hh, Ha, Hco, Hbt. cbn [SpecWire.is_some] in *.
        destruct lcx eqn:El.
        { (* a continuation line whose first word is a c beyond column 5 *)
          rewrite (Hlcx eq_refl) in Hst. cbn [negb] in Hst. subst st. cbn [negb andb orb].
          rewrite V_data_cont by reflexivity.
          rewrite (IH k nb (Some (extend c pend ws dc)) [] am cmt); [reflexivity|exact Hk|exact Hwf|].
          cbn [a_done a_top a_bc a_bt a_ne a_hnc a_acc a_cont extend Cards.card_words]. repeat split; auto. }
        cbn [negb andb orb]. rewrite !andb_true_r.
        destruct (andb st (negb amp)) eqn:En.
        { rewrite (V_data_new k nb c pend amp st ws am dc _ En).
          rewrite (IH k nb (Some (fresh pend ws dc)) [] am cmt); [reflexivity|exact Hk|exact Hwf|].
          cbn [a_done a_top a_bc a_bt a_ne a_hnc a_acc a_cont fresh Cards.card_words andb]. repeat split; auto. }
        { rewrite (V_data_cont k nb c pend amp st ws am dc _ En).
          rewrite (IH k nb (Some (extend c pend ws dc)) [] am cmt); [reflexivity|exact Hk|exact Hwf|].
          cbn [a_done a_top a_bc a_bt a_ne a_hnc a_acc a_cont extend Cards.card_words andb]. repeat split; auto. }
      * destruct Hcur as (Hne & Hh & Ha). rewrite Hh, Ha. cbn [SpecWire.is_some] in *.
        rewrite orb_false_r in D3. subst st.
        assert (lcx = false) as El.
        { destruct lcx eqn:E; auto. rewrite (Hlcx eq_refl) in Hst. discriminate. }
        rewrite El. cbn [negb andb orb]. rewrite !andb_false_r.
        rewrite V_data_none.
        rewrite (IH k nb (Some (fresh pend ws dc)) [] am cmt); [reflexivity|exact Hk|exact Hwf|].
        cbn [a_done a_top a_bc a_bt a_ne a_hnc a_acc a_cont fresh Cards.card_words andb app]. repeat split; auto.
Qed.

(* ================================================================== E  message block, title, whole files *)
(* what MontePy's reader observably makes of a problem read by the rules: the title without trailing blanks,
   the cards in file order as (block number, data words), no error *)
Definition montepy_view (p : Cards.problem) : obs :=
  (option_map Cards.strip_right (Cards.title p), number_blocks 0 (Cards.cards p), None).

(* the same from the physical lines that start with the title line *)
Definition rest_view (ls : list string) : obs :=
  match ls with
  | [] => (None, [], None)
  | t :: body => (Some (Cards.strip_right t), number_blocks 0 (Cards.blocks 3 (map Cards.classify body)), None)
  end.

Definition after_front (ls : list string) : list string :=
  match ls with
  | l :: _ => if Cards.starts_message l then snd (Cards.until_blank ls) else ls
  | [] => []
  end.

Lemma view_read_physical : forall ls, montepy_view (Cards.read_physical ls) = rest_view (after_front ls).
Proof.
  intros ls. unfold Cards.read_physical, after_front. destruct ls as [|l r]; [reflexivity|].
  destruct (Cards.starts_message l).
  - destruct (Cards.until_blank (l :: r)) as [m t]. cbn [snd]. destruct t; reflexivity.
  - reflexivity.
Qed.

(* MontePy's side, from the cleaned lines that start with the title line *)
Definition mp_title_view (w : nat) (d : list string) : obs :=
  match d with
  | [] => (None, [], None)
  | t :: d' => (Some (rstrip t), fst (arun (map (line_class w) d') s0), snd (arun (map (line_class w) d') s0))
  end.

Definition cl (raw : string) : string := clean_line (add_lf raw).

Lemma E_data : forall w r, SpecWire.wf_data w 0 false false r = true ->
  arun (map (line_class w) (map cl r)) s0
  = (number_blocks 0 (Cards.blocks 3 (map Cards.classify (map (Cards.physical_line w) r))), None).
Proof.
  intros w r H. rewrite blocks_bf.
  assert (link s0 0 None false false) as Hl by (repeat split; reflexivity).
  pose proof (D_sim w r 2 0 None [] false false s0 eq_refl H Hl) as P. unfold V in P.
  rewrite <- P. rewrite !map_map. reflexivity.
Qed.

Lemma E_title : forall w r, SpecWire.wf_title w r = true ->
  mp_title_view w (map cl r) = rest_view (map (Cards.physical_line w) r).
Proof.
  intros w r H. destruct r as [|t r]; [reflexivity|].
  cbn [SpecWire.wf_title] in H. apply andb_true_iff in H. destruct H as [Ht Hd].
  destruct (B_front_line w t Ht) as (Hpl & Hlen & Ep & Ec). cbv zeta in *.
  cbn [map mp_title_view rest_view]. rewrite (E_data w r Hd). cbn [fst snd].
  unfold cl at 1. rewrite Ec, Ep. unfold lf. rewrite rstrip_plain_nl by auto.
  first [reflexivity | rewrite A_strip_right; reflexivity].
Qed.

Lemma prefix_app_nl : forall p s, contains nl p = false -> String.prefix p (s ++ lf) = String.prefix p s.
Proof.
  induction p; intros s H; [rewrite !prefix_nil; reflexivity|].
  cbn [contains] in H. apply orb_false_iff in H. destruct H as [Ha Hp].
  destruct s as [|b s].
  - cbn [append]. unfold lf. rewrite prefix_cons. destruct (ascii_dec a nl) as [E|E].
    + subst. rewrite Ascii.eqb_refl in Ha. discriminate.
    + reflexivity.
  - cbn [append]. rewrite !prefix_cons. destruct (ascii_dec a b); auto.
Qed.

Lemma E_msg_prefix : forall y, String.prefix "MESSAGE:" (upper (y ++ lf)) = Cards.starts_message y.
Proof.
  intros y. unfold Cards.starts_message. change (Cards.string_map Cards.upcase y) with (upper y). rewrite upper_app.
  change (upper lf) with lf. apply prefix_app_nl. reflexivity.
Qed.

Lemma starts_message_not_blank : forall y, Cards.starts_message y = true -> all_blank y = false.
Proof.
  intros y H. destruct y as [|a y]; [discriminate|]. cbn [all_blank].
  destruct (is_blank a) eqn:E; auto. apply Ascii.eqb_eq in E. subst. discriminate.
Qed.

Lemma snd_until_blank_cons : forall y ls, all_blank y = false ->
  snd (Cards.until_blank (y :: ls)) = snd (Cards.until_blank ls).
Proof.
  intros y ls H. cbn [Cards.until_blank]. rewrite A_all_blank, H.
  destruct (Cards.until_blank ls). reflexivity.
Qed.

Definition mp_front_view (w : nat) (fm : Lines.front) : obs :=
  (f_title fm, fst (arun (map (line_class w) (f_rest fm)) s0), snd (arun (map (line_class w) (f_rest fm)) s0)).

Lemma E_message : forall w r acc, SpecWire.wf_message w r = true ->
  mp_front_view w (message_loop (map cl r) acc) = rest_view (snd (Cards.until_blank (map (Cards.physical_line w) r))).
Proof.
  induction r as [|l r IH]; intros acc H; [reflexivity|].
  cbn [SpecWire.wf_message] in H. apply andb_true_iff in H. destruct H as [Hl H].
  destruct (B_front_line w l Hl) as (Hpl & Hlen & Ep & Ec). cbv zeta in *.
  cbn [map message_loop]. unfold cl at 1. rewrite Ec.
  rewrite all_space_app. change (all_space lf) with true. rewrite andb_true_r, (all_space_plain _ Hpl).
  rewrite Ep in *. set (y := smap clean_byte (SpecWire.drop_last_cr l)) in *.
  rewrite A_all_blank in H.
  destruct (all_blank y) eqn:Eb.
  - cbn [Cards.until_blank]. rewrite A_all_blank, Eb. cbn [snd].
    rewrite <- (E_title w r H). destruct (map cl r); reflexivity.
  - rewrite (snd_until_blank_cons y _ Eb). apply IH. exact H.
Qed.

Theorem split_agrees : forall w bytes, SpecWire.wf_file w bytes = true ->
  read_lines w (split_lines bytes) = montepy_view (Cards.read w bytes).
Proof.
  intros w bytes H. unfold SpecWire.wf_file in H. apply andb_true_iff in H. destruct H as [Hlf H].
  rewrite (B_split_lines bytes Hlf). unfold Cards.read, Cards.physical_lines.
  rewrite view_read_physical, read_lines_run. cbv zeta.
  set (raws := Cards.lines_of bytes) in *. rewrite map_map. fold cl. change (fun x => clean_line (add_lf x)) with cl.
  destruct raws as [|l0 r]; [discriminate|].
  cbn [SpecWire.wf_lines] in H. cbn [map after_front read_front_matters].
  assert (SpecWire.front_line_ok w l0 = true) as Hl0.
  { destruct (Cards.starts_message (Cards.physical_line w l0)).
    - cbn [SpecWire.wf_message] in H. apply andb_true_iff in H. tauto.
    - cbn [SpecWire.wf_title] in H. apply andb_true_iff in H. tauto. }
  destruct (B_front_line w l0 Hl0) as (Hpl & Hlen & Ep & Ec). cbv zeta in *.
  change (clean_line (add_lf l0)) with (cl l0) in Ec.
  set (y := smap clean_byte (SpecWire.drop_last_cr l0)) in *.
  rewrite Ec, E_msg_prefix, Ep. rewrite Ep in H.
  destruct (Cards.starts_message y) eqn:Em.
  - (* a message block *)
    pose proof (starts_message_not_blank y Em) as Eb.
    cbn [SpecWire.wf_message] in H. apply andb_true_iff in H. destruct H as [_ H].
    rewrite Ep, A_all_blank, Eb in H.
    rewrite (snd_until_blank_cons y _ Eb).
    exact (E_message w r _ H).
  - (* the first line is the title *)
    cbn [f_title f_rest].
    pose proof (E_title w (l0 :: r) H) as P. cbn [map mp_title_view] in P. rewrite Ec, Ep in P. exact P.
Qed.

(* ================================================================== F  witnesses *)
(* plain files: end in LF, printable ASCII only, every line within w columns *)
Definition plain_line (w : nat) (l : string) : bool :=
  andb (SpecWire.string_forall (fun a => andb (Nat.leb 32 (nat_of_ascii a)) (Nat.leb (nat_of_ascii a) 126)) l)
       (Nat.leb (String.length l) w).

Definition plain_file (w : nat) (bytes : string) : bool :=
  andb (SpecWire.ends_with_lf bytes) (forallb (plain_line w) (Cards.lines_of bytes)).

Definition nlq (s : string) : string := s ++ lf.          (* one line and its LF *)

Definition disagrees (w : nat) (bytes : string) : Prop :=
  read_lines w (split_lines bytes) <> montepy_view (Cards.read w bytes).

Ltac by_evaluation :=
  match goal with
  | |- disagrees ?w ?b =>
      let l := eval vm_compute in (read_lines w (split_lines b)) in
      let r := eval vm_compute in (montepy_view (Cards.read w b)) in
      let H := fresh in
      unfold disagrees; intro H;
      assert (l = r) by (transitivity (read_lines w (split_lines b)); [vm_compute; reflexivity|];
                         rewrite H; vm_compute; reflexivity);
      discriminate
  end.

(* 1. "& $ text": by S6 the data of the line is "1 0 -1 &", by S7 it ends in the continuation mark, so the next line
      continues the card wherever it starts; MontePy does not take a '&' followed by a '$' comment for a mark *)
Definition wit_amp_dollar : string := nlq "t" ++ nlq "1 0 -1 & $ x" ++ nlq "imp:n=1".

Lemma wit_amp_dollar_refutes :
  plain_file 80 wit_amp_dollar = true /\ disagrees 80 wit_amp_dollar /\
  read_lines 80 (split_lines wit_amp_dollar) = (Some "t", [(0, ["1"; "0"; "-1"]); (0, ["imp:n=1"])], None) /\
  montepy_view (Cards.read 80 wit_amp_dollar) = (Some "t", [(0, ["1"; "0"; "-1"; "imp:n=1"])], None).
Proof. split; [reflexivity|]. split; [by_evaluation|]. split; vm_compute; reflexivity. Qed.

(* 2. a block that holds comment lines only: no card by the rules; MontePy yields an input without data *)
Definition wit_comment_block : string :=
  nlq "t" ++ nlq "1 0 -1" ++ nlq "" ++ nlq "1 so 1" ++ nlq "" ++ nlq "c only" ++ nlq "".

Lemma wit_comment_block_refutes :
  plain_file 80 wit_comment_block = true /\ disagrees 80 wit_comment_block /\
  read_lines 80 (split_lines wit_comment_block)
    = (Some "t", [(0, ["1"; "0"; "-1"]); (1, ["1"; "so"; "1"]); (2, [])], None) /\
  montepy_view (Cards.read 80 wit_comment_block) = (Some "t", [(0, ["1"; "0"; "-1"]); (1, ["1"; "so"; "1"])], None).
Proof. split; [reflexivity|]. split; [by_evaluation|]. split; vm_compute; reflexivity. Qed.

(* 3. a line that is blank within the column limit and has text beyond it: by S1 the text is ignored, so by S4 the
      line ends the block; MontePy tests the uncut line and goes on with the same block (w = 10 here) *)
Definition wit_beyond_limit : string := nlq "t" ++ nlq "1 0 -1" ++ nlq "          x" ++ nlq "1 so 1".

Lemma wit_beyond_limit_refutes :
  disagrees 10 wit_beyond_limit /\
  read_lines 10 (split_lines wit_beyond_limit) = (Some "t", [(0, ["1"; "0"; "-1"]); (0, ["1"; "so"; "1"])], None) /\
  montepy_view (Cards.read 10 wit_beyond_limit) = (Some "t", [(0, ["1"; "0"; "-1"]); (1, ["1"; "so"; "1"])], None).
Proof. split; [by_evaluation|]. split; vm_compute; reflexivity. Qed.

(* 4. the last line has no LF and is an empty comment line with its c in columns 2-5: is_comment only accepts
      it with a line end, so MontePy reads it as the first line of a new input *)
Definition wit_unterminated : string := nlq "t" ++ nlq "1 0 -1" ++ "  c".

Lemma wit_unterminated_refutes :
  disagrees 80 wit_unterminated /\
  read_lines 80 (split_lines wit_unterminated) = (Some "t", [(0, ["1"; "0"; "-1"]); (0, [])], None) /\
  montepy_view (Cards.read 80 wit_unterminated) = (Some "t", [(0, ["1"; "0"; "-1"])], None).
Proof. split; [by_evaluation|]. split; vm_compute; reflexivity. Qed.

(* the unrestricted statement fails already on plain files *)
Theorem split_agrees_refuted : exists w bytes, plain_file w bytes = true /\ disagrees w bytes.
Proof. exists 80, wit_amp_dollar. destruct wit_amp_dollar_refutes as (H1 & H2 & _). auto. Qed.

(* 5. the remaining clauses, one file each (w = 80):
      D3 the first data line of a block starts beyond column 5 with a c in column 6;
      D4 a lone '&' inside the data;  F2 a tab in the title line;  D1 vertical format *)
Definition wit_late_c : string := nlq "t" ++ nlq "1 0 -1" ++ nlq "" ++ nlq "     cz 5" ++ nlq "1 so 1".
Definition wit_lone_amp : string := nlq "t" ++ nlq "1 0 & -1".
Definition wit_title_tab : string := nlq ("t" ++ String tab "a") ++ nlq "1 0 -1".
Definition wit_vertical : string := nlq "t" ++ nlq "# 1 2" ++ nlq "  0 0".

Lemma wit_clauses :
  disagrees 80 wit_late_c /\ disagrees 80 wit_lone_amp /\ disagrees 80 wit_title_tab /\ disagrees 80 wit_vertical /\
  SpecWire.wf_file 80 wit_late_c = false /\ SpecWire.wf_file 80 wit_lone_amp = false /\
  SpecWire.wf_file 80 wit_title_tab = false /\ SpecWire.wf_file 80 wit_vertical = false /\
  SpecWire.wf_file 80 wit_amp_dollar = false /\ SpecWire.wf_file 80 wit_comment_block = false /\
  SpecWire.wf_file 10 wit_beyond_limit = false /\ SpecWire.wf_file 80 wit_unterminated = false.
Proof.
  split; [by_evaluation|]. split; [by_evaluation|]. split; [by_evaluation|]. split; [by_evaluation|].
  repeat split; reflexivity.
Qed.

(* ---- non-vacuity: a well-formed file with everything in it (message block, CR LF, tabs, a byte >= 127, comment
   lines in columns 1-5, '$' comments, both kinds of continuation, a continuation whose first word is a c beyond
   column 5, three blocks, text after the data block) and what both sides read *)
Definition crlfq (s : string) : string := s ++ crlf.
Definition ex_file : string :=
  crlfq "message: outp=x" ++ nlq "" ++
  nlq "a title  " ++
  nlq "c cells" ++
  nlq ("1 0" ++ String tab "-1 $ inner" ++ String (ascii_of_nat 233) "") ++
  nlq "     imp:n=1 &" ++
  nlq "  C in between" ++
  nlq "vol=2" ++
  nlq "  2 0 1" ++
  nlq "      c 5" ++
  crlfq "" ++
  nlq "1 so 1 $ sphere &" ++
  nlq "c" ++
  nlq (String tab "") ++
  nlq "mode n" ++
  nlq "" ++
  "whatever follows, unterminated".

Definition ex_view : obs :=
  (Some "a title",
   [(0, ["1"; "0"; "-1"; "imp:n=1"; "vol=2"]); (0, ["2"; "0"; "1"; "c"; "5"]); (1, ["1"; "so"; "1"]); (2, ["mode"; "n"])],
   None).

(* the file must end in LF for the theorem: ex_file without its last line, and with it *)
Definition ex_file_lf : string := ex_file ++ lf.

Lemma ex_wf : SpecWire.wf_file 80 ex_file_lf = true /\ SpecWire.wf_file 128 ex_file_lf = true.
Proof. split; reflexivity. Qed.

Lemma ex_reads :
  read_lines 80 (split_lines ex_file_lf) = ex_view /\ montepy_view (Cards.read 80 ex_file_lf) = ex_view /\
  Cards.cards (Cards.read 80 ex_file_lf)
  = [[Cards.mkCard ["1"; "0"; "-1"; "imp:n=1"; "vol=2"] ["cells"; "inner"; "in between"];
      Cards.mkCard ["2"; "0"; "1"; "c"; "5"] []];
     [Cards.mkCard ["1"; "so"; "1"] ["sphere &"; ""]];
     [Cards.mkCard ["mode"; "n"] []]] /\
  Cards.message (Cards.read 80 ex_file_lf) = Some ["message: outp=x"].
Proof. repeat split; vm_compute; reflexivity. Qed.

(* ================================================================== G  numbers and tokens: sanity facts *)
Definition Qeqb_opt (a : option Q) (b : option Q) : bool :=
  match a, b with
  | Some x, Some y => Qeq_bool x y
  | None, None => true
  | _, _ => false
  end.

Lemma numbers_examples :
  Qeqb_opt (Cards.read_number "1.5+3") (Some (Qmake (1500)%Z 1%positive)) = true /\
  Qeqb_opt (Cards.read_number "-1.5E-3") (Some (Qmake (-3)%Z 2000%positive)) = true /\
  Qeqb_opt (Cards.read_number "1.5d2") (Some (Qmake (150)%Z 1%positive)) = true /\
  Qeqb_opt (Cards.read_number ".5") (Some (Qmake (1)%Z 2%positive)) = true /\
  Qeqb_opt (Cards.read_number "12.") (Some (Qmake (12)%Z 1%positive)) = true /\
  Qeqb_opt (Cards.read_number "+7") (Some (Qmake (7)%Z 1%positive)) = true /\
  Qeqb_opt (Cards.read_number "1-2") (Some (Qmake (1)%Z 100%positive)) = true /\
  Cards.read_number "1.5e" = None /\ Cards.read_number "." = None /\ Cards.read_number "1e5.2" = None /\
  Cards.read_number "15 3" = None /\ Cards.read_number "" = None /\ Cards.read_number "2r" = None /\
  Cards.read_number "153" <> Cards.read_number "15+3".
Proof. repeat split; try (vm_compute; reflexivity). vm_compute. discriminate. Qed.

Lemma tokens_examples :
  Cards.tokens (Cards.mkCard ["imp:n=1"; "Fill=3"; "vol"; "=2"] []) = ["IMP:N"; "1"; "FILL"; "3"; "VOL"; "2"] /\
  Cards.geometry_tokens (Cards.mkCard ["1"; "0"; "(1:-2)#3"; "#(4"; "5)"] [])
    = ["1"; "0"; "("; "1"; ":"; "-2"; ")"; "#"; "3"; "#"; "("; "4"; "5"; ")"].
Proof. split; vm_compute; reflexivity. Qed.

(* ---- text beyond the column limit (w = 10): a '$' comment running on, a word cut by the limit, a blank-only line
   longer than the limit, and a continuation mark that the limit hides *)
Definition ex_long : string :=
  nlq "t" ++ nlq "1 0 -1 $ a long comment" ++ nlq "     2 345678" ++ nlq "3 0 1   &" ++ nlq "4 0 3" ++
  nlq "            " ++ nlq "1 so 1  abc &" ++ nlq "2 so 2".

Lemma ex_long_reads :
  SpecWire.wf_file 10 ex_long = true /\
  montepy_view (Cards.read 10 ex_long)
  = (Some "t", [(0, ["1"; "0"; "-1"; "2"; "345"]); (0, ["3"; "0"; "1"; "4"; "0"; "3"]);
                (1, ["1"; "so"; "1"; "ab"]); (1, ["2"; "so"; "2"])], None).
Proof. split; vm_compute; reflexivity. Qed.

(* ================================================================== H  comment texts
   Every line MontePy's reader stores ends up in exactly one input, in file order; read by the rules, the comment
   texts of the stored lines of a block are the comment texts of the cards of that block, in the same order.
   (Which card of the block a comment line between two cards is listed with differs by convention: MontePy keeps the
   line with the input before it, Spec/Cards.v lists it with the card after it.) *)
Definition line_texts (l : Cards.line) : list string :=
  match l with
  | Cards.Comment t => [t]
  | Cards.Data _ _ _ (Some t) => [t]
  | _ => []
  end.

(* the comment texts of a stored line, read by rules S5 / S6 *)
Definition stored_texts (x : string) : list string := line_texts (Cards.classify x).

Lemma line_texts_classify : forall x,
  stored_texts x =
  if Cards.all_blank x then []
  else if Cards.is_comment_line x then [Cards.comment_text x]
  else Cards.opt_list (option_map Cards.strip (snd (Cards.split_dollar x))).
Proof.
  intros x. unfold stored_texts, Cards.classify.
  destruct (Cards.all_blank x); [reflexivity|]. destruct (Cards.is_comment_line x); [reflexivity|].
  destruct (Cards.split_dollar x) as [d c]. cbn [snd].
  destruct (Cards.continuation_mark (Cards.strip_right d)); destruct c; reflexivity.
Qed.

Fixpoint has_c (s : string) : bool :=
  match s with EmptyString => false | String a r => orb (Cards.is_c a) (has_c r) end.

Lemma after_c_app : forall y s, has_c y = true -> Cards.after_c (y ++ s) = Cards.after_c y ++ s.
Proof.
  induction y; intros s H; [discriminate|]. cbn [has_c] in H. cbn [append Cards.after_c].
  destruct (Cards.is_c a); [reflexivity|]. apply IHy. exact H.
Qed.

Lemma c_within_has_c : forall k y, Cards.c_within k y = true -> has_c y = true.
Proof.
  induction k; intros y H; [destruct y; discriminate|]. destruct y as [|a r]; [discriminate|].
  cbn [Cards.c_within] in H. cbn [has_c]. destruct (Cards.is_c a); [reflexivity|].
  apply andb_true_iff in H. destruct H as [_ H]. apply IHk. exact H.
Qed.

Lemma strip_app_blanks : forall r n, Cards.strip (r ++ blanks n "") = Cards.strip r.
Proof.
  intros. unfold Cards.strip. rewrite !A_strip_right, rstrip_blanks_app_blanks. reflexivity.
Qed.

Lemma split_dollar_app_blanks : forall y n,
  option_map Cards.strip (snd (Cards.split_dollar (y ++ blanks n ""))) = option_map Cards.strip (snd (Cards.split_dollar y)).
Proof.
  induction y; intros n.
  - cbn [append]. induction n; [reflexivity|]. cbn [blanks Cards.split_dollar].
    change (Ascii.eqb sp "$") with false. cbv iota. destruct (Cards.split_dollar (blanks n "")). exact IHn.
  - cbn [append Cards.split_dollar]. destruct (Ascii.eqb a "$").
    + cbn [snd option_map]. rewrite strip_app_blanks. reflexivity.
    + specialize (IHy n). destruct (Cards.split_dollar (y ++ blanks n "")), (Cards.split_dollar y). exact IHy.
Qed.

Lemma stored_texts_app_blanks : forall y n, stored_texts (y ++ blanks n "") = stored_texts y.
Proof.
  intros y n. rewrite !line_texts_classify.
  rewrite (A_all_blank (y ++ blanks n "")), (A_all_blank y), all_blank_app, all_blank_blanks.
  cbn [all_blank]. rewrite andb_true_r.
  destruct (all_blank y); [reflexivity|].
  rewrite (A_comment (y ++ blanks n "")), (A_comment y). unfold spec_comment.
  rewrite <- (spec_comment_from_rstrip (y ++ blanks n "")), rstrip_blanks_app_blanks, spec_comment_from_rstrip.
  destruct (spec_comment_from 4 y) eqn:Ec.
  - unfold Cards.comment_text. rewrite after_c_app, strip_app_blanks; [reflexivity|].
    apply (c_within_has_c 5). rewrite (A_c_within 4). exact Ec.
  - rewrite split_dollar_app_blanks. reflexivity.
Qed.

Lemma stored_texts_rstrip : forall z, stored_texts (rstrip_blanks z) = stored_texts z.
Proof.
  intros z. destruct (rstrip_blanks_decomp z) as [n H]. rewrite H at 2.
  symmetry. apply stored_texts_app_blanks.
Qed.

(* ---- every stored line lands in exactly one input, in order *)
Definition tag {A : Type} (b : nat) (l : list A) : list (nat * A) := map (pair b) l.

Definition tagged_lines (ins : list input) : list (nat * string) :=
  flat_map (fun i => tag (i_bt i) (i_lines i)) ins.

(* the non-blank lines of the first three blocks as the reader stores them, with their block type *)
Fixpoint walk (w : nat) (ls : list string) (bc bt : nat) : list (nat * string) :=
  match ls with
  | [] => []
  | l :: r =>
      let line := expandtabs TABSIZE l in
      if all_space line then
        (if Nat.leb 3 (S bc) then [] else walk w r (S bc) (if Nat.ltb (S bc) 3 then S bc else bt))
      else (bt, rstrip (takeS w line)) :: walk w r bc bt
  end.

Lemma tagged_flush : forall bt raw ln, tagged_lines (flush bt raw ln) = tag bt raw.
Proof.
  intros. destruct raw; [reflexivity|]. unfold tagged_lines, flush.
  cbn [nonempty flat_map mk_input i_bt i_lines]. apply app_nil_r.
Qed.

Lemma tagged_app : forall a b, tagged_lines (a ++ b)%list = (tagged_lines a ++ tagged_lines b)%list.
Proof. intros. unfold tagged_lines. apply flat_map_app. Qed.

Lemma H_lines_conserved : forall w ls lineno bc bt cont hnc raw ins,
  rd_loop w false ls lineno bc bt cont hnc raw = (ins, None) ->
  tagged_lines ins = (tag bt raw ++ walk w ls bc bt)%list.
Proof.
  induction ls as [|l r IH]; intros lineno bc bt cont hnc raw ins H.
  - cbn [rd_loop] in H. inversion H; subst. rewrite tagged_flush. cbn [walk]. rewrite app_nil_r. reflexivity.
  - cbn [rd_loop walk] in *. cbv zeta in *.
    destruct (all_space (expandtabs TABSIZE l)).
    + cbn [negb] in H. rewrite andb_true_r in H. destruct (Nat.leb 3 (S bc)).
      * inversion H; subst. rewrite tagged_flush, app_nil_r. reflexivity.
      * destruct (rd_loop w false r (S lineno) (S bc) (if Nat.ltb (S bc) 3 then S bc else bt) cont false [])
          as [out e] eqn:E. inversion H; subst. rewrite tagged_app, tagged_flush.
        rewrite (IH _ _ _ _ _ _ _ E). reflexivity.
    + set (newinp := negb (all_space (takeS BLANK_SPACE_CONTINUE (expandtabs TABSIZE l))) &&
                (negb cont && (negb (is_comment (expandtabs TABSIZE l)) && (hnc && nonempty raw)))) in *.
      destruct (andb (contains "#" (takeS BLANK_SPACE_CONTINUE (expandtabs TABSIZE l)))
                     (negb (is_comment (expandtabs TABSIZE l)))); [destruct newinp; discriminate|].
      match type of H with (let (_, _) := ?call in _) = _ => destruct call as [out e] eqn:E end.
      injection H as H1 H2. subst ins e. rewrite tagged_app, (IH _ _ _ _ _ _ _ E).
      destruct newinp.
      * rewrite tagged_flush. reflexivity.
      * cbn [tagged_lines flat_map app]. unfold tag. rewrite map_app, <- app_assoc. reflexivity.
Qed.

(* ---- the comment texts of the cards, with the number of their block, in file order *)
Definition card_tagged (nb : nat) (b : list Cards.card) : list (nat * string) :=
  flat_map (fun c => tag nb (Cards.card_comments c)) b.

Fixpoint block_comments (nb : nat) (bs : list (list Cards.card)) : list (nat * string) :=
  match bs with
  | [] => []
  | b :: r => (card_tagged nb b ++ block_comments (S nb) r)%list
  end.

Definition spec_comments (p : Cards.problem) : list (nat * string) := block_comments 0 (Cards.cards p).

Definition CS n nb cur pend amp ls := block_comments nb (bf n cur pend amp ls).

Definition closing_comments (nb : nat) (cur : option Cards.card) (pend : list string) : list (nat * string) :=
  match cur with Some c => tag nb (Cards.card_comments c ++ pend) | None => [] end.

Lemma tag_app : forall (A : Type) b (x y : list A), tag b (x ++ y)%list = (tag b x ++ tag b y)%list.
Proof. intros. apply map_app. Qed.

Lemma CS_nil : forall k nb cur pend amp, CS (S k) nb cur pend amp [] = closing_comments nb cur pend.
Proof. intros. destruct cur; cbn; rewrite ?app_nil_r; reflexivity. Qed.

Lemma CS_blank : forall k nb cur pend amp r,
  CS (S k) nb cur pend amp (Cards.Blank :: r)
  = (closing_comments nb cur pend ++ block_comments (S nb) (Cards.blocks k r))%list.
Proof. intros. destruct cur; cbn; rewrite ?app_nil_r; reflexivity. Qed.

Lemma CS_comment : forall k nb cur pend amp t r,
  CS (S k) nb cur pend amp (Cards.Comment t :: r) = CS (S k) nb cur (pend ++ [t])%list amp r.
Proof.
  intros. unfold CS, bf. cbn [Cards.cut_block]. destruct (Cards.cut_block r) as [b t']. reflexivity.
Qed.

Lemma CS_data_none : forall k nb pend amp st ws am dc r,
  CS (S k) nb None pend amp (Cards.Data st ws am dc :: r) = CS (S k) nb (Some (fresh pend ws dc)) [] am r.
Proof.
  intros. unfold CS, bf. cbn [Cards.cut_block]. destruct (Cards.cut_block r) as [b t']. reflexivity.
Qed.

Lemma CS_data_new : forall k nb c pend amp st ws am dc r, andb st (negb amp) = true ->
  CS (S k) nb (Some c) pend amp (Cards.Data st ws am dc :: r)
  = (tag nb (Cards.card_comments c) ++ CS (S k) nb (Some (fresh pend ws dc)) [] am r)%list.
Proof.
  intros. unfold CS, bf. cbn [Cards.cut_block]. destruct (Cards.cut_block r) as [b t'].
  cbn [Cards.group]. rewrite H. cbn [block_comments card_tagged flat_map]. rewrite <- app_assoc. reflexivity.
Qed.

Lemma CS_data_cont : forall k nb c pend amp st ws am dc r, andb st (negb amp) = false ->
  CS (S k) nb (Some c) pend amp (Cards.Data st ws am dc :: r)
  = CS (S k) nb (Some (extend c pend ws dc)) [] am r.
Proof.
  intros. unfold CS, bf. cbn [Cards.cut_block]. destruct (Cards.cut_block r) as [b t'].
  cbn [Cards.group]. rewrite H. reflexivity.
Qed.

(* ---- what the reader stores of a well-formed raw line *)
Lemma expand_cl : forall raw, SpecWire.string_forall SpecWire.ok_char (SpecWire.drop_last_cr raw) = true ->
  expandtabs TABSIZE (cl raw) = phys raw ++ lf.
Proof.
  intros raw Hok. destruct (ok_body _ Hok) as (_ & Hne & Hpr).
  unfold cl. destruct (raw_eol raw) as (e & He & Ee). rewrite Ee.
  rewrite clean_line_eol by auto. unfold lf. rewrite expandtabs_is_S1; [reflexivity|].
  rewrite no_eol_clean. exact Hne.
Qed.

Lemma W_line : forall w raw, SpecWire.line_ok w raw = true ->
  all_space (expandtabs TABSIZE (cl raw)) = all_blank (Cards.physical_line w raw) /\
  rstrip (takeS w (expandtabs TABSIZE (cl raw))) = rstrip_blanks (Cards.physical_line w raw).
Proof.
  intros w raw H. unfold SpecWire.line_ok in H. cbv zeta in H. apply andb_true_iff in H. destruct H as [Hok Hcl].
  rewrite uncut_phys in Hcl by auto.
  rewrite (A_all_blank (phys raw)), A_first_columns, (A_all_blank (takeS w (phys raw))) in Hcl.
  destruct (lc_raw w raw Hok) as [Hpl _]. rewrite (expand_cl raw Hok).
  assert (Cards.physical_line w raw = takeS w (phys raw)) as Ep.
  { unfold Cards.physical_line. fold (SpecWire.uncut_line raw). rewrite uncut_phys by auto. apply A_first_columns. }
  rewrite Ep. rewrite all_space_app. change (all_space lf) with true. rewrite andb_true_r, (all_space_plain _ Hpl).
  destruct (Nat.leb (String.length (phys raw)) w) eqn:El.
  - apply Nat.leb_le in El. rewrite (takeS_all _ _ El). split; [reflexivity|].
    destruct (cut_plain w (phys raw) Hpl El) as [_ Er]. exact Er.
  - apply Nat.leb_gt in El. cbn [orb] in Hcl. apply andb_true_iff in Hcl. destruct Hcl as [_ Hcl]. split.
    + destruct (all_blank (phys raw)) eqn:Eb.
      * symmetry. apply all_blank_takeS. exact Eb.
      * cbn [orb] in Hcl. apply negb_true_iff in Hcl. symmetry. exact Hcl.
    + unfold lf. rewrite takeS_app_ge by lia. apply rstrip_plain. apply all_plain_takeS. exact Hpl.
Qed.

(* the comment texts of the stored lines of the first three blocks, with their block type *)
Definition MW (w : nat) (ls : list string) (bc bt : nat) : list (nat * string) :=
  flat_map (fun bx => tag (fst bx) (stored_texts (snd bx))) (walk w ls bc bt).

Lemma cm_sim : forall w raws k nb cur pend amp cmt,
  k + nb = 2 ->
  SpecWire.wf_data w nb (SpecWire.is_some cur) cmt raws = true ->
  (cur = None -> cmt = false -> pend = []) ->
  (closing_comments nb cur pend ++ match cur with None => tag nb pend | Some _ => [] end
   ++ MW w (map cl raws) nb nb)%list
  = CS (S k) nb cur pend amp (map Cards.classify (map (Cards.physical_line w) raws)).
Proof.
  induction raws as [|l r IH]; intros k nb cur pend amp cmt Hk Hwf Hp.
  - cbn [map]. rewrite CS_nil. unfold MW. cbn [walk flat_map]. rewrite app_nil_r.
    cbn [SpecWire.wf_data] in Hwf. destruct cur as [c|]; [rewrite app_nil_r; reflexivity|].
    cbn in Hwf. destruct cmt; [discriminate|]. rewrite (Hp eq_refl eq_refl). reflexivity.
  - cbn [SpecWire.wf_data] in Hwf. apply andb_true_iff in Hwf. destruct Hwf as [Hok Hwf].
    destruct (W_line w l Hok) as [Eb Es]. cbv zeta in Hwf. cbn [map]. unfold MW. cbn [walk]. cbv zeta.
    rewrite Eb, Es. fold (MW w (map cl r)).
    set (z := Cards.physical_line w l) in *.
    pose proof (C_classify z) as HC.
    assert (stored_texts (rstrip_blanks z) = line_texts (Cards.classify z)) as Et by apply stored_texts_rstrip.
    destruct (Cards.classify z) as [|t|st ws am dc] eqn:Ecl.
    + (* blank *)
      rewrite HC. apply andb_true_iff in Hwf. destruct Hwf as [Hcl Hwf]. rewrite CS_blank.
      assert ((closing_comments nb cur pend ++ match cur with None => tag nb pend | Some _ => [] end)%list
              = closing_comments nb cur pend) as E0.
      { destruct cur as [c|]; [apply app_nil_r|]. cbn in Hcl. destruct cmt; [discriminate|].
        rewrite (Hp eq_refl eq_refl). reflexivity. }
      rewrite app_assoc, E0. f_equal.
      destruct k as [|k'].
      * assert (nb = 2) by lia. subst nb. reflexivity.
      * assert (Nat.ltb (S nb) 3 = true) as Elt by (apply Nat.ltb_lt; lia).
        assert (Nat.leb 3 (S nb) = false) as Ele by (apply Nat.leb_gt; lia).
        rewrite Elt in Hwf. rewrite Elt, Ele.
        pose proof (IH k' (S nb) None [] false false ltac:(lia) Hwf (fun _ _ => eq_refl)) as P.
        cbn [closing_comments tag map app] in P. unfold MW in P. rewrite P. unfold CS. rewrite blocks_bf. reflexivity.
    + (* comment line *)
      destruct HC as [Hb Hc]. rewrite Hb. cbn [flat_map fst snd]. rewrite Et. cbn [line_texts].
      rewrite CS_comment. rewrite <- (IH k nb cur (pend ++ [t])%list amp true Hk Hwf); [|intros; discriminate].
      fold (MW w (map cl r) nb nb).
      destruct cur as [c|]; cbn [closing_comments app]; rewrite ?app_assoc, ?tag_app, ?app_nil_r;
        rewrite <- ?app_assoc; reflexivity.
    + (* data line *)
      destruct HC as (Hb & _). rewrite Hb. cbn [flat_map fst snd]. rewrite Et. cbn [line_texts].
      fold (MW w (map cl r) nb nb).
      apply andb_true_iff in Hwf. destruct Hwf as [_ Hwf].
      apply andb_true_iff in Hwf. destruct Hwf as [_ Hwf].
      apply andb_true_iff in Hwf. destruct Hwf as [_ Hwf].
      apply andb_true_iff in Hwf. destruct Hwf as [_ Hwf].
      assert (tag nb match dc with Some t => [t] | None => [] end = tag nb (Cards.opt_list dc)) as Ed
        by (destruct dc; reflexivity).
      destruct cur as [c|].
      * destruct (andb st (negb amp)) eqn:En.
        { rewrite (CS_data_new k nb c pend amp st ws am dc _ En).
          rewrite <- (IH k nb (Some (fresh pend ws dc)) [] am cmt Hk Hwf); [|intros; discriminate].
          cbn [closing_comments fresh Cards.card_comments app]. rewrite Ed, !tag_app, !app_nil_r, <- !app_assoc.
          reflexivity. }
        { rewrite (CS_data_cont k nb c pend amp st ws am dc _ En).
          rewrite <- (IH k nb (Some (extend c pend ws dc)) [] am cmt Hk Hwf); [|intros; discriminate].
          cbn [closing_comments extend Cards.card_comments app]. rewrite Ed, !tag_app, !app_nil_r, <- !app_assoc.
          reflexivity. }
      * rewrite CS_data_none.
        rewrite <- (IH k nb (Some (fresh pend ws dc)) [] am cmt Hk Hwf); [|intros; discriminate].
        cbn [closing_comments fresh Cards.card_comments app]. rewrite Ed, !tag_app, !app_nil_r, <- !app_assoc.
        reflexivity.
Qed.

(* ---- whole files *)
Definition mp_comments (ins : list input) : list (nat * string) :=
  flat_map (fun i => tag (i_bt i) (flat_map stored_texts (i_lines i))) ins.

(* the inputs MontePy's reader yields for a file (list of raw lines) *)
Definition read_inputs (w : nat) (f : list string) : list input :=
  fst (read_data_from w 0 (f_rest (read_front_matters (map clean_line f)))).

Lemma flat_tag : forall b ls,
  flat_map (fun bx : nat * string => tag (fst bx) (stored_texts (snd bx))) (tag b ls) = tag b (flat_map stored_texts ls).
Proof.
  induction ls; [reflexivity|]. unfold tag in *. cbn [map flat_map fst snd]. rewrite IHls, map_app. reflexivity.
Qed.

Lemma mp_comments_tagged : forall ins,
  mp_comments ins = flat_map (fun bx => tag (fst bx) (stored_texts (snd bx))) (tagged_lines ins).
Proof.
  induction ins; [reflexivity|]. unfold mp_comments, tagged_lines in *. cbn [flat_map].
  rewrite flat_map_app, flat_tag, IHins. reflexivity.
Qed.

Fixpoint raw_after_blank (w : nat) (raws : list string) : list string :=
  match raws with
  | [] => []
  | l :: r => if Cards.all_blank (Cards.physical_line w l) then r else raw_after_blank w r
  end.

Definition raw_after_front (w : nat) (raws : list string) : list string :=
  match raws with
  | l :: _ => if Cards.starts_message (Cards.physical_line w l) then raw_after_blank w raws else raws
  | [] => []
  end.

Lemma R1 : forall w r,
  snd (Cards.until_blank (map (Cards.physical_line w) r)) = map (Cards.physical_line w) (raw_after_blank w r).
Proof.
  induction r; [reflexivity|]. cbn [map Cards.until_blank raw_after_blank].
  destruct (Cards.all_blank (Cards.physical_line w a)); [reflexivity|].
  destruct (Cards.until_blank (map (Cards.physical_line w) r)). exact IHr.
Qed.

Lemma R2 : forall w r acc, SpecWire.wf_message w r = true ->
  f_rest (message_loop (map cl r) acc) = map cl (tl (raw_after_blank w r)) /\
  SpecWire.wf_title w (raw_after_blank w r) = true.
Proof.
  induction r as [|l r IH]; intros acc H; [split; reflexivity|].
  cbn [SpecWire.wf_message] in H. apply andb_true_iff in H. destruct H as [Hl H].
  destruct (B_front_line w l Hl) as (Hpl & Hlen & Ep & Ec). cbv zeta in *.
  cbn [map message_loop raw_after_blank]. unfold cl at 1. rewrite Ec.
  rewrite all_space_app. change (all_space lf) with true. rewrite andb_true_r, (all_space_plain _ Hpl).
  rewrite Ep in *. rewrite (A_all_blank (smap clean_byte (SpecWire.drop_last_cr l))) in *.
  destruct (all_blank (smap clean_byte (SpecWire.drop_last_cr l))).
  - split; [|exact H]. destruct r; reflexivity.
  - apply IH. exact H.
Qed.

Lemma R5 : forall ls,
  Cards.cards (Cards.read_physical ls) = Cards.blocks 3 (map Cards.classify (tl (after_front ls))).
Proof.
  intros ls. unfold Cards.read_physical, after_front. destruct ls as [|l r]; [reflexivity|].
  destruct (Cards.starts_message l).
  - destruct (Cards.until_blank (l :: r)) as [m t]. cbn [snd]. destruct t; reflexivity.
  - reflexivity.
Qed.

Lemma R4 : forall w raws, SpecWire.wf_lines w raws = true ->
  f_rest (read_front_matters (map cl raws)) = map cl (tl (raw_after_front w raws)) /\
  SpecWire.wf_data w 0 false false (tl (raw_after_front w raws)) = true /\
  after_front (map (Cards.physical_line w) raws) = map (Cards.physical_line w) (raw_after_front w raws).
Proof.
  intros w raws H. destruct raws as [|l0 r]; [discriminate|].
  cbn [SpecWire.wf_lines] in H. cbn [map after_front read_front_matters raw_after_front].
  assert (SpecWire.front_line_ok w l0 = true) as Hl0.
  { destruct (Cards.starts_message (Cards.physical_line w l0)).
    - cbn [SpecWire.wf_message] in H. apply andb_true_iff in H. tauto.
    - cbn [SpecWire.wf_title] in H. apply andb_true_iff in H. tauto. }
  destruct (B_front_line w l0 Hl0) as (Hpl & Hlen & Ep & Ec). cbv zeta in *.
  change (clean_line (add_lf l0)) with (cl l0) in Ec.
  rewrite Ec, E_msg_prefix. rewrite <- Ep.
  destruct (Cards.starts_message (Cards.physical_line w l0)) eqn:Em.
  - pose proof Em as Eb. rewrite Ep in Eb. apply starts_message_not_blank in Eb.
    pose proof H as H'. cbn [SpecWire.wf_message] in H'. apply andb_true_iff in H'. destruct H' as [_ H'].
    rewrite Ep, (A_all_blank (smap clean_byte (SpecWire.drop_last_cr l0))), Eb in H'.
    destruct (R2 w r [rstrip (dropS 9 (smap clean_byte (SpecWire.drop_last_cr l0) ++ lf))] H') as [F1 F2].
    cbn [raw_after_blank]. rewrite Ep, (A_all_blank (smap clean_byte (SpecWire.drop_last_cr l0))), Eb.
    split; [exact F1|]. split.
    + destruct (raw_after_blank w r); [reflexivity|]. cbn [SpecWire.wf_title] in F2.
      apply andb_true_iff in F2. cbn [tl]. tauto.
    + rewrite <- Ep. change (Cards.physical_line w l0 :: map (Cards.physical_line w) r)
        with (map (Cards.physical_line w) (l0 :: r)).
      rewrite R1. cbn [raw_after_blank]. rewrite Ep, (A_all_blank (smap clean_byte (SpecWire.drop_last_cr l0))), Eb.
      reflexivity.
  - cbn [f_rest tl]. split; [reflexivity|]. split; [|reflexivity].
    cbn [SpecWire.wf_title] in H. apply andb_true_iff in H. tauto.
Qed.

Theorem comments_agree : forall w bytes, SpecWire.wf_file w bytes = true ->
  mp_comments (read_inputs w (split_lines bytes)) = spec_comments (Cards.read w bytes).
Proof.
  intros w bytes H. pose proof (split_agrees w bytes H) as SA.
  unfold SpecWire.wf_file in H. apply andb_true_iff in H. destruct H as [Hlf H].
  rewrite (B_split_lines bytes Hlf) in *. unfold Cards.read, Cards.physical_lines, spec_comments in *.
  set (raws := Cards.lines_of bytes) in *.
  destruct (R4 w raws H) as (F1 & F2 & F3).
  unfold read_inputs. unfold read_lines in SA. rewrite map_map in *.
  change (fun x => clean_line (add_lf x)) with cl in *. rewrite F1 in *.
  set (body := tl (raw_after_front w raws)) in *.
  destruct (read_data_from w 0 (map cl body)) as [ins e] eqn:E. cbn [fst].
  assert (e = None) as He by (unfold montepy_view in SA; congruence). subst e.
  unfold read_data_from in E. pose proof (H_lines_conserved _ _ _ _ _ _ _ _ _ E) as T. cbn [tag map app] in T.
  rewrite mp_comments_tagged, T.
  pose proof (cm_sim w body 2 0 None [] false false eq_refl F2 (fun _ _ => eq_refl)) as P.
  cbn [closing_comments tag map app] in P. unfold MW in P. rewrite P.
  unfold CS. rewrite <- blocks_bf, R5, F3. unfold body. destruct (raw_after_front w raws); reflexivity.
Qed.

Lemma ex_comments :
  mp_comments (read_inputs 80 (split_lines ex_file_lf))
  = [(0, "cells"); (0, "inner"); (0, "in between"); (1, "sphere &"); (1, "")] /\
  map (fun i => (i_bt i, i_lines i)) (read_inputs 80 (split_lines ex_file_lf))
  = [(0, ["c cells"; "1 0     -1 $ inner"; "     imp:n=1 &"; "  C in between"; "vol=2"]);
     (0, ["  2 0 1"; "      c 5"]);
     (1, ["1 so 1 $ sphere &"; "c"]);
     (2, ["mode n"])].
Proof. split; vm_compute; reflexivity. Qed.
