(* ExnProofs.v — lemmas about the exception-routing model (Model/Exn.v).
   Everything here is stated for ARBITRARY hierarchies, handler tables, chains, exceptions and event sequences
   (induction over the chain / the event list); Properties/C13.v instantiates the statements on the tables that
   harness/translate_errors.py regenerates from the source (Gen/Errors.v) after deciding the reflective side
   conditions by vm_compute. *)
From Coq Require Import List String Ascii Bool Arith Lia.
From MPV Require Import Model.Wire Model.Exn.
Import ListNotations.
Open Scope string_scope.
Open Scope list_scope.

(* ---------------------------------------------------------------- small list facts *)
Lemma forallb_flat_map : forall (A B : Type) (p : B -> bool) (f : A -> list B) (l : list A),
  forallb p (flat_map f l) = forallb (fun a => forallb p (f a)) l.
Proof.
  intros A B p f l. induction l as [|a l IH]; cbn; [reflexivity|].
  rewrite forallb_app, IH. reflexivity.
Qed.

Lemma first_clause_In : forall H c cls_ cl, first_clause H c cls_ = Some cl -> In cl cls_.
Proof.
  intros H c cls_. induction cls_ as [|x r IH]; cbn; intros cl E; [discriminate|].
  destruct (catches H c x).
  - inversion E; subst. left; reflexivity.
  - right. apply IH; exact E.
Qed.

Lemma first_clause_catches : forall H c cls_ cl, first_clause H c cls_ = Some cl -> catches H c cl = true.
Proof.
  intros H c cls_. induction cls_ as [|x r IH]; cbn; intros cl E; [discriminate|].
  destruct (catches H c x) eqn:K.
  - inversion E; subst. exact K.
  - apply IH; exact E.
Qed.

Lemma chain_ok_app : forall H hs a b, chain_ok H hs (a ++ b) = chain_ok H hs a && chain_ok H hs b.
Proof. intros. unfold chain_ok. apply forallb_app. Qed.

Lemma find_site_In : forall ss n s, find_site ss n = Some s -> In s ss.
Proof.
  induction ss as [|x r IH]; cbn; intros n s E; [discriminate|].
  destruct (String.eqb (s_name x) n).
  - inversion E; subst. left; reflexivity.
  - right. eapply IH; exact E.
Qed.

(* ---------------------------------------------------------------- routing keeps controlled exceptions controlled *)
(* C13_routing, general form: along ANY chain of try statements whose Convert targets are controlled classes,
   a controlled exception can only leave as a controlled exception (or be swallowed / reported), in either mode *)
Lemma route_controlled : forall H hs check chain e,
  chain_ok H hs chain = true ->
  controlled_exn H e = true ->
  all_controlled H (route H hs check chain e) = true.
Proof.
  intros H hs check chain. induction chain as [|f rest IH]; intros e OK CE.
  - cbn. rewrite CE. reflexivity.
  - cbn [chain_ok forallb] in OK. apply andb_true_iff in OK. destruct OK as [OKf OKr].
    cbn [route]. destruct (first_clause H (e_cls e) (frame_clauses hs f)) as [cl|] eqn:FC.
    + unfold all_controlled. rewrite forallb_flat_map.
      apply forallb_forall. intros a Ha.
      assert (CL : clause_ok H cl = true).
      { rewrite forallb_forall in OKf. apply OKf. eapply first_clause_In; exact FC. }
      unfold clause_ok in CL. rewrite forallb_forall in CL. specialize (CL a Ha).
      destruct a as [|d| |].
      * reflexivity.
      * apply IH; [exact OKr|]. exact CL.
      * apply IH; assumption.
      * destruct check; [reflexivity|]. apply IH; assumption.
    + apply IH; assumption.
Qed.

(* in normal mode nothing is ever turned into a warning *)
Lemma route_normal_no_warning : forall H hs chain e o,
  In o (route H hs false chain e) -> match o with Warned _ _ => False | _ => True end.
Proof.
  intros H hs chain. induction chain as [|f rest IH]; intros e o Ho.
  - cbn in Ho. destruct Ho as [<-|[]]. exact I.
  - cbn [route] in Ho. destruct (first_clause H (e_cls e) (frame_clauses hs f)) as [cl|].
    + apply in_flat_map in Ho. destruct Ho as [a [_ Ha]].
      destruct a as [|d| |].
      * destruct Ha as [<-|[]]. exact I.
      * eapply IH; exact Ha.
      * eapply IH; exact Ha.
      * eapply IH; exact Ha.
    + eapply IH; exact Ho.
Qed.

(* an exception no frame of the chain catches leaves unchanged *)
Lemma route_uncaught : forall H hs check chain e,
  forallb (fun f => match first_clause H (e_cls e) (frame_clauses hs f) with None => true | Some _ => false end) chain = true ->
  route H hs check chain e = [Raised e].
Proof.
  intros H hs check chain e. induction chain as [|f rest IH]; cbn; intros K; [reflexivity|].
  destruct (first_clause H (e_cls e) (frame_clauses hs f)); [discriminate|].
  apply IH. exact K.
Qed.

(* ---------------------------------------------------------------- check mode *)
(* C13_check_mode, general form: a class whose first handling clause (after clauses that only re-raise or convert it)
   is a warn-or-reraise clause is reported as exactly one warning in check mode, whatever its origin *)
Lemma warned_by_sound : forall H hs chain c org d b,
  warned_by H hs chain c = Some (d, b) ->
  route H hs true chain (mkexn c org) = [Warned d b].
Proof.
  intros H hs chain. induction chain as [|f rest IH]; cbn; intros c org d b W; [discriminate|].
  destruct (first_clause H c (frame_clauses hs f)) as [cl|] eqn:FC.
  - destruct (c_actions cl) as [|a l] eqn:AC; [discriminate|].
    destruct a as [|x| |]; try discriminate; destruct l; try discriminate.
    + cbn. rewrite app_nil_r. apply IH; exact W.
    + cbn. rewrite app_nil_r. apply IH; exact W.
    + inversion W; subst. cbn. reflexivity.
  - apply IH; exact W.
Qed.

Lemma pick_single : forall o k, pick_outcome [o] k = o.
Proof. intros o k. unfold pick_outcome. destruct k as [|[|k]]; reflexivity. Qed.

Lemma event_quiet_inv : forall H hs ev e,
  event_quiet H hs ev = true -> ev_exn ev = Some e ->
  exists c, route H hs true (ev_chain ev) e = [Warned c false].
Proof.
  intros H hs ev e Q E. unfold event_quiet in Q. rewrite E in Q.
  destruct (route H hs true (ev_chain ev) e) as [|o l]; [discriminate|].
  destruct o as [x|c b|]; try discriminate.
  destruct b; try discriminate. destruct l; [|discriminate].
  exists c. reflexivity.
Qed.

(* the pointer-update phase with only quiet events returns, with one warning per raising event, in order *)
Lemma run_ptr_quiet : forall H hs pick evs ws,
  forallb (event_quiet H hs) evs = true ->
  run_ptr H hs true pick evs ws = Returned (rev ws ++ flat_map (event_warning H hs) evs).
Proof.
  intros H hs pick evs. induction evs as [|ev r IH]; intros ws Q.
  - cbn. rewrite app_nil_r. reflexivity.
  - cbn [forallb] in Q. apply andb_true_iff in Q. destruct Q as [Qe Qr].
    cbn [run_ptr flat_map]. unfold event_warning at 1.
    destruct (ev_exn ev) as [e|] eqn:Ee.
    + destruct (event_quiet_inv H hs ev e Qe Ee) as [c R]. rewrite R.
      rewrite pick_single. rewrite IH by exact Qr. cbn [rev app].
      rewrite <- app_assoc. reflexivity.
    + cbn [app]. apply IH; exact Qr.
Qed.

(* C13_check_mode, loop form: when every raising event of the per-input loop and of the pointer update is one the
   handlers report as a warning, parse_input(check_input=True) RETURNS, the loop having continued over every input:
   one warning per raising event, in order — for event lists of any length and any choice among handler exits *)
Lemma run_loop_quiet : forall H hs pick loop ptr ws,
  forallb (event_quiet H hs) loop = true ->
  forallb (event_quiet H hs) ptr = true ->
  run_loop H hs true pick loop ptr ws =
    Returned (rev ws ++ flat_map (event_warning H hs) loop ++ flat_map (event_warning H hs) ptr).
Proof.
  intros H hs pick loop ptr. induction loop as [|ev r IH]; intros ws Ql Qp.
  - cbn [run_loop flat_map app]. apply run_ptr_quiet; exact Qp.
  - cbn [forallb] in Ql. apply andb_true_iff in Ql. destruct Ql as [Qe Qr].
    cbn [run_loop flat_map]. unfold event_warning at 1.
    destruct (ev_exn ev) as [e|] eqn:Ee.
    + destruct (event_quiet_inv H hs ev e Qe Ee) as [c R]. rewrite R.
      rewrite pick_single. rewrite IH by assumption. cbn [rev app].
      rewrite <- !app_assoc. reflexivity.
    + cbn [app]. apply IH; assumption.
Qed.

Theorem check_mode_returns : forall H hs pick loop ptr,
  forallb (event_quiet H hs) loop = true ->
  forallb (event_quiet H hs) ptr = true ->
  run_problem H hs true pick loop ptr =
    Returned (flat_map (event_warning H hs) loop ++ flat_map (event_warning H hs) ptr).
Proof. intros. unfold run_problem. rewrite run_loop_quiet by assumption. reflexivity. Qed.

(* a warning raised by a handler OUTSIDE the loop (UnsupportedFeature) ends the loop: the remaining inputs are not
   looked at, the pointer update still runs, the call returns *)
Theorem check_mode_loop_ending_warning : forall H hs pick pre ev c rest ptr e,
  forallb (event_quiet H hs) pre = true ->
  ev_exn ev = Some e ->
  route H hs true (ev_chain ev) e = [Warned c true] ->
  forallb (event_quiet H hs) ptr = true ->
  run_problem H hs true pick (pre ++ ev :: rest) ptr =
    Returned (flat_map (event_warning H hs) pre ++ [c] ++ flat_map (event_warning H hs) ptr).
Proof.
  intros H hs pick pre ev c rest ptr e Qpre Ee R Qp. unfold run_problem.
  assert (G : forall ws, run_loop H hs true pick (pre ++ ev :: rest) ptr ws =
                         Returned (rev ws ++ flat_map (event_warning H hs) pre ++ [c] ++ flat_map (event_warning H hs) ptr)).
  { induction pre as [|p r IH]; intros ws.
    - cbn [app run_loop flat_map]. rewrite Ee, R, pick_single.
      rewrite run_ptr_quiet by exact Qp. cbn [rev]. rewrite <- app_assoc. reflexivity.
    - cbn [forallb] in Qpre. apply andb_true_iff in Qpre. destruct Qpre as [Qe Qr].
      cbn [app run_loop flat_map]. unfold event_warning at 1.
      destruct (ev_exn p) as [e0|] eqn:Ep.
      + destruct (event_quiet_inv H hs p e0 Qe Ep) as [c0 R0]. rewrite R0.
        rewrite pick_single. rewrite (IH Qr). cbn [rev app]. rewrite <- !app_assoc. reflexivity.
      + cbn [app]. apply IH; exact Qr. }
  rewrite G. reflexivity.
Qed.

(* ---------------------------------------------------------------- parse_input as a whole, normal mode *)
Definition event_ok (H : hierarchy) (hs : list handler) (ev : event) : bool :=
  chain_ok H hs (ev_chain ev)
  && match ev_exn ev with None => true | Some e => controlled_exn H e end.

Lemma pick_in : forall (os : list outcome) k, os <> [] -> In (pick_outcome os k) os.
Proof.
  intros os k NE. unfold pick_outcome. destruct os as [|o r]; [congruence|].
  destruct (Nat.lt_ge_cases k (List.length (o :: r))) as [L|G].
  - apply nth_In; exact L.
  - rewrite nth_overflow by exact G. left; reflexivity.
Qed.

Lemma route_nonempty_or_clause_empty : forall H hs check chain e,
  forallb (fun f => forallb (fun cl => negb (match c_actions cl with [] => true | _ => false end)) (frame_clauses hs f)) chain = true ->
  route H hs check chain e <> [].
Proof.
  intros H hs check chain. induction chain as [|f rest IH]; intros e K; cbn [route]; [discriminate|].
  cbn [forallb] in K. apply andb_true_iff in K. destruct K as [Kf Kr].
  destruct (first_clause H (e_cls e) (frame_clauses hs f)) as [cl|] eqn:FC; [|apply IH; exact Kr].
  assert (NE : negb (match c_actions cl with [] => true | _ => false end) = true).
  { rewrite forallb_forall in Kf. apply Kf. eapply first_clause_In; exact FC. }
  destruct (c_actions cl) as [|a l]; [discriminate|]. cbn [flat_map].
  destruct a as [|d| |].
  - discriminate.
  - intro E. apply app_eq_nil in E. destruct E as [E _]. revert E. apply IH; exact Kr.
  - intro E. apply app_eq_nil in E. destruct E as [E _]. revert E. apply IH; exact Kr.
  - destruct check; [discriminate|].
    intro E. apply app_eq_nil in E. destruct E as [E _]. revert E. apply IH; exact Kr.
Qed.

Lemma picked_controlled : forall H hs check chain e k,
  chain_ok H hs chain = true -> controlled_exn H e = true ->
  controlled H (pick_outcome (route H hs check chain e) k) = true.
Proof.
  intros H hs check chain e k OK CE.
  pose proof (route_controlled H hs check chain e OK CE) as A.
  unfold all_controlled in A. rewrite forallb_forall in A.
  destruct (route H hs check chain e) as [|o r] eqn:R.
  - unfold pick_outcome. destruct k; reflexivity.
  - apply A. apply pick_in. discriminate.
Qed.

Lemma run_ptr_fails_controlled : forall H hs check pick evs ws e ws',
  forallb (event_ok H hs) evs = true ->
  run_ptr H hs check pick evs ws = Failed e ws' -> controlled_exn H e = true.
Proof.
  intros H hs check pick evs. induction evs as [|ev r IH]; intros ws e ws' OK R.
  - cbn in R. discriminate.
  - cbn [forallb] in OK. apply andb_true_iff in OK. destruct OK as [Oe Or].
    unfold event_ok in Oe. apply andb_true_iff in Oe. destruct Oe as [Oc Ox].
    cbn [run_ptr] in R. destruct (ev_exn ev) as [x|]; [|eapply IH; eassumption].
    pose proof (picked_controlled H hs check (ev_chain ev) x pick Oc Ox) as PC.
    destruct (pick_outcome (route H hs check (ev_chain ev) x) pick) as [e'|c b|].
    + inversion R; subst. exact PC.
    + eapply IH; eassumption.
    + eapply IH; eassumption.
Qed.

(* C13_routing, whole-call form: whatever the sequence of inputs and whichever of them raise controlled
   exceptions at sites whose chains only convert into controlled classes, parse_input either returns or fails with
   a controlled exception — event lists of any length, either mode, any choice among handler exits *)
Theorem parse_input_fails_controlled : forall H hs check pick loop ptr e ws,
  forallb (event_ok H hs) loop = true ->
  forallb (event_ok H hs) ptr = true ->
  run_problem H hs check pick loop ptr = Failed e ws -> controlled_exn H e = true.
Proof.
  intros H hs check pick loop ptr e ws Ol Op. unfold run_problem. generalize (@nil cls).
  induction loop as [|ev r IH]; intros ws0 R.
  - cbn [run_loop] in R. eapply run_ptr_fails_controlled; eassumption.
  - cbn [forallb] in Ol. apply andb_true_iff in Ol. destruct Ol as [Oe Or].
    unfold event_ok in Oe. apply andb_true_iff in Oe. destruct Oe as [Oc Ox].
    cbn [run_loop] in R. destruct (ev_exn ev) as [x|]; [|eapply IH; eassumption].
    pose proof (picked_controlled H hs check (ev_chain ev) x pick Oc Ox) as PC.
    destruct (pick_outcome (route H hs check (ev_chain ev) x) pick) as [e'|c b|].
    + inversion R; subst. exact PC.
    + destruct b.
      * eapply run_ptr_fails_controlled; eassumption.
      * eapply IH; eassumption.
    + eapply IH; eassumption.
Qed.

(* ---------------------------------------------------------------- the generated tables *)
Lemma site_chain_ok : forall T n, sites_chain_ok T = true ->
  chain_ok (t_hier T) (t_handlers T) (site_chain T n) = true.
Proof.
  intros T n OK. unfold site_chain. destruct (find_site (t_sites T) n) as [s|] eqn:F; [|reflexivity].
  unfold sites_chain_ok in OK. rewrite forallb_forall in OK. apply OK. eapply find_site_In; exact F.
Qed.

(* every deliberate raise of the table whose class is controlled stays controlled on its way out, both modes *)
Theorem raise_rows_routed : forall T check r,
  sites_chain_ok T = true -> rows_chain_ok T = true ->
  In r (t_raises T) ->
  controlled_exn (t_hier T) (mkexn (r_cls r) Deliberate) = true ->
  all_controlled (t_hier T) (route_at T check (r_site r) (r_local r) (mkexn (r_cls r) Deliberate)) = true.
Proof.
  intros T check r SO RO Hin CE. unfold route_at. apply route_controlled; [|exact CE].
  rewrite chain_ok_app. apply andb_true_iff. split.
  - unfold rows_chain_ok in RO. apply andb_true_iff in RO. destruct RO as [RR _].
    rewrite forallb_forall in RR. apply RR; exact Hin.
  - apply site_chain_ok; exact SO.
Qed.

(* the computed witness lists are exactly the rows whose routing is not controlled *)
Theorem raise_partition : forall T r, In r (t_raises T) ->
  In r (raise_leaks T) \/
  all_controlled (t_hier T) (route_at T false (r_site r) (r_local r) (mkexn (r_cls r) Deliberate)) = true.
Proof.
  intros T r Hin.
  destruct (all_controlled (t_hier T) (route_at T false (r_site r) (r_local r) (mkexn (r_cls r) Deliberate))) eqn:E.
  - right; reflexivity.
  - left. unfold raise_leaks. apply filter_In. split; [exact Hin|]. rewrite E. reflexivity.
Qed.

Theorem prim_partition : forall T p, In p (t_prims T) ->
  In p (prim_leaks T) \/
  (forall c, In c (prim_classes (p_kind p)) ->
     all_controlled (t_hier T) (route_at T false (p_site p) (p_local p) (mkexn c Primitive)) = true).
Proof.
  intros T p Hin. destruct (prim_leaks_row T p) eqn:E.
  - left. unfold prim_leaks. apply filter_In. split; assumption.
  - right. unfold prim_leaks_row in E. apply negb_false_iff in E. rewrite forallb_forall in E. exact E.
Qed.

Theorem check_partition : forall T r, In r (t_raises T) ->
  all_controlled (t_hier T) (route_at T false (r_site r) (r_local r) (mkexn (r_cls r) Deliberate)) = true ->
  In r (check_mode_leaks T) \/ check_quiet T (r_site r) (r_local r) (mkexn (r_cls r) Deliberate) = true.
Proof.
  intros T r Hin C. destruct (check_quiet T (r_site r) (r_local r) (mkexn (r_cls r) Deliberate)) eqn:E.
  - right; reflexivity.
  - left. unfold check_mode_leaks. apply filter_In. split; [exact Hin|]. rewrite C, E. reflexivity.
Qed.

(* ---------------------------------------------------------------- soundness of the witness finders *)
Lemma find_check_leak_sound : forall T sname c r,
  find_check_leak T sname c = Some r -> raises_in_check_mode T sname c.
Proof.
  intros T sname c r F. unfold find_check_leak in F. apply find_some in F. destruct F as [Hin E].
  apply andb_true_iff in E. destruct E as [E1 E2].
  apply String.eqb_eq in E1. apply String.eqb_eq in E2.
  unfold check_mode_leaks in Hin. apply filter_In in Hin. destruct Hin as [Hin K].
  apply andb_true_iff in K. destruct K as [K1 K2]. apply negb_true_iff in K2.
  exists r. split; [exact Hin|]. split; [exact E1|]. split; [exact E2|]. split; [exact K1|exact K2].
Qed.

Lemma prim_eqb_eq : forall a b, prim_eqb a b = true -> a = b.
Proof. destruct a, b; cbn; intros; try reflexivity; discriminate. Qed.

Lemma find_prim_leak_sound : forall T sname fn k c p,
  find_prim_leak T sname fn k c = Some p -> leaks_primitive T sname fn k c.
Proof.
  intros T sname fn k c p F. unfold find_prim_leak in F. apply find_some in F. destruct F as [Hin E].
  apply andb_true_iff in E. destruct E as [E E5].
  apply andb_true_iff in E. destruct E as [E E4].
  apply andb_true_iff in E. destruct E as [E E3].
  apply andb_true_iff in E. destruct E as [E1 E2].
  apply String.eqb_eq in E1. apply String.eqb_eq in E2. apply prim_eqb_eq in E3. apply negb_true_iff in E5.
  exists p. split; [exact Hin|]. split; [exact E1|]. split; [exact E2|]. split; [exact E3|]. split; [|exact E5].
  unfold mem in E4. apply existsb_exists in E4. destruct E4 as [x [Hx Ex]].
  apply String.eqb_eq in Ex. subst x. exact Hx.
Qed.

Lemma find_quiet_raise_sound : forall T sname c r,
  find_quiet_raise T sname c = Some r ->
  In r (t_raises T) /\ r_site r = sname /\ r_cls r = c /\
  all_controlled (t_hier T) (route_at T false (r_site r) (r_local r) (mkexn (r_cls r) Deliberate)) = true /\
  ~ In r (check_mode_leaks T).
Proof.
  intros T sname c r F. unfold find_quiet_raise in F. apply find_some in F. destruct F as [Hin E].
  apply andb_true_iff in E. destruct E as [E E4].
  apply andb_true_iff in E. destruct E as [E E3].
  apply andb_true_iff in E. destruct E as [E1 E2].
  apply String.eqb_eq in E1. apply String.eqb_eq in E2.
  split; [exact Hin|]. split; [exact E1|]. split; [exact E2|]. split; [exact E3|].
  intro K. unfold check_mode_leaks in K. apply filter_In in K. destruct K as [_ K].
  rewrite E3, E4 in K. discriminate.
Qed.

Lemma find_guarded_prim_sound : forall T sname k p,
  find_guarded_prim T sname k = Some p ->
  In p (t_prims T) /\ p_site p = sname /\ p_kind p = k /\ ~ In p (prim_leaks T).
Proof.
  intros T sname k p F. unfold find_guarded_prim in F. apply find_some in F. destruct F as [Hin E].
  apply andb_true_iff in E. destruct E as [E E3].
  apply andb_true_iff in E. destruct E as [E1 E2].
  apply String.eqb_eq in E1. apply prim_eqb_eq in E2. apply negb_true_iff in E3.
  split; [exact Hin|]. split; [exact E1|]. split; [exact E2|].
  intro K. unfold prim_leaks in K. apply filter_In in K. destruct K as [_ K]. rewrite E3 in K. discriminate.
Qed.

(* ---------------------------------------------------------------- MCNP_Object.__init__ *)
Inductive tree_state := TUnset | TNone | TSome.
Inductive init_result := IDone | IRaise (e : exn).

(* the statements of `if input:` executed in order; [parsed]: did parser.parse return a tree (it returns None after a
   syntax error).  Using the tree while it is None is a failure of the runtime (TypeError / AttributeError). *)
Fixpoint run_init (st : list init_step) (parsed : bool) (t : tree_state) : init_result :=
  match st with
  | [] => IDone
  | Guard _ :: r => run_init r parsed t
  | Other :: r => run_init r parsed t
  | ParseTry _ :: r => run_init r parsed (if parsed then TSome else TNone)
  | NoneCheck c :: r => match t with
                        | TNone => IRaise (mkexn c Deliberate)
                        | _ => run_init r parsed t
                        end
  | UseTree :: r => match t with
                    | TSome => run_init r parsed t
                    | _ => IRaise (mkexn "TypeError" Primitive)
                    end
  end.

Lemma init_after_parse_none : forall H st,
  init_after_parse H st = true ->
  exists c, run_init st false TNone = IRaise (mkexn c Deliberate) /\ existsb (subclass H c) documented = true.
Proof.
  intros H st. induction st as [|s r IH]; cbn; intros K; [discriminate|].
  destruct s as [g|id|c| |]; try discriminate.
  - apply IH; exact K.
  - apply andb_true_iff in K. destruct K as [K _]. exists c. split; [reflexivity|exact K].
  - apply IH; exact K.
Qed.

(* a parse that returns None ends in the deliberate, documented error of the None test — never in a use of the
   missing tree *)
Theorem init_none_tree_controlled : forall H st,
  init_ok H st = true ->
  exists c, run_init st false TUnset = IRaise (mkexn c Deliberate) /\ existsb (subclass H c) documented = true.
Proof.
  intros H st. induction st as [|s r IH]; cbn; intros K; [discriminate|].
  destruct s as [g|id|c| |]; try discriminate.
  - apply IH; exact K.
  - apply init_after_parse_none; exact K.
  - apply IH; exact K.
Qed.
